import Lungo.Model.Conc
open Lungo.Conc
def writeOnce : List (ActorId × Choice) :=
  [(1, .call (.useTx true none)), (1, .go), (1, .go), (1, .tok), (1, .go), (1, .go), (1, .go),
   (1, .cbWrite), (1, .go), (1, .go), (1, .storeOk), (1, .go), (1, .go), (1, .go), (1, .go)]
example : ((run (init 2) writeOnce).map fun s =>
    (s.eng.token, s.eng.txn, s.eng.mutex, s.eng.catalog, (s.loc 1).pc, (s.loc 1).res)) =
    some (1, none, none, [0], Pc.idle, Res.ok) := by rfl
example : ((run (init 2) writeOnce).map fun s =>
    (s.eng.token, s.eng.txn, s.eng.mutex, s.eng.catalog, (s.loc 1).pc, (s.loc 1).res)) =
    some ((1:Nat), (none : Option Nat), (none : Option Nat), ([0] : List Nat), Pc.idle, Res.ok) := by decide
