import Lungo.Model.Conc
open Lungo.Conc

def EHold (pc : Pc) : Prop :=
  pc = .bCheck ∨ pc = .bSessLock ∨ pc = .bSessRead ∨ pc = .bPost ∨ pc = .cCheck ∨ pc = .cStore ∨ pc = .aBody ∨ pc = .clKill ∨ pc = .kBody

def THold (l : Local) : Prop := ((l.pc = .bRelock ∨ l.pc = .bPost) ∧ l.okF = true) ∨ l.pc = .cStore

structure Inv1 (s : State) : Prop where
  mutex_iff : ∀ a, s.eng.mutex = some a ↔ EHold (s.loc a).pc
  holder_iff : ∀ a, s.eng.holder = some a ↔ THold (s.loc a)
  conserv : s.eng.token + (if s.eng.holder.isSome then 1 else 0) + (if s.eng.txn.isSome then 1 else 0) = 1
  noPanic : s.eng.relPanic = false

set_option maxHeartbeats 400000 in
theorem inv1_begin {s s' : State} {a : ActorId} {c : Choice} (h : Inv1 s)
    (hs : stepBegin s a (s.loc a) c = some s') : Inv1 s' := by
  obtain ⟨h1, h2, h3, h4⟩ := h
  have h1a := h1 a
  have h2a := h2 a
  unfold stepBegin at hs
  dsimp only at hs
  split at hs
  all_goals (try split at hs)
  all_goals (try split at hs)
  all_goals (try split at hs)
  all_goals (try split at hs)
  all_goals (try cases hs)
  all_goals (
    refine ⟨fun b => ?_, fun b => ?_, ?_, ?_⟩
    · have hb1 := h1 b
      simp only [State.put, State.putS, upd_apply, Eng.unlock, Eng.release, Local.back, EHold, THold] at *
      grind
    · have hb1 := h2 b
      simp only [State.put, State.putS, upd_apply, Eng.unlock, Eng.release, Local.back, EHold, THold] at *
      grind
    · simp only [State.put, State.putS, upd_apply, Eng.unlock, Eng.release, Local.back, EHold, THold] at *
      grind
    · simp only [State.put, State.putS, upd_apply, Eng.unlock, Eng.release, Local.back, EHold, THold] at *
      grind)
