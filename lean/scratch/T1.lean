import Lungo.Model.Conc
open Lungo.Conc

def dig (s : State) : String :=
  s!"alive={s.eng.alive} mutex={s.eng.mutex} token={s.eng.token} txn={s.eng.txn} cat={s.eng.catalog} holder={s.eng.holder} rp={s.eng.relPanic} pcs={(List.range (s.n+1)).map (fun a => repr (s.loc a).pc)} res={(List.range (s.n+1)).map (fun a => repr (s.loc a).res)}"

def sched1 : List (ActorId × Choice) :=
  [(1, .call (.useTx true none)), (1,.go),(1,.go),(1,.tok),(1,.go),(1,.go),(1,.go),(1,.cbWrite),(1,.go),(1,.go),(1,.storeOk),(1,.go),(1,.go),(1,.go),(1,.go)]
#eval (run (init 2) sched1).map dig

-- deadlock shared session 5
def dead : List (ActorId × Choice) :=
  [(2, .call (.useTx true (some 5))), (2,.go), (2,.go),   -- read nil
   (1, .call (.sessStart 5)), (1,.go),(1,.go),(1,.go),(1,.go),(1,.tok),(1,.go),(1,.go),(1,.go),(1,.go),(1,.go),
   (2,.go),(2,.go), -- bLock, bCheck -> bSessLock
   (1, .call (.sessAbort 5)), (1,.go),(1,.go),
   (0,.tick)]
#eval (run (init 2) dead).map dig
