import Lungo.Model.Value
import Lungo.Model.Num
import Lungo.Model.Compare
import Lungo.Model.Json
import Lungo.Model.GridFS
import Lungo.Spec.Reader
import Lungo.Spec.Chunks
import Lungo.Proofs.GridFSChunks
