-- This module serves as the root of the `Lungo` library.
-- Import modules here that should be built as part of the library.
import Lungo.Basic
