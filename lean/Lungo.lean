import Lungo.Model.Value
import Lungo.Model.Num
import Lungo.Model.Compare
import Lungo.Model.Json
import Lungo.Model.Access
import Lungo.Model.Arith
import Lungo.Model.Match
import Lungo.Model.Sort
import Lungo.Model.Apply
import Lungo.Model.Project
import Lungo.Model.Collection
import Lungo.Model.Txn
import Lungo.Model.Api
import Lungo.Model.Session
import Lungo.Model.Codec
import Lungo.Model.CatalogLite
import Lungo.Model.File
import Lungo.Spec.I64Ok
import Lungo.Spec.Query
import Lungo.Proofs.Order
import Lungo.Proofs.CompareLaws
import Lungo.Proofs.MatchLaws
import Lungo.Proofs.LeafLemma
import Lungo.Proofs.SpecAgree
import Lungo.Proofs.SpecAgreeRec
import Lungo.Proofs.MatchTotal
import Lungo.Proofs.Codec
import Lungo.Proofs.File
import Lungo.Props.C06
import Lungo.Props.C10
import Lungo.Props.C10Spec
import Lungo.Props.C12
import Lungo.Model.FS
import Lungo.Model.AtomicWrite
import Lungo.Model.CommitStore
import Lungo.Expected.AtomicWrite
import Lungo.Proofs.FS
import Lungo.Proofs.FSOps
import Lungo.Proofs.AtomicWrite
import Lungo.Proofs.AtomicWritePhases
import Lungo.Props.C05
import Lungo.Model.GridFS
import Lungo.Spec.Reader
import Lungo.Spec.Chunks
import Lungo.Proofs.GridFSChunks
import Lungo.Proofs.GridFSUpload
import Lungo.Proofs.GridFSLifecycle
import Lungo.Proofs.GridFSDownload
import Lungo.Props.C18
import Lungo.Proofs.ArithLaws
import Lungo.Proofs.AccessLaws
import Lungo.Proofs.ApplyLaws
import Lungo.Proofs.NoPanic
import Lungo.Props.C11
import Lungo.Proofs.SortLaws
import Lungo.Proofs.ProjectLaws
import Lungo.Proofs.ProjectPaths
import Lungo.Props.C13
import Lungo.Props.C14
import Lungo.Model.Conc
import Lungo.Model.StreamTS
import Lungo.Expected.Skeleton
import Lungo.Props.C04
import Lungo.Props.C09
import Lungo.Props.C16
import Lungo.Spec.IndexSpec
import Lungo.Tests.IndexFixtures
import Lungo.Proofs.IndexLaws
-- PENDING import Lungo.Proofs.IndexColl
-- PENDING import Lungo.Proofs.IndexReject
-- PENDING import Lungo.Proofs.IndexCat
-- PENDING import Lungo.Proofs.IndexMgmt
-- PENDING import Lungo.Props.C15
-- PENDING import Lungo.Props.C07
import Lungo.Spec.Replay
import Lungo.Proofs.BeqLaws
import Lungo.Proofs.OplogLaws
-- PENDING import Lungo.Proofs.OplogSteps
-- PENDING import Lungo.Proofs.ExpireLaws
-- PENDING import Lungo.Proofs.ReplayLaws
-- PENDING import Lungo.Proofs.UpdateDesc
-- PENDING import Lungo.Props.C08
-- PENDING import Lungo.Props.C19
import Lungo.Model.ApiFlow
import Lungo.Expected.ApiFlow
import Lungo.Props.C17
import Lungo.Proofs.FindLaws
import Lungo.Model.Own
import Lungo.Expected.TxnPrograms
import Lungo.Proofs.OwnHeap
import Lungo.Proofs.OwnSound
import Lungo.Proofs.OwnSoundStmt
import Lungo.Proofs.OwnRun
import Lungo.Proofs.OwnClosed
import Lungo.Proofs.OwnSys
import Lungo.Props.C02
import Lungo.Props.C03
