import Lungo.Model.Value
import Lungo.Model.Num
import Lungo.Model.Compare
import Lungo.Model.Json
import Lungo.Spec.I64Ok
import Lungo.Proofs.Order
import Lungo.Proofs.CompareLaws
import Lungo.Props.C12
