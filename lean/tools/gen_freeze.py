import os
subs=[("idle","stepIdle",True),("begin","stepBegin",False),("commit","stepCommit",False),("abort","stepAbort",False),("after","stepAfter",True),("use","stepUse",False),("sess","stepSess",False),("close","stepClose",False),("exp","stepExp",False)]
pcname={"idle":".idle","after":".after"}
out='''/-
  Lungo.Proofs.ConcFreeze — a committed transaction object is never written again (configuration:
  no session shared between actors), the missing piece of C04 `write_history`.
  Zown: the installed transaction has exactly one finisher (actor-local position, session or handle).
  Zpre: an actor between a successful Begin and its Commit/hand-over still has its transaction installed.
  Zfrz: committed tids are never installed / never a session's transaction, a callback on a session
        transaction runs on the session's current transaction, committed records equal the heap cells.
  (Per-sub-machine lemmas generated mechanically by tools/gen_freeze.py.)
-/
import Lungo.Proofs.ConcLog
import Lungo.Proofs.ConcUnshared
namespace Lungo.Conc

/-- between a successful locked Begin and the Commit call / hand-over to the session -/
def PreW (l : Local) : Prop :=
  (l.pc = .after ∧ l.res = .ok ∧ l.lockF = true ∧ (l.k = .use ∨ l.k = .start ∨ l.k = .expBegin ∨ l.k = .dBegin)) ∨
  l.pc = .uCb ∨ l.pc = .xExpire ∨ ((l.pc = .ssRelock ∨ l.pc = .ssFinal) ∧ l.res = .ok)

/-- actor-local positions from which the actor will finish (commit/abort/hand over) its `l.t` -/
def FinPos (l : Local) : Prop :=
  PreW l ∨ l.pc = .cLock ∨ l.pc = .cCheck ∨ l.pc = .cStore ∨ (l.pc = .after ∧ l.k = .useCommit) ∨
  ((l.pc = .aLock ∨ l.pc = .aBody) ∧ l.k ≠ .sessAbort)

def Zown (s : State) : Prop :=
  (∀ b t, s.eng.txn = some t → (s.loc b).t = some t → FinPos (s.loc b) → s.eng.own = .actor b) ∧
  (∀ sid t, s.eng.txn = some t → (s.sess sid).txn = some t → s.eng.own = .sess sid) ∧
  (∀ b t, s.eng.txn = some t → (s.loc b).handle = some t → s.eng.own = .actor b) ∧
  (∀ b, PreW (s.loc b) → s.eng.txn = (s.loc b).t ∧ (s.loc b).t.isSome = true) ∧
  (∀ b, ((s.loc b).k = .start ∨ (s.loc b).k = .expBegin) →
    ((s.loc b).pc = .bLock ∨ (s.loc b).pc = .bCheck ∨ (s.loc b).pc = .bSessLock ∨ (s.loc b).pc = .bSessRead ∨
      (s.loc b).pc = .bAcquire ∨ (s.loc b).pc = .bRelock ∨ (s.loc b).pc = .bPost ∨ (s.loc b).pc = .after) →
    (s.loc b).lockF = true) ∧
  (∀ b t, s.eng.txn = some t → FinPos (s.loc b) → (s.loc b).t = some t → (s.loc b).handle ≠ some t)

def Zfrz (s : State) : Prop :=
  (∀ r ∈ s.commitLog, r.tid < s.eng.nextTid ∧ s.eng.txn ≠ some r.tid) ∧
  (∀ sid t, (s.sess sid).txn = some t → ∀ r ∈ s.commitLog, r.tid ≠ t) ∧
  (∀ b, (s.loc b).pc = .uCbSess → (s.sess b).txn = (s.loc b).t) ∧
  (∀ r ∈ s.commitLog, (s.txns r.tid).ops = r.ops ∧ (s.txns r.tid).base = r.base) ∧
  (∀ b t, (s.loc b).pc = .cStore → (s.loc b).t = some t → ∀ sid, (s.sess sid).txn ≠ some t)

theorem zown_init (n : Nat) : Zown (init n) := by
  refine ⟨fun b => ?_, ?_, fun b => ?_, fun b => ?_, fun b => ?_, fun b => ?_⟩
  all_goals (simp only [init, PreW, FinPos]; try (by_cases hb : b = 0 <;> simp [hb]))
  all_goals simp
theorem zfrz_init (n : Nat) : Zfrz (init n) := by
  refine ⟨?_, ?_, fun b => ?_, ?_, fun b => ?_⟩
  all_goals (simp only [init]; try (by_cases hb : b = 0 <;> simp [hb]))
  all_goals simp

macro "z_simp" : tactic => `(tactic|
  simp only [State.put, State.putS, State.finish, State.write, upd_apply, Eng.unlock, Eng.release,
    Local.back, Local.invoke, newTxn, PreW, FinPos, List.mem_append, List.mem_singleton,
    if_true, if_false, ite_true, ite_false])
macro "z_simp_at" h:ident : tactic => `(tactic|
  simp only [State.put, State.putS, State.finish, State.write, upd_apply, Eng.unlock, Eng.release,
    Local.back, Local.invoke, newTxn, PreW, FinPos, List.mem_append, List.mem_singleton,
    if_true, if_false, ite_true, ite_false] at $h:ident ⊢)
'''
def thm(field, name, fn, haspc, hyps, goal, body):
    pc = f"(hpc : (s.loc a).pc = {pcname[name]}) " if haspc else ""
    return f'''
set_option maxHeartbeats 1000000 in
theorem {field}_{name} {{s s' : State}} {{a : ActorId}} {{c : Choice}} {hyps}
    {pc}(hs : {fn} s a (s.loc a) c = some s') : {goal} := by
{body}
'''
NEQ='''      · have hab : ¬ a = b := fun h => hba h.symm
        try simp only [State.put, State.putS, State.finish, State.write, upd_apply, if_neg hba, if_neg hab]'''
for name,fn,haspc in subs:
    body=f'''  obtain ⟨z1, z2, z3, z4, z5, z6⟩ := g
  obtain ⟨b1, b2, b3, b4⟩ := bnd
  have w := inv1.beginWf a
  have lwa := lw a
  have gBa := ov.2.1 a
  have z4a := z4 a
  have z5a := z5 a
  have b2a := b2 a
  have b3a := b3 a
  have i2a := inv1.holder_iff a
  have i3 := inv1.conserv
  clear inv1 lw ov
  simp only [BeginWf, LWf, PreW, FinPos, THold] at *
  unfold {fn} at hs
  conc_split hs
  all_goals (
    refine ⟨fun b t => ?_, fun sid t => ?_, fun b t => ?_, fun b => ?_, fun b => ?_, fun b t => ?_⟩
    · have hz1b := z1 b t; have := z1 a t; have := z2 (s.loc a).sid t; have := z3 a t; have := b2 b t
      have := z6 a t
      clear z1 z2 z3 z4 z5 z6 b2 b3 b4
      by_cases hba : b = a
      · subst hba; (try z_simp); grind
{NEQ}
        first
        | exact hz1b
        | ((try z_simp); grind (splits := 30))
    · have hz2 := z2 sid t; have := z2 (s.loc a).sid t; have := z1 a t; have := z3 a t; have := b4 sid t
      have := z6 a t
      clear z1 z2 z3 z4 z5 z6 b2 b3 b4
      first
      | exact hz2
      | ((try z_simp); grind)
    · have hz3b := z3 b t; have := z3 a t; have := z1 a t; have := z2 (s.loc a).sid t; have := b3 b t
      have := z6 a t
      clear z1 z2 z3 z4 z5 z6 b2 b3 b4
      by_cases hba : b = a
      · subst hba; (try z_simp); grind
{NEQ}
        first
        | exact hz3b
        | ((try z_simp); grind)
    · have hz4b := z4 b; have := b2 b
      by_cases hba : b = a
      · subst hba; clear z1 z2 z3 z4 z5 z6 b2 b3 b4; (try z_simp); grind
{NEQ}
        first
        | exact hz4b
        | (cases htx : s.eng.txn with
           | none => clear z1 z2 z3 z4 z5 z6 b2 b3 b4; (try z_simp); grind
           | some t0 =>
             have := z1 a t0; have := z1 b t0; have := z2 (s.loc a).sid t0
             clear z1 z2 z3 z4 z5 z6 b2 b3 b4; (try z_simp); grind)
    · have hz5b := z5 b
      clear z1 z2 z3 z4 z5 z6 b2 b3 b4
      by_cases hba : b = a
      · subst hba; (try z_simp); grind
{NEQ}
        first
        | exact hz5b
        | ((try z_simp); grind)
    · have hz6b := z6 b t; have := z6 a t; have := z1 a t; have := z2 (s.loc a).sid t; have := z3 a t
      have := b2 b t; have := b3 b t
      clear z1 z2 z3 z4 z5 z6 b2 b3 b4
      by_cases hba : b = a
      · subst hba; (try z_simp); grind
{NEQ}
        first
        | exact hz6b
        | ((try z_simp); grind))'''
    out+=thm("zown",name,fn,haspc,"(inv1 : Inv1 s) (lw : Lwf s) (bnd : Bnd s) (ov : Oinv s) (g : Zown s)","Zown s'",body)
for name,fn,haspc in subs:
    body=f'''  obtain ⟨z1, z2, z3, z4, z5, z6⟩ := zo
  obtain ⟨f1, f2, f3, f4, f5⟩ := g
  obtain ⟨b1, b2, b3, b4⟩ := bnd
  have i2 := inv1.holder_iff
  have i3 := inv1.conserv
  have ua := u a
  have z4a := z4 a
  have b2a := b2 a
  have f3a := f3 a
  have f5a := f5 a
  have i2a := i2 a
  clear z3 z5 z6 b3 b4 inv1
  simp only [PreW, FinPos, THold] at *
  unfold {fn} at hs
  conc_split hs
  all_goals (
    refine ⟨fun r hr => ?_, fun sid t hst r hr => ?_, fun b => ?_, fun r hr => ?_, fun b t => ?_⟩
    · first
      | exact f1 r hr
      | (have := f1 r
         clear f1 f2 f3 f4 f5 z1 z2 z4 b2 u i2
         (try z_simp_at hr); grind)
    · first
      | exact f2 sid t hst r hr
      | (have := f2 sid t; have := f2 (s.loc a).sid t; have := f1 r
         have := z1 a t; have := z2 sid t; have := f5a t
         clear f1 f2 f3 f4 f5 z1 z2 z4 b2 u i2
         (try z_simp_at hst)
         (try z_simp_at hr); grind)
    · have hf3b := f3 b; have ub := u b
      clear f1 f2 f3 f4 f5 z1 z2 z4 b2 u i2
      by_cases hba : b = a
      · subst hba; (try z_simp); grind
{NEQ}
        first
        | exact hf3b
        | ((try z_simp); grind)
    · first
      | exact f4 r hr
      | (have := f4 r; have := f1 r; have := fun t h => f2 a t h r
         clear f1 f2 f3 f4 f5 z1 z2 z4 b2 u i2
         (try z_simp_at hr); grind)
    · have hf5b := f5 b t; have := i2 b; have := z4 a; have := b2 b t
      have := fun sid => z2 sid t; have := z1 a t; have := z1 b t
      clear f1 f2 f3 f4 f5 z1 z2 z4 b2 u i2
      by_cases hba : b = a
      · subst hba; (try z_simp); grind
{NEQ}
        first
        | exact hf5b
        | ((try z_simp); grind))'''
    out+=thm("zfrz",name,fn,haspc,"(inv1 : Inv1 s) (u : Uinv s) (bnd : Bnd s) (zo : Zown s) (g : Zfrz s)","Zfrz s'",body)
out+="\nend Lungo.Conc\n"
open(os.path.join(os.path.dirname(os.path.abspath(__file__)),'..','Lungo','Proofs')+'/ConcFreeze.lean','w').write(out)
