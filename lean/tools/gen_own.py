subs=[("idle","stepIdle",True),("begin","stepBegin",False),("commit","stepCommit",False),("abort","stepAbort",False),("after","stepAfter",True),("use","stepUse",False),("sess","stepSess",False),("close","stepClose",False),("exp","stepExp",False)]
pcname={"idle":".idle","after":".after"}
head='''/-
  Lungo.Proofs.ConcOwn — well-formedness, session `starting` protocol and ownership invariants of
  the concurrency model: every write transaction installed in `e.txn` has a designated finisher
  (an in-flight actor or a session at rest) until it is unset — the basis of `quiescent_free`.
  (Per-sub-machine lemmas are generated mechanically; see the macro `goal_simp`.)
-/
import Lungo.Proofs.ConcFrame
namespace Lungo.Conc

/-- actor-local well-formedness of the registers read by guards -/
def LWf (l : Local) : Prop :=
  ((l.pc = .bSessLock ∨ l.pc = .bSessRead ∨ l.pc = .bAcquire ∨ l.pc = .bRelock ∨ l.pc = .bPost) →
    l.lockF = true) ∧
  ((l.pc = .bSessLock ∨ l.pc = .bSessRead ∨ l.pc = .uSessLock ∨ l.pc = .uSessRead) → l.ctxSess.isSome = true) ∧
  ((l.pc = .cStore ∨ l.pc = .uCb ∨ l.pc = .uCbSess ∨ l.pc = .uCbRead ∨ l.pc = .xExpire) → l.t.isSome = true) ∧
  (l.pc = .after → (l.k = .use ∨ l.k = .start ∨ l.k = .expBegin ∨ l.k = .dBegin) → l.res = .ok →
    l.t.isSome = true) ∧
  (l.k = .dBegin → (l.pc = .bLock ∨ l.pc = .bCheck ∨ l.pc = .bSessLock ∨ l.pc = .bSessRead ∨
    l.pc = .bAcquire ∨ l.pc = .bRelock ∨ l.pc = .bPost ∨ l.pc = .after) → l.handle = none)

/-- the actor is inside `startTransaction` of session `sid`, after having set `starting` -/
def StartFlow (l : Local) (sid : SessId) : Prop :=
  l.sid = sid ∧ (l.pc = .ssRelock ∨ l.pc = .ssFinal ∨
    (l.k = .start ∧ (l.pc = .bLock ∨ l.pc = .bCheck ∨ l.pc = .bSessLock ∨ l.pc = .bSessRead ∨
      l.pc = .bAcquire ∨ l.pc = .bRelock ∨ l.pc = .bPost ∨ l.pc = .after)))

/-- local states in which actor-local state designates the actor as finisher of `t` -/
def OwnsL (l : Local) (t : Tid) : Prop :=
  l.handle = some t ∨ (l.t = some t ∧ (
    (l.pc = .after ∧ l.res = .ok ∧ l.lockF = true ∧
      (l.k = .use ∨ l.k = .start ∨ l.k = .expBegin ∨ l.k = .dBegin)) ∨
    l.pc = .uCb ∨ l.pc = .xExpire ∨ ((l.pc = .ssRelock ∨ l.pc = .ssFinal) ∧ l.res = .ok) ∨
    l.pc = .cLock ∨ l.pc = .cCheck ∨ l.pc = .cStore ∨
    (l.pc = .after ∧ l.k = .useCommit) ∨
    ((l.pc = .aLock ∨ l.pc = .aBody) ∧ l.k ≠ .sessAbort)))

def Owned (s : State) (t : Tid) : Prop :=
  match s.eng.own with
  | .actor b => OwnsL (s.loc b) t
  | .sess sid => (s.sess sid).txn = some t

def Lwf (s : State) : Prop := ∀ a, LWf (s.loc a)
def Rng (s : State) : Prop := ∀ a, a > s.n → (s.loc a).pc = .idle
def Bnd (s : State) : Prop :=
  (∀ t, s.eng.txn = some t → t < s.eng.nextTid) ∧
  (∀ a t, (s.loc a).t = some t → t < s.eng.nextTid) ∧
  (∀ a t, (s.loc a).handle = some t → t < s.eng.nextTid) ∧
  (∀ sid t, (s.sess sid).txn = some t → t < s.eng.nextTid)
/-- the `starting` flag protocol of `startTransaction` -/
def Sinv (s : State) : Prop :=
  (∀ sid, (s.sess sid).starting = true → (s.sess sid).txn = none) ∧
  (∀ a sid, (s.sess sid).starter = some a ↔ StartFlow (s.loc a) sid) ∧
  (∀ sid, (s.sess sid).starter.isSome = (s.sess sid).starting)
/-- ownership of the installed write transaction -/
def Oinv (s : State) : Prop :=
  (s.eng.alive = true → ∀ t, s.eng.txn = some t → Owned s t) ∧
  (∀ a, (s.loc a).k = .sessAbort → ((s.loc a).pc = .aLock ∨ (s.loc a).pc = .aBody ∨ (s.loc a).pc = .after) →
    (s.sess (s.loc a).sid).txn = (s.loc a).t) ∧
  (∀ a, (s.loc a).k = .sessAbort → (s.loc a).pc = .after → s.eng.alive = true →
    ∀ t, (s.loc a).t = some t → s.eng.txn ≠ some t)

structure Inv2 (s : State) : Prop where
  lwf : Lwf s
  rng : Rng s
  bnd : Bnd s
  sinv : Sinv s
  oinv : Oinv s

macro "goal_simp" : tactic => `(tactic|
  simp only [State.put, State.putS, State.finish, State.write, upd_apply, Eng.unlock, Eng.release,
    Local.back, Local.invoke, EHold, THold, SHold, BeginWf, LWf, OwnsL, Owned, StartFlow, newTxn,
    if_true, if_false, ite_true, ite_false])

theorem inv2_init (n : Nat) : Inv2 (init n) := by
  refine ⟨fun b => ?_, fun b => ?_, ⟨?_, fun b => ?_, fun b => ?_, ?_⟩, ⟨?_, fun b sid => ?_, ?_⟩,
    ⟨?_, fun b => ?_, fun b => ?_⟩⟩
  all_goals (simp only [init, LWf, StartFlow]; try (by_cases hb : b = 0 <;> simp [hb]))
  all_goals simp
'''
def thm(field, name, fn, haspc, hyps, goal, body):
    pc = f"(hpc : (s.loc a).pc = {pcname[name]}) " if haspc else ""
    return f'''
set_option maxHeartbeats 1000000 in
theorem {field}_{name} {{s s' : State}} {{a : ActorId}} {{c : Choice}} {hyps}
    {pc}(hs : {fn} s a (s.loc a) c = some s') : {goal} := by
{body}
'''
out=head
# F1 Lwf
for name,fn,haspc in subs:
    body=f'''  intro b
  have g := g1 b
  have w := (inv1.beginWf) b
  clear g1 inv1
  simp only [LWf, BeginWf] at g w
  unfold {fn} at hs
  conc_split hs
  all_goals (goal_simp; grind)'''
    out+=thm("lwf",name,fn,haspc,"(inv1 : Inv1 s) (g1 : Lwf s)","Lwf s'",body)
# F2 Rng
for name,fn,haspc in subs:
    body=f'''  intro b hb
  have g := g1 b
  clear g1
  unfold {fn} at hs
  conc_split hs
  all_goals (goal_simp; simp only [State.put, State.putS, State.finish, State.write] at hb; grind)'''
    out+=thm("rng",name,fn,haspc,"(hle : a ≤ s.n) (g1 : Rng s)","Rng s'",body)
# F3 Bnd
for name,fn,haspc in subs:
    body=f'''  obtain ⟨b1, b2, b3, b4⟩ := g1
  have b2a := b2 a
  have b3a := b3 a
  have w := lw a
  clear lw
  simp only [LWf] at w
  unfold {fn} at hs
  conc_split hs
  all_goals (
    refine ⟨?_, fun b => ?_, fun b => ?_, ?_⟩
    · goal_simp; grind
    · have b2b := b2 b; goal_simp; grind
    · have b3b := b3 b; goal_simp; grind
    · goal_simp; grind)'''
    out+=thm("bnd",name,fn,haspc,"(lw : Lwf s) (g1 : Bnd s)","Bnd s'",body)
out+="\nend Lungo.Conc\n"
open('/root/wt/a4/lean/Lungo/Proofs/ConcOwn.lean','w').write(out)
