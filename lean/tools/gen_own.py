import os
subs=[("idle","stepIdle",True),("begin","stepBegin",False),("commit","stepCommit",False),("abort","stepAbort",False),("after","stepAfter",True),("use","stepUse",False),("sess","stepSess",False),("close","stepClose",False),("exp","stepExp",False)]
pcname={"idle":".idle","after":".after"}
head='''/-
  Lungo.Proofs.ConcOwn — Lwf / Rng / Bnd preservation lemmas per sub-machine (generated mechanically).
-/
import Lungo.Proofs.ConcOwnDefs
namespace Lungo.Conc
'''
def thm(field, name, fn, haspc, hyps, goal, body):
    pc = f"(hpc : (s.loc a).pc = {pcname[name]}) " if haspc else ""
    return f'''
set_option maxHeartbeats 1000000 in
theorem {field}_{name} {{s s' : State}} {{a : ActorId}} {{c : Choice}} {hyps}
    {pc}(hs : {fn} s a (s.loc a) c = some s') : {goal} := by
{body}
'''
out=head
# F1 Lwf
for name,fn,haspc in subs:
    body=f'''  intro b
  have g := g1 b
  have w := (inv1.beginWf) b
  clear g1 inv1
  simp only [LWf, BeginWf] at g w
  unfold {fn} at hs
  conc_split hs
  all_goals (
    by_cases hba : b = a
    · subst hba; (try goal_simp); grind
    · (try simp only [State.put, State.putS, State.finish, State.write, upd_apply, if_neg hba])
      first
      | exact g
      | ((try goal_simp); grind))'''
    out+=thm("lwf",name,fn,haspc,"(inv1 : Inv1 s) (g1 : Lwf s)","Lwf s'",body)
# F2 Rng
for name,fn,haspc in subs:
    body=f'''  intro b hb
  have g := g1 b
  clear g1
  unfold {fn} at hs
  conc_split hs
  all_goals (
    by_cases hba : b = a
    · subst hba
      simp only [State.put, State.putS, State.finish, State.write] at hb
      exact absurd hle (Nat.not_le_of_gt hb)
    · (try simp only [State.put, State.putS, State.finish, State.write, upd_apply, if_neg hba])
      first
      | exact g hb
      | (goal_simp; simp only [State.put, State.putS, State.finish, State.write] at hb; grind))'''
    out+=thm("rng",name,fn,haspc,"(hle : a ≤ s.n) (g1 : Rng s)","Rng s'",body)
# F3 Bnd
for name,fn,haspc in subs:
    body=f'''  obtain ⟨b1, b2, b3, b4⟩ := g1
  have b2a := b2 a
  have b3a := b3 a
  have w := lw a
  clear lw
  simp only [LWf] at w
  unfold {fn} at hs
  conc_split hs
  all_goals (
    refine ⟨?_, fun b => ?_, fun b => ?_, ?_⟩
    · first
      | exact b1
      | (clear b2 b3; goal_simp; grind)
    · have b2b := b2 b
      by_cases hba : b = a
      · subst hba; clear b2 b3; (try goal_simp); grind
      · (try simp only [State.put, State.putS, State.finish, State.write, upd_apply, if_neg hba])
        first
        | exact b2b
        | (clear b2 b3; (try goal_simp); grind)
    · have b3b := b3 b
      by_cases hba : b = a
      · subst hba; clear b2 b3; (try goal_simp); grind
      · (try simp only [State.put, State.putS, State.finish, State.write, upd_apply, if_neg hba])
        first
        | exact b3b
        | (clear b2 b3; (try goal_simp); grind)
    · first
      | exact b4
      | (clear b2 b3; goal_simp; grind))'''
    out+=thm("bnd",name,fn,haspc,"(lw : Lwf s) (g1 : Bnd s)","Bnd s'",body)
out+="\nend Lungo.Conc\n"
open(os.path.join(os.path.dirname(os.path.abspath(__file__)),'..','Lungo','Proofs')+'/ConcOwn.lean','w').write(out)
