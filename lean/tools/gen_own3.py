import os
subs=[("idle","stepIdle",True),("begin","stepBegin",False),("commit","stepCommit",False),("abort","stepAbort",False),("after","stepAfter",True),("use","stepUse",False),("sess","stepSess",False),("close","stepClose",False),("exp","stepExp",False)]
pcname={"idle":".idle","after":".after"}
head='''/-
  Lungo.Proofs.ConcOwn3 — the ownership invariant (Oinv), per sub-machine (generated mechanically).
-/
import Lungo.Proofs.ConcOwnDefs
namespace Lungo.Conc
'''
def thm(field, name, fn, haspc, hyps, goal, body):
    pc = f"(hpc : (s.loc a).pc = {pcname[name]}) " if haspc else ""
    return f'''
set_option maxHeartbeats 1000000 in
theorem {field}_{name} {{s s' : State}} {{a : ActorId}} {{c : Choice}} {hyps}
    {pc}(hs : {fn} s a (s.loc a) c = some s') : {goal} := by
{body}
'''
out=head
prelude='''  obtain ⟨gA, gB, gC⟩ := g
  obtain ⟨b1, b2, b3, b4⟩ := bnd
  obtain ⟨s1, s2, s3⟩ := sv
  have w := inv1.beginWf a
  have i2a := inv1.holder_iff a
  have i3 := inv1.conserv
  have m5 := inv1.smutex_iff
  have lwa := lw a
  have b2a := b2 a
  have b3a := b3 a
  have gBa := gB a
  have gCa := gC a
  have s1a := s1 (s.loc a).sid
  have s2a := s2 a (s.loc a).sid
  have s3a := s3 (s.loc a).sid
  clear inv1 lw s1 s2 s3 b3 b4
  simp only [BeginWf, SHold, StartFlow, THold, LWf, Owned, OwnsL] at *
'''
for name,fn,haspc in subs:
    body=prelude+f'''  unfold {fn} at hs
  conc_split hs
  all_goals (
    refine ⟨?_, fun b => ?_, fun b => ?_⟩
    · clear gB gC m5 b2
      cases hown : s.eng.own with
      | actor o =>
        try simp only [hown] at gA
        by_cases hoa : o = a
        · subst hoa
          (try goal_simp); grind
        · have hao : ¬ a = o := fun h => hoa h.symm
          try goal_simp
          try simp only [hown, if_neg hoa, if_neg hao]
          grind
      | sess so =>
        try simp only [hown] at gA
        try goal_simp
        grind
    · have hgBb := gB b; have := m5 b (s.loc b).sid; have := m5 a (s.loc b).sid
      clear gA gB gC m5 b2
      by_cases hba : b = a
      · subst hba; (try goal_simp); grind
      · have hab : ¬ a = b := fun h => hba h.symm
        try simp only [State.put, State.putS, State.finish, State.write, upd_apply, if_neg hba, if_neg hab]
        first
        | exact hgBb
        | ((try goal_simp); grind)
    · have hgCb := gC b; have := b2 b
      clear gA gB gC m5 b2
      by_cases hba : b = a
      · subst hba; (try goal_simp); grind
      · have hab : ¬ a = b := fun h => hba h.symm
        try simp only [State.put, State.putS, State.finish, State.write, upd_apply, if_neg hba, if_neg hab]
        first
        | exact hgCb
        | ((try goal_simp); grind))'''
    out+=thm("oinv",name,fn,haspc,"(inv1 : Inv1 s) (lw : Lwf s) (bnd : Bnd s) (sv : Sinv s) (g : Oinv s)","Oinv s'",body)
out+="\nend Lungo.Conc\n"
open(os.path.join(os.path.dirname(os.path.abspath(__file__)),'..','Lungo','Proofs')+'/ConcOwn3.lean','w').write(out)
