import os
subs=[("idle","stepIdle",True),("begin","stepBegin",False),("commit","stepCommit",False),("abort","stepAbort",False),("after","stepAfter",True),("use","stepUse",False),("sess","stepSess",False),("close","stepClose",False),("exp","stepExp",False)]
pcname={"idle":".idle","after":".after"}
head='''/-
  Lungo.Proofs.ConcLog2 — real-time (Rinv), read-prefix (Pinv) and write-history (Hinv) invariants
  for C04.  (Per-sub-machine lemmas generated mechanically.)
-/
import Lungo.Proofs.ConcLog
namespace Lungo.Conc

/-- `p` is a prefix of `l` -/
def Pre (p l : List OpId) : Prop := ∃ r, l = p ++ r

theorem Pre.refl (l : List OpId) : Pre l l := ⟨[], by simp⟩
theorem Pre.app {p l : List OpId} (h : Pre p l) (x : List OpId) : Pre p (l ++ x) := by
  obtain ⟨r, rfl⟩ := h; exact ⟨r ++ x, by simp⟩
theorem Pre.len {p l : List OpId} (h : Pre p l) : p.length ≤ l.length := by
  obtain ⟨r, rfl⟩ := h; simp
theorem Pre.self_app (l x : List OpId) : Pre l (l ++ x) := ⟨x, rfl⟩

/-- real-time bookkeeping: positions recorded at invocation / commit / return are ordered -/
def Rinv (s : State) : Prop :=
  (∀ rec ∈ s.commitLog, rec.base.length + rec.ops.length ≤ s.eng.catalog.length ∧
      rec.invLen ≤ rec.base.length ∧ ∀ p ∈ rec.before, p.2 ≤ rec.invLen) ∧
  (∀ p ∈ s.done, p.2 ≤ s.eng.catalog.length) ∧
  (∀ a, (s.loc a).invLen ≤ s.eng.catalog.length ∧ (∀ p ∈ (s.loc a).invDone, p.2 ≤ (s.loc a).invLen) ∧
      (∀ p, (s.loc a).cmt = some p → p.2 ≤ s.eng.catalog.length)) ∧
  (∀ t, t < s.eng.nextTid → (s.txns t).invLen ≤ (s.txns t).base.length ∧
      ∀ p ∈ (s.txns t).before, p.2 ≤ (s.txns t).invLen)

/-- local states of a read-only call that has taken its snapshot -/
def ReadFlow (l : Local) : Prop :=
  l.pc = .uCbRead ∨ (l.pc = .after ∧ l.k = .use ∧ l.lockF = false ∧ l.res = .ok)

def Pinv (s : State) : Prop :=
  (∀ r ∈ s.reads, Pre r.obs s.eng.catalog ∧ r.invLen ≤ r.obs.length ∧ r.obs.length ≤ r.retLen) ∧
  (∀ a t, ReadFlow (s.loc a) → (s.loc a).t = some t →
      Pre (s.txns t).base s.eng.catalog ∧ (s.loc a).invLen ≤ (s.txns t).base.length) ∧
  (∀ a, (s.loc a).obs ≠ none → (s.loc a).pc = .idle)

/-- every recorded write ran on `seen` and its op directly follows `seen` in its transaction's log -/
def Hinv (s : State) : Prop :=
  ∀ h ∈ s.hist, h.tid < s.eng.nextTid ∧
    Pre (h.seen ++ [h.op]) ((s.txns h.tid).base ++ (s.txns h.tid).ops)

theorem rinv_init (n : Nat) : Rinv (init n) := by
  refine ⟨?_, ?_, fun b => ?_, ?_⟩
  all_goals (simp only [init]; try (by_cases hb : b = 0 <;> simp [hb]))
  all_goals simp
theorem pinv_init (n : Nat) : Pinv (init n) := by
  refine ⟨?_, fun b => ?_, fun b => ?_⟩
  all_goals (simp only [init, ReadFlow]; try (by_cases hb : b = 0 <;> simp [hb]))
  all_goals simp
theorem hinv_init (n : Nat) : Hinv (init n) := by
  simp [Hinv, init]

macro "log2_simp" : tactic => `(tactic|
  simp only [State.put, State.putS, State.finish, State.write, upd_apply, Eng.unlock, Eng.release,
    Local.back, Local.invoke, newTxn, ReadFlow, List.mem_append, List.mem_singleton, List.length_append,
    List.append_nil, List.nil_append, List.append_assoc, List.length_nil,
    if_true, if_false, ite_true, ite_false])
'''
head+='''
macro "log2_simp_at" h:ident : tactic => `(tactic|
  simp only [State.put, State.putS, State.finish, State.write, upd_apply, Eng.unlock, Eng.release,
    Local.back, Local.invoke, newTxn, ReadFlow, List.mem_append, List.mem_singleton, List.length_append,
    List.append_nil, List.nil_append, List.append_assoc, List.length_nil,
    if_true, if_false, ite_true, ite_false] at $h:ident ⊢)
'''
def thm(field, name, fn, haspc, hyps, goal, body):
    pc = f"(hpc : (s.loc a).pc = {pcname[name]}) " if haspc else ""
    return f'''
set_option maxHeartbeats 1000000 in
theorem {field}_{name} {{s s' : State}} {{a : ActorId}} {{c : Choice}} {hyps}
    {pc}(hs : {fn} s a (s.loc a) c = some s') : {goal} := by
{body}
'''
out=head
for name,fn,haspc in subs:
    body=f'''  obtain ⟨r0, r1, r2, r3⟩ := g
  obtain ⟨l1, l2, l3, l4⟩ := lv
  obtain ⟨b1, b2, b3, b4⟩ := bnd
  have l2a := l2 a
  have b2a := b2 a
  have r2a := r2 a
  clear b3 b4 l3 l4 l2 b2 b1
  unfold {fn} at hs
  conc_split hs
  all_goals (
    refine ⟨fun rec hrec => ?_, fun p hp => ?_, fun b => ?_, fun t ht => ?_⟩
    · first
      | exact r0 rec hrec
      | (have := l1; have := r3
         clear r1 r2 r3 l1
         (try log2_simp_at hrec); grind)
    · first
      | exact r1 p hp
      | (clear r0 r2 r3
         (try log2_simp_at hp); grind)
    · have hr2b := r2 b
      clear r0 r2 r3
      by_cases hba : b = a
      · subst hba; (try log2_simp); grind
      · have hab : ¬ a = b := fun h => hba h.symm
        try simp only [State.put, State.putS, State.finish, State.write, upd_apply, if_neg hba, if_neg hab]
        first
        | exact hr2b
        | ((try log2_simp); grind)
    · first
      | exact r3 t ht
      | (have := r3 t
         clear r0 r1 r2 r3
         (try log2_simp_at ht); grind))'''
    out+=thm("rinv",name,fn,haspc,"(bnd : Bnd s) (lv : Linv s) (g : Rinv s)","Rinv s'",body)
for name,fn,haspc in subs:
    body=f'''  obtain ⟨p1, p2, p3⟩ := g
  obtain ⟨l1, l2, l3, l4⟩ := lv
  obtain ⟨b1, b2, b3, b4⟩ := bnd
  have l2a := l2 a
  have b2a := b2 a
  have p2a := p2 a
  have p3a := p3 a
  have r2a := rv.2.2.1 a
  have w := inv1.beginWf a
  clear b3 b4 l1 l3 l4 l2 b1 rv inv1
  simp only [ReadFlow, BeginWf] at *
  unfold {fn} at hs
  conc_split hs
  all_goals (
    refine ⟨fun r hr => ?_, fun b t => ?_, fun b => ?_⟩
    · first
      | exact p1 r hr
      | (clear p2 p3 b2
         (try log2_simp_at hr); grind [Pre.app, Pre.len, Pre.refl, Pre.self_app])
    · have hp2b := p2 b t; have := b2 b t
      clear p1 p2 p3 b2
      by_cases hba : b = a
      · subst hba; (try log2_simp); grind [Pre.app, Pre.len, Pre.refl, Pre.self_app]
      · have hab : ¬ a = b := fun h => hba h.symm
        try simp only [State.put, State.putS, State.finish, State.write, upd_apply, if_neg hba, if_neg hab]
        first
        | exact hp2b
        | ((try log2_simp); grind [Pre.app, Pre.len, Pre.refl, Pre.self_app])
    · have hp3b := p3 b
      clear p1 p2 p3 b2
      by_cases hba : b = a
      · subst hba; (try log2_simp); grind
      · have hab : ¬ a = b := fun h => hba h.symm
        try simp only [State.put, State.putS, State.finish, State.write, upd_apply, if_neg hba, if_neg hab]
        first
        | exact hp3b
        | ((try log2_simp); grind))'''
    out+=thm("pinv",name,fn,haspc,"(inv1 : Inv1 s) (bnd : Bnd s) (lv : Linv s) (rv : Rinv s) (g : Pinv s)","Pinv s'",body)
for name,fn,haspc in subs:
    body=f'''  obtain ⟨b1, b2, b3, b4⟩ := bnd
  have b2a := b2 a
  clear b3 b4 b1 b2
  unfold {fn} at hs
  conc_split hs
  all_goals (
    intro h hh
    first
    | exact g h hh
    | ((try log2_simp_at hh)
       first
       | (have := g h hh; grind [Pre.app, Pre.refl])
       | (rcases hh with hh | hh
          · have := g h hh; grind [Pre.app, Pre.refl]
          · subst hh
            simp only [List.append_assoc, if_true]
            grind [Pre.app, Pre.refl])))'''
    out+=thm("hinv",name,fn,haspc,"(bnd : Bnd s) (g : Hinv s)","Hinv s'",body)
out+="\nend Lungo.Conc\n"
open(os.path.join(os.path.dirname(os.path.abspath(__file__)),'..','Lungo','Proofs')+'/ConcLog2.lean','w').write(out)
