import os
subs=[("idle","stepIdle",True),("begin","stepBegin",False),("commit","stepCommit",False),("abort","stepAbort",False),("after","stepAfter",True),("use","stepUse",False),("sess","stepSess",False),("close","stepClose",False),("exp","stepExp",False)]
pcname={"idle":".idle","after":".after"}
head='''/-
  Lungo.Proofs.ConcOwn2 — the `starting` protocol invariant (Sinv) and the ownership invariant
  (Oinv), per sub-machine (generated mechanically).
-/
import Lungo.Proofs.ConcOwnDefs
namespace Lungo.Conc
'''
def thm(field, name, fn, haspc, hyps, goal, body):
    pc = f"(hpc : (s.loc a).pc = {pcname[name]}) " if haspc else ""
    return f'''
set_option maxHeartbeats 1000000 in
theorem {field}_{name} {{s s' : State}} {{a : ActorId}} {{c : Choice}} {hyps}
    {pc}(hs : {fn} s a (s.loc a) c = some s') : {goal} := by
{body}
'''
out=head
for name,fn,haspc in subs:
    body=f'''  obtain ⟨s1, s2, s3⟩ := g1
  have w := inv1.beginWf a
  have m5 := inv1.smutex_iff a
  have s1a := s1 (s.loc a).sid
  have s2a := s2 a
  have s3a := s3 (s.loc a).sid
  clear inv1
  simp only [BeginWf, SHold, StartFlow] at *
  unfold {fn} at hs
  conc_split hs
  all_goals (
    refine ⟨fun sid => ?_, fun b sid => ?_, fun sid => ?_⟩
    · first
      | exact s1 sid
      | (have := s1 sid; goal_simp; grind)
    · have := s2 b sid; have := s2 a sid; have := s3 sid
      by_cases hba : b = a
      · subst hba; goal_simp; grind
      · have hab : ¬ a = b := fun h => hba h.symm
        simp only [State.put, State.putS, State.finish, State.write, upd_apply, if_neg hba, if_neg hab]
        first
        | exact s2 b sid
        | (goal_simp; grind)
    · first
      | exact s3 sid
      | (have := s3 sid; goal_simp; grind))'''
    out+=thm("sinv",name,fn,haspc,"(inv1 : Inv1 s) (g1 : Sinv s)","Sinv s'",body)
out+="\nend Lungo.Conc\n"
open(os.path.join(os.path.dirname(os.path.abspath(__file__)),'..','Lungo','Proofs')+'/ConcOwn2.lean','w').write(out)
