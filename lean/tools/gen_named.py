import os
subs=[("idle","stepIdle",True),("begin","stepBegin",False),("commit","stepCommit",False),("abort","stepAbort",False),("after","stepAfter",True),("use","stepUse",False),("sess","stepSess",False),("close","stepClose",False),("exp","stepExp",False)]
pcname={"idle":".idle","after":".after"}
out='''/-
  Lungo.Proofs.ConcNamed — the positions recorded in `done` / `before` are the end positions of
  actual commit records (links the real-time bookkeeping to `commitLog`).  Generated mechanically.
-/
import Lungo.Proofs.ConcLog2
namespace Lungo.Conc

/-- `p = (tid, end position)` of some record of the commit log -/
def Named (cl : List CRec) (p : Tid × Nat) : Prop :=
  ∃ r ∈ cl, r.tid = p.1 ∧ r.base.length + r.ops.length = p.2

theorem Named.mono {cl : List CRec} {p : Tid × Nat} (h : Named cl p) (r : CRec) : Named (cl ++ [r]) p := by
  obtain ⟨r', hr, h1, h2⟩ := h
  exact ⟨r', by simp [hr], h1, h2⟩

theorem Named.last (cl : List CRec) (r : CRec) (t k : Nat) (h1 : r.tid = t)
    (h2 : r.base.length + r.ops.length = k) : Named (cl ++ [r]) (t, k) :=
  ⟨r, by simp, h1, h2⟩

def Ninv (s : State) : Prop :=
  (∀ p ∈ s.done, Named s.commitLog p) ∧
  (∀ a, (∀ p ∈ (s.loc a).invDone, Named s.commitLog p) ∧ (∀ p, (s.loc a).cmt = some p → Named s.commitLog p)) ∧
  (∀ t, t < s.eng.nextTid → ∀ p ∈ (s.txns t).before, Named s.commitLog p) ∧
  (∀ r ∈ s.commitLog, ∀ p ∈ r.before, Named s.commitLog p)

theorem ninv_init (n : Nat) : Ninv (init n) := by
  refine ⟨?_, fun b => ?_, ?_, ?_⟩
  all_goals (simp only [init]; try (by_cases hb : b = 0 <;> simp [hb]))
  all_goals simp
'''
for name,fn,haspc in subs:
    pc = f"(hpc : (s.loc a).pc = {pcname[name]}) " if haspc else ""
    out+=f'''
set_option maxHeartbeats 1000000 in
theorem ninv_{name} {{s s' : State}} {{a : ActorId}} {{c : Choice}} (bnd : Bnd s) (lv : Linv s) (g : Ninv s)
    {pc}(hs : {fn} s a (s.loc a) c = some s') : Ninv s' := by
  obtain ⟨n0, n1, n2, n3⟩ := g
  obtain ⟨l1, l2, l3, l4⟩ := lv
  obtain ⟨b1, b2, b3, b4⟩ := bnd
  have b2a := b2 a
  have n1a := n1 a
  clear b3 b4 l2 l3 l4 b2 b1
  unfold {fn} at hs
  conc_split hs
  all_goals (
    refine ⟨fun p hp => ?_, fun b => ?_, fun t ht p hp => ?_, fun r hr p hp => ?_⟩
    · first
      | exact n0 p hp
      | (have := n0 p
         clear n0 n1 n2 n3
         (try log2_simp_at hp); grind [Named.mono, Named.last])
    · have hn1b := n1 b
      clear n1 n2 n3
      by_cases hba : b = a
      · subst hba; (try log2_simp); grind [Named.mono, Named.last]
      · have hab : ¬ a = b := fun h => hba h.symm
        try simp only [State.put, State.putS, State.finish, State.write, upd_apply, if_neg hba, if_neg hab]
        first
        | exact hn1b
        | ((try log2_simp); grind [Named.mono, Named.last])
    · first
      | exact n2 t ht p hp
      | (have := n2 t
         clear n0 n1 n2 n3
         (try log2_simp_at ht)
         (try log2_simp_at hp); grind [Named.mono, Named.last])
    · first
      | exact n3 r hr p hp
      | (have := n3 r
         have := n2
         clear n0 n1 n2 n3
         (try log2_simp_at hr)
         (try log2_simp_at hp); grind [Named.mono, Named.last]))
'''
out+='''
end Lungo.Conc
'''
open(os.path.join(os.path.dirname(os.path.abspath(__file__)),'..','Lungo','Proofs')+'/ConcNamed.lean','w').write(out)
