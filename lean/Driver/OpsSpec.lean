import Driver.Ops
import Lungo.Spec.Query
open Lean Lungo
namespace Driver

/-- `spec.match`: the reference semantics (§8.3) on a (document, filter) pair of the core domain;
    pairs outside the domain are reported as such, never evaluated. -/
def opSpecMatch : Op := fun j => do
  let d ← Json.fieldDoc j "d"
  let q ← Json.fieldDoc j "q"
  -- optional "ex": true — test membership in the PROVED domain (core minus the known deviation D3)
  let ex := match j.getObjVal? "ex" with
    | .ok (.bool b) => b
    | _ => false
  match Spec.outsideX ex d q with
  | some why => pure (Json.mkObj [("outside", why)])
  | none => pure (resJ (fun b => Json.bool b) (Spec.matches (fun _ _ => .error (.unmodelled "$jsonSchema")) d q))

def opsSpec : List (String × Op) := [("spec.match", opSpecMatch)]

end Driver
