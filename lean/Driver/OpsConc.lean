/-
  Driver.OpsConc — line-protocol operations over the concurrency model (Lungo.Model.Conc).

  sched.run      {"op":"sched.run","n":N,"schedule":[[actor,choice]…],"actors":[[call…]…]?}
                 → {"ok":{"steps":[{"enabled":b,"digest":{…}}…],"final":{…}}}
                 A disabled step leaves the state unchanged (enabled=false) and the run continues, so a
                 schedule controller can probe enabledness.  If "actors" is given (script of client actor
                 i+1 = actors[i]) every `call` choice must be the next call of that actor's script,
                 otherwise the step is reported {"enabled":false,"offScript":true}.
  sched.enabled  {"op":"sched.enabled","n":N,"schedule":[…]} → {"ok":{"enabled":[[actor,[choice…]]…],"digest":…}}
                 (non-call choices only)
  sched.explore  {"op":"sched.explore","n":N,"actors":[[call…]…],"depth":D,"maxStates":M,
                  "faults":bool,"invariant":"token|noPanic|singleWriter|mutex|deadlock|all"}
                 bounded DFS over all interleavings of the scripts (expiry actor 0 ticks at most
                 "ticks" times, default 0); → {"ok":{"states":k,"maxDepth":d,"truncated":b,
                  "violation":null | {"invariant":name,"schedule":[…],"digest":…}}}
                 "deadlock" = some client call is unfinished, no idle actor has a call left to issue and
                 no step is enabled without a fault choice (cancel/timeout/store/callback fault) or tick.
                 Search support only — the claims are the theorems in Lungo/Props.

  choice encoding: "go" "tok" "cancel" "timeout" "dying" "storeOk" "storeFail" "storePanic"
                   "cbWrite" "cbNoop" "cbErr" "cbPanic" "tick"
                   | {"call":"useTx","lock":b,"sess":sid|null} | {"call":"begin","lock":b}
                   | {"call":"commit"} | {"call":"abort"} | {"call":"sessStart","sid":k}
                   | {"call":"sessCommit","sid":k} | {"call":"sessAbort","sid":k} | {"call":"sessEnd","sid":k}
                   | {"call":"close"} | {"call":"crit","kind":"watch|cancel|read"}
-/
import Driver.Ops
import Lungo.Model.Conc
import Std.Data.HashSet
open Lean Lungo.Conc
namespace Driver.Conc

def natOf (j : Json) : Except String Nat :=
  match j.getNat? with
  | .ok n => pure n
  | .error e => throw s!"nat expected: {e}"

def boolField (j : Json) (k : String) (dflt : Bool) : Bool :=
  match j.getObjVal? k with
  | .ok (.bool b) => b
  | _ => dflt

def concNatField (j : Json) (k : String) : Except String Nat :=
  match j.getObjVal? k with
  | .ok v => natOf v
  | .error _ => throw s!"missing field {k}"

def natFieldD (j : Json) (k : String) (d : Nat) : Nat :=
  match concNatField j k with
  | .ok n => n
  | .error _ => d

def callOfJson (j : Json) : Except String Call := do
  let name ← match j.getObjVal? "call" with
    | .ok (.str s) => pure s
    | _ => throw "call: missing name"
  match name with
  | "useTx" =>
    let sess ← match j.getObjVal? "sess" with
      | .ok .null => pure none
      | .ok v => do let k ← natOf v; pure (some k)
      | .error _ => pure none
    pure (.useTx (boolField j "lock" true) sess)
  | "begin" => pure (.begin (boolField j "lock" true))
  | "commit" => pure .commit
  | "abort" => pure .abort
  | "sessStart" => do pure (.sessStart (← concNatField j "sid"))
  | "sessCommit" => do pure (.sessCommit (← concNatField j "sid"))
  | "sessAbort" => do pure (.sessAbort (← concNatField j "sid"))
  | "sessEnd" => do pure (.sessEnd (← concNatField j "sid"))
  | "close" => pure .close
  | "crit" =>
    match j.getObjVal? "kind" with
    | .ok (.str "watch") => pure (.crit .watch)
    | .ok (.str "cancel") => pure (.crit .cancel)
    | .ok (.str "read") => pure (.crit .read)
    | _ => throw "crit: bad kind"
  | other => throw s!"unknown call {other}"

def simpleChoices : List (String × Choice) :=
  [("go", .go), ("tok", .tok), ("cancel", .cancel), ("timeout", .timeout), ("dying", .dying),
   ("storeOk", .storeOk), ("storeFail", .storeFail), ("storePanic", .storePanic),
   ("cbWrite", .cbWrite), ("cbNoop", .cbNoop), ("cbErr", .cbErr), ("cbPanic", .cbPanic), ("tick", .tick)]

def choiceOfJson (j : Json) : Except String Choice :=
  match j with
  | .str s => match simpleChoices.lookup s with
    | some c => pure c
    | none => throw s!"unknown choice {s}"
  | _ => do pure (.call (← callOfJson j))

def callToJson : Call → Json
  | .useTx l s => Json.mkObj [("call", "useTx"), ("lock", l), ("sess", match s with | some k => (k : Json) | none => Json.null)]
  | .begin l => Json.mkObj [("call", "begin"), ("lock", l)]
  | .commit => Json.mkObj [("call", "commit")]
  | .abort => Json.mkObj [("call", "abort")]
  | .sessStart k => Json.mkObj [("call", "sessStart"), ("sid", k)]
  | .sessCommit k => Json.mkObj [("call", "sessCommit"), ("sid", k)]
  | .sessAbort k => Json.mkObj [("call", "sessAbort"), ("sid", k)]
  | .sessEnd k => Json.mkObj [("call", "sessEnd"), ("sid", k)]
  | .close => Json.mkObj [("call", "close")]
  | .crit k => Json.mkObj [("call", "crit"), ("kind", match k with | .watch => "watch" | .cancel => "cancel" | .read => "read")]

def choiceToJson (c : Choice) : Json :=
  match c with
  | .call cl => callToJson cl
  | other => match simpleChoices.find? (fun p => p.2 == other) with
    | some (s, _) => Json.str s
    | none => Json.null

def optNat (o : Option Nat) : Json := match o with | some k => (k : Json) | none => Json.null

def reprStr {α} [Repr α] (x : α) : String := (repr x).pretty 1000

def pcName (p : Pc) : String := (reprStr p).replace "Lungo.Conc.Pc." ""
def kName (k : K) : String := (reprStr k).replace "Lungo.Conc.K." ""
def resName (r : Res) : String :=
  match r with
  | .none => "none" | .ok => "ok" | .panic => "panic"
  | .err e => "err:" ++ (reprStr e).replace "Lungo.Conc.Err." ""

def digest (s : State) : Json :=
  let e := s.eng
  Json.mkObj [
    ("alive", e.alive), ("mutex", optNat e.mutex), ("token", e.token), ("txn", optNat e.txn),
    ("catalogLen", e.catalog.length), ("catalog", Json.arr (e.catalog.map (fun (k : Nat) => (k : Json))).toArray),
    ("durableLen", e.durable.length), ("holder", optNat e.holder), ("nextTid", e.nextTid),
    ("relPanic", e.relPanic), ("streams", e.streams), ("commits", s.commitLog.length),
    ("actors", Json.arr ((List.range (s.n + 1)).map fun a =>
      let l := s.loc a
      Json.mkObj [("pc", pcName l.pc), ("k", kName l.k), ("res", resName l.res), ("t", optNat l.t),
        ("handle", optNat l.handle), ("ok", l.okF)]).toArray),
    ("sess", Json.arr ((List.range (s.n + 1)).map fun i =>
      let x := s.sess i
      Json.mkObj [("txn", optNat x.txn), ("starting", x.starting), ("ended", x.ended), ("mutex", optNat x.mutex)]).toArray)]

def parseSchedule (j : Json) : Except String (List (ActorId × Choice)) := do
  let arr ← match j.getObjVal? "schedule" with
    | .ok (.arr xs) => pure xs.toList
    | _ => throw "missing schedule"
  arr.mapM fun it => match it with
    | .arr #[a, c] => do pure (← natOf a, ← choiceOfJson c)
    | _ => throw "schedule item must be [actor, choice]"

def parseScripts (j : Json) : Except String (Option (List (List Call))) :=
  match j.getObjVal? "actors" with
  | .ok (.arr xs) => do
    let ss ← xs.toList.mapM fun sc => match sc with
      | .arr cs => cs.toList.mapM callOfJson
      | _ => throw "script must be an array of calls"
    pure (some ss)
  | _ => pure none

/-- take the next call of actor `a` (script index a-1) if it equals `c` -/
def popScript (scripts : List (List Call)) (a : ActorId) (c : Call) : Option (List (List Call)) :=
  if a = 0 then none else
  match scripts[a - 1]? with
  | some (c' :: rest) => if c' = c then some (scripts.set (a - 1) rest) else none
  | _ => none

def opSchedRun : Op := fun j => do
  let n ← concNatField j "n"
  let sched ← parseSchedule j
  let scripts ← parseScripts j
  let rec go (s : State) (scr : Option (List (List Call))) (rest : List (ActorId × Choice)) (acc : Array Json) :
      State × Array Json :=
    match rest with
    | [] => (s, acc)
    | (a, c) :: rest =>
      let onScript : Option (Option (List (List Call))) :=
        match c, scr with
        | .call cl, some sc => match popScript sc a cl with
          | some sc' => some (some sc')
          | none => none
        | _, _ => some scr
      match onScript with
      | none => go s scr rest (acc.push (Json.mkObj [("enabled", false), ("offScript", true), ("digest", digest s)]))
      | some scr' =>
        match step s a c with
        | some s' => go s' scr' rest (acc.push (Json.mkObj [("enabled", true), ("digest", digest s')]))
        | none => go s scr rest (acc.push (Json.mkObj [("enabled", false), ("digest", digest s)]))
  let (s, steps) := go (init n) scripts sched #[]
  pure (okJ (Json.mkObj [("steps", Json.arr steps), ("final", digest s)]))

def nonCallChoices : List Choice := simpleChoices.map (·.2)

def opSchedEnabled : Op := fun j => do
  let n ← concNatField j "n"
  let sched ← parseSchedule j
  let s := sched.foldl (fun s (p : ActorId × Choice) => match step s p.1 p.2 with | some s' => s' | none => s) (init n)
  let en := (List.range (n + 1)).map fun (a : Nat) =>
    Json.arr #[(a : Json), Json.arr ((nonCallChoices.filter fun c => (step s a c).isSome).map choiceToJson).toArray]
  pure (okJ (Json.mkObj [("enabled", Json.arr en.toArray), ("digest", digest s)]))

/-! ### bounded exploration -/

def eholdB (p : Pc) : Bool :=
  p == .bCheck || p == .bPost || p == .cCheck || p == .cStore ||
  p == .aBody || p == .clKill || p == .kBody

def tholdB (l : Local) : Bool := ((l.pc == .bRelock || l.pc == .bPost) && l.okF) || l.pc == .cStore

def faultChoices : List Choice := [.cancel, .timeout, .storeFail, .storePanic, .cbErr, .cbPanic]

/-- named invariant checkers (Bool, over the finitely many actors 0..n) -/
def checkInv (name : String) (s : State) (pending : Bool := false) : Option String :=
  let actors := List.range (s.n + 1)
  let holders := (actors.filter fun a => tholdB (s.loc a)).length
  let token := s.eng.token + holders + (if s.eng.txn.isSome then 1 else 0) == 1
  let noPanic := !s.eng.relPanic
  let single := holders ≤ 1 && (!(s.eng.txn.isSome) || (s.eng.token == 0 && holders == 0))
  let mutex := actors.all fun a => (s.eng.mutex == some a) == eholdB (s.loc a).pc
  let unfinished := actors.any fun a => a ≠ 0 && (s.loc a).pc != .idle
  let anyEnabled := actors.any fun a => nonCallChoices.any fun c =>
    !(faultChoices.contains c) && c != .tick && (step s a c).isSome
  let deadlock := !(unfinished && !anyEnabled && !pending)
  let checks := [("token", token), ("noPanic", noPanic), ("singleWriter", single), ("mutex", mutex), ("deadlock", deadlock)]
  let sel := if name == "all" then checks else checks.filter (·.1 == name)
  (sel.find? (fun p => !p.2)).map (·.1)

def fullKey (s : State) (scr : List (List Call)) (ticks : Nat) : String :=
  let actors := List.range (s.n + 1)
  reprStr s.eng ++ "|" ++ String.intercalate ";" (actors.map fun a => reprStr (s.loc a)) ++ "|" ++
  String.intercalate ";" (actors.map fun a => reprStr (s.sess a)) ++ "|" ++
  String.intercalate ";" ((List.range s.eng.nextTid).map fun t => reprStr ((s.txns t).base, (s.txns t).ops)) ++ "|" ++
  reprStr scr ++ "|" ++ toString ticks

structure Explore where
  seen : Std.HashSet String := {}
  states : Nat := 0
  maxDepth : Nat := 0
  truncated : Bool := false
  violation : Option (String × List (ActorId × Choice) × State) := none

partial def explore (inv : String) (faults : Bool) (depth maxStates : Nat)
    (s : State) (scr : List (List Call)) (ticks : Nat) (path : List (ActorId × Choice)) (d : Nat)
    (st : Explore) : Explore :=
  if st.violation.isSome then st else
  if st.states ≥ maxStates then { st with truncated := true } else
  let key := fullKey s scr ticks
  if st.seen.contains key then st else
  let st := { st with seen := st.seen.insert key, states := st.states + 1, maxDepth := max st.maxDepth d }
  let pending := (List.range s.n).any fun i => (s.loc (i + 1)).pc == .idle && (scr[i]?.getD []) != []
  match checkInv inv s pending with
  | some name => { st with violation := some (name, path.reverse, s) }
  | none =>
    if d ≥ depth then { st with truncated := true } else
    let actors := List.range (s.n + 1)
    actors.foldl (fun st a =>
      let l := s.loc a
      let cands : List (Choice × List (List Call) × Nat) :=
        if l.pc == .idle then
          match (if a = 0 then none else scr[a - 1]?) with
          | some (c :: rest) => [(.call c, scr.set (a - 1) rest, ticks)]
          | _ => []
        else
          (nonCallChoices.filterMap fun c =>
            if c == .tick then (if ticks > 0 then some (c, scr, ticks - 1) else none)
            else if !faults && faultChoices.contains c then none
            else some (c, scr, ticks))
      cands.foldl (fun st (c, scr', ticks') =>
        match step s a c with
        | some s' => explore inv faults depth maxStates s' scr' ticks' ((a, c) :: path) (d + 1) st
        | none => st) st) st

def opSchedExplore : Op := fun j => do
  let n ← concNatField j "n"
  let scripts ← parseScripts j
  let scr := scripts.getD []
  let depth := natFieldD j "depth" 60
  let maxStates := natFieldD j "maxStates" 200000
  let ticks := natFieldD j "ticks" 0
  let faults := boolField j "faults" false
  let inv := match j.getObjVal? "invariant" with | .ok (.str s) => s | _ => "all"
  let r := explore inv faults depth maxStates (init n) scr ticks [] 0 {}
  let viol := match r.violation with
    | none => Json.null
    | some (name, sch, s) => Json.mkObj [("invariant", name),
        ("schedule", Json.arr (sch.map fun (a, c) => Json.arr #[(a : Json), choiceToJson c]).toArray),
        ("digest", digest s)]
  pure (okJ (Json.mkObj [("states", r.states), ("maxDepth", r.maxDepth), ("truncated", r.truncated), ("violation", viol)]))

def opsConc : List (String × Op) :=
  [("sched.run", opSchedRun), ("sched.enabled", opSchedEnabled), ("sched.explore", opSchedExplore)]

end Driver.Conc
