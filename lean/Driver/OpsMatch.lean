import Driver.Ops
import Lungo.Model.Match
open Lean Lungo
namespace Driver

def opMatch : Op := fun j => do
  let d ← Json.fieldDoc j "d"
  let q ← Json.fieldDoc j "q"
  pure (resJ (fun b => Json.bool b) (Match schemaUnmodelled d q))

def opGet : Op := fun j => do
  let d ← Json.fieldDoc j "d"
  let p ← Json.fieldStr j "p"
  pure (okJ (Get d p).toJson)

def opAll : Op := fun j => do
  let d ← Json.fieldDoc j "d"
  let p ← Json.fieldStr j "p"
  let c ← Json.fieldBool j "compact"
  let m ← Json.fieldBool j "merge"
  let (v, n) := All d (splitPath p) c m
  pure (okJ (Json.arr #[v.toJson, Json.bool n]))

def opsMatch : List (String × Op) := [("match", opMatch), ("get", opGet), ("all", opAll)]

end Driver
