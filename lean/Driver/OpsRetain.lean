/-
  Driver.OpsRetain — stream `retain` (property C08, retention part): the decision of
  `Transaction.Clean` / `Engine.Commit` on a log given by its event timestamps.

  `retain.count`:
    request  {"op":"retain.count","ts":[[T,I],…] (oldest first),"minSize":m,"maxSize":M,
              "minAgeS":a,"maxAgeS":A,"minAgeZero":b,"nowT":t,"nowI":[i₁,…],"dirty":d₀}
             (further fields — kind, minAgeNs, maxAgeNs — are annotations for replay and are ignored)
    reply    {"ok":[{"count":k,"txn":k',"dirty":d,"first":f,"other":o,"commit":c},…]}   (one per nowI)
      count  = `cleanCount` on the timestamp list (the function the C08 retention theorems speak about)
      txn    = number of events `Txn.clean` removes from a real model transaction whose oplog holds
               one event document per timestamp (`_id.ts`, `clusterTime`; ids 0…n−1)
      dirty  = dirty flag of the transaction after Clean (it starts with dirty = d₀)
      first  = id of the first remaining event (−1 if none): with `txn` this pins the result to the
               suffix `drop txn`
      other  = true iff the second namespace of the transaction is still exactly what it was
      commit = number of events missing from the catalog `Sys.commitWith` publishes for the same
               transaction marked dirty (Engine.Commit = Clean + publish)
-/
import Driver.Ops
import Lungo.Model.Api
open Lean Lungo
namespace Driver.Retain

def tsPair (j : Json) : Except String (Nat × Nat) :=
  match j with
  | .arr #[a, b] =>
    match jsonInt? a, jsonInt? b with
    | some x, some y => if x < 0 || y < 0 then throw "negative timestamp" else pure (x.toNat, y.toNat)
    | _, _ => throw "timestamp: expected [T,I]"
  | _ => throw "timestamp: expected [T,I]"

def natField (j : Json) (k : String) : Except String Nat := do
  let n ← Json.fieldInt j k
  if n < 0 then throw s!"field {k}: negative" else pure n.toNat

/-- the event document of the model transaction: only the parts Clean looks at plus a payload -/
def eventDoc (i : Nat) (ts : Nat × Nat) : Doc :=
  [("_id", .doc [("ts", .ts ts.1 ts.2)]), ("clusterTime", .ts ts.1 ts.2), ("n", .i64 i)]

def otherHandle : Handle := ⟨"db", "c"⟩

def otherColl : Coll := { (newColl true) with docs := [{ id := 1000000, doc := [("_id", .i32 1)] }] }

def mkTxn (tss : List (Nat × Nat)) (dirty0 : Bool) : Txn :=
  let evs : List SDoc := (List.range tss.length).zip tss |>.map fun (i, ts) => { id := i, doc := eventDoc i ts }
  let cat : Catalog := { namespaces := [(oplogHandle, { (newColl false) with docs := evs }), (otherHandle, otherColl)], clock := tss.length }
  { catalog := cat, dirty := dirty0 }

def oplogOf (c : Catalog) : List SDoc := ((c.get? oplogHandle).getD (newColl false)).docs

def sameOther (c : Catalog) : Bool :=
  match c.get? otherHandle with
  | some o => o.docs.map (·.id) == otherColl.docs.map (·.id) && o.docs.map (·.doc) == otherColl.docs.map (·.doc) && o.indexes.length == otherColl.indexes.length
  | none => false

def one (tss : List (Nat × Nat)) (dirty0 : Bool) (minSize maxSize : Int) (minAgeS maxAgeS : Nat) (z : Bool) (nowT nowI : Nat) : Json :=
  let k := cleanCount tss minSize maxSize minAgeS maxAgeS z nowT nowI
  let t := mkTxn tss dirty0
  let t' := t.clean minSize maxSize minAgeS maxAgeS z nowT nowI
  let rest := oplogOf t'.catalog
  let first : Int := match rest with
    | sd :: _ => sd.id
    | [] => -1
  let cfg : CleanCfg := { minSize := minSize, maxSize := maxSize, minAgeS := minAgeS, maxAgeS := maxAgeS, minAgeZero := z }
  let s : Sys := { catalog := t.catalog, nextId := 0 }
  let s' := s.commitWith cfg nowT nowI { t with dirty := true } { nextId := 0, oids := [] }
  Json.mkObj [("count", (k : Nat)), ("txn", (tss.length - rest.length : Nat)), ("dirty", t'.dirty),
    ("first", Json.num (JsonNumber.fromInt first)), ("other", sameOther t'.catalog && sameOther s'.catalog),
    ("commit", (tss.length - (oplogOf s'.catalog).length : Nat))]

def opCount : Op := fun j => do
  let tss ← (← Json.fieldArr j "ts").mapM tsPair
  let minSize ← Json.fieldInt j "minSize"
  let maxSize ← Json.fieldInt j "maxSize"
  let minAgeS ← natField j "minAgeS"
  let maxAgeS ← natField j "maxAgeS"
  let z ← Json.fieldBool j "minAgeZero"
  let nowT ← natField j "nowT"
  let dirty0 ← Json.fieldBool j "dirty"
  let nowIs ← (← Json.fieldArr j "nowI").mapM fun x =>
    match jsonInt? x with
    | some n => if n < 0 then throw "nowI: negative" else pure n.toNat
    | none => throw "nowI: expected integer"
  if nowIs.isEmpty then throw "nowI: empty" else
  pure (okJ (Json.arr (nowIs.map (one tss dirty0 minSize maxSize minAgeS maxAgeS z nowT)).toArray))

def opsRetain : List (String × Op) := [("retain.count", opCount)]

end Driver.Retain
