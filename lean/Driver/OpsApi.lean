/-
  Driver.OpsApi — stateful line-protocol ops over the sequential API model (Lungo.Model.Api).
  One model process = one history. Ops:
    api.reset                      → fresh system
    api.call {m, h?, ...args, oids} → reply of the call (state advances on success)
    api.dump                       → canonical dump of every namespace (documents in natural order,
                                     index definitions by name, index entries as sorted doc-id-free key lists, oplog)
-/
import Driver.Ops
import Lungo.Model.Api
import Lungo.Model.Session
open Lean Lungo
namespace Driver

structure DState where
  sys : Sys := Sys.init
  ssys : SSys := SSys.init

def optDoc (j : Json) (k : String) : Except String (Option Doc) :=
  match j.getObjVal? k with
  | .ok .null => pure none
  | .ok v => do pure (some (← docOfJson v))
  | .error _ => pure none

def optInt (j : Json) (k : String) (dflt : Int) : Int :=
  match j.getObjVal? k with
  | .ok v => (jsonInt? v).getD dflt
  | .error _ => dflt

def optBool (j : Json) (k : String) : Bool :=
  match j.getObjVal? k with
  | .ok (.bool b) => b
  | _ => false

def optStr (j : Json) (k : String) : String :=
  match j.getObjVal? k with
  | .ok (.str s) => s
  | _ => ""

def handleOf (j : Json) : Except String Handle := do
  match ← Json.field j "h" with
  | .arr #[.str db, .str coll] => pure ⟨db, coll⟩
  | _ => throw "bad handle"

def findOpts (j : Json) : Except String FindOpts := do
  pure { sort := ← optDoc j "sort", skip := optInt j "skip" 0, limit := optInt j "limit" 0, proj := ← optDoc j "proj" }

def docsOpt (j : Json) (k : String) : Except String (List Doc) :=
  match j.getObjVal? k with
  | .ok (.arr xs) => xs.toList.mapM docOfJson
  | _ => pure []

def bulkModelOf (j : Json) : Except String BulkModel := do
  match optStr j "t" with
  | "insertOne" => pure (.insertOne (← Json.fieldDoc j "doc"))
  | "replaceOne" => pure (.replaceOne (← Json.fieldDoc j "q") (← Json.fieldDoc j "repl") (optBool j "upsert"))
  | "updateOne" => pure (.updateOne (← Json.fieldDoc j "q") (← Json.fieldDoc j "u") (optBool j "upsert") (← docsOpt j "filters"))
  | "updateMany" => pure (.updateMany (← Json.fieldDoc j "q") (← Json.fieldDoc j "u") (optBool j "upsert") (← docsOpt j "filters"))
  | "deleteOne" => pure (.deleteOne (← Json.fieldDoc j "q"))
  | "deleteMany" => pure (.deleteMany (← Json.fieldDoc j "q"))
  | t => throw s!"bad bulk model {t}"

def callOf (j : Json) : Except String Call := do
  let m ← Json.fieldStr j "m"
  match m with
  | "insertOne" => pure (.insertOne (← handleOf j) (← Json.fieldDoc j "doc"))
  | "insertMany" => pure (.insertMany (← handleOf j) (← Json.fieldDocs j "docs") (optBool j "ordered"))
  | "find" => pure (.find (← handleOf j) (← Json.fieldDoc j "q") (← findOpts j))
  | "findOne" => pure (.findOne (← handleOf j) (← Json.fieldDoc j "q") (← findOpts j))
  | "count" => pure (.count (← handleOf j) (← Json.fieldDoc j "q") (optInt j "skip" 0) (optInt j "limit" 0))
  | "estCount" => pure (.estCount (← handleOf j))
  | "distinct" => pure (.distinct (← handleOf j) (← Json.fieldStr j "field") (← Json.fieldDoc j "q"))
  | "updateOne" => pure (.updateOne (← handleOf j) (← Json.fieldDoc j "q") (← Json.fieldDoc j "u") (optBool j "upsert") (← docsOpt j "filters"))
  | "updateMany" => pure (.updateMany (← handleOf j) (← Json.fieldDoc j "q") (← Json.fieldDoc j "u") (optBool j "upsert") (← docsOpt j "filters"))
  | "replaceOne" => pure (.replaceOne (← handleOf j) (← Json.fieldDoc j "q") (← Json.fieldDoc j "repl") (optBool j "upsert"))
  | "deleteOne" => pure (.deleteOne (← handleOf j) (← Json.fieldDoc j "q"))
  | "deleteMany" => pure (.deleteMany (← handleOf j) (← Json.fieldDoc j "q"))
  | "findOneAndDelete" => pure (.findOneAndDelete (← handleOf j) (← Json.fieldDoc j "q") (← optDoc j "sort") (← optDoc j "proj"))
  | "findOneAndReplace" => pure (.findOneAndReplace (← handleOf j) (← Json.fieldDoc j "q") (← Json.fieldDoc j "repl") (← optDoc j "sort") (← optDoc j "proj") (optBool j "upsert") (optBool j "after"))
  | "findOneAndUpdate" => pure (.findOneAndUpdate (← handleOf j) (← Json.fieldDoc j "q") (← Json.fieldDoc j "u") (← optDoc j "sort") (← optDoc j "proj") (optBool j "upsert") (optBool j "after") (← docsOpt j "filters"))
  | "bulkWrite" => do
    let ms ← (← Json.fieldArr j "models").mapM bulkModelOf
    pure (.bulkWrite (← handleOf j) ms (optBool j "ordered"))
  | "createIndex" => do
    let cfg : IndexConfig := { key := ← Json.fieldDoc j "keys", unique := optBool j "unique", partialF := ← optDoc j "partial", expiry := optInt j "expiry" 0 }
    pure (.createIndex (← handleOf j) (optStr j "name") cfg)
  | "dropIndex" => pure (.dropIndex (← handleOf j) (← Json.fieldStr j "name"))
  | "dropAllIndexes" => pure (.dropAllIndexes (← handleOf j))
  | "dropIndexByKey" => pure (.dropIndexByKey (← handleOf j) (← Json.fieldDoc j "key"))
  | "listIndexes" => pure (.listIndexes (← handleOf j))
  | "createCollection" => pure (.createCollection (← handleOf j))
  | "dropCollection" => pure (.dropCollection (← handleOf j))
  | "dropDatabase" => pure (.dropDatabase (← Json.fieldStr j "db"))
  | "listCollections" => pure (.listCollections (← Json.fieldStr j "db") (← Json.fieldDoc j "q"))
  | "listDatabases" => pure (.listDatabases (← Json.fieldDoc j "q"))
  | "expire" => pure (.expire (← Json.fieldInt j "now"))
  | _ => throw s!"unknown method {m}"

def errName : Err → String
  | .err => "err" | .dup => "dup" | .notMatched => "notMatched" | .panic s => "panic:" ++ s | .unmodelled s => "unmodelled:" ++ s

def valsJ (vs : List V) : Json := Json.arr (vs.map V.toJson).toArray

def replyJ : Reply → Json
  | .unit => Json.mkObj [("unit", true)]
  | .id v => Json.mkObj [("id", v.toJson)]
  | .ids vs e => Json.mkObj [("ids", valsJ vs), ("err", match e with
      | some e => Json.str (errName e)
      | none => Json.null)]
  | .docs ds => Json.mkObj [("docs", Json.arr (ds.map docToJson).toArray)]
  | .doc d => Json.mkObj [("doc", match d with
      | some d => docToJson d
      | none => Json.null)]
  | .num n => Json.mkObj [("n", n)]
  | .vals vs => Json.mkObj [("vals", valsJ vs)]
  | .update m md u => Json.mkObj [("matched", m), ("modified", md), ("upserted", match u with
      | some v => v.toJson
      | none => Json.null)]
  | .bulk i m md d u uids errs => Json.mkObj [("inserted", i), ("matched", m), ("modified", md), ("deleted", d), ("upserted", u),
      ("upsertedIds", Json.arr (uids.map fun (k, v) => Json.arr #[(k : Nat), v.toJson]).toArray),
      ("errors", Json.arr (errs.map fun (k, e) => Json.arr #[(k : Nat), Json.str (errName e)]).toArray)]
  | .name s => Json.mkObj [("name", s)]
  | .names ss => Json.mkObj [("names", Json.arr (ss.map Json.str).toArray)]

def tupleJ (t : List V) : Json := valsJ t

/-- canonical dump: namespaces sorted by handle; per namespace documents (natural order), index
    definitions sorted by name with their entry key tuples (sorted by document position). -/
def dumpJ (s : Sys) : Json :=
  let nss := s.catalog.namespaces.toArray.qsort (fun a b => a.1.db < b.1.db || (a.1.db == b.1.db && a.1.coll < b.1.coll))
  Json.arr (nss.map fun (h, c) =>
    let pos (id : Nat) : Nat := (c.docs.findIdx? (·.id == id)).getD 1000000
    let idx := c.indexes.toArray.qsort (fun a b => a.1 < b.1)
    Json.mkObj [
      ("h", Json.arr #[.str h.db, .str h.coll]),
      ("docs", Json.arr (c.docs.map fun sd => docToJson sd.doc).toArray),
      ("indexes", Json.arr (idx.map fun (n, i) => Json.mkObj [
        ("name", n), ("key", docToJson i.config.key), ("unique", i.config.unique),
        ("partial", match i.config.partialF with
          | some p => docToJson p
          | none => Json.null),
        ("expiry", Json.num ⟨i.config.expiry, 0⟩),
        ("members", Json.arr ((((i.entries.map fun (_, id) => pos id).eraseDups).toArray.qsort (· < ·)).map fun (p : Nat) => (p : Json)))]))])

def opApiCall (st : DState) (j : Json) : DState × Json :=
  match callOf j with
  | .error e => (st, Json.mkObj [("bad", e)])
  | .ok c =>
    let oids : List V := match j.getObjVal? "oids" with
      | .ok (.arr xs) => xs.toList.filterMap fun x => (V.ofJson x).toOption
      | _ => []
    match st.sys.step schemaUnmodelled c oids with
    | .ok (s', r) => ({ st with sys := s' }, okJ (replyJ r))
    | .error e => (st, resJ (fun (_ : Unit) => Json.null) (.error e))

/-- session-level step: {"k": "start"|"commit"|"abort"|"end"|"call", "sid": n|null, (call fields…)} -/
def opSessStep (st : DState) (j : Json) : DState × Json :=
  let sidOpt : Option Nat := match j.getObjVal? "sid" with
    | .ok v => (jsonInt? v).map Int.toNat
    | .error _ => none
  let scall : Except String SCall := do
    match optStr j "k" with
    | "start" => pure (.start (sidOpt.getD 0))
    | "commit" => pure (.commit (sidOpt.getD 0))
    | "abort" => pure (.abort (sidOpt.getD 0))
    | "end" => pure (.endSession (sidOpt.getD 0))
    | "call" => do
      let c ← callOf j
      let oids : List V := match j.getObjVal? "oids" with
        | .ok (.arr xs) => xs.toList.filterMap fun x => (V.ofJson x).toOption
        | _ => []
      pure (.call sidOpt c oids)
    | k => throw s!"bad session step {k}"
  match scall with
  | .error e => (st, Json.mkObj [("bad", e)])
  | .ok sc =>
    let (s', r) := st.ssys.step schemaUnmodelled sc
    let rj : Json := match r with
      | .ok rep => okJ (replyJ rep)
      | .done => okJ (Json.mkObj [("done", true)])
      | .blocked => Json.mkObj [("blocked", true)]
      | .failed e => resJ (fun (_ : Unit) => Json.null) (.error e)
    ({ st with ssys := s' }, rj)

/-- a whole history from a fresh system (replay glue of stream `sess`): the replies of every step
    (`null` for steps marked `"skipModel": true`, which the model has no step for) and the final
    committed dump. -/
def opSessHistory (st : DState) (j : Json) : DState × Json :=
  let steps : List Json := match j.getObjVal? "steps" with
    | .ok (.arr xs) => xs.toList
    | _ => []
  let (st', replies) := steps.foldl (fun (acc : DState × List Json) sj =>
    if optBool sj "skipModel" then (acc.1, acc.2 ++ [Json.null])
    else
      let (s', r) := opSessStep acc.1 sj
      (s', acc.2 ++ [r])) ({ st with ssys := SSys.init }, [])
  (st', okJ (Json.mkObj [("replies", Json.arr replies.toArray), ("dump", dumpJ st'.ssys.sys)]))

def statefulOps : List (String × (DState → Json → DState × Json)) := [
  ("sess.history", opSessHistory),
  ("api.reset", fun _ _ => ({}, okJ Json.null)),
  ("api.call", opApiCall),
  ("api.dump", fun st _ => (st, okJ (dumpJ st.sys))),
  ("sess.reset", fun st _ => ({ st with ssys := SSys.init }, okJ Json.null)),
  ("sess.step", opSessStep),
  ("sess.dump", fun st _ => (st, okJ (dumpJ st.ssys.sys))),
  ("sess.dumpTxn", fun st j =>
    let sid := (optInt j "sid" 0).toNat
    match (st.ssys.sess sid).txn with
    | some t => (st, okJ (dumpJ { st.ssys.sys with catalog := t.catalog }))
    | none => (st, okJ Json.null))]

end Driver
