import Driver.Ops
import Lungo.Model.Compare
open Lean Lungo
namespace Driver

def opCmp : Op := fun j => do
  let a ← Json.fieldV j "a"
  let b ← Json.fieldV j "b"
  pure (okJ (Json.num ⟨(V.cmp a b).toInt, 0⟩))

def opsCompare : List (String × Op) := [("cmp", opCmp)]

end Driver
