/-
  Driver.OpsFS — line-protocol ops of the crash model (C05).
    {"op":"fs.steps"} → {"ok":{"steps":[…],"calls":[…]}}
        steps: the expected step list of AtomicWriteFile ("call:<name>:<onErr>" / "defer:<name>,<name>");
        calls: the system-call order of a fault-free run with one write (main line, then deferred calls).
    {"op":"fs.images","old":"<hex>"|null,"new":"<hex>","k":n,"stale":bool[,"split":n]} →
        {"ok":{"images":[{"path":"<hex>"|null,"tmp":"<hex>"|null}…],"finished":bool,"err":bool,"pending":n}}
        representative post-crash images after the first k system calls (deduplicated).
    {"op":"fs.shapes"} → {"ok":[{"old":"<hex>"|null,"chunks":["<hex>"…],"stale":bool}…]}
        the content shapes of `AtomicSearch.shapes` (the ones named in `Props.C05.search_expected_safe`).
    {"op":"fs.search","steps":[{"call":"<name>","onErr":"<name>"}|{"defer":["<name>"…]}…]|"expected",
                      "tmp":"path+.tmp"|"path","old":"<hex>"|null,"chunks":["<hex>"…],"stale":bool} →
        {"ok":"safe","explored":N}                       no counterexample among N post-crash states
      | {"ce":{"kind":"notOldOrNew"|"ackedLost"|"failedChanged"|"rerunFails","k":n,
               "fault":null|{"call":j,"bytes":n},"image":"kill"|"powerloss",
               "mask":[bool…]|null,"pendingOps":["link 1 2"…],"tmpBytes":null|{"len":n,"garbage":bool},"tmpPending":n,
               "loads":"<hex>"|null,"tmpLoads":"<hex>"|null,"finished":bool,"err":bool,
               "trace":["removeTmp:ok"…]}}              first counterexample of `AtomicSearch.search`
      | {"unrepresentable":"<name>"}                     a call / policy / temp name outside the model's vocabulary
        counterexample search on THE GIVEN step list (the one regenerated from /repo), `Lungo.Model.AtomicSearch`.
-/
import Driver.Ops
import Lungo.Model.AtomicWrite
import Lungo.Model.AtomicSearch
import Lungo.Expected.AtomicWrite
open Lean Lungo Lungo.FS Lungo.AtomicWrite Lungo.AtomicSearch
namespace Driver

def callName : Call → String
  | .removeTmp => "removeTmp" | .createExclTmp => "createExclTmp" | .writeTmp => "writeTmp"
  | .fsyncTmp => "fsyncTmp" | .closeTmp => "closeTmp" | .renameTmpToPath => "renameTmpToPath"
  | .openDir => "openDir" | .fsyncDir => "fsyncDir" | .closeDir => "closeDir"

def onErrName : OnErr → String
  | .ret => "ret" | .retUnlessNotExist => "retUnlessNotExist" | .ignore => "ignore"

def stepName : Step → String
  | .call c e => s!"call:{callName c}:{onErrName e}"
  | .defer cs => "defer:" ++ ",".intercalate (cs.map callName)

def opFsSteps : Op := fun _ => do
  let p := compile [[]] Expected.atomicWriteSteps []
  let calls := p.1.map (fun i => callName i.call) ++ p.2.map callName
  pure (okJ (Json.mkObj [
    ("steps", Json.arr (Expected.atomicWriteSteps.map (fun s => Json.str (stepName s))).toArray),
    ("calls", Json.arr (calls.map Json.str).toArray)]))

def optHex (o : Option Bytes) : Json :=
  match o with
  | none => Json.null
  | some b => Json.str (hexOfBytes b)

def hexField (j : Json) (k : String) : Except String (Option Bytes) := do
  match ← Json.field j k with
  | .null => pure none
  | .str s => match parseHexBytes s with
    | some b => pure (some b)
    | none => throw s!"field {k}: bad hex"
  | _ => throw s!"field {k}: expected hex string or null"

def opFsImages : Op := fun j => do
  let old ← hexField j "old"
  let new ← match ← hexField j "new" with
    | some b => pure b
    | none => throw "field new: null"
  let k := (← Json.fieldInt j "k").toNat
  let stale ← Json.fieldBool j "stale"
  let chunks : List Bytes := match j.getObjVal? "split" with
    | .ok v => match jsonInt? v with
      | some n => [new.take n.toNat, new.drop n.toNat]
      | none => [new]
    | .error _ => [new]
  let r := interpUpTo Expected.atomicWriteSteps 0 1 chunks noFaults k (fsInit old stale)
  let imgs := (crashImages r.1).map (fun s => (load s 0, load s 1))
  let imgs := imgs.eraseDups
  pure (okJ (Json.mkObj [
    ("images", Json.arr (imgs.map (fun (p, t) => Json.mkObj [("path", optHex p), ("tmp", optHex t)])).toArray),
    ("finished", Json.bool r.2), ("err", Json.bool r.1.err), ("pending", Json.num ⟨r.1.fs.pending.length, 0⟩)]))

/-! ### fs.search -/

def callOfName (n : String) : Option Call :=
  [Call.removeTmp, .createExclTmp, .writeTmp, .fsyncTmp, .closeTmp, .renameTmpToPath, .openDir, .fsyncDir, .closeDir].find?
    (fun c => callName c == n)

def onErrOfName (n : String) : Option OnErr :=
  [OnErr.ret, .retUnlessNotExist, .ignore].find? (fun e => onErrName e == n)

/-- `.error name` = outside the vocabulary -/
def stepOfJson (j : Json) : Except String (Except String Step) := do
  match j.getObjVal? "call" with
  | .ok (.str c) =>
    let e ← match j.getObjVal? "onErr" with
      | .ok (.str e) => pure e
      | _ => throw "step: missing onErr"
    match callOfName c, onErrOfName e with
    | some c, some e => pure (.ok (.call c e))
    | none, _ => pure (.error c)
    | _, none => pure (.error e)
  | _ =>
    match j.getObjVal? "defer" with
    | .ok (.arr cs) =>
      let mut out : List Call := []
      for c in cs do
        match c with
        | .str n => match callOfName n with
          | some c => out := out ++ [c]
          | none => return .error n
        | _ => throw "defer: expected call names"
      pure (.ok (.defer out))
    | _ => throw "step: expected {call,onErr} or {defer}"

def stepsOfJson (j : Json) : Except String (Except String (List Step)) := do
  match j with
  | .str "expected" => pure (.ok Expected.atomicWriteSteps)
  | .arr a =>
    let mut out : List Step := []
    for x in a do
      match ← stepOfJson x with
      | .ok s => out := out ++ [s]
      | .error n => return .error n
    pure (.ok out)
  | _ => throw "field steps: expected an array or \"expected\""

def fsErrName : Option FS.Err → String
  | none => "ok" | some .notExist => "notExist" | some .exist => "exist" | some .badFd => "badFd" | some .io => "io"

def fsDirOpName : DirOp → String
  | .link n i => s!"link {n} {i}" | .unlink n => s!"unlink {n}" | .rename a b i => s!"rename {a} {b} {i}"

def fsKindName : Kind → String
  | .notOldOrNew => "notOldOrNew" | .ackedLost => "ackedLost" | .failedChanged => "failedChanged" | .rerunFails => "rerunFails"

def ceJson (P : Params) (ce : CE) : Json :=
  let f := faultsOf ce.fault
  let r := interpUpTo P.steps P.path P.tmp P.chunks f ce.k P.s0
  let tr := traceUpTo P.steps P.path P.tmp P.chunks f ce.k P.s0
  Json.mkObj [
    ("kind", fsKindName ce.kind), ("k", Json.num ⟨ce.k, 0⟩),
    ("fault", match ce.fault with
      | none => Json.null
      | some (j, n) => Json.mkObj [("call", Json.num ⟨j, 0⟩), ("bytes", Json.num ⟨n, 0⟩)]),
    ("image", match ce.img with | none => "kill" | some _ => "powerloss"),
    ("mask", match ce.img with
      | none => Json.null
      | some d => Json.arr (d.mask.map Json.bool).toArray),
    ("pendingOps", Json.arr (r.1.fs.pending.map (fun o => Json.str (fsDirOpName o))).toArray),
    ("tmpBytes", match ce.img with
      | none => Json.null
      | some d => Json.mkObj [("len", Json.num ⟨d.len, 0⟩), ("garbage", Json.bool d.flipped)]),
    ("tmpPending", Json.num ⟨(r.1.tmpH.map (fun h => ((r.1.fs.ino h).pend).length)).getD 0, 0⟩),
    ("loads", optHex (load ce.st P.path)), ("tmpLoads", optHex (load ce.st 1)),
    ("finished", Json.bool r.2), ("err", Json.bool r.1.err),
    ("trace", Json.arr (tr.map (fun e => Json.str (callName e.1 ++ ":" ++ fsErrName e.2))).toArray)]

def fsHexList (j : Json) (k : String) : Except String (List Bytes) := do
  match ← Json.field j k with
  | .arr a =>
    let mut out : List Bytes := []
    for x in a do
      match x with
      | .str s => match parseHexBytes s with
        | some b => out := out ++ [b]
        | none => throw s!"field {k}: bad hex"
      | _ => throw s!"field {k}: expected hex strings"
    pure out
  | _ => throw s!"field {k}: expected an array of hex strings"

def opFsSearch : Op := fun j => do
  let old ← hexField j "old"
  let chunks ← fsHexList j "chunks"
  let stale ← Json.fieldBool j "stale"
  let inPlace ← match ← Json.field j "tmp" with
    | .str "path+.tmp" => pure (some false)
    | .str "path" => pure (some true)
    | _ => pure none
  match inPlace with
  | none => pure (Json.mkObj [("unrepresentable", "tmp")])
  | some inPlace =>
  match ← stepsOfJson (← Json.field j "steps") with
  | .error n => pure (Json.mkObj [("unrepresentable", n)])
  | .ok steps =>
    let P := paramsOf steps inPlace ⟨old, chunks, stale⟩
    match search P with
    | some ce => pure (Json.mkObj [("ce", ceJson P ce)])
    | none => pure (Json.mkObj [("ok", "safe"), ("explored", Json.num ⟨explored P, 0⟩)])

def opFsShapes : Op := fun _ =>
  pure (okJ (Json.arr (shapes.map (fun sh => Json.mkObj [
    ("old", optHex sh.old), ("chunks", Json.arr (sh.chunks.map (fun b => Json.str (hexOfBytes b))).toArray),
    ("stale", Json.bool sh.stale)])).toArray))

def opsFS : List (String × Op) :=
  [("fs.steps", opFsSteps), ("fs.images", opFsImages), ("fs.search", opFsSearch), ("fs.shapes", opFsShapes)]

end Driver
