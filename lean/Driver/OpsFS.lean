/-
  Driver.OpsFS — line-protocol ops of the crash model (C05).
    {"op":"fs.steps"} → {"ok":{"steps":[…],"calls":[…]}}
        steps: the expected step list of AtomicWriteFile ("call:<name>:<onErr>" / "defer:<name>,<name>");
        calls: the system-call order of a fault-free run with one write (main line, then deferred calls).
    {"op":"fs.images","old":"<hex>"|null,"new":"<hex>","k":n,"stale":bool[,"split":n]} →
        {"ok":{"images":[{"path":"<hex>"|null,"tmp":"<hex>"|null}…],"finished":bool,"err":bool,"pending":n}}
        representative post-crash images after the first k system calls (deduplicated).
-/
import Driver.Ops
import Lungo.Model.AtomicWrite
import Lungo.Expected.AtomicWrite
open Lean Lungo Lungo.FS Lungo.AtomicWrite
namespace Driver

def callName : Call → String
  | .removeTmp => "removeTmp" | .createExclTmp => "createExclTmp" | .writeTmp => "writeTmp"
  | .fsyncTmp => "fsyncTmp" | .closeTmp => "closeTmp" | .renameTmpToPath => "renameTmpToPath"
  | .openDir => "openDir" | .fsyncDir => "fsyncDir" | .closeDir => "closeDir"

def onErrName : OnErr → String
  | .ret => "ret" | .retUnlessNotExist => "retUnlessNotExist" | .ignore => "ignore"

def stepName : Step → String
  | .call c e => s!"call:{callName c}:{onErrName e}"
  | .defer cs => "defer:" ++ ",".intercalate (cs.map callName)

def opFsSteps : Op := fun _ => do
  let p := compile [[]] Expected.atomicWriteSteps []
  let calls := p.1.map (fun i => callName i.call) ++ p.2.map callName
  pure (okJ (Json.mkObj [
    ("steps", Json.arr (Expected.atomicWriteSteps.map (fun s => Json.str (stepName s))).toArray),
    ("calls", Json.arr (calls.map Json.str).toArray)]))

def optHex (o : Option Bytes) : Json :=
  match o with
  | none => Json.null
  | some b => Json.str (hexOfBytes b)

def fsInit (old : Option Bytes) (stale : Bool) : State :=
  { ino := fun i => if i = 0 then ⟨old.getD [], []⟩ else if i = 1 then ⟨[0xAA], [0xBB, 0xCC]⟩ else ⟨[], []⟩,
    next := 2,
    vdir := fun n => if n = 0 then (if old.isSome then some 0 else none) else if n = 1 then (if stale then some 1 else none) else none,
    ddir := fun n => if n = 0 then (if old.isSome then some 0 else none) else if n = 1 then (if stale then some 1 else none) else none,
    pending := [], fds := [] }

def hexField (j : Json) (k : String) : Except String (Option Bytes) := do
  match ← Json.field j k with
  | .null => pure none
  | .str s => match parseHexBytes s with
    | some b => pure (some b)
    | none => throw s!"field {k}: bad hex"
  | _ => throw s!"field {k}: expected hex string or null"

def opFsImages : Op := fun j => do
  let old ← hexField j "old"
  let new ← match ← hexField j "new" with
    | some b => pure b
    | none => throw "field new: null"
  let k := (← Json.fieldInt j "k").toNat
  let stale ← Json.fieldBool j "stale"
  let chunks : List Bytes := match j.getObjVal? "split" with
    | .ok v => match jsonInt? v with
      | some n => [new.take n.toNat, new.drop n.toNat]
      | none => [new]
    | .error _ => [new]
  let r := interpUpTo Expected.atomicWriteSteps 0 1 chunks noFaults k (fsInit old stale)
  let imgs := (crashImages r.1).map (fun s => (load s 0, load s 1))
  let imgs := imgs.eraseDups
  pure (okJ (Json.mkObj [
    ("images", Json.arr (imgs.map (fun (p, t) => Json.mkObj [("path", optHex p), ("tmp", optHex t)])).toArray),
    ("finished", Json.bool r.2), ("err", Json.bool r.1.err), ("pending", Json.num ⟨r.1.fs.pending.length, 0⟩)]))

def opsFS : List (String × Op) := [("fs.steps", opFsSteps), ("fs.images", opFsImages)]

end Driver
