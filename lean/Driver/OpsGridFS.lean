/-
  Driver.OpsGridFS — op `gridfs.run` (C18): one upload lifecycle + one download script on the model.

  Request
    {"op":"gridfs.run","buf":B,"chunk":c,"tracked":bool,
     "content":{"len":L,"seed":s}        byte i = (i*31+s) % 251
             | {"hex":"…"},
     "life":[["write",n] | ["suspend"] | ["open"] | ["resume"] | ["close"] | ["abort"]
            | ["claim"] | ["delete"] | ["cleanup"] …],
     "script":[["read",n] | ["seek",off,whence] | ["skip",n] …]}
  The client keeps a content offset `off`: "write n" writes content[off, off+n) and advances `off`;
  "open" replaces the upload stream by a new one for the same file id and sets off := 0;
  a successful "resume" sets off := returned length.  An upload stream is opened at the start (its
  result is the first entry of "life"); when an open fails (chunk ≤ 0 or chunk > buf) there is no
  stream and the stream operations write/suspend/resume/close/abort are skipped (["x"]).
  Reply
    {"ok":{"life":[["w",written,err] | ["s",len,err] | ["o",err] | ["x"] | ["r",len,err] | ["c",err] | ["a",err]
                  | ["k",err] | ["d",err] | ["u",err] …],
           "chunks":[[n,len,digest]…]   (.chunks of the file, sorted by n)
           "file":[length,chunkSize] | null, "marker":[state,length,chunkSize] | null,
           "open":err|null, "reads":[["r",n,digest,err] | ["p",pos,err] …]}}
  digest = hex for ≤ 16 bytes, otherwise "#" + FNV-1a-64 (16 hex digits).  err = class name | null.
  buf ≤ 0 → {"bad":…}.
-/
import Driver.Ops
import Lungo.Model.GridFS
open Lean Lungo Lungo.GridFS
namespace Driver

def genContent (seed : Nat) : Nat → List UInt8 → List UInt8
  | 0, acc => acc
  | i + 1, acc => genContent seed i (UInt8.ofNat ((i * 31 + seed) % 251) :: acc)

def fnv1a (l : List UInt8) : UInt64 :=
  l.foldl (fun h b => (h ^^^ b.toUInt64) * 1099511628211) 14695981039346656037

def digest (l : List UInt8) : String :=
  if l.length ≤ 16 then hexOfBytes l else "#" ++ hexOfU64 (fnv1a l)

def jNat (n : Nat) : Json := Json.num ⟨(n : Int), 0⟩
def jErr : Option GridFS.Err → Json
  | none => Json.null
  | some e => Json.str e.name

def natField (j : Json) (k : String) : Except String Nat := do
  match jsonInt? (← j.getObjVal? k) with
  | some i => if i < 0 then throw s!"negative {k}" else pure i.toNat
  | none => throw s!"bad {k}"

def arrInt (a : Array Json) (i : Nat) : Except String Int :=
  match a[i]? with
  | some j => match jsonInt? j with
    | some n => pure n
    | none => throw "bad int"
  | none => throw "missing arg"

def arrNat (a : Array Json) (i : Nat) : Except String Nat := do
  let n ← arrInt a i
  if n < 0 then throw "negative" else pure n.toNat

def parseScript (j : Json) : Except String (List ROp) := do
  let arr ← j.getArr?
  arr.toList.mapM fun e => do
    let a ← e.getArr?
    match a[0]? with
    | some (.str "read") => pure (ROp.read (← arrNat a 1))
    | some (.str "seek") => pure (ROp.seek (← arrInt a 1) (← arrInt a 2))
    | some (.str "skip") => pure (ROp.skip (← arrInt a 1))
    | _ => throw "bad script op"

structure Life where
  st : Store
  s? : Option UploadStream
  off : Nat
  out : Array Json

def openJ (tracked : Bool) (id : Nat) (c : Int) (buf : Nat) : Option UploadStream × Json :=
  match openUpload tracked id c buf with
  | .ok s => (some s, Json.arr #[Json.str "o", Json.null])
  | .error e => (none, Json.arr #[Json.str "o", jErr (some e)])

def lifeStepS (content : List UInt8) (l : Life) (s : UploadStream) (tag : String)
    (a : Array Json) : Except String Life := do
  match tag with
  | "write" =>
    let n ← arrNat a 1
    let data := (content.drop l.off).take n
    let (st, s, w, err) := s.write l.st data
    pure { l with st, s? := some s, off := if err.isNone then l.off + w else l.off, out := l.out.push (Json.arr #[Json.str "w", jNat w, jErr err]) }
  | "suspend" =>
    let (st, s, n, err) := s.suspend l.st
    pure { l with st, s? := some s, out := l.out.push (Json.arr #[Json.str "s", jNat n, jErr err]) }
  | "resume" =>
    let (s, n, err) := s.resume l.st
    pure { l with s? := some s, off := if err.isNone then n else l.off, out := l.out.push (Json.arr #[Json.str "r", jNat n, jErr err]) }
  | "close" =>
    let (st, s, err) := s.close l.st
    pure { l with st, s? := some s, out := l.out.push (Json.arr #[Json.str "c", jErr err]) }
  | "abort" =>
    let (st, s, err) := s.abort l.st
    pure { l with st, s? := some s, out := l.out.push (Json.arr #[Json.str "a", jErr err]) }
  | _ => throw "bad life op"


def lifeStep (content : List UInt8) (tracked : Bool) (id : Nat) (c : Int) (buf : Nat) (l : Life) (e : Json) : Except String Life := do
  let a ← e.getArr?
  let tag : String := match a[0]? with
    | some (Json.str t) => t
    | _ => ""
  match tag with
  | "open" =>
    let (s?, j) := openJ tracked id c buf
    pure { l with s?, off := 0, out := l.out.push j }
  | "claim" =>
    let (st, err) := claimUpload l.st tracked id
    pure { l with st, out := l.out.push (Json.arr #[Json.str "k", jErr err]) }
  | "delete" =>
    let (st, err) := delete l.st tracked id
    pure { l with st, out := l.out.push (Json.arr #[Json.str "d", jErr err]) }
  | "cleanup" =>
    let (st, err) := cleanup l.st tracked
    pure { l with st, out := l.out.push (Json.arr #[Json.str "u", jErr err]) }
  | _ =>
    match l.s? with
    | some s => lifeStepS content l s tag a
    | none =>
      if tag == "write" || tag == "suspend" || tag == "resume" || tag == "close" || tag == "abort" then
        pure { l with out := l.out.push (Json.arr #[Json.str "x"]) }
      else throw "bad life op"

def outJson : ROp → ROut → Json
  | .read _, o => Json.arr #[Json.str "r", jNat o.ret, Json.str (digest o.bytes), jErr o.err]
  | _, o => Json.arr #[Json.str "p", jNat o.ret, jErr o.err]

def opGridFS : Op := fun j => do
  let buf ← natField j "buf"
  let c ← match jsonInt? (← j.getObjVal? "chunk") with
    | some i => pure i
    | none => throw "bad chunk"
  if buf = 0 then throw "buf must be positive"
  let tracked ← match j.getObjVal? "tracked" with
    | .ok (.bool b) => pure b
    | _ => throw "bad tracked"
  let cj ← j.getObjVal? "content"
  let content ← match cj.getObjVal? "hex" with
    | .ok (.str h) => match parseHexBytes h with
      | some b => pure b
      | none => throw "bad hex"
    | _ => do
      let len ← natField cj "len"
      let seed ← natField cj "seed"
      pure (genContent seed len [])
  let lifeJ ← (← j.getObjVal? "life").getArr?
  let script ← parseScript (← j.getObjVal? "script")
  let id := 1
  let (s0?, j0) := openJ tracked id c buf
  let l0 : Life := { st := {}, s? := s0?, off := 0, out := #[j0] }
  let l ← lifeJ.foldlM (lifeStep content tracked id c buf) l0
  let st := l.st
  let chunks := (st.chunksOfFile id).map fun d => Json.arr #[jNat d.n, jNat d.data.length, Json.str (digest d.data)]
  let file := match st.findFile id with
    | some f => Json.arr #[jNat f.length, jNat f.chunkSize]
    | none => Json.null
  let marker := match st.findMarker id with
    | some m => Json.arr #[Json.str m.state.name, jNat m.length, jNat m.chunkSize]
    | none => Json.null
  let (openE, reads) := match DownloadStream.open st id with
    | .error e => (jErr (some e), ([] : List Json))
    | .ok ds => (Json.null, (script.zip (ds.run st script)).map fun (p : ROp × ROut) => outJson p.1 p.2)
  pure (okJ (Json.mkObj [
    ("life", Json.arr l.out), ("chunks", Json.arr chunks.toArray), ("file", file), ("marker", marker),
    ("open", openE), ("reads", Json.arr reads.toArray)]))

/-! ## op `gridfs.multi`: several upload / download streams of one bucket alive at the same time

  Request
    {"op":"gridfs.multi","buf":B,"tracked":bool,"nfiles":k,"contents":[content…],
     "ops":[["open",h,fid,chunk,ci] | ["write",h,n] | ["close",h] | ["abort",h] | ["suspend",h] | ["resume",h]
           | ["upload",fid,chunk,ci] | ["claim",fid] | ["delete",fid] | ["cleanup"]
           | ["dopen",d,fid] | ["dread",d,n] | ["dseek",d,off,whence] …]}
  Upload handles `h` and download handles `d` are keys of two maps of model streams over ONE store; a
  handle keeps the index `ci` of the content it writes and its offset (as the client of gridfs.run).
  "upload" is UploadFromStreamWithID with a bytes.Reader (one Write of everything; Abort when the Write
  fails; Close; Abort when the Close fails).  An operation on a handle that does not exist (failed open) replies ["x"].
  Reply {"ok":{"life":[… as gridfs.run, plus ["U",err] ["O",err]],"state":[[chunks,file,marker] for fid 1..k]}}
-/

structure UpH where
  s : UploadStream
  ci : Nat
  off : Nat

structure Multi where
  st : Store := {}
  ups : List (Nat × UpH) := []
  downs : List (Nat × DownloadStream) := []
  out : Array Json := #[]

def aInsert {α : Type} (l : List (Nat × α)) (k : Nat) (v : α) : List (Nat × α) :=
  (k, v) :: l.filter fun p => p.1 != k

def aErase {α : Type} (l : List (Nat × α)) (k : Nat) : List (Nat × α) :=
  l.filter fun p => p.1 != k

def Multi.push (m : Multi) (j : Json) : Multi := { m with out := m.out.push j }

def contentAt (contents : Array (List UInt8)) (ci : Nat) : List UInt8 :=
  match contents[ci]? with
  | some c => c
  | none => []

def multiStep (contents : Array (List UInt8)) (tracked : Bool) (buf : Nat) (m : Multi) (e : Json) : Except String Multi := do
  let a ← e.getArr?
  let tag : String := match a[0]? with
    | some (Json.str t) => t
    | _ => ""
  let x := Json.arr #[Json.str "x"]
  match tag with
  | "open" =>
    let h ← arrNat a 1
    let fid ← arrNat a 2
    let c ← arrInt a 3
    let ci ← arrNat a 4
    match openUpload tracked fid c buf with
    | .ok s => pure ({ m with ups := aInsert m.ups h ⟨s, ci, 0⟩ }.push (Json.arr #[Json.str "o", Json.null]))
    | .error err => pure ({ m with ups := aErase m.ups h }.push (Json.arr #[Json.str "o", jErr (some err)]))
  | "write" =>
    let h ← arrNat a 1
    let n ← arrNat a 2
    match m.ups.lookup h with
    | none => pure (m.push x)
    | some u =>
      let data := ((contentAt contents u.ci).drop u.off).take n
      let (st, s, w, err) := u.s.write m.st data
      pure ({ m with st, ups := aInsert m.ups h ⟨s, u.ci, if err.isNone then u.off + w else u.off⟩ }.push
        (Json.arr #[Json.str "w", jNat w, jErr err]))
  | "close" =>
    let h ← arrNat a 1
    match m.ups.lookup h with
    | none => pure (m.push x)
    | some u =>
      let (st, s, err) := u.s.close m.st
      pure ({ m with st, ups := aInsert m.ups h { u with s } }.push (Json.arr #[Json.str "c", jErr err]))
  | "abort" =>
    let h ← arrNat a 1
    match m.ups.lookup h with
    | none => pure (m.push x)
    | some u =>
      let (st, s, err) := u.s.abort m.st
      pure ({ m with st, ups := aInsert m.ups h { u with s } }.push (Json.arr #[Json.str "a", jErr err]))
  | "suspend" =>
    let h ← arrNat a 1
    match m.ups.lookup h with
    | none => pure (m.push x)
    | some u =>
      let (st, s, n, err) := u.s.suspend m.st
      pure ({ m with st, ups := aInsert m.ups h { u with s } }.push (Json.arr #[Json.str "s", jNat n, jErr err]))
  | "resume" =>
    let h ← arrNat a 1
    match m.ups.lookup h with
    | none => pure (m.push x)
    | some u =>
      let (s, n, err) := u.s.resume m.st
      pure ({ m with ups := aInsert m.ups h ⟨s, u.ci, if err.isNone then n else u.off⟩ }.push
        (Json.arr #[Json.str "r", jNat n, jErr err]))
  | "upload" =>
    let fid ← arrNat a 1
    let c ← arrInt a 2
    let ci ← arrNat a 3
    match openUpload tracked fid c buf with
    | .error err => pure (m.push (Json.arr #[Json.str "U", jErr (some err)]))
    | .ok s =>
      match s.write m.st (contentAt contents ci) with
      | (st, s, _, some err) =>
        let (st, _, _) := s.abort st
        pure ({ m with st }.push (Json.arr #[Json.str "U", jErr (some err)]))
      | (st, s, _, none) =>
        match s.close st with
        | (st, s, some err) =>
          let (st, _, _) := s.abort st     -- a failed Close leaves the stream open: Abort removes its chunks / marker
          pure ({ m with st }.push (Json.arr #[Json.str "U", jErr (some err)]))
        | (st, _, none) => pure ({ m with st }.push (Json.arr #[Json.str "U", Json.null]))
  | "claim" =>
    let (st, err) := claimUpload m.st tracked (← arrNat a 1)
    pure ({ m with st }.push (Json.arr #[Json.str "k", jErr err]))
  | "delete" =>
    let (st, err) := delete m.st tracked (← arrNat a 1)
    pure ({ m with st }.push (Json.arr #[Json.str "d", jErr err]))
  | "cleanup" =>
    let (st, err) := cleanup m.st tracked
    pure ({ m with st }.push (Json.arr #[Json.str "u", jErr err]))
  | "dopen" =>
    let d ← arrNat a 1
    let fid ← arrNat a 2
    match DownloadStream.open m.st fid with
    | .ok ds => pure ({ m with downs := aInsert m.downs d ds }.push (Json.arr #[Json.str "O", Json.null]))
    | .error err => pure ({ m with downs := aErase m.downs d }.push (Json.arr #[Json.str "O", jErr (some err)]))
  | "dread" =>
    let d ← arrNat a 1
    let n ← arrNat a 2
    match m.downs.lookup d with
    | none => pure (m.push x)
    | some ds =>
      let r := ds.step m.st (.read n)
      pure ({ m with downs := aInsert m.downs d r.1 }.push (outJson (.read n) r.2))
  | "dseek" =>
    let d ← arrNat a 1
    let off ← arrInt a 2
    let wh ← arrInt a 3
    match m.downs.lookup d with
    | none => pure (m.push x)
    | some ds =>
      let r := ds.step m.st (.seek off wh)
      pure ({ m with downs := aInsert m.downs d r.1 }.push (outJson (.seek off wh) r.2))
  | _ => throw "bad multi op"

def parseContent (cj : Json) : Except String (List UInt8) :=
  match cj.getObjVal? "hex" with
  | .ok (.str h) => match parseHexBytes h with
    | some b => pure b
    | none => throw "bad hex"
  | _ => do
    let len ← natField cj "len"
    let seed ← natField cj "seed"
    pure (genContent seed len [])

def opGridFSMulti : Op := fun j => do
  let buf ← natField j "buf"
  if buf = 0 then throw "buf must be positive"
  let tracked ← match j.getObjVal? "tracked" with
    | .ok (.bool b) => pure b
    | _ => throw "bad tracked"
  let nfiles ← natField j "nfiles"
  let contents ← (← (← j.getObjVal? "contents").getArr?).mapM parseContent
  let ops ← (← j.getObjVal? "ops").getArr?
  let m ← ops.foldlM (multiStep contents tracked buf) ({} : Multi)
  let st := m.st
  let state := (List.range nfiles).map fun i =>
    let id := i + 1
    let chunks := (st.chunksOfFile id).map fun d => Json.arr #[jNat d.n, jNat d.data.length, Json.str (digest d.data)]
    let file := match st.findFile id with
      | some f => Json.arr #[jNat f.length, jNat f.chunkSize]
      | none => Json.null
    let marker := match st.findMarker id with
      | some mk => Json.arr #[Json.str mk.state.name, jNat mk.length, jNat mk.chunkSize]
      | none => Json.null
    Json.arr #[Json.arr chunks.toArray, file, marker]
  pure (okJ (Json.mkObj [("life", Json.arr m.out), ("state", Json.arr state.toArray)]))

def opsGridFS : List (String × Op) := [("gridfs.run", opGridFS), ("gridfs.multi", opGridFSMulti)]

end Driver
