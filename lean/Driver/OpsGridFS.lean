/-
  Driver.OpsGridFS — op `gridfs.run` (C18): one upload lifecycle + one download script on the model.

  Request
    {"op":"gridfs.run","buf":B,"chunk":c,"tracked":bool,
     "content":{"len":L,"seed":s}        byte i = (i*31+s) % 251
             | {"hex":"…"},
     "life":[["write",n] | ["suspend"] | ["open"] | ["resume"] | ["close"] | ["abort"]
            | ["claim"] | ["delete"] | ["cleanup"] …],
     "script":[["read",n] | ["seek",off,whence] | ["skip",n] …]}
  The client keeps a content offset `off`: "write n" writes content[off, off+n) and advances `off`;
  "open" replaces the upload stream by a new one for the same file id and sets off := 0;
  a successful "resume" sets off := returned length.  An upload stream is open at the start.
  Reply
    {"ok":{"life":[["w",written,err] | ["s",len,err] | ["o"] | ["r",len,err] | ["c",err] | ["a",err]
                  | ["k",err] | ["d",err] | ["u",err] …],
           "chunks":[[n,len,digest]…]   (.chunks of the file, sorted by n)
           "file":[length,chunkSize] | null, "marker":[state,length,chunkSize] | null,
           "open":err|null, "reads":[["r",n,digest,err] | ["p",pos,err] …]}}
  digest = hex for ≤ 16 bytes, otherwise "#" + FNV-1a-64 (16 hex digits).  err = class name | null.
  chunk ≤ 0 or buf ≤ 0 → {"bad":…} (the harness never sends them; see the termination guards of the model).
-/
import Driver.Ops
import Lungo.Model.GridFS
open Lean Lungo Lungo.GridFS
namespace Driver

def genContent (seed : Nat) : Nat → List UInt8 → List UInt8
  | 0, acc => acc
  | i + 1, acc => genContent seed i (UInt8.ofNat ((i * 31 + seed) % 251) :: acc)

def fnv1a (l : List UInt8) : UInt64 :=
  l.foldl (fun h b => (h ^^^ b.toUInt64) * 1099511628211) 14695981039346656037

def digest (l : List UInt8) : String :=
  if l.length ≤ 16 then hexOfBytes l else "#" ++ hexOfU64 (fnv1a l)

def jNat (n : Nat) : Json := Json.num ⟨(n : Int), 0⟩
def jErr : Option GridFS.Err → Json
  | none => Json.null
  | some e => Json.str e.name

def natField (j : Json) (k : String) : Except String Nat := do
  match jsonInt? (← j.getObjVal? k) with
  | some i => if i < 0 then throw s!"negative {k}" else pure i.toNat
  | none => throw s!"bad {k}"

def arrInt (a : Array Json) (i : Nat) : Except String Int :=
  match a[i]? with
  | some j => match jsonInt? j with
    | some n => pure n
    | none => throw "bad int"
  | none => throw "missing arg"

def arrNat (a : Array Json) (i : Nat) : Except String Nat := do
  let n ← arrInt a i
  if n < 0 then throw "negative" else pure n.toNat

def parseScript (j : Json) : Except String (List ROp) := do
  let arr ← j.getArr?
  arr.toList.mapM fun e => do
    let a ← e.getArr?
    match a[0]? with
    | some (.str "read") => pure (ROp.read (← arrNat a 1))
    | some (.str "seek") => pure (ROp.seek (← arrInt a 1) (← arrInt a 2))
    | some (.str "skip") => pure (ROp.skip (← arrInt a 1))
    | _ => throw "bad script op"

structure Life where
  st : Store
  s : UploadStream
  off : Nat
  out : Array Json

def lifeStep (content : List UInt8) (tracked : Bool) (id c buf : Nat) (l : Life) (e : Json) : Except String Life := do
  let a ← e.getArr?
  let tag : String := match a[0]? with
    | some (Json.str t) => t
    | _ => ""
  match tag with
  | "write" =>
    let n ← arrNat a 1
    let data := (content.drop l.off).take n
    let (st, s, w, err) := l.s.write l.st data
    pure { l with st, s, off := if err.isNone then l.off + w else l.off, out := l.out.push (Json.arr #[Json.str "w", jNat w, jErr err]) }
  | "suspend" =>
    let (st, s, n, err) := l.s.suspend l.st
    pure { l with st, s, out := l.out.push (Json.arr #[Json.str "s", jNat n, jErr err]) }
  | "open" =>
    pure { l with s := UploadStream.new tracked id c buf, off := 0, out := l.out.push (Json.arr #[Json.str "o"]) }
  | "resume" =>
    let (s, n, err) := l.s.resume l.st
    pure { l with s, off := if err.isNone then n else l.off, out := l.out.push (Json.arr #[Json.str "r", jNat n, jErr err]) }
  | "close" =>
    let (st, s, err) := l.s.close l.st
    pure { l with st, s, out := l.out.push (Json.arr #[Json.str "c", jErr err]) }
  | "abort" =>
    let (st, s, err) := l.s.abort l.st
    pure { l with st, s, out := l.out.push (Json.arr #[Json.str "a", jErr err]) }
  | "claim" =>
    let (st, err) := claimUpload l.st tracked id
    pure { l with st, out := l.out.push (Json.arr #[Json.str "k", jErr err]) }
  | "delete" =>
    let (st, err) := delete l.st tracked id
    pure { l with st, out := l.out.push (Json.arr #[Json.str "d", jErr err]) }
  | "cleanup" =>
    let (st, err) := cleanup l.st tracked
    pure { l with st, out := l.out.push (Json.arr #[Json.str "u", jErr err]) }
  | _ => throw "bad life op"

def outJson : ROp → ROut → Json
  | .read _, o => Json.arr #[Json.str "r", jNat o.ret, Json.str (digest o.bytes), jErr o.err]
  | _, o => Json.arr #[Json.str "p", jNat o.ret, jErr o.err]

def opGridFS : Op := fun j => do
  let buf ← natField j "buf"
  let c ← natField j "chunk"
  if c = 0 then throw "chunk must be positive"
  if buf = 0 then throw "buf must be positive"
  let tracked ← match j.getObjVal? "tracked" with
    | .ok (.bool b) => pure b
    | _ => throw "bad tracked"
  let cj ← j.getObjVal? "content"
  let content ← match cj.getObjVal? "hex" with
    | .ok (.str h) => match parseHexBytes h with
      | some b => pure b
      | none => throw "bad hex"
    | _ => do
      let len ← natField cj "len"
      let seed ← natField cj "seed"
      pure (genContent seed len [])
  let lifeJ ← (← j.getObjVal? "life").getArr?
  let script ← parseScript (← j.getObjVal? "script")
  let id := 1
  let l0 : Life := { st := {}, s := UploadStream.new tracked id c buf, off := 0, out := #[] }
  let l ← lifeJ.foldlM (lifeStep content tracked id c buf) l0
  let st := l.st
  let chunks := (st.chunksOfFile id).map fun d => Json.arr #[jNat d.n, jNat d.data.length, Json.str (digest d.data)]
  let file := match st.findFile id with
    | some f => Json.arr #[jNat f.length, jNat f.chunkSize]
    | none => Json.null
  let marker := match st.findMarker id with
    | some m => Json.arr #[Json.str m.state.name, jNat m.length, jNat m.chunkSize]
    | none => Json.null
  let (openE, reads) := match DownloadStream.open st id with
    | .error e => (jErr (some e), ([] : List Json))
    | .ok ds => (Json.null, (script.zip (ds.run st script)).map fun (p : ROp × ROut) => outJson p.1 p.2)
  pure (okJ (Json.mkObj [
    ("life", Json.arr l.out), ("chunks", Json.arr chunks.toArray), ("file", file), ("marker", marker),
    ("open", openE), ("reads", Json.arr reads.toArray)]))

def opsGridFS : List (String × Op) := [("gridfs.run", opGridFS)]

end Driver
