/-
  Driver.OpsCodec — line-protocol ops for the BSON codec model (C06).
    {"op":"encode","d":<doc>}   → {"ok":"<hex>"} | {"err":"unencodable"}
    {"op":"decode","hex":"…"}   → {"ok":<doc>}   | {"err":"malformed"}
-/
import Driver.Ops
import Lungo.Model.Codec
open Lean Lungo
namespace Driver

def opEncode : Op := fun j => do
  let d ← Json.fieldDoc j "d"
  if Bson.marshalOk (.doc d) then
    pure (okJ (Json.str (hexOfBytes (Bson.encDoc d))))
  else
    pure (errJ "unencodable")

def opDecode : Op := fun j => do
  let h ← Json.fieldStr j "hex"
  match parseHexBytes h with
  | none => throw "bad hex"
  | some bs =>
    match Bson.decDoc bs with
    | some d => pure (okJ (docToJson d))
    | none => pure (errJ "malformed")

def opsCodec : List (String × Op) := [("encode", opEncode), ("decode", opDecode)]

end Driver
