/-
  Driver.OpsCodec — line-protocol ops for the BSON codec model (C06).
    {"op":"encode","d":<doc>}   → {"ok":"<hex>"} | {"err":"unencodable"}
    {"op":"decode","hex":"…"}   → {"ok":<doc>}   | {"err":"malformed"}
    {"op":"loadfile","hex":"…"} → {"ok":<catalog>} | {"err":"<class>"}     (FileStore.Load on these bytes;
                                  index re-creation `indexOk` is taken as succeeding)
    {"op":"storefile","cat":<catalog>} → {"ok":"<hex>"} | {"err":"unencodable"}   (FileStore.Store)
  <catalog> = [{"db":s,"coll":s,"docs":[<doc>…],"idx":[{"name":s,"key":<doc>,"unique":b,
                "partial":<doc>|null,"expiry":n}…]}…]  (in file order; the harness sorts)
-/
import Driver.Ops
import Lungo.Model.Codec
import Lungo.Model.File
open Lean Lungo Lungo.Lite
namespace Driver

def opEncode : Op := fun j => do
  let d ← Json.fieldDoc j "d"
  if Bson.marshalOk (.doc d) then
    pure (okJ (Json.str (hexOfBytes (Bson.encDoc d))))
  else
    pure (errJ "unencodable")

def opDecode : Op := fun j => do
  let h ← Json.fieldStr j "hex"
  match parseHexBytes h with
  | none => throw "bad hex"
  | some bs =>
    match Bson.decDoc bs with
    | some d => pure (okJ (docToJson d))
    | none => pure (errJ "malformed")

def idxToJson (x : String × IndexDef) : Json :=
  Json.mkObj [("name", Json.str x.1), ("key", docToJson x.2.key), ("unique", Json.bool x.2.unique),
    ("partial", match x.2.partialF with | none => Json.null | some d => docToJson d),
    ("expiry", Json.num ⟨x.2.expiry, 0⟩)]

def nsToJson (n : Namespace) : Json :=
  Json.mkObj [("db", Json.str n.db), ("coll", Json.str n.coll),
    ("docs", Json.arr (n.docs.map docToJson).toArray),
    ("idx", Json.arr (n.indexes.map idxToJson).toArray)]

def idxOfJson (j : Json) : Except String (String × IndexDef) := do
  let name ← Json.fieldStr j "name"
  let key ← Json.fieldDoc j "key"
  let unique ← Json.fieldBool j "unique"
  let p ← Json.field j "partial"
  let partialF ← match p with
    | .null => pure none
    | x => do pure (some (← docOfJson x))
  let expiry ← Json.fieldInt j "expiry"
  pure (name, { key := key, unique := unique, partialF := partialF, expiry := expiry })

def nsOfJson (j : Json) : Except String Namespace := do
  let db ← Json.fieldStr j "db"
  let coll ← Json.fieldStr j "coll"
  let docs ← Json.fieldDocs j "docs"
  let idx ← (← Json.fieldArr j "idx").mapM idxOfJson
  pure { db := db, coll := coll, docs := docs, indexes := idx }

def opLoadFile : Op := fun j => do
  let h ← Json.fieldStr j "hex"
  match parseHexBytes h with
  | none => throw "bad hex"
  | some bs =>
    match decodeFile bs with
    | .error e => pure (errJ e)
    | .ok f =>
      match buildCatalog (fun _ _ => true) f with
      | .error e => pure (errJ e)
      | .ok c => pure (okJ (Json.arr (c.map nsToJson).toArray))

def opStoreFile : Op := fun j => do
  let c ← (← Json.fieldArr j "cat").mapM nsOfJson
  let d := fileDoc (buildFile c)
  if Bson.marshalOk (.doc d) then
    pure (okJ (Json.str (hexOfBytes (Bson.encDoc d))))
  else
    pure (errJ "unencodable")

def opsCodec : List (String × Op) :=
  [("encode", opEncode), ("decode", opDecode), ("loadfile", opLoadFile), ("storefile", opStoreFile)]

end Driver
