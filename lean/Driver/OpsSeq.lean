/-
  Driver.OpsSeq — stateful line-protocol ops over the sequential reference model
  (Lungo.Spec.SeqDB, the right-hand side of C01), so that the harness can compare the REAL driver
  with the Spec directly (stream "seq"):
    seq.reset                       → fresh Spec state
    seq.call {m, h?, ...args, oids} → reply of `Spec.step` (same request format as `api.call`)
    seq.dump                        → documents per namespace (natural order) + index definitions by
                                      name; the shape of `api.dump` without "members" and without the
                                      `local.oplog` namespace
-/
import Driver.OpsApi
import Lungo.Spec.SeqDB
open Lean Lungo
namespace Driver.Seq

structure SeqState where
  seq : Spec.SeqDB := Spec.SeqDB.init

def dumpJ (db : Spec.SeqDB) : Json :=
  let nss := (db.colls.filter fun (h, _) => !(h == oplogHandle)).toArray.qsort
    (fun a b => a.1.db < b.1.db || (a.1.db == b.1.db && a.1.coll < b.1.coll))
  Json.arr (nss.map fun (h, c) =>
    let idx := c.defs.toArray.qsort (fun a b => a.1 < b.1)
    Json.mkObj [
      ("h", Json.arr #[.str h.db, .str h.coll]),
      ("docs", Json.arr (c.docs.map docToJson).toArray),
      ("indexes", Json.arr (idx.map fun (n, cfg) => Json.mkObj [
        ("name", n), ("key", docToJson cfg.key), ("unique", cfg.unique),
        ("partial", match cfg.partialF with
          | some p => docToJson p
          | none => Json.null),
        ("expiry", Json.num ⟨cfg.expiry, 0⟩)]))])

def opSeqCall (st : SeqState) (j : Json) : SeqState × Json :=
  match callOf j with
  | .error e => (st, Json.mkObj [("bad", e)])
  | .ok c =>
    let oids : List V := match j.getObjVal? "oids" with
      | .ok (.arr xs) => xs.toList.filterMap fun x => (V.ofJson x).toOption
      | _ => []
    match Spec.step schemaUnmodelled st.seq c oids with
    | .ok (db', r) => ({ st with seq := db' }, okJ (replyJ r))
    | .error e => (st, resJ (fun (_ : Unit) => Json.null) (.error e))

def statefulOpsSeq : List (String × (SeqState → Json → SeqState × Json)) := [
  ("seq.reset", fun _ _ => ({}, okJ Json.null)),
  ("seq.call", opSeqCall),
  ("seq.dump", fun st _ => (st, okJ (dumpJ st.seq)))]

end Driver.Seq
