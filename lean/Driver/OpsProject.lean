import Driver.Ops
import Lungo.Model.Project
import Lungo.Model.Sort
open Lean Lungo
namespace Driver

def opProject : Op := fun j => do
  let d ← Json.fieldDoc j "d"
  let p ← Json.fieldDoc j "p"
  pure (resJ docToJson (Project schemaUnmodelled d p))

def docsJ (ds : List Doc) : Json := Json.arr (ds.map docToJson).toArray

def opSort : Op := fun j => do
  let ds ← Json.fieldDocs j "docs"
  let spec ← Json.fieldDoc j "spec"
  pure (resJ docsJ (sortBySpec ds spec))

def opDistinct : Op := fun j => do
  let ds ← Json.fieldDocs j "docs"
  let p ← Json.fieldStr j "p"
  pure (okJ (Json.arr ((Distinct ds p).map V.toJson).toArray))

def opsProject : List (String × Op) := [("project", opProject), ("sort", opSort), ("distinct", opDistinct)]

end Driver
