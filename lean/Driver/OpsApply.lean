import Driver.Ops
import Lungo.Model.Apply
open Lean Lungo
namespace Driver

def sentinelDate : V := .date 0
def sentinelTs : V := .ts 0 0

def changedJ (cs : List (String × V)) : Json :=
  let sorted := cs.toArray.qsort (fun a b => a.1 < b.1)
  Json.arr (sorted.map fun (p, v) => Json.arr #[.str p, v.toJson])

def opApply : Op := fun j => do
  let d ← Json.fieldDoc j "d"
  let u ← Json.fieldDoc j "u"
  let upsert ← Json.fieldBool j "upsert"
  let fs ← Json.fieldDocs j "filters"
  let c : ACtx := { sch := schemaUnmodelled, upsert := upsert, nowDate := sentinelDate, nowTs := sentinelTs }
  pure (resJ (fun (r : Doc × List (String × V)) => Json.mkObj [("doc", docToJson r.1), ("changed", changedJ r.2)]) (Apply c d u fs))

def opPut : Op := fun j => do
  let d ← Json.fieldDoc j "d"
  let p ← Json.fieldStr j "p"
  let v ← Json.fieldV j "v"
  let pre ← Json.fieldBool j "prepend"
  pure (resJ (fun (r : Doc × V) => Json.arr #[docToJson r.1, r.2.toJson]) (Put d (splitPath p) v pre))

def opUnset : Op := fun j => do
  let d ← Json.fieldDoc j "d"
  let p ← Json.fieldStr j "p"
  let (d', prev) := Unset d (splitPath p)
  pure (okJ (Json.arr #[docToJson d', prev.toJson]))

def opArith : Op := fun j => do
  let a ← Json.fieldV j "a"
  let b ← Json.fieldV j "b"
  let k ← Json.fieldStr j "k"
  let r := if k == "add" then Add a b else Mul a b
  match r with
  | none => pure (Json.mkObj [("unmodelled", "float64 with decimal128")])
  | some v => pure (okJ v.toJson)

def opsApply : List (String × Op) := [("apply", opApply), ("put", opPut), ("unset", opUnset), ("arith", opArith)]

end Driver
