/-
  lungo_model — line-protocol driver: one JSON request per line on stdin, one JSON reply per line.
  Request: {"op": "<name>", ...}. Unknown op or malformed request → {"bad": "<why>"} (never a default).
-/
import Driver.Ops
import Driver.OpsCompare
import Driver.OpsMatch
import Driver.OpsApply
import Driver.OpsCodec
import Driver.OpsProject
import Driver.OpsFS
import Driver.OpsApi
import Driver.OpsGridFS
import Driver.OpsSpec
import Driver.OpsConc
open Lean
namespace Driver

def allOps : List (String × Op) :=
  opsCompare ++ opsMatch ++ opsApply ++ opsCodec ++ opsProject ++ opsFS ++ opsGridFS ++ opsSpec ++ Conc.opsConc

def handle (st : DState) (line : String) : DState × Json :=
  match Json.parse line with
  | .error e => (st, Json.mkObj [("bad", s!"parse: {e}")])
  | .ok j =>
    match j.getObjVal? "op" with
    | .ok (.str name) =>
      match statefulOps.lookup name with
      | some op => op st j
      | none =>
        match allOps.lookup name with
        | some op => match op j with
          | .ok r => (st, r)
          | .error e => (st, Json.mkObj [("bad", e)])
        | none => (st, Json.mkObj [("bad", s!"unknown op {name}")])
    | _ => (st, Json.mkObj [("bad", "missing op")])

partial def loop (hin hout : IO.FS.Stream) (st : DState) : IO Unit := do
  let line ← hin.getLine
  if line.isEmpty then return ()
  let l := line.trimAscii.toString
  if l.isEmpty then loop hin hout st else
  let (st', r) := handle st l
  hout.putStrLn r.compress
  hout.flush
  loop hin hout st'

end Driver

def main : IO Unit := do
  Driver.loop (← IO.getStdin) (← IO.getStdout) {}
