/-
  lungo_model — line-protocol driver: one JSON request per line on stdin, one JSON reply per line.
  Request: {"op": "<name>", ...}. Unknown op or malformed request → {"bad": "<why>"} (never a default).
-/
import Driver.Ops
import Driver.OpsCompare
import Driver.OpsMatch
import Driver.OpsApply
import Driver.OpsCodec
import Driver.OpsProject
import Driver.OpsFS
import Driver.OpsApi
import Driver.OpsGridFS
import Driver.OpsSpec
import Driver.OpsConc
import Driver.OpsSeq
import Driver.OpsRetain
open Lean
namespace Driver

def allOps : List (String × Op) :=
  opsCompare ++ opsMatch ++ opsApply ++ opsCodec ++ opsProject ++ opsFS ++ opsGridFS ++ opsSpec ++ Conc.opsConc ++ Retain.opsRetain

/-- the driver state: the model system(s) of `api.*`/`sess.*` and the Spec state of `seq.*` -/
structure MState where
  d : DState := {}
  q : Seq.SeqState := {}

def handle (st : MState) (line : String) : MState × Json :=
  match Json.parse line with
  | .error e => (st, Json.mkObj [("bad", s!"parse: {e}")])
  | .ok j =>
    match j.getObjVal? "op" with
    | .ok (.str name) =>
      match statefulOps.lookup name with
      | some op => let (d', r) := op st.d j; ({ st with d := d' }, r)
      | none =>
        match Seq.statefulOpsSeq.lookup name with
        | some op => let (q', r) := op st.q j; ({ st with q := q' }, r)
        | none =>
        match allOps.lookup name with
        | some op => match op j with
          | .ok r => (st, r)
          | .error e => (st, Json.mkObj [("bad", e)])
        | none => (st, Json.mkObj [("bad", s!"unknown op {name}")])
    | _ => (st, Json.mkObj [("bad", "missing op")])

partial def loop (hin hout : IO.FS.Stream) (st : MState) : IO Unit := do
  let line ← hin.getLine
  if line.isEmpty then return ()
  let l := line.trimAscii.toString
  if l.isEmpty then loop hin hout st else
  let (st', r) := handle st l
  hout.putStrLn r.compress
  hout.flush
  loop hin hout st'

end Driver

def main : IO Unit := do
  Driver.loop (← IO.getStdin) (← IO.getStdout) {}
