/-
  lungo_model — line-protocol driver: one JSON request per line on stdin, one JSON reply per line.
  Request: {"op": "<name>", ...}. Unknown op or malformed request → {"bad": "<why>"} (never a default).
-/
import Driver.Ops
import Driver.OpsCompare
import Driver.OpsMatch
import Driver.OpsApply
import Driver.OpsCodec
import Driver.OpsProject
import Driver.OpsSpec
open Lean
namespace Driver

def allOps : List (String × Op) :=
  opsCompare ++ opsMatch ++ opsApply ++ opsCodec ++ opsProject ++ opsSpec

def handle (line : String) : Json :=
  match Json.parse line with
  | .error e => Json.mkObj [("bad", s!"parse: {e}")]
  | .ok j =>
    match j.getObjVal? "op" with
    | .ok (.str name) =>
      match allOps.lookup name with
      | some op => match op j with
        | .ok r => r
        | .error e => Json.mkObj [("bad", e)]
      | none => Json.mkObj [("bad", s!"unknown op {name}")]
    | _ => Json.mkObj [("bad", "missing op")]

partial def loop (hin hout : IO.FS.Stream) : IO Unit := do
  let line ← hin.getLine
  if line.isEmpty then return ()
  let l := line.trimAscii.toString
  if l.isEmpty then loop hin hout else
  hout.putStrLn (handle l).compress
  hout.flush
  loop hin hout

end Driver

def main : IO Unit := do
  Driver.loop (← IO.getStdin) (← IO.getStdout)
