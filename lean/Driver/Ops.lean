/-
  Driver.Ops — registry type for line-protocol operations.
  A stateless op maps one request object to one reply JSON.
-/
import Lean.Data.Json
import Lungo.Model.Json
import Lungo.Model.Access
open Lean
namespace Driver

abbrev Op := Json → Except String Json

def okJ (j : Json) : Json := Json.mkObj [("ok", j)]
def errJ (cls : String) : Json := Json.mkObj [("err", cls)]
def panicJ (site : String) : Json := Json.mkObj [("panic", site)]

end Driver

namespace Driver
open Lungo

/-- canonical reply for a model result -/
def resJ {α} (f : α → Json) : Res α → Json
  | .ok a => okJ (f a)
  | .error .err => errJ "err"
  | .error .dup => errJ "dup"
  | .error .notMatched => errJ "notMatched"
  | .error (.panic site) => panicJ site
  | .error (.unmodelled w) => Json.mkObj [("unmodelled", w)]

end Driver
