/-
  Driver.Ops — registry type for line-protocol operations.
  A stateless op maps one request object to one reply JSON.
-/
import Lean.Data.Json
import Lungo.Model.Json
open Lean
namespace Driver

abbrev Op := Json → Except String Json

def okJ (j : Json) : Json := Json.mkObj [("ok", j)]
def errJ (cls : String) : Json := Json.mkObj [("err", cls)]
def panicJ (site : String) : Json := Json.mkObj [("panic", site)]

end Driver
