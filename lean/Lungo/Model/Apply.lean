/-
  Lungo.Model.Apply — mirrors mongokit/apply.go (field update operators, Changes.Record),
  mongokit/resolve.go + path.go (positional operators), bsonkit/access.go's Increment /
  Multiply / Pop, and the update context of mongokit/process.go (MultiTopLevel).

  Nondeterminism ($currentDate) enters as the inputs `nowDate`, `nowTs`.
  Changes.Changed (a Go map) is modelled by the list of recorded (path, value) pairs in record
  order; the conflict test of `Record` (path tree) is the prefix relation on segment lists.
  `checkPaths` (the up-front conflict test of `Apply` over the literal paths of the update) is
  `pathsConflict [] (updatePaths update)`.
-/
import Lungo.Model.Match
import Lungo.Model.Sort
namespace Lungo

/-- the mutable state threaded through the operators: document, recorded changes. -/
structure AState where
  doc : Doc
  changed : List (String × V)
deriving Inhabited

def isPrefixOf (p q : Path) : Bool :=
  match p, q with
  | [], _ => true
  | _ :: _, [] => false
  | a :: p', b :: q' => a == b && isPrefixOf p' q'

/-- Changes.Record -/
def record (s : AState) (path : String) (val : V) : Res AState :=
  let p := splitPath path
  if s.changed.any (fun (r, _) => let rp := splitPath r; isPrefixOf rp p || isPrefixOf p rp) then .error .err
  else .ok { s with changed := s.changed ++ [(path, val)] }

def putRec (s : AState) (path : String) (v : V) : Res AState :=
  match Put s.doc (splitPath path) v false with
  | .error e => .error e
  | .ok (d, _) => record { s with doc := d } path v

/-- ctx for the operators -/
structure ACtx where
  sch : SchemaEval
  upsert : Bool
  nowDate : V
  nowTs : V

def addOrErr (r : Option V) : Res V :=
  match r with
  | none => .error (.unmodelled "float64 with decimal128 arithmetic (decimal.NewFromFloat)")
  | some v => if v.isMissing then .error .err else .ok v

/-- pushIntModifier -/
def pushIntModifier (v : V) : Res Int := intArg v

def insertAtIdx {α} (xs : List α) (i : Nat) (ys : List α) : List α := xs.take i ++ ys ++ xs.drop i

/-- pushSortDirect / pushSort -/
def pushSort (arr : List V) (spec : V) : Res (List V) :=
  let direct (dir : Int) : Res (List V) :=
    if dir != 1 && dir != -1 then .error .err
    else .ok (arr.mergeSort (fun a b => if dir == -1 then V.cmp a b != .lt else V.cmp a b != .gt))
  match spec with
  | .i32 n => direct n
  | .i64 n => direct n
  | .f64 b => if !f64IsInt64Valued b then .error .err else direct (f64ToInt64 b)
  | .doc s =>
    let rec cols : List (String × V) → Res (List Column)
      | [] => .ok []
      | (k, v) :: r =>
        match pushIntModifier v with
        | .error e => .error e
        | .ok dir =>
          if dir != 1 && dir != -1 then .error .err
          else match cols r with
            | .error e => .error e
            | .ok cs => .ok ({ path := k, reverse := dir == -1 } :: cs)
    match cols s with
    | .error e => .error e
    | .ok columns =>
      if arr.all V.isDoc then
        .ok (arr.mergeSort (fun a b => match a, b with
          | .doc x, .doc y => order x y columns != .gt
          | _, _ => true))
      else .error .err
  | _ => .error .err

/-- pullMatches -/
def pullMatches (sch : SchemaEval) (element condition : V) : Res Bool :=
  match condition with
  | .doc cd =>
    let allOps := !cd.isEmpty && cd.all (fun (k, _) => isOpKey k)
    if allOps then Match sch [("_x", element)] [("_x", condition)]
    else match element with
      | .doc ed => Match sch ed cd
      | _ => .ok false
  | _ => .ok (V.cmp element condition == .eq)

def pullFilter (sch : SchemaEval) (cond : V) : List V → Res (List V × Bool)
  | [] => .ok ([], false)
  | item :: r =>
    match pullMatches sch item cond with
    | .error e => .error e
    | .ok m =>
      match pullFilter sch cond r with
      | .error e => .error e
      | .ok (rest, removed) => if m then .ok (rest, true) else .ok (item :: rest, removed)

/-- does `d` contain key "$each"? -/
def hasEach (d : Doc) : Bool := d.any (fun (k, _) => k == "$each")

structure PushMods where
  values : List V := []
  position : Option V := none
  sort : Option V := none
  slice : Option V := none

def parsePushMods : Doc → PushMods → Res PushMods
  | [], m => .ok m
  | (k, v) :: r, m =>
    if k == "$each" then
      match v with
      | .arr a => parsePushMods r { m with values := a }
      | _ => .error .err
    else if k == "$position" then parsePushMods r { m with position := some v }
    else if k == "$sort" then parsePushMods r { m with sort := some v }
    else if k == "$slice" then parsePushMods r { m with slice := some v }
    else .error .err

def parseAddToSetMods : Doc → List V → Res (List V)
  | [], vals => .ok vals
  | (k, v) :: r, _ =>
    if k != "$each" then .error .err
    else match v with
      | .arr a => parseAddToSetMods r a
      | _ => .error .err

/-- a bitwise operation on int64 two's-complement representations. -/
def bit64 (f : Nat → Nat → Nat) (a b : Int) : Int :=
  wrap64 (f (a % (2 : Int) ^ 64).toNat (b % (2 : Int) ^ 64).toNat : Nat)

/-- one field update operator applied at a resolved path. -/
def applyOp (c : ACtx) (s : AState) (op path : String) (v : V) : Res AState :=
  let p := splitPath path
  match op with
  | "$set" => putRec s path v
  | "$setOnInsert" => if !c.upsert then .ok s else putRec s path v
  | "$unset" =>
    let (d, res) := Unset s.doc p
    if res.isMissing then .ok { s with doc := d } else record { s with doc := d } path .missing
  | "$rename" =>
    match v with
    | .str newPath =>
      if indexedPath p || indexedPath (splitPath newPath) then .error .err
      else if path == newPath then .error .err
      else if path.startsWith (newPath ++ ".") || newPath.startsWith (path ++ ".") then .error .err
      else
        let value := getP s.doc p
        if value.isMissing then .ok s else
        match Put s.doc (splitPath newPath) value false with
        | .error e => .error e
        | .ok (d, _) =>
          let (d', _) := Unset d p
          match record { s with doc := d' } path .missing with
          | .error e => .error e
          | .ok s' => record s' newPath value
    | _ => .error .err
  | "$inc" =>
    let field := getP s.doc p
    let field := if field.isMissing then V.i32 0 else field
    match addOrErr (Add field v) with
    | .error e => .error e
    | .ok res => putRec s path res
  | "$mul" =>
    let field := getP s.doc p
    let field := if field.isMissing then V.i32 0 else field
    match addOrErr (Mul field v) with
    | .error e => .error e
    | .ok res => putRec s path res
  | "$max" =>
    let value := getP s.doc p
    if value.isMissing then putRec s path v
    else if V.cmp value v == .lt then putRec s path v
    else .ok s
  | "$min" =>
    let value := getP s.doc p
    if value.isMissing then putRec s path v
    else if V.cmp value v == .gt then putRec s path v
    else .ok s
  | "$currentDate" =>
    match v with
    | .bool b => if b then putRec s path c.nowDate else .ok s
    | .doc [("$type", t)] =>
      match t with
      | .str "date" => putRec s path c.nowDate
      | .str "timestamp" => putRec s path c.nowTs
      | _ => .error .err
    | _ => .error .err
  | "$push" =>
    let mods : Res PushMods := match v with
      | .doc vd => if hasEach vd then parsePushMods vd {} else .ok { values := [v] }
      | _ => .ok { values := [v] }
    match mods with
    | .error e => .error e
    | .ok m =>
      let field := getP s.doc p
      let arrR : Res (List V) := match field with
        | .missing => .ok []
        | .arr a => .ok a
        | _ => .error .err
      match arrR with
      | .error e => .error e
      | .ok arr =>
        let insR : Res Nat := match m.position with
          | none => .ok arr.length
          | some pv =>
            match pushIntModifier pv with
            | .error e => .error e
            | .ok pos =>
              if pos < 0 then .ok ((arr.length : Int) + pos).toNat      -- clamped at 0 by toNat
              else .ok (min pos.toNat arr.length)
        match insR with
        | .error e => .error e
        | .ok insertAt =>
          let newArr := insertAtIdx arr insertAt m.values
          let sortedR : Res (List V) := match m.sort with
            | none => .ok newArr
            | some sv => pushSort newArr sv
          match sortedR with
          | .error e => .error e
          | .ok newArr =>
            let slicedR : Res (List V) := match m.slice with
              | none => .ok newArr
              | some sl =>
                match pushIntModifier sl with
                | .error e => .error e
                | .ok sn =>
                  if sn == 0 then .ok []
                  else if sn > 0 then .ok (newArr.take sn.toNat)
                  else .ok (newArr.drop (newArr.length - (-sn).toNat))
            match slicedR with
            | .error e => .error e
            | .ok newArr =>
              match Put s.doc p (.arr newArr) false with
              | .error e => .error e
              | .ok (d, _) =>
                let s := { s with doc := d }
                if m.values.isEmpty && m.position.isNone && m.sort.isNone && m.slice.isNone && !field.isMissing then .ok s
                else if m.sort.isNone && m.slice.isNone && insertAt == arr.length && !field.isMissing then
                  -- per-element records
                  let rec recs (s : AState) (i : Nat) : List V → Res AState
                    | [] => .ok s
                    | val :: r =>
                      match record s (path ++ "." ++ toString i) val with
                      | .error e => .error e
                      | .ok s' => recs s' (i + 1) r
                  recs s insertAt m.values
                else record s path (.arr newArr)
  | "$pop" =>
    let lastR : Res Bool :=
      if V.cmp v (.i64 1) == .eq then .ok true
      else if V.cmp v (.i64 (-1)) != .eq then .error .err
      else .ok false
    match lastR with
    | .error e => .error e
    | .ok last =>
      match getP s.doc p with
      | .missing => .ok s
      | .arr array =>
        if array.isEmpty then .ok s else
        let field := if last then array.dropLast else array.drop 1
        match Put s.doc p (.arr field) false with
        | .error e => .error e
        | .ok (d, _) => record { s with doc := d } path (getP d p)
      | _ => .error .err
  | "$pull" =>
    match getP s.doc p with
    | .missing => .ok s
    | .arr arr =>
      match pullFilter c.sch v arr with
      | .error e => .error e
      | .ok (result, removed) =>
        if !removed then .ok s else
        match Put s.doc p (.arr result) false with
        | .error e => .error e
        | .ok (d, _) => record { s with doc := d } path (.arr result)
    | _ => .error .err
  | "$pullAll" =>
    match v with
    | .arr targets =>
      match getP s.doc p with
      | .missing => .ok s
      | .arr arr =>
        let result := arr.filter fun item => !(targets.any fun t => V.cmp item t == .eq)
        if result.length == arr.length then .ok s else
        match Put s.doc p (.arr result) false with
        | .error e => .error e
        | .ok (d, _) => record { s with doc := d } path (.arr result)
      | _ => .error .err
    | _ => .error .err
  | "$addToSet" =>
    let valsR : Res (List V) := match v with
      | .doc vd => if hasEach vd then parseAddToSetMods vd [] else .ok [v]
      | _ => .ok [v]
    match valsR with
    | .error e => .error e
    | .ok values =>
      let arrR : Res (List V) := match getP s.doc p with
        | .missing => .ok []
        | .arr a => .ok a
        | _ => .error .err
      match arrR with
      | .error e => .error e
      | .ok arr =>
        let arr' := values.foldl (fun acc val => if acc.any (fun ex => V.cmp ex val == .eq) then acc else acc ++ [val]) arr
        if arr'.length == arr.length then .ok s else
        match Put s.doc p (.arr arr') false with
        | .error e => .error e
        | .ok (d, _) => record { s with doc := d } path (.arr arr')
  | "$bit" =>
    match v with
    | .doc [(bop, operandV)] =>
      let operandR : Res (Int × Bool) := match operandV with
        | .i32 n => .ok (n, false)
        | .i64 n => .ok (n, true)
        | _ => .error .err
      match operandR with
      | .error e => .error e
      | .ok (operand, op64) =>
        let field := getP s.doc p
        let curR : Res (Int × Bool) := match field with
          | .i32 n => .ok (n, false)
          | .i64 n => .ok (n, true)
          | .missing => .ok (0, false)
          | _ => .error .err
        match curR with
        | .error e => .error e
        | .ok (current, f64w) =>
          let resR : Res Int := match bop with
            | "and" => .ok (bit64 Nat.land current operand)
            | "or" => .ok (bit64 Nat.lor current operand)
            | "xor" => .ok (bit64 Nat.xor current operand)
            | _ => .error .err
          match resR with
          | .error e => .error e
          | .ok result =>
            let resultVal : V := if f64w || op64 then .i64 result else .i32 (wrap32 result)
            if !field.isMissing && V.cmp field resultVal == .eq then .ok s
            else putRec s path resultVal
    | _ => .error .err
  | _ => .error .err

def knownUpdateOp (op : String) : Bool :=
  ["$set", "$setOnInsert", "$unset", "$rename", "$inc", "$mul", "$max", "$min", "$currentDate", "$push", "$pop",
   "$pull", "$pullAll", "$addToSet", "$bit"].contains op

/-- mongokit.SplitDynamicPath on the characters of the path:
    (head?, operator?, tail?) with `none` = PathEnd. -/
def splitDynamicPath (path : String) : Option String × Option String × Option String :=
  let cs := path.toList
  match cs.findIdx? (· == '$') with
  | none => (some path, none, none)
  | some idx =>
    let rest := cs.drop idx
    let seg := String.ofList (rest.takeWhile (· != '.'))
    let tail : Option String :=
      if rest.contains '.' then some (String.ofList ((rest.dropWhile (· != '.')).drop 1)) else none
    if idx == 0 then (none, some seg, tail)
    else (some (String.ofList (cs.take (idx - 1))), some seg, tail)

def buildPath (head : String) (i : Nat) (tail : Option String) : String :=
  let base := (if head == "" then "" else head ++ ".") ++ toString i
  match tail with
  | none => base
  | some t => base ++ "." ++ t

/-- concatenating loop over array items with their index; `f i item` = none skips the item. -/
def loopIdx (f : Nat → V → Res (Option (List String))) : Nat → List V → Res (List String)
  | _, [] => .ok []
  | i, item :: r =>
    match f i item with
    | .error e => .error e
    | .ok none => loopIdx f (i + 1) r
    | .ok (some ps) =>
      match loopIdx f (i + 1) r with
      | .error e => .error e
      | .ok qs => .ok (ps ++ qs)

/-- does the item match any of the given array filters (as document {identifier: item})?
    (`resolve` passes the filters that bind the identifier.) -/
def anyFilter (sch : SchemaEval) (identifier : String) (item : V) : List Doc → Res Bool
  | [] => .ok false
  | f :: r =>
    match Match sch [(identifier, item)] f with
    | .error e => .error e
    | .ok true => .ok true
    | .ok false => anyFilter sch identifier item r

/-- resolve.go: an array filter BINDS the identifier if one of its keys is the identifier or starts
    with identifier + ".". -/
def bindsId (identifier : String) (f : Doc) : Bool :=
  f.any fun (k, _) => k == identifier || k.startsWith (identifier ++ ".")

/-- resolve.go: expand positional operators against the document as it is when the operator
    invocation starts; returns the concrete paths in callback order. Fuel = number of `$`. -/
def resolve (sch : SchemaEval) : Nat → String → Doc → List Doc → Res (List String)
  | 0, _, _, _ => .error .err
  | fuel + 1, path, doc, arrayFilters =>
    match splitDynamicPath path with
    | (head, none, _) => .ok [head.getD ""]
    | (none, some _, _) => .error .err
    | (some head, some operator, tail) =>
      match Get doc head with
      | .arr array =>
        if operator == "$" then .error .err
        else if !(operator.startsWith "$[") || !(operator.endsWith "]") then .error .err
        else
          let identifier := String.ofList ((operator.toList.drop 2).dropLast)
          if identifier == "" then
            loopIdx (fun i _ =>
              match resolve sch fuel (buildPath head i tail) doc arrayFilters with
              | .error e => .error e
              | .ok ps => .ok (some ps)) 0 array
          else
            -- only the filters that bind the identifier take part; none → error
            let filters := arrayFilters.filter (bindsId identifier)
            if filters.isEmpty then .error .err else
            loopIdx (fun i item =>
              match anyFilter sch identifier item filters with
              | .error e => .error e
              | .ok false => .ok none
              | .ok true =>
                match resolve sch fuel (buildPath head i tail) doc arrayFilters with
                | .error e => .error e
                | .ok ps => .ok (some ps)) 0 array
      | _ => .error .err

def countDollar (s : String) : Nat := (s.toList.filter (· == '$')).length

/-- checkPaths, inner loop: the literal paths of the fields of one operator document, in the order
    checkPaths visits them: the field key, then — only under the operator key "$rename" and only
    when the field value is a string — the rename target. -/
def fieldPaths (op : String) : List (String × V) → List String
  | [] => []
  | (key, value) :: r =>
    (match value with
     | .str target => if op == "$rename" then [key, target] else [key]
     | _ => [key]) ++ fieldPaths op r

/-- checkPaths, outer loop: top-level entries whose value is not a document are skipped
    (`operator.Value.(bson.D)` fails → continue). -/
def updatePaths : Doc → List String
  | [] => []
  | (op, value) :: r =>
    (match value with
     | .doc fields => fieldPaths op fields
     | _ => []) ++ updatePaths r

/-- mongokit.isPositional: `$`, `$[]`, `$[identifier]` (anything starting with "$["). -/
def isPositional (seg : String) : Bool := seg == "$" || seg.startsWith "$["

/-- checkPaths' inner loop over two segment lists: at the FIRST index (within the common length)
    where the segments differ, is exactly one of the two positional?  No difference within the common
    length → false. -/
def positionalClash (p q : Path) : Bool :=
  match p, q with
  | [], _ => false
  | _ :: _, [] => false
  | a :: p', b :: q' => if a != b then isPositional a != isPositional b else positionalClash p' q'

/-- checkPaths: `seen` are the paths inserted so far (the path tree and the `seen` slice of the Go
    code hold the same paths; `strings.Split(path, ".")` = `splitPath`, also on "" and trailing
    dots).  The next path conflicts iff an inserted path is a segment-wise prefix of it
    (`node.Load() == true`) or it is a segment-wise prefix of / equal to an inserted one
    (`rest == PathEnd`) — the test of `record`; it is then inserted and compared with every earlier
    path: a positional segment against a field name / index at the first difference is a conflict. -/
def pathsConflict (seen : List Path) : List String → Bool
  | [] => false
  | path :: r =>
    let p := splitPath path
    if seen.any (fun rp => isPrefixOf rp p || isPrefixOf p rp) then true
    else if seen.any (fun rp => positionalClash p rp) then true
    else pathsConflict (seen ++ [p]) r

/-- Apply: returns the updated document and the recorded changes (record order). -/
def Apply (c : ACtx) (doc : Doc) (update : Doc) (arrayFilters : List Doc) : Res (Doc × List (String × V)) :=
  if update.isEmpty then .error .err else
  if pathsConflict [] (updatePaths update) then .error .err else
  let rec conds (s : AState) (op : String) : List (String × V) → Res AState
    | [] => .ok s
    | (key, value) :: r =>
      match resolve c.sch (countDollar key + 1) key s.doc arrayFilters with
      | .error e => .error e
      | .ok paths =>
        let rec each (s : AState) : List String → Res AState
          | [] => .ok s
          | p :: ps => match applyOp c s op p value with
            | .error e => .error e
            | .ok s' => each s' ps
        match each s paths with
        | .error e => .error e
        | .ok s' => conds s' op r
  let rec ops (s : AState) : List (String × V) → Res AState
    | [] => .ok s
    | (key, value) :: r =>
      if isOpKey key then
        if !knownUpdateOp key then .error .err
        else match value with
          | .doc upd =>
            match conds s key upd with
            | .error e => .error e
            | .ok s' => ops s' r
          | _ => .error .err
      else .error .err    -- no expression operators / default operator in the update context
  match ops { doc := doc, changed := [] } update with
  | .error e => .error e
  | .ok s => .ok (s.doc, s.changed)

end Lungo
