/-
  Lungo.Model.StreamTS — executable labelled transition system of lungo's change streams.

  Mirrors (at the granularity of critical sections / channel operations):
    /repo/stream.go   Stream.next (Next/TryNext), Stream.Close
    /repo/engine.go   Engine.Watch, Engine.Commit (clean + publish + broadcast), Engine.Close (stream part)
    /repo/transaction.go  Transaction.Clean (prefix retention), Transaction.append (event shape)

  Abstractions (each justified in the comments at the transition):
    * the writer is ONE atomic step `commit evs trim` (Commit holds e.mutex from the dirty check to the
      end of the broadcast, and the token makes it the only writer; see the Conc model);
    * `s.oplog()` and `s.cancel()` take e.mutex briefly: atomic reads/updates of engine state;
    * s.mutex (the stream's own mutex) is an explicit lock `mutex : Option ActorId`;
    * computations on stream fields that happen while s.mutex is held and touch nothing else are
      merged into the adjacent atomic step (lock acquisition is a right mover, release a left mover);
    * a document pointer (`bsonkit.Doc`, the key of `Set.Index`) is modelled by the event value itself;
      event ids are unique (fresh, increasing), so value identity = pointer identity;
    * cluster time = `_id.ts` = event id (bsonkit.Now() is strictly monotone inside one process);
    * the pipeline is ignored by the code (`TODO: Filter with pipeline`) and so by the model;
    * a stream id that was never created behaves as a closed stream (`closed := true` in the default);
      `next` / `closeStream` calls are enabled only on created streams, Watch only on fresh ids;
    * not modelled: Decode / Err / ResumeToken / ID accessors (they only lock s.mutex and read),
      `token` (always derived from `event`), combinations of resumeAfter + startAfter + startAt
      (later ones override earlier ones in Watch), Engine.Close's final `tomb.Wait()`, a failing
      `store.Store` and a non-dirty Commit (both return before publish/broadcast: no step).
  Ghost state (flows only into ghost state, except that `committed.length + 1` serves as the fresh-id
  counter of `Transaction.append`): `committed`, `trimmed`, `version`, `closer`, and per stream
  `delivered`, `invalidated`, `startPos`, `nilStart`, `spec`, `busy`, `multi`, `panic`, `sendPending`.
-/
namespace Lungo.StreamTS

abbrev ActorId := Nat
abbrev StreamId := Nat

/-- pointwise update of a total function `Nat → α` -/
def upd {α : Type} (f : Nat → α) (i : Nat) (v : α) : Nat → α := fun j => if j = i then v else f j

@[simp] theorem upd_same {α : Type} (f : Nat → α) (i : Nat) (v : α) : upd f i v i = v := by simp [upd]
theorem upd_other {α : Type} (f : Nat → α) {i j : Nat} (v : α) (h : j ≠ i) : upd f i v j = f j := by
  simp [upd, h]
theorem upd_apply {α : Type} (f : Nat → α) (i j : Nat) (v : α) :
    upd f i v j = if j = i then v else f j := rfl

/-! ## Events and scope -/

inductive OpKind where
  | normal        -- insert / replace / update / delete
  | drop          -- drop of a collection
  | dropDatabase  -- drop of a database (event carries only ns.db)
  deriving DecidableEq, Repr

/-- a change-log event; `id` is both `_id.ts` (the resume token) and `clusterTime` -/
structure Event where
  id   : Nat
  db   : Nat
  coll : Option Nat       -- `ns.coll` is absent when the handle's collection is ""
  op   : OpKind
  deriving DecidableEq, Repr

/-- the writer's choice of event content (ids are assigned by the engine) -/
structure Proto where
  db   : Nat
  coll : Option Nat
  op   : OpKind
  deriving DecidableEq, Repr

/-- stream handle `(db, coll)`; `none` = "" -/
abbrev Handle := Option Nat × Option Nat

/-- first branch of the scope test: `s.handle[0] != "" && s.handle[0] != nsDB` -/
def skipDb (h : Handle) (ev : Event) : Bool := h.1.isSome && (h.1 != some ev.db)

/-- second branch: `s.handle[1] != "" && s.handle[1] != nsColl && opType != "dropDatabase"` -/
def skipColl (h : Handle) (ev : Event) : Bool :=
  h.2.isSome && (h.2 != ev.coll) && (ev.op != OpKind.dropDatabase)

/-- derived predicate: the event passes both `continue` branches -/
def inScope (h : Handle) (ev : Event) : Bool := !(skipDb h ev) && !(skipColl h ev)

/-- the two `s.dropped = true` conditions -/
def setsDropped (h : Handle) (ev : Event) : Bool :=
  (h.1.isSome && h.2.isSome && (ev.op == OpKind.drop)) || (h.1.isSome && (ev.op == OpKind.dropDatabase))

/-! ## Stream and engine state -/

inductive Sig where
  | empty | full | closed
  deriving DecidableEq, Repr

inductive Err where
  | lost   -- ErrLostOplogPosition
  | ctx    -- ctx.Err()
  deriving DecidableEq, Repr

/-- `s.event` -/
inductive Cur where
  | none | ev (e : Event) | invalidate
  deriving DecidableEq, Repr

inductive StartSpec where
  | now
  | token (k : Nat)   -- resumeAfter / startAfter (identical code paths)
  | time (t : Nat)    -- startAtOperationTime
  deriving DecidableEq, Repr

structure StreamState where
  handle      : Handle := (none, none)
  last        : Option Event := none
  signal      : Sig := .empty
  dropped     : Bool := false
  closed      : Bool := true        -- a never-created stream id behaves as a closed stream
  error       : Option Err := none
  event       : Cur := .none
  mutex       : Option ActorId := none
  registered  : Bool := false        -- membership in `e.streams`
  -- ghost
  delivered   : List Event := []     -- events returned by `next` (invalidate excluded)
  invalidated : Bool := false        -- the synthetic invalidate event has been returned
  startPos    : Nat := 0             -- events with id > startPos are "after the start position"
  nilStart    : Bool := true         -- Watch positioned `last` at nil
  spec        : StartSpec := .now
  busy        : Option ActorId := none  -- actor currently inside `next`
  multi       : Bool := false        -- two `next` calls overlapped on this stream at some time
  panic       : Bool := false        -- a send on the closed signal channel happened
  sendPending : Bool := false        -- a Stream.Close is between its cancel and its send
  deriving Repr

inductive Pc where
  | idle
  | nLock (sid : StreamId) (block : Bool)   -- at `s.mutex.Lock()` at the loop head
  | nRead (sid : StreamId) (block : Bool)   -- holding s.mutex, before `s.oplog()`
  | nLost (sid : StreamId)                  -- holding s.mutex, lookup failed, before `s.cancel()`
  | nGap (sid : StreamId) (readVer : Nat)   -- holding s.mutex, no event, before Unlock + select
  | parked (sid : StreamId) (readVer : Nat) -- in the select, s.mutex released
  | nSigClosed (sid : StreamId)             -- received from closed signal, at `s.mutex.Lock()`
  | nCtx (sid : StreamId)                   -- ctx done, at `s.mutex.Lock()`
  | cLock (sid : StreamId)                  -- Stream.Close at `s.mutex.Lock()`
  | cSend (sid : StreamId)                  -- Stream.Close holding s.mutex, before the non-blocking send
  | eLoop (rest : List StreamId)            -- Engine.Close iterating over its snapshot
  deriving DecidableEq, Repr

structure Local where
  pc  : Pc := .idle
  ret : Option Bool := none    -- result of the last completed `next`
  deriving Repr

structure State where
  alive     : Bool
  oplog     : List Event
  created   : List StreamId
  streams   : StreamId → StreamState
  actors    : ActorId → Local
  -- ghost
  committed : List Event     -- full history, never trimmed
  trimmed   : Bool           -- some commit was asked to trim (`trim > 0`)
  closer    : Option ActorId -- the actor that ran the first critical section of Engine.Close
  version   : Nat            -- number of (dirty, successful) commits so far

def init : State :=
  { alive := true, oplog := [], created := [], streams := fun _ => {}, actors := fun _ => {},
    committed := [], trimmed := false, closer := none, version := 0 }

inductive Call where
  | next (sid : StreamId) (block : Bool)
  | closeStream (sid : StreamId)
  | closeEngine
  | watch (sid : StreamId) (h : Handle) (spec : StartSpec)
  deriving Repr

inductive Choice where
  | call (c : Call)
  | commit (evs : List Proto) (trim : Nat)
  | tau       -- the unique continuation of the current pc
  | recv      -- at `parked`: the `<-signal` case
  | ctxDone   -- at `parked`: the `<-ctx.Done()` case; at `nRead` (non-blocking): `ctx.Err() != nil`
  deriving Repr

/-! ## Helpers mirroring engine code -/

/-- `Transaction.append`: fresh increasing ids -/
def mkEvents (start : Nat) : List Proto → List Event
  | [] => []
  | p :: ps => ⟨start, p.db, p.coll, p.op⟩ :: mkEvents (start + 1) ps

/-- Watch, `startAt` loop: the event before the first one at-or-after `t`; `prev = none` at i = 0;
    `dflt` (the newest event) if every event is older -/
def posTime (t : Nat) (prev : Option Event) (dflt : Option Event) : List Event → Option Event
  | [] => dflt
  | e :: rest => if t ≤ e.id then prev else posTime t (some e) dflt rest

/-- Watch: the initial `last`; `none` = error "unable to resume change stream" -/
def watchPos (spec : StartSpec) (oplog : List Event) : Option (Option Event) :=
  match spec with
  | .now => some oplog.getLast?
  | .token k => (oplog.find? (fun e => e.id == k)).map some
  | .time t => some (posTime t none oplog.getLast? oplog)

/-- ghost start position for a stream whose `last` is nil -/
def nilStartPos (spec : StartSpec) (oplog : List Event) (ncommitted : Nat) : Nat :=
  match spec, oplog with
  | .time t, e0 :: _ => if t ≤ e0.id then t - 1 else ncommitted
  | _, _ => ncommitted

/-- `index+1` of the code, or `none` when `oplog.Index[s.last]` misses -/
def lookupNext (last : Option Event) (oplog : List Event) : Option Nat :=
  match last with
  | none => some 0                       -- index = -1
  | some e => if e ∈ oplog then some (oplog.idxOf e + 1) else none

/-- what the consumer's lookup finds: `none` = position lost, `some none` = no event after `last`,
    `some (some ev)` = next event -/
def nextEvent (last : Option Event) (oplog : List Event) : Option (Option Event) :=
  (lookupNext last oplog).map (fun ni => oplog[ni]?)

/-- Commit's broadcast on one stream: non-blocking send if registered -/
def bcast (st : StreamState) : StreamState :=
  if st.registered then
    match st.signal with
    | .empty => { st with signal := .full }
    | .full => st
    | .closed => { st with panic := true }
  else st

/-! ## Transitions -/

def setActor (s : State) (a : ActorId) (l : Local) : State := { s with actors := upd s.actors a l }

def setBoth (s : State) (a : ActorId) (l : Local) (sid : StreamId) (st : StreamState) : State :=
  { s with actors := upd s.actors a l, streams := upd s.streams sid st }

/-- entering `next`: ghost bookkeeping of overlapping consumers -/
def stepCallNext (s : State) (a : ActorId) (sid : StreamId) (block : Bool) : State :=
  let st := s.streams sid
  setBoth s a { pc := .nLock sid block, ret := none } sid
    { st with multi := st.multi || st.busy.isSome, busy := some a }

/-- loop head: Lock; validity check; dropped check (emit invalidate, cancel, closed, Unlock) -/
def stepNLock (s : State) (a : ActorId) (sid : StreamId) (block : Bool) : Option State :=
  let st := s.streams sid
  if st.mutex ≠ none then none
  else if st.error ≠ none ∨ st.closed = true then
    some (setBoth s a { pc := .idle, ret := some false } sid { st with busy := none })
  else if st.dropped then
    some (setBoth s a { pc := .idle, ret := some true } sid
      { st with event := .invalidate, invalidated := true, registered := false, closed := true,
                busy := none })
  else
    some (setBoth s a { pc := .nRead sid block, ret := none } sid { st with mutex := some a })

/-- `s.oplog()` (atomic under e.mutex) followed by the lookup and the local decisions -/
def stepNRead (s : State) (a : ActorId) (sid : StreamId) (block : Bool) (ctxErr : Bool) : State :=
  let st := s.streams sid
  match lookupNext st.last s.oplog with
  | none => setActor s a { pc := .nLost sid, ret := none }
  | some ni =>
    match s.oplog[ni]? with
    | some ev =>
      if inScope st.handle ev then
        setBoth s a { pc := .idle, ret := some true } sid
          { st with dropped := st.dropped || setsDropped st.handle ev, last := some ev,
                    event := .ev ev, mutex := none, delivered := st.delivered ++ [ev],
                    busy := none }
      else
        setBoth s a { pc := .nLock sid block, ret := none } sid
          { st with last := some ev, mutex := none }
    | none =>
      if block then
        setActor s a { pc := .nGap sid s.version, ret := none }
      else
        setBoth s a { pc := .idle, ret := some false } sid
          { st with error := if ctxErr then some .ctx else st.error, mutex := none, busy := none }

/-- lookup failed: cancel (atomic under e.mutex); closed; error := lost; Unlock; return false -/
def stepNLost (s : State) (a : ActorId) (sid : StreamId) : State :=
  let st := s.streams sid
  setBoth s a { pc := .idle, ret := some false } sid
    { st with registered := false, closed := true, error := some .lost, mutex := none,
              busy := none }

/-- Unlock before the select -/
def stepNGap (s : State) (a : ActorId) (sid : StreamId) (r : Nat) : State :=
  let st := s.streams sid
  setBoth s a { pc := .parked sid r, ret := none } sid { st with mutex := none }

/-- the `<-signal` case of the select -/
def stepRecv (s : State) (a : ActorId) (sid : StreamId) : Option State :=
  let st := s.streams sid
  match st.signal with
  | .empty => none
  | .full => some (setBoth s a { pc := .nLock sid true, ret := none } sid { st with signal := .empty })
  | .closed => some (setActor s a { pc := .nSigClosed sid, ret := none })

/-- signal closed: Lock; cancel; closed; Unlock; return false -/
def stepNSigClosed (s : State) (a : ActorId) (sid : StreamId) : Option State :=
  let st := s.streams sid
  if st.mutex ≠ none then none
  else some (setBoth s a { pc := .idle, ret := some false } sid
    { st with registered := false, closed := true, busy := none })

/-- ctx done: Lock; error := ctxErr if nil; Unlock; return false -/
def stepNCtx (s : State) (a : ActorId) (sid : StreamId) : Option State :=
  let st := s.streams sid
  if st.mutex ≠ none then none
  else some (setBoth s a { pc := .idle, ret := some false } sid
    { st with error := if st.error ≠ none then st.error else some .ctx, busy := none })

/-- Stream.Close: Lock; closed? return; cancel; event := nil; closed; error := nil (keeps the mutex) -/
def stepCLock (s : State) (a : ActorId) (sid : StreamId) : Option State :=
  let st := s.streams sid
  if st.mutex ≠ none then none
  else if st.closed then some (setActor s a { pc := .idle, ret := (s.actors a).ret })
  else some (setBoth s a { pc := .cSend sid, ret := (s.actors a).ret } sid
    { st with registered := false, event := .none, closed := true, error := none,
              mutex := some a, sendPending := true })

/-- Stream.Close: non-blocking send on s.signal; Unlock -/
def stepCSend (s : State) (a : ActorId) (sid : StreamId) : State :=
  let st := s.streams sid
  setBoth s a { pc := .idle, ret := (s.actors a).ret } sid
    (match st.signal with
     | .empty => { st with signal := .full, mutex := none, sendPending := false }
     | .full => { st with mutex := none, sendPending := false }
     | .closed => { st with panic := true, mutex := none, sendPending := false })

/-- Engine.Close, first critical section: alive check; snapshot of e.streams; Kill -/
def stepCallCloseEngine (s : State) (a : ActorId) : State :=
  if s.alive then
    { s with alive := false, closer := some a,
             actors := upd s.actors a
               { pc := .eLoop (s.created.filter (fun sid => (s.streams sid).registered)),
                 ret := (s.actors a).ret } }
  else s

/-- Engine.Close, one iteration: Lock s; if !closed {closed := true; close(signal)}; Unlock -/
def stepELoop (s : State) (a : ActorId) (rest : List StreamId) : Option State :=
  match rest with
  | [] => some (setActor s a { pc := .idle, ret := (s.actors a).ret })
  | sid :: rest' =>
    let st := s.streams sid
    if st.mutex ≠ none then none
    else some (setBoth s a { pc := .eLoop rest', ret := (s.actors a).ret } sid
      (if st.closed then st else { st with closed := true, signal := .closed }))

/-- Engine.Watch, atomic under e.mutex -/
def stepWatch (s : State) (sid : StreamId) (h : Handle) (spec : StartSpec) : Option State :=
  if !s.alive then some s                       -- ErrEngineClosed
  else if sid ∈ s.created then none             -- stream ids are fresh
  else match watchPos spec s.oplog with
    | none => some s                            -- "unable to resume change stream"
    | some last =>
      some { s with
        created := sid :: s.created,
        streams := upd s.streams sid
          { handle := h, last := last, signal := .empty, dropped := false, closed := false,
            error := none, event := .none, mutex := none, registered := true,
            delivered := [], invalidated := false,
            startPos := (match last with
                         | some e => e.id
                         | none => nilStartPos spec s.oplog s.committed.length),
            nilStart := last.isNone, spec := spec, busy := none, multi := false, panic := false,
            sendPending := false } }

/-- Engine.Commit of a dirty transaction: Clean (prefix of the transaction's oplog, which already
    contains the new events), store (assumed to succeed; a failing store is no step), publish,
    broadcast. `trim` is unconstrained (Clean's min/max size and age settings are abstracted to
    "any prefix", which includes prefixes reaching into the new events: with MinOplogSize = 1 and a
    tiny MinOplogAge a multi-event transaction spanning more than a second loses its own first events). -/
def stepCommit (s : State) (evs : List Proto) (trim : Nat) : State :=
  let new := mkEvents (s.committed.length + 1) evs
  { s with oplog := (s.oplog ++ new).drop trim,
           committed := s.committed ++ new,
           trimmed := s.trimmed || decide (0 < trim),
           version := s.version + 1,
           streams := fun sid => bcast (s.streams sid) }

def step (s : State) (a : ActorId) (c : Choice) : Option State :=
  match (s.actors a).pc, c with
  | .idle, .call (.next sid block) =>
    if sid ∈ s.created then some (stepCallNext s a sid block) else none   -- one needs a stream to call it
  | .idle, .call (.closeStream sid) =>
    if sid ∈ s.created then some (setActor s a { pc := .cLock sid, ret := (s.actors a).ret }) else none
  | .idle, .call .closeEngine => some (stepCallCloseEngine s a)
  | .idle, .call (.watch sid h spec) => stepWatch s sid h spec
  | .idle, .commit evs trim => if s.alive then some (stepCommit s evs trim) else none
  | .nLock sid block, .tau => stepNLock s a sid block
  | .nRead sid block, .tau => some (stepNRead s a sid block false)
  | .nRead sid block, .ctxDone => some (stepNRead s a sid block true)
  | .nLost sid, .tau => some (stepNLost s a sid)
  | .nGap sid r, .tau => some (stepNGap s a sid r)
  | .parked sid _, .recv => stepRecv s a sid
  | .parked sid _, .ctxDone => some (setActor s a { pc := .nCtx sid, ret := none })
  | .nSigClosed sid, .tau => stepNSigClosed s a sid
  | .nCtx sid, .tau => stepNCtx s a sid
  | .cLock sid, .tau => stepCLock s a sid
  | .cSend sid, .tau => some (stepCSend s a sid)
  | .eLoop rest, .tau => stepELoop s a rest
  | _, _ => none

/-- reachable states: reflexive-transitive closure of `step` from `init` -/
inductive Reachable : State → Prop where
  | init : Reachable init
  | step {s s' : State} (a : ActorId) (c : Choice) : Reachable s → step s a c = some s' → Reachable s'

/-- `s'` is reachable from `s` -/
inductive Steps : State → State → Prop where
  | refl (s : State) : Steps s s
  | step {s s' s'' : State} (a : ActorId) (c : Choice) : Steps s s' → step s' a c = some s'' → Steps s s''

/-- run a trace; `none` if some step is not enabled -/
def run (s : State) : List (ActorId × Choice) → Option State
  | [] => some s
  | (a, c) :: tr => match step s a c with
    | some s' => run s' tr
    | none => none

def runD (tr : List (ActorId × Choice)) : State := (run init tr).getD init

theorem run_steps {s s' : State} {tr : List (ActorId × Choice)} (h : run s tr = some s') : Steps s s' := by
  induction tr generalizing s with
  | nil => simp [run] at h; subst h; exact .refl _
  | cons ac tr ih =>
    obtain ⟨a, c⟩ := ac
    simp only [run] at h
    split at h
    · rename_i s1 h1
      have := ih h
      clear h ih
      induction this with
      | refl => exact .step a c (.refl _) h1
      | step a' c' _ h2 ih2 => exact .step a' c' ih2 h2
    · cases h

theorem reachable_steps {s s' : State} (hr : Reachable s) (h : Steps s s') : Reachable s' := by
  induction h with
  | refl => exact hr
  | step a c _ h2 ih => exact .step a c ih h2

theorem runD_reachable {tr : List (ActorId × Choice)} (h : (run init tr).isSome = true) :
    Reachable (runD tr) := by
  unfold runD
  cases hr : run init tr with
  | none => simp [hr] at h
  | some s' => exact reachable_steps .init (run_steps hr)

/-! ## Predicates used by the property statements -/

/-- the stream in whose `next` the actor is -/
def Pc.nextSid? (p : Pc) : Option StreamId :=
  match p with
  | .nLock x _ | .nRead x _ | .nLost x | .nGap x _ | .parked x _ | .nSigClosed x | .nCtx x => some x
  | _ => none

/-- the streams Engine.Close still has to visit -/
def Pc.eRest (p : Pc) : List StreamId :=
  match p with
  | .eLoop rest => rest
  | _ => []

/-- the stream a pc refers to -/
def Pc.sid? (p : Pc) : Option StreamId :=
  match p with
  | .nLock x _ | .nRead x _ | .nLost x | .nGap x _ | .parked x _ | .nSigClosed x | .nCtx x
  | .cLock x | .cSend x => some x
  | _ => none

theorem Pc.nextSid?_sid? {p : Pc} {x : StreamId} (h : p.nextSid? = some x) : p.sid? = some x := by
  cases p <;> simp_all [Pc.nextSid?, Pc.sid?]

/-- position up to which the stream has processed the change log -/
def StreamState.pos (st : StreamState) : Nat :=
  match st.last with
  | some e => e.id
  | none => st.startPos

/-- the scope-filtered committed events after `lo` up to `hi` (ids are positions + 1) -/
def expected (h : Handle) (committed : List Event) (lo hi : Nat) : List Event :=
  ((committed.take hi).drop lo).filter (inScope h)

end Lungo.StreamTS
