/-
  Lungo.Model.Own — the ownership layer (DESIGN §3.4 G1, Appendix D) for C02/C03.

  The functional model (Model/Txn.lean, Model/Collection.lean) returns new values, so "a failed write
  leaves no trace" and "snapshots are immutable" hold there for the wrong reason.  The Go code MUTATES
  in place (`bsonkit.Set.Add/Replace/Remove`, `bsonkit.Index.Add/Remove`, `mongokit.Collection.*`,
  `clone.Namespaces[h] = …`) and relies on a clone/mutate/publish discipline in /repo/transaction.go.

  This file gives
    * an abstract heap of identity-carrying objects (Catalog map, Collection, Set, Index, DocNode),
    * a small imperative IR (`Stmt`) for the clone/mutate/publish structure of the Transaction write
      methods (the programs themselves are in Expected/TxnPrograms.lean and are REGENERATED from
      /repo/transaction.go by go/cmd/extract/txnprog.go on every run),
    * an interpreter `exec`/`run` in which every `mongokit.Collection` method call is an ARBITRARY
      partial mutation of the receiver's own Set / Index / Indexes-map objects (plus allocation of fresh
      DocNodes) followed by an arbitrary outcome ok | err — the Go methods do not roll back,
    * the static check `ownedOK`.
  Soundness of the check is proved in Proofs/Own*.lean; the property theorems are Props/C02, C03.

  Core-only (no Mathlib).
-/
namespace Lungo.Own

/-- object identities (expands to `Nat` at parse time so that `omega` sees through it) -/
macro "ObjId" : term => `(Nat)
/-- run-time value of a namespace handle; `0` is `local.oplog` -/
macro "HandleV" : term => `(Nat)
abbrev Var := String

/-! ## Heap -/

inductive Obj
  | cat (ns : List (HandleV × ObjId))                 -- lungo.Catalog: the Namespaces MAP
  | coll (docs : ObjId) (idx : List (String × ObjId)) -- mongokit.Collection: Documents *Set, Indexes map
  | set (list : List ObjId)                           -- bsonkit.Set: List (the Index map is a function of it)
  | idx (entries : List ObjId)                        -- mongokit.Index / bsonkit.Index: the btree's documents
  | doc (v : Nat)                                     -- a document value with identity (content opaque)
  deriving DecidableEq, Repr

/-- finite map ObjId → Obj; the allocation counter is `objs.length` (ids are never reused) -/
structure Heap where
  objs : List Obj
  deriving DecidableEq, Repr

namespace Heap
def size (h : Heap) : Nat := h.objs.length
def get (h : Heap) (o : ObjId) : Option Obj := h.objs[o]?
def alloc (h : Heap) (x : Obj) : Heap × ObjId := (⟨h.objs ++ [x]⟩, h.objs.length)
/-- in-place write (no effect on an unallocated id) -/
def write (h : Heap) (o : ObjId) (x : Obj) : Heap := ⟨h.objs.set o x⟩
/-- allocate a list of objects; returns their ids in order -/
def allocs (h : Heap) : List Obj → Heap × List ObjId
  | [] => (h, [])
  | x :: xs =>
    let (h1, o) := h.alloc x
    let (h2, os) := allocs h1 xs
    (h2, o :: os)
/-- a sequence of in-place writes -/
def writes (h : Heap) : List (ObjId × Obj) → Heap
  | [] => h
  | (o, x) :: ws => writes (h.write o x) ws
def empty : Heap := ⟨[]⟩
end Heap

/-! ## IR -/

/-- handle expressions of the write methods: the `handle` parameter, the constant `Oplog`, and the key
    variable of a `for k := range clone.Namespaces` loop -/
inductive HExpr
  | param | oplog | loopVar
  deriving DecidableEq, Repr

/-- collection-valued expressions: a local variable, or the map lookup `cat.Namespaces[h]` (may be nil) -/
inductive CExpr
  | var (v : Var)
  | ns (cat : Var) (h : HExpr)
  deriving DecidableEq, Repr

/-- mutating methods of mongokit.Collection (`setRemove` = a direct `c.Documents.Remove`, used by Clean;
    `buildIndex` = `Index.Build` on an index of the receiver) -/
inductive Method
  | insert | replace | update | upsert | delete | createIndex | dropIndex | buildIndex | setRemove
  deriving DecidableEq, Repr

inductive Cond
  | isNil (e : CExpr)        -- `cat.Namespaces[h] == nil` / `v == nil`
  | err                      -- `err != nil`
  | test (src : String)      -- any other condition: decided by `Choices.flags` (source text kept for the tie)
  | neg (c : Cond)
  | both (a b : Cond)
  | either (a b : Cond)
  deriving DecidableEq, Repr

inductive Stmt
  | validate                                   -- `err := handle.Validate(…)`: err set nondeterministically
  | cloneDocs (dst src : Var)                  -- `dst = bsonkit.CloneList(src)` / `bsonkit.Clone(src)`
  | cloneCatalog (dst src : Var)               -- `dst := src.Clone()` on a *Catalog: new map, same collections
  | alias (dst : Var) (src : CExpr)            -- `dst := cat.Namespaces[h]` (NO Clone) / `dst := v`
  | newColl (dst : Var)                        -- `dst = mongokit.NewCollection(true)`
  | cloneColl (dst : Var) (src : CExpr)        -- `dst := src.Clone()`: fresh Set, fresh Index clones, shared docs
  | shallowColl (dst : Var) (src : CExpr)      -- a WRONG Clone: fresh struct, SAME Set and indexes (never
                                               -- emitted by the extractor; used by the negative theorems)
  | setNs (cat : Var) (h : HExpr) (v : Var)    -- `cat.Namespaces[h] = v`: IN PLACE on the map object of `cat`
  | setNsNew (cat : Var) (h : HExpr)           -- `cat.Namespaces[h] = mongokit.NewCollection(true)`
  | deleteNs (cat : Var) (h : HExpr)           -- `delete(cat.Namespaces, h)`: in place
  | callColl (recv : Var) (m : Method) (arg : Option Var)  -- `…, err = recv.M(…)`: partial mutation + ok|err
  | setCatalog (v : Var)                       -- `t.catalog = v`
  | setDirty                                   -- `t.dirty = true`
  | retErr                                     -- `return …, err`
  | retOk                                      -- `return …, nil` / `return`
  | fail                                       -- `return …, fmt.Errorf(…)`
  | brk | cont                                 -- `break` / `continue`
  | ite (c : Cond) (thn els : List Stmt)
  | loop (overNs : Bool) (body : List Stmt)    -- any `for`; overNs: ranges over `cat.Namespaces` (binds loopVar)
  | helper (name : String) (body : List Stmt)  -- inlined call of a private helper (`t.insert`, …): its
                                               -- `return`s end the helper, `err` flows to the caller
  | unknown (src : String)                     -- statement the extractor could not classify
  deriving Repr

abbrev Prog := List Stmt

/-- `if err != nil { return …, err }` -/
abbrev Stmt.ifErrReturn : Stmt := .ite .err [.retErr] []

/-! ### decidable equality (the deriving handler does not do nested inductives) -/

mutual
def Stmt.beq : Stmt → Stmt → Bool
  | .validate, .validate => true
  | .cloneDocs d s, .cloneDocs d' s' => d == d' && s == s'
  | .cloneCatalog d s, .cloneCatalog d' s' => d == d' && s == s'
  | .alias d s, .alias d' s' => d == d' && s == s'
  | .newColl d, .newColl d' => d == d'
  | .cloneColl d s, .cloneColl d' s' => d == d' && s == s'
  | .shallowColl d s, .shallowColl d' s' => d == d' && s == s'
  | .setNs c h v, .setNs c' h' v' => c == c' && h == h' && v == v'
  | .setNsNew c h, .setNsNew c' h' => c == c' && h == h'
  | .deleteNs c h, .deleteNs c' h' => c == c' && h == h'
  | .callColl r m a, .callColl r' m' a' => r == r' && m == m' && a == a'
  | .setCatalog v, .setCatalog v' => v == v'
  | .setDirty, .setDirty => true
  | .retErr, .retErr => true
  | .retOk, .retOk => true
  | .fail, .fail => true
  | .brk, .brk => true
  | .cont, .cont => true
  | .ite c t e, .ite c' t' e' => c == c' && Stmt.beqL t t' && Stmt.beqL e e'
  | .loop o b, .loop o' b' => o == o' && Stmt.beqL b b'
  | .helper n b, .helper n' b' => n == n' && Stmt.beqL b b'
  | .unknown s, .unknown s' => s == s'
  | _, _ => false
def Stmt.beqL : List Stmt → List Stmt → Bool
  | [], [] => true
  | p :: ps, q :: qs => Stmt.beq p q && Stmt.beqL ps qs
  | _, _ => false
end

mutual
theorem Stmt.beq_eq : ∀ (a b : Stmt), Stmt.beq a b = true → a = b
  | .validate, b => by cases b <;> simp [Stmt.beq]
  | .cloneDocs .., b => by cases b <;> simp [Stmt.beq]
  | .cloneCatalog .., b => by cases b <;> simp [Stmt.beq]
  | .alias .., b => by cases b <;> simp [Stmt.beq]
  | .newColl .., b => by cases b <;> simp [Stmt.beq]
  | .cloneColl .., b => by cases b <;> simp [Stmt.beq]
  | .shallowColl .., b => by cases b <;> simp [Stmt.beq]
  | .setNs .., b => by cases b <;> simp [Stmt.beq]; (try exact fun a b c => ⟨a, b, c⟩)
  | .setNsNew .., b => by cases b <;> simp [Stmt.beq]
  | .deleteNs .., b => by cases b <;> simp [Stmt.beq]
  | .callColl .., b => by cases b <;> simp [Stmt.beq]; (try exact fun a b c => ⟨a, b, c⟩)
  | .setCatalog .., b => by cases b <;> simp [Stmt.beq]
  | .setDirty, b => by cases b <;> simp [Stmt.beq]
  | .retErr, b => by cases b <;> simp [Stmt.beq]
  | .retOk, b => by cases b <;> simp [Stmt.beq]
  | .fail, b => by cases b <;> simp [Stmt.beq]
  | .brk, b => by cases b <;> simp [Stmt.beq]
  | .cont, b => by cases b <;> simp [Stmt.beq]
  | .ite c t e, b => by
      cases b <;> simp [Stmt.beq]
      intro h1 h2 h3; exact ⟨h1, Stmt.beqL_eq _ _ h2, Stmt.beqL_eq _ _ h3⟩
  | .loop o l, b => by
      cases b <;> simp [Stmt.beq]
      intro h1 h2; exact ⟨h1, Stmt.beqL_eq _ _ h2⟩
  | .helper n l, b => by
      cases b <;> simp [Stmt.beq]
      intro h1 h2; exact ⟨h1, Stmt.beqL_eq _ _ h2⟩
  | .unknown .., b => by cases b <;> simp [Stmt.beq]
theorem Stmt.beqL_eq : ∀ (a b : List Stmt), Stmt.beqL a b = true → a = b
  | [], b => by cases b <;> simp [Stmt.beqL]
  | p :: ps, b => by
      cases b <;> simp [Stmt.beqL]
      intro h1 h2; exact ⟨Stmt.beq_eq _ _ h1, Stmt.beqL_eq _ _ h2⟩
end

mutual
theorem Stmt.beq_refl : ∀ (a : Stmt), Stmt.beq a a = true
  | .validate | .setDirty | .retErr | .retOk | .fail | .brk | .cont => by simp [Stmt.beq]
  | .cloneDocs .. | .cloneCatalog .. | .alias .. | .newColl .. | .cloneColl .. | .shallowColl .. | .setNs ..
  | .setNsNew ..
  | .deleteNs .. | .callColl .. | .setCatalog .. | .unknown .. => by simp [Stmt.beq]
  | .ite c t e => by simp [Stmt.beq, Stmt.beqL_refl t, Stmt.beqL_refl e]
  | .loop o l => by simp [Stmt.beq, Stmt.beqL_refl l]
  | .helper n l => by simp [Stmt.beq, Stmt.beqL_refl l]
theorem Stmt.beqL_refl : ∀ (a : List Stmt), Stmt.beqL a a = true
  | [] => by simp [Stmt.beqL]
  | p :: ps => by simp [Stmt.beqL, Stmt.beq_refl p, Stmt.beqL_refl ps]
end

instance : DecidableEq Stmt := fun a b =>
  decidable_of_iff (Stmt.beq a b = true) ⟨Stmt.beq_eq a b, fun h => h ▸ Stmt.beq_refl a⟩

/-! ## Write structure of the mongokit.Collection methods (data; DESIGN §4.1 `Gen/CollWrites`) -/

/-- the steps of a Collection method that matter to ownership and to C15, in source order -/
inductive CollStep
  | sort | filter | skip
  | cloneDocs                     -- `bsonkit.CloneList(list)` / `bsonkit.Clone(repl)`
  | extract                       -- `Extract(query)`: a fresh document
  | apply (target : String)       -- `Update(newList, …)` / `Apply(doc, …)`: IN PLACE on `target`
  | idCheck                       -- `sameValue(… "_id" …)`
  | putId (target : String)       -- `bsonkit.Put(target, "_id", …)`: in place on `target`
  | idxRemove | idxAdd            -- `index.Remove(doc)` / `index.Add(doc)` on an index of `c.Indexes`
  | idxBuild                      -- `index.Build(c.Documents.List)` on the index just created
  | setAdd | setReplace | setRemove   -- `c.Documents.Add/Replace/Remove`
  | mapPut | mapDelete            -- `c.Indexes[name] = index` / `delete(c.Indexes, name)`
  | forBegin (over : String) | forEnd
  | other (src : String)          -- a call on `c.` / `index.` the extractor does not know
  deriving DecidableEq, Repr

structure CollProg where
  name : String
  params : List String
  steps : List CollStep
  deriving DecidableEq, Repr

/-! ## Interpreter -/

structure TxnState where
  catalog : ObjId       -- t.catalog (a pointer)
  dirty : Bool          -- t.dirty
  deriving DecidableEq, Repr

/-- which of its own components a Collection method may write (justified per method by
    `Expected.collPrograms`, see `Expected.collFootprint_ok`) -/
structure Footprint where
  arg : Bool      -- writes the document passed in (`bsonkit.Put(doc, "_id", …)`)
  list : Bool     -- writes `c.Documents` (Set.Add/Replace/Remove)
  idx : Bool      -- writes existing indexes of `c.Indexes` (Index.Add/Remove)
  map : Bool      -- writes the `c.Indexes` map (add a fresh index / delete entries)
  deriving DecidableEq, Repr

def Method.footprint : Method → Footprint
  | .insert      => ⟨true,  true,  true,  false⟩
  | .replace     => ⟨true,  true,  true,  false⟩
  | .update      => ⟨false, true,  true,  false⟩
  | .upsert      => ⟨false, true,  true,  false⟩
  | .delete      => ⟨false, true,  true,  false⟩
  | .createIndex => ⟨false, false, false, true⟩
  | .dropIndex   => ⟨false, false, false, true⟩
  | .buildIndex  => ⟨false, false, true,  false⟩
  | .setRemove   => ⟨false, true,  false, false⟩

/-- does the method return an error?  (`Set.Remove` returns a bool that Clean ignores; it cannot stop half-way) -/
def Method.fallible : Method → Bool
  | .setRemove => false
  | _ => true

/-- one nondeterministic Collection-method execution: what it allocated, what it overwrote (any subset,
    any content — a PARTIAL mutation), and only then whether it reported success -/
structure Mut where
  newDocs : List Nat := []                    -- fresh DocNodes (CloneList / Extract / oplog event …)
  argVals : List Nat := []                    -- new contents of the argument's DocNodes (zip)
  list : Option (List ObjId) := none          -- `some l`: Set.List now holds these documents
  idx : List (String × List ObjId) := []      -- named existing indexes overwritten with these documents
  drop : List String := []                    -- names deleted from c.Indexes
  add : List (String × List ObjId) := []      -- fresh indexes built and put into c.Indexes
  ok : Bool := true                           -- err == nil ?
  deriving DecidableEq, Repr

structure Choices where
  muts : List Mut := []          -- one per callColl executed
  flags : List Bool := []        -- one per `validate` / opaque condition evaluated
  iters : List Nat := []         -- one per loop entered: number of iterations attempted
  handles : List HandleV := []   -- one per iteration of a loop over `cat.Namespaces`
  deriving Repr

structure Env where
  vars : List (Var × Option ObjId) := []   -- catalog / collection variables (none = nil pointer)
  docs : List (Var × List ObjId) := []     -- document (list) variables
  param : HandleV := 1
  loopVar : HandleV := 0
  err : Bool := false
  deriving Repr

structure St where
  heap : Heap
  txn : TxnState
  env : Env
  ch : Choices

inductive Sig | next | ret | brk | cont | panic
  deriving DecidableEq, Repr

def tcat : Var := "t.catalog"

namespace St
def var (st : St) (v : Var) : Option ObjId :=
  if v = tcat then some st.txn.catalog else (st.env.vars.lookup v).join
def bind (st : St) (v : Var) (o : Option ObjId) : St :=
  { st with env := { st.env with vars := (v, o) :: st.env.vars } }
def bindDocs (st : St) (v : Var) (os : List ObjId) : St :=
  { st with env := { st.env with docs := (v, os) :: st.env.docs } }
def docsOf (st : St) (v : Var) : List ObjId := (st.env.docs.lookup v).getD []
def hval (st : St) : HExpr → HandleV
  | .param => st.env.param
  | .oplog => 0
  | .loopVar => st.env.loopVar
def setErr (st : St) (b : Bool) : St := { st with env := { st.env with err := b } }
def popFlag (st : St) : Bool × St :=
  (st.ch.flags.headD false, { st with ch := { st.ch with flags := st.ch.flags.tail } })
def popMut (st : St) : Mut × St :=
  (st.ch.muts.headD {}, { st with ch := { st.ch with muts := st.ch.muts.tail } })
def popIter (st : St) : Nat × St :=
  (st.ch.iters.headD 0, { st with ch := { st.ch with iters := st.ch.iters.tail } })
def popHandle (st : St) : St :=
  { st with env := { st.env with loopVar := st.ch.handles.headD 0 },
            ch := { st.ch with handles := st.ch.handles.tail } }
/-- the object a catalog/collection variable points to -/
def obj (st : St) (v : Var) : Option (ObjId × Obj) :=
  match st.var v with
  | none => none
  | some o => (st.heap.get o).map (o, ·)
def evalC (st : St) : CExpr → Option ObjId
  | .var v => st.var v
  | .ns c h =>
    match st.obj c with
    | some (_, .cat ns) => ns.lookup (st.hval h)
    | _ => none
end St

def mapPut (ns : List (HandleV × ObjId)) (k : HandleV) (o : ObjId) : List (HandleV × ObjId) :=
  (k, o) :: ns.filter (fun p => p.1 != k)
def mapDel (ns : List (HandleV × ObjId)) (k : HandleV) : List (HandleV × ObjId) :=
  ns.filter (fun p => p.1 != k)

def Cond.eval : Cond → St → Bool × St
  | .isNil e, st => ((st.evalC e).isNone, st)
  | .err, st => (st.env.err, st)
  | .test _, st => st.popFlag
  | .neg c, st => let (b, st) := c.eval st; (!b, st)
  | .both a b, st => let (x, st) := a.eval st; let (y, st) := b.eval st; (x && y, st)
  | .either a b, st => let (x, st) := a.eval st; let (y, st) := b.eval st; (x || y, st)

def docVal (h : Heap) (o : ObjId) : Nat :=
  match h.get o with
  | some (.doc v) => v
  | _ => 0
def setList (h : Heap) (o : ObjId) : List ObjId :=
  match h.get o with
  | some (.set l) => l
  | _ => []
def idxEntries (h : Heap) (o : ObjId) : List ObjId :=
  match h.get o with
  | some (.idx l) => l
  | _ => []

/-- mongokit.NewCollection(true): empty Set, the `_id_` index, the collection struct -/
def newCollH (h : Heap) : Heap × ObjId :=
  let (h, s) := h.alloc (.set [])
  let (h, i) := h.alloc (.idx [])
  h.alloc (.coll s [("_id_", i)])

/-- Collection.Clone: `Documents.Clone()` (fresh Set, same documents), every index cloned (fresh btree,
    same documents), fresh Indexes map -/
def cloneCollH (h : Heap) (s : ObjId) (idxs : List (String × ObjId)) : Heap × ObjId :=
  let (h1, s') := h.alloc (.set (setList h s))
  let (h2, is') := h1.allocs (idxs.map fun p => Obj.idx (idxEntries h p.2))
  h2.alloc (.coll s' ((idxs.map (·.1)).zip is'))

/-- restrict a mutation to the method's footprint -/
def Mut.restrict (mu : Mut) (fp : Footprint) : Mut :=
  { mu with
    argVals := if fp.arg then mu.argVals else [],
    list := if fp.list then mu.list else none,
    idx := if fp.idx then mu.idx else [],
    drop := if fp.map then mu.drop else [],
    add := if fp.map then mu.add else [] }

/-- writes into the existing indexes named by the mutation -/
def idxWrites (bound : Nat) (idxs : List (String × ObjId)) (ws : List (String × List ObjId)) : List (ObjId × Obj) :=
  ws.filterMap fun w => (idxs.lookup w.1).map fun p => (p, Obj.idx (w.2.filter (· < bound)))

/-- first stages of a mutation: allocate the new DocNodes, write the argument's nodes, the Set, the
    existing indexes.  Document ids mentioned by the mutation are clipped to allocated ids. -/
def applyMutPre (h : Heap) (s : Nat) (idxs : List (String × Nat)) (args : List Nat) (mu : Mut) : Heap :=
  let h1 := (h.allocs (mu.newDocs.map Obj.doc)).1
  let h2 := h1.writes (args.zip (mu.argVals.map Obj.doc))
  let h3 := match mu.list with
    | some l => h2.write s (.set (l.filter (· < h1.size)))
    | none => h2
  h3.writes (idxWrites h1.size idxs mu.idx)

/-- apply a (restricted) mutation to the collection object `o = coll s idxs`; `args` = DocNodes of the
    argument.  Last stage: the Indexes map (fresh indexes added, names dropped) — in place on `o`. -/
def applyMut (h : Heap) (o s : Nat) (idxs : List (String × Nat)) (args : List Nat) (mu : Mut) : Heap :=
  let h4 := applyMutPre h s idxs args mu
  let bound := (h.allocs (mu.newDocs.map Obj.doc)).1.size
  let r5 := h4.allocs (mu.add.map fun a => Obj.idx (a.2.filter (· < bound)))
  if mu.drop.isEmpty && mu.add.isEmpty then r5.1
  else r5.1.write o (.coll s (idxs.filter (fun p => !mu.drop.contains p.1) ++ (mu.add.map (·.1)).zip r5.2))

def St.argDocs (st : St) : Option Var → List Nat
  | some a => st.docsOf a
  | none => []

/-- `…, err = recv.M(arg…)` on the collection object `o = coll s idxs`: the next `Mut` of the choices,
    restricted to the method's footprint, is applied; `err` is set from its outcome -/
def callCollSt (st : St) (o s : Nat) (idxs : List (String × Nat)) (m : Method) (arg : Option Var) : St :=
  let mu := st.popMut.1.restrict m.footprint
  let st' : St := { st.popMut.2 with heap := applyMut st.heap o s idxs (st.argDocs arg) mu }
  if m.fallible then st'.setErr (!mu.ok) else st'

/-- run `f` up to `n` times; `next`/`cont` go on, `brk` ends the loop normally, `ret`/`panic` propagate -/
def iterate (f : St → St × Sig) : Nat → St → St × Sig
  | 0, st => (st, .next)
  | n+1, st =>
    match f st with
    | (st', .next) | (st', .cont) => iterate f n st'
    | (st', .brk) => (st', .next)
    | (st', sg) => (st', sg)

mutual
def exec : Stmt → St → St × Sig
  | .validate, st => let (b, st) := st.popFlag; (st.setErr b, .next)
  | .cloneDocs dst src, st =>
    let (h, os) := st.heap.allocs ((st.docsOf src).map fun o => Obj.doc (docVal st.heap o))
    (({ st with heap := h }).bindDocs dst os, .next)
  | .cloneCatalog dst src, st =>
    match st.obj src with
    | some (_, .cat ns) =>
      let (h, o) := st.heap.alloc (.cat ns)
      (({ st with heap := h }).bind dst (some o), .next)
    | _ => (st, .panic)
  | .alias dst e, st => (st.bind dst (st.evalC e), .next)
  | .newColl dst, st =>
    let (h, o) := newCollH st.heap
    (({ st with heap := h }).bind dst (some o), .next)
  | .cloneColl dst e, st =>
    match (st.evalC e).bind fun o => st.heap.get o with
    | some (.coll s idxs) =>
      let (h, o) := cloneCollH st.heap s idxs
      (({ st with heap := h }).bind dst (some o), .next)
    | _ => (st, .panic)                                      -- nil dereference
  | .shallowColl dst e, st =>
    match (st.evalC e).bind fun o => st.heap.get o with
    | some (.coll s idxs) =>
      let (h, o) := st.heap.alloc (.coll s idxs)
      (({ st with heap := h }).bind dst (some o), .next)
    | _ => (st, .panic)
  | .setNs c hx v, st =>
    match st.obj c, st.var v with
    | some (o, .cat ns), some x =>
      -- (a variable only ever holds an allocated object; the test keeps the heap closed by construction)
      if x < st.heap.size then
        ({ st with heap := st.heap.write o (.cat (mapPut ns (st.hval hx) x)) }, .next)
      else (st, .panic)
    | some (_, .cat _), none => (st, .next)
    | _, _ => (st, .panic)
  | .setNsNew c hx, st =>
    match st.obj c with
    | some (o, .cat ns) =>
      let (h, x) := newCollH st.heap
      ({ st with heap := h.write o (.cat (mapPut ns (st.hval hx) x)) }, .next)
    | _ => (st, .panic)
  | .deleteNs c hx, st =>
    match st.obj c with
    | some (o, .cat ns) => ({ st with heap := st.heap.write o (.cat (mapDel ns (st.hval hx))) }, .next)
    | _ => (st, .panic)
  | .callColl recv m arg, st =>
    match st.obj recv with
    | some (o, .coll s idxs) => (callCollSt st o s idxs m arg, .next)
    | _ => (st, .panic)
  | .setCatalog v, st =>
    match st.var v with
    | some o =>
      if o < st.heap.size then ({ st with txn := { st.txn with catalog := o } }, .next) else (st, .panic)
    | none => (st, .panic)
  | .setDirty, st => ({ st with txn := { st.txn with dirty := true } }, .next)
  | .retErr, st => (st, .ret)
  | .retOk, st => (st.setErr false, .ret)
  | .fail, st => (st.setErr true, .ret)
  | .brk, st => (st, .brk)
  | .cont, st => (st, .cont)
  | .ite c t e, st =>
    let (b, st) := c.eval st
    if b then execL t st else execL e st
  | .loop overNs body, st =>
    let (n, st) := st.popIter
    iterate (fun st => execL body (if overNs then st.popHandle else st)) n st
  | .helper _ body, st =>
    match execL body st with
    | (st', .ret) => (st', .next)
    | r => r
  | .unknown _, st => (st, .next)
def execL : List Stmt → St → St × Sig
  | [], st => (st, .next)
  | s :: ss, st =>
    match exec s st with
    | (st', .next) => execL ss st'
    | r => r
end

inductive Outcome | ok | error | panic
  deriving DecidableEq, Repr

/-- the call's arguments: the handle and the caller's document lists (by parameter name) -/
structure Args where
  handle : HandleV := 1
  docs : List (Var × List ObjId) := []
  deriving Repr

def initSt (a : Args) (ch : Choices) (h : Heap) (t : TxnState) : St :=
  { heap := h, txn := t, ch := ch,
    env := { param := a.handle, docs := a.docs.map fun p => (p.1, p.2.filter (· < h.size)) } }

def outcomeOf (st : St) : Sig → Outcome
  | .ret => if st.env.err then .error else .ok
  | .panic => .panic
  | _ => .ok

/-- one call of a Transaction write method -/
def run (p : Prog) (a : Args) (ch : Choices) (ht : Heap × TxnState) : Heap × TxnState × Outcome :=
  let r := execL p (initSt a ch ht.1 ht.2)
  (r.1.heap, r.1.txn, outcomeOf r.1 r.2)

/-! ## The static ownership check

  Abstract state at a program point:
    * `owned`     catalog/collection variables bound IN THIS CALL by `cloneCatalog` / `newColl` / `cloneColl`
                  (never by a lookup or an alias) and not rebound since;
    * `ownedDocs` document variables bound in this call by `cloneDocs`;
    * `tcatOwned` `t.catalog` currently points to a catalog cloned in this call (Create);
    * `assigned`  `t.catalog` or `t.dirty` may have been assigned already;
    * `suspect`   receivers of the LAST Collection call, and catalogs they were installed in: they hold
                  a partial mutation iff `err != nil` right now;
    * `tainted`   variables that may hold the partial mutation of a FAILED call (or are of unknown origin);
    * `contents`  (cat, v): the object of `v` was installed into the catalog of `cat` by `setNs`.
  Rules (`check`): setNs/setNsNew/deleteNs need an owned catalog; callColl needs an owned receiver and must
  precede any assignment to `t`; an error return must not follow an assignment to `t`; `t.catalog = v`
  needs `v` neither tainted nor suspect; loops are checked at a stable head state.  With `strict`, a method
  that writes its document argument needs an owned (cloned) argument. -/

structure Abs where
  owned : List Var := []
  ownedDocs : List Var := []
  tcatOwned : Bool := false
  assigned : Bool := false
  suspect : List Var := []
  tainted : List Var := []
  contents : List (Var × Var) := []
  deriving DecidableEq, Repr

namespace Abs
def owns (a : Abs) (v : Var) : Bool := v != tcat && a.owned.contains v
def ownsDocs (a : Abs) (v : Var) : Bool := a.ownedDocs.contains v
def argOwned (a : Abs) : Option Var → Bool
  | some x => a.ownsDocs x
  | none => true
def ownsCat (a : Abs) (c : Var) : Bool := a.owns c || (c == tcat && a.tcatOwned)
/-- forget everything known about `v` (it is being rebound) -/
def forget (a : Abs) (v : Var) : Abs :=
  { a with owned := a.owned.filter (· != v), suspect := a.suspect.filter (· != v),
           tainted := a.tainted.filter (· != v),
           contents := a.contents.filter fun p => p.1 != v && p.2 != v }
def bindOwned (a : Abs) (v : Var) : Abs := let a := a.forget v; { a with owned := v :: a.owned }
def bindAlias (a : Abs) (v : Var) : Abs := let a := a.forget v; { a with tainted := v :: a.tainted }
/-- `err` is about to be overwritten: what was suspect can no longer be cleared by an error check -/
def commitSuspects (a : Abs) : Abs := { a with tainted := a.suspect ++ a.tainted, suspect := [] }
def join (a b : Abs) : Abs :=
  { owned := a.owned.filter (b.owned.contains ·), ownedDocs := a.ownedDocs.filter (b.ownedDocs.contains ·),
    tcatOwned := a.tcatOwned && b.tcatOwned,
    assigned := a.assigned || b.assigned, suspect := a.suspect ++ b.suspect,
    tainted := a.tainted ++ b.tainted, contents := a.contents ++ b.contents }
/-- `le a b`: `a` claims no more than `b` -/
def le (a b : Abs) : Bool :=
  a.owned.all (b.owned.contains ·) && a.ownedDocs.all (b.ownedDocs.contains ·) && (!a.tcatOwned || b.tcatOwned) && (!b.assigned || a.assigned) &&
  b.suspect.all (a.suspect.contains ·) && b.tainted.all (a.tainted.contains ·) &&
  b.contents.all (a.contents.contains ·)
end Abs

def joinO : Option Abs → Option Abs → Option Abs
  | none, b => b
  | a, none => a
  | some a, some b => some (a.join b)

def leO (a : Abs) : Option Abs → Bool
  | none => true
  | some b => a.le b

structure Res where
  ok : Bool := true
  next : Option Abs := none
  brk : Option Abs := none
  cont : Option Abs := none
  ret : Option Abs := none
  deriving DecidableEq, Repr

def Res.step (ok : Bool) (a : Abs) : Res := { ok := ok, next := some a }

/-- abstract states on the true / false edge of a condition -/
def Cond.refine : Cond → Abs → Abs × Abs
  | .err, a => (a, { a with suspect := [] })
  | .neg c, a => let r := c.refine a; (r.2, r.1)
  | .both x y, a => ((y.refine (x.refine a).1).1, a)
  | .either x y, a => (a, (y.refine (x.refine a).2).2)
  | _, a => (a, a)

mutual
def check (strict : Bool) : Stmt → Abs → Res
  | .validate, a => .step true a.commitSuspects
  | .cloneDocs dst _, a => .step true { a with ownedDocs := dst :: a.ownedDocs }
  | .cloneCatalog dst _, a => .step true (a.bindOwned dst)
  | .alias dst _, a => .step true (a.bindAlias dst)
  | .newColl dst, a => .step true (a.bindOwned dst)
  | .cloneColl dst _, a => .step true (a.bindOwned dst)
  | .shallowColl dst _, a => .step true (a.bindAlias dst)
  | .setNs c _ v, a =>
    .step (a.ownsCat c)
      { a with tainted := if a.tainted.contains v then c :: a.tainted else a.tainted,
               suspect := if a.suspect.contains v then c :: a.suspect else a.suspect,
               contents := (c, v) :: a.contents }
  | .setNsNew c _, a => .step (a.ownsCat c) a
  | .deleteNs c _, a => .step (a.ownsCat c) a
  | .callColl recv m arg, a =>
    let argOk := !strict || !m.footprint.arg || a.argOwned arg
    let a' := a.commitSuspects
    .step (a.owns recv && !a.assigned && argOk)
      (if m.fallible then { a' with suspect := recv :: (a.contents.filter (·.2 == recv)).map (·.1) } else a)
  | .setCatalog v, a =>
    .step (!a.tainted.contains v && !a.suspect.contains v)
      { a with assigned := true, tcatOwned := a.owns v }
  | .setDirty, a => .step true { a with assigned := true }
  | .retErr, a => { ok := !a.assigned, ret := some a }
  | .retOk, a => { ok := true, ret := some a.commitSuspects }
  | .fail, a => { ok := !a.assigned, ret := some a }
  | .brk, a => { brk := some a }
  | .cont, a => { cont := some a }
  | .ite c t e, a =>
    let (aT, aE) := c.refine a
    let r1 := checkL strict t aT
    let r2 := checkL strict e aE
    { ok := r1.ok && r2.ok, next := joinO r1.next r2.next, brk := joinO r1.brk r2.brk,
      cont := joinO r1.cont r2.cont, ret := joinO r1.ret r2.ret }
  | .loop _ body, a =>
    let r1 := checkL strict body a
    let head := (joinO (joinO (some a) r1.next) r1.cont).getD a
    let r2 := checkL strict body head
    { ok := r2.ok && leO head r2.next && leO head r2.cont,
      next := joinO (some head) r2.brk, ret := r2.ret }
  | .helper _ body, a =>
    let r := checkL strict body a
    { ok := r.ok, next := joinO r.next r.ret, brk := r.brk, cont := r.cont }
  | .unknown _, a => .step false a
def checkL (strict : Bool) : List Stmt → Abs → Res
  | [], a => .step true a
  | s :: ss, a =>
    let r1 := check strict s a
    match r1.next with
    | none => r1
    | some a1 =>
      let r2 := checkL strict ss a1
      { ok := r1.ok && r2.ok, next := r2.next, brk := joinO r1.brk r2.brk,
        cont := joinO r1.cont r2.cont, ret := joinO r1.ret r2.ret }
end

/-- the ownership check of a write method (containers; caller documents may be written) -/
def ownedOK (p : Prog) : Bool := (checkL false p {}).ok
/-- additionally: every document the call writes in place was cloned by the call -/
def argsOK (p : Prog) : Bool := (checkL true p {}).ok

end Lungo.Own
