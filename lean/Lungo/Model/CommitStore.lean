/-
  Lungo.Model.CommitStore — the store-then-publish core of `Engine.Begin/Commit/Abort` (/repo/engine.go),
  sequential view (the engine mutex serialises these methods), catalogs abstract.

  Commit: checks `e.txn`, `defer e.token.Release()`, `e.txn = nil`, not dirty → nil,
  `err := e.store.Store(txn.Catalog())`, `err != nil → return err`, `e.catalog = txn.Catalog()`.
  The store's outcome is an input: accepted (returned nil), failed (error; the file may or may not
  have been replaced already — see `fault_reports`), or panicked (the deferred release still runs).
-/
namespace Lungo.CommitStore

inductive StoreRes
  | ok            -- Store returned nil
  | fail          -- Store returned an error, file untouched
  | failWritten   -- Store returned an error after the rename (directory sync failed): file already new
  | panic         -- Store panicked
  deriving Repr, DecidableEq

structure Txn (C : Type) where
  cat : C
  dirty : Bool

structure Engine (C : Type) where
  catalog : C            -- e.catalog : what every client sees
  accepted : C           -- ghost: last catalog for which Store returned nil (initially the loaded one)
  file : C               -- ghost: what the store file holds
  txn : Option (Txn C)   -- e.txn
  token : Bool           -- e.token held

inductive Op (C : Type)
  | begin
  | write (c : C)        -- a transaction write method succeeded: t.catalog = clone, t.dirty = true
  | commit (r : StoreRes)
  | abort

inductive Res
  | ok | err | panicked
  deriving Repr, DecidableEq

def step {C : Type} (e : Engine C) : Op C → Engine C × Res
  | .begin =>
    if e.token then (e, .err)                       -- acquisition times out
    else match e.txn with
      | some _ => ({ e with token := false }, .err) -- "existing transaction": token released again
      | none => ({ e with token := true, txn := some ⟨e.catalog, false⟩ }, .ok)
  | .write c =>
    match e.txn with
    | none => (e, .err)
    | some _ => ({ e with txn := some ⟨c, true⟩ }, .ok)
  | .commit r =>
    match e.txn with
    | none => (e, .err)                             -- "no active transaction"
    | some t =>
      let e1 := { e with txn := none, token := false }   -- e.txn = nil; deferred token release
      if !t.dirty then (e1, .ok) else
      match r with
      | .ok => ({ e1 with catalog := t.cat, accepted := t.cat, file := t.cat }, .ok)
      | .fail => (e1, .err)
      | .failWritten => ({ e1 with file := t.cat }, .err)
      | .panic => (e1, .panicked)
  | .abort =>
    match e.txn with
    | none => (e, .ok)
    | some _ => ({ e with txn := none, token := false }, .ok)

def run {C : Type} (e : Engine C) : List (Op C) → Engine C
  | [] => e
  | op :: ops => run (step e op).1 ops

def init {C : Type} (c : C) : Engine C := ⟨c, c, c, none, false⟩

end Lungo.CommitStore
