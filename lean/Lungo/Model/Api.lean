/-
  Lungo.Model.Api — the driver-level calls of collection.go / indexes.go / database.go /
  client.go as transitions on the committed catalog, one call at a time (sequential API):
  each write is `useTransaction(lock) { txn.<method> }` = Begin → method → Commit, i.e. the
  catalog advances to the transaction's catalog iff the method succeeded (and is dirty).
  Result shaping (counts, ids, ReturnDocument, projection after the write) follows collection.go.
-/
import Lungo.Model.Txn
namespace Lungo

/-- reply of a driver call -/
inductive Reply where
  | unit
  | id (v : V)
  | ids (vs : List V) (err : Option Err)
  | docs (ds : List Doc)
  | doc (d : Option Doc)
  | num (n : Nat)
  | vals (vs : List V)
  | update (matched modified : Nat) (upserted : Option V)
  | bulk (inserted matched modified deleted upserted : Nat) (upsertedIds : List (Nat × V)) (errors : List (Nat × Err))
  | name (s : String)
  | names (ss : List String)
deriving Inhabited

structure Sys where
  catalog : Catalog
  nextId : Nat := 0
deriving Inhabited

def Sys.init : Sys := { catalog := newCatalog }

/-- commit of a (possibly dirty) transaction in the sequential setting -/
def Sys.commit (s : Sys) (t : Txn) (nu : Nu) : Sys :=
  { catalog := if t.dirty then t.catalog else s.catalog, nextId := nu.nextId }

/-- the oplog retention settings of the engine (`Options.{Min,Max}OplogSize`, `{Min,Max}OplogAge` after
    CreateEngine's defaulting; ages in whole seconds as `Clean` uses them, `minAgeZero` = `MinOplogAge == 0`,
    which the defaulting excludes for engines built by CreateEngine) -/
structure CleanCfg where
  minSize : Int := 100
  maxSize : Int := 1000
  minAgeS : Nat := 300
  maxAgeS : Nat := 3600
  minAgeZero : Bool := false
deriving Inhabited

/-- Engine.Commit in the sequential setting, INCLUDING retention: a dirty transaction is cleaned
    (`txn.Clean(opts…)` with `bsonkit.Now() = (nowT, nowI)`) and its catalog published; a transaction
    that is not dirty publishes nothing. `Sys.commit` is the special case without retention, which
    coincides with this one as long as the log is not longer than `minSize`
    (`C08.commit_eq_commitWith_when_small`). -/
def Sys.commitWith (cfg : CleanCfg) (nowT nowI : Nat) (s : Sys) (t : Txn) (nu : Nu) : Sys :=
  { catalog := if t.dirty then
      (t.clean cfg.minSize cfg.maxSize cfg.minAgeS cfg.maxAgeS cfg.minAgeZero nowT nowI).catalog else s.catalog,
    nextId := nu.nextId }

def projList (sch : SchemaEval) (proj : Option Doc) (ds : List Doc) : Res (List Doc) :=
  match proj with
  | none => .ok ds
  | some p => ds.mapM (fun d => Project sch d p)

structure FindOpts where
  sort : Option Doc := none
  skip : Int := 0
  limit : Int := 0
  proj : Option Doc := none

def acOf (sch : SchemaEval) : ACtx := { sch := sch, upsert := false, nowDate := .date 0, nowTs := .ts 0 0 }

/-- validateReplacement -/
def validateReplacement (d : Doc) : Res Unit :=
  match d with
  | (k, _) :: _ => if k.startsWith "$" then .error .err else .ok ()
  | [] => .ok ()

def Sys.nu (s : Sys) (oids : List V) : Nu := { nextId := s.nextId, oids := oids }

def updReply (r : TResult) : Reply :=
  match r.upserted with
  | some d => .update 0 0 (some (Get d "_id"))
  | none => .update r.matched.length r.modified.length none

/-- the document handed back by FindOneAndReplace/Update -/
def famDoc (r : TResult) (returnAfter : Bool) : Option Doc :=
  match r.upserted with
  | some d => if returnAfter then some d else none
  | none =>
    match r.matched with
    | m :: _ =>
      if returnAfter then (match r.modified with
        | x :: _ => some x
        | [] => some m) else some m
    | [] => none

def projOpt (sch : SchemaEval) (proj : Option Doc) (d : Option Doc) : Res (Option Doc) :=
  match d, proj with
  | some x, some p => match Project sch x p with
    | .error e => .error e
    | .ok y => .ok (some y)
  | d, _ => .ok d

inductive BulkModel where
  | insertOne (doc : Doc)
  | replaceOne (q repl : Doc) (upsert : Bool)
  | updateOne (q u : Doc) (upsert : Bool) (filters : List Doc)
  | updateMany (q u : Doc) (upsert : Bool) (filters : List Doc)
  | deleteOne (q : Doc)
  | deleteMany (q : Doc)
deriving Inhabited

def BulkModel.toOp : BulkModel → Operation
  | .insertOne d => { opcode := .insert, document := d, limit := 1 }
  | .replaceOne q r u => { opcode := .replace, filter := q, document := r, upsert := u, limit := 1 }
  | .updateOne q u up fs => { opcode := .update, filter := q, document := u, upsert := up, limit := 1, arrayFilters := fs }
  | .updateMany q u up fs => { opcode := .update, filter := q, document := u, upsert := up, limit := 0, arrayFilters := fs }
  | .deleteOne q => { opcode := .delete, filter := q, limit := 1 }
  | .deleteMany q => { opcode := .delete, filter := q, limit := 0 }

inductive Call where
  | insertOne (h : Handle) (doc : Doc)
  | insertMany (h : Handle) (docs : List Doc) (ordered : Bool)
  | find (h : Handle) (q : Doc) (o : FindOpts)
  | findOne (h : Handle) (q : Doc) (o : FindOpts)
  | count (h : Handle) (q : Doc) (skip limit : Int)
  | estCount (h : Handle)
  | distinct (h : Handle) (field : String) (q : Doc)
  | updateOne (h : Handle) (q u : Doc) (upsert : Bool) (filters : List Doc)
  | updateMany (h : Handle) (q u : Doc) (upsert : Bool) (filters : List Doc)
  | replaceOne (h : Handle) (q repl : Doc) (upsert : Bool)
  | deleteOne (h : Handle) (q : Doc)
  | deleteMany (h : Handle) (q : Doc)
  | findOneAndDelete (h : Handle) (q : Doc) (sort proj : Option Doc)
  | findOneAndReplace (h : Handle) (q repl : Doc) (sort proj : Option Doc) (upsert after : Bool)
  | findOneAndUpdate (h : Handle) (q u : Doc) (sort proj : Option Doc) (upsert after : Bool) (filters : List Doc)
  | bulkWrite (h : Handle) (models : List BulkModel) (ordered : Bool)
  | createIndex (h : Handle) (name : String) (config : IndexConfig)
  | dropIndex (h : Handle) (name : String)
  | dropAllIndexes (h : Handle)
  | dropIndexByKey (h : Handle) (key : Doc)
  | listIndexes (h : Handle)
  | createCollection (h : Handle)
  | dropCollection (h : Handle)
  | dropDatabase (db : String)
  | listCollections (db : String) (q : Doc)
  | listDatabases (q : Doc)
  | expire (nowMs : Int)

/-- Transaction.ListCollections (names, sorted) -/
def listCollectionDocs (cat : Catalog) (db : String) : List Doc :=
  (cat.namespaces.filter (·.1.db == db)).map fun (ns, _) =>
    let full := ns.db ++ "." ++ ns.coll
    ([("name", V.str ns.coll), ("type", .str "collection"), ("options", .doc []),
      ("info", .doc [("uuid", .str full), ("readOnly", .bool false)]),
      ("idIndex", .doc [("v", .i32 2), ("key", .doc [("_id", .i32 1)]), ("name", .str "_id_"), ("namespace", .str full)])] : Doc)

def dedupStrings : List String → List String
  | [] => []
  | x :: r => if r.contains x then dedupStrings r else x :: dedupStrings r

def listDatabaseDocs (cat : Catalog) : List Doc :=
  let dbs := dedupStrings (cat.namespaces.map (·.1.db))
  dbs.map fun db =>
    let empty := (cat.namespaces.filter (·.1.db == db)).all fun (_, c) => c.docs.isEmpty
    ([("name", V.str db), ("sizeOnDisk", .i64 0), ("empty", .bool empty)] : Doc)

def filterPlain (sch : SchemaEval) (q : Doc) : List Doc → Res (List Doc)
  | [] => .ok []
  | d :: r =>
    match Match sch d q with
    | .error e => .error e
    | .ok b =>
      match filterPlain sch q r with
      | .error e => .error e
      | .ok rest => .ok (if b then d :: rest else rest)

def namesOf (ds : List Doc) : List String :=
  ds.filterMap fun d => match Get d "name" with
    | .str s => some s
    | _ => none

/-- one driver call executed on a transaction `t0` (a fresh one over the committed catalog for
    plain calls, the session's transaction inside a session): the transaction after the call,
    ν and the reply — or an error, in which case the transaction is as before. -/
def runCall (sch : SchemaEval) (t0 : Txn) (nu : Nu) (c : Call) : Res (Txn × Nu × Reply) :=
  let ac := acOf sch
  match c with
  | .insertOne h doc =>
    match t0.insert sch h [doc] true nu with
    | .error e => .error e
    | .ok (t, r, nu) =>
      match r.error with
      | some e => .error e       -- the transaction is still committed (nothing was inserted)
      | none => match r.modified with
        | d :: _ => .ok (t, nu, .id (Get d "_id"))
        | [] => .error .err
  | .insertMany h docs ordered =>
    match t0.insert sch h docs ordered nu with
    | .error e => .error e
    | .ok (t, r, nu) => .ok (t, nu, .ids (r.modified.map fun d => Get d "_id") r.error)
  | .find h q o =>
    match t0.find sch h q o.sort o.skip o.limit with
    | .error e => .error e
    | .ok l => match projList sch o.proj l with
      | .error e => .error e
      | .ok l => .ok (t0, nu, .docs l)
  | .findOne h q o =>
    match t0.find sch h q o.sort o.skip 1 with
    | .error e => .error e
    | .ok [] => .ok (t0, nu, .doc none)
    | .ok l => match projList sch o.proj l with
      | .error e => .error e
      | .ok l => .ok (t0, nu, .doc l.head?)
  | .count h q skip limit =>
    match t0.find sch h q none skip limit with
    | .error e => .error e
    | .ok l => .ok (t0, nu, .num l.length)
  | .estCount h =>
    match t0.count h with
    | .error e => .error e
    | .ok n => .ok (t0, nu, .num n)
  | .distinct h field q =>
    match t0.find sch h q none 0 0 with
    | .error e => .error e
    | .ok l => .ok (t0, nu, .vals (Distinct l field))
  | .updateOne h q u upsert fs =>
    match t0.update ac h q none u 0 1 upsert fs nu with
    | .error e => .error e
    | .ok (t, r, nu) => .ok (t, nu, updReply r)
  | .updateMany h q u upsert fs =>
    match t0.update ac h q none u 0 0 upsert fs nu with
    | .error e => .error e
    | .ok (t, r, nu) => .ok (t, nu, updReply r)
  | .replaceOne h q repl upsert =>
    match validateReplacement repl with
    | .error e => .error e
    | .ok _ =>
      match t0.replace ac h q none repl upsert nu with
      | .error e => .error e
      | .ok (t, r, nu) => .ok (t, nu, updReply r)
  | .deleteOne h q =>
    match t0.delete sch h q none 0 1 nu with
    | .error e => .error e
    | .ok (t, r, nu) => .ok (t, nu, .num r.matched.length)
  | .deleteMany h q =>
    match t0.delete sch h q none 0 0 nu with
    | .error e => .error e
    | .ok (t, r, nu) => .ok (t, nu, .num r.matched.length)
  | .findOneAndDelete h q sort proj =>
    match t0.delete sch h q sort 0 1 nu with
    | .error e => .error e
    | .ok (t, r, nu) =>
      -- the write is committed before the projection is applied
      -- NOTE: the write is committed before the projection is applied (a projection error
      -- then reports an error although the write took effect); see `runCall_projection_after_write`.
      match projOpt sch proj r.matched.head? with
      | .error e => .error e
      | .ok d => .ok (t, nu, .doc d)
  | .findOneAndReplace h q repl sort proj upsert after =>
    match validateReplacement repl with
    | .error e => .error e
    | .ok _ =>
      match t0.replace ac h q sort repl upsert nu with
      | .error e => .error e
      | .ok (t, r, nu) =>
        match projOpt sch proj (famDoc r after) with
        | .error e => .error e
        | .ok d => .ok (t, nu, .doc d)
  | .findOneAndUpdate h q u sort proj upsert after fs =>
    match t0.update ac h q sort u 0 1 upsert fs nu with
    | .error e => .error e
    | .ok (t, r, nu) =>
      match projOpt sch proj (famDoc r after) with
      | .error e => .error e
      | .ok d => .ok (t, nu, .doc d)
  | .bulkWrite h models ordered =>
    match models.find? (fun m => match m with
        | .replaceOne _ r _ => (validateReplacement r).toBool == false
        | _ => false) with
    | some _ => .error .err
    | none =>
      let ops := models.map BulkModel.toOp
      match t0.bulk ac h ops ordered nu with
      | .error e => .error e
      | .ok (t, results, nu) =>
        let idx := (List.range results.length).zip (results.zip ops)
        let rep : Reply := idx.foldl (fun acc (i, (r, op)) =>
          match acc with
          | .bulk ins mat mod del ups uids errs =>
            match r.error with
            | some e => .bulk ins mat mod del ups uids (errs ++ [(i, e)])
            | none =>
              match op.opcode with
              | .insert => .bulk (ins + r.modified.length) mat mod del ups uids errs
              | .delete => .bulk ins mat mod (del + r.matched.length) ups uids errs
              | _ =>
                match r.upserted with
                | some d => .bulk ins (mat + r.matched.length) (mod + r.modified.length) del (ups + 1) (uids ++ [(i, Get d "_id")]) errs
                | none => .bulk ins (mat + r.matched.length) (mod + r.modified.length) del ups uids errs
          | other => other) (.bulk 0 0 0 0 0 [] [])
        .ok (t, nu, rep)
  | .createIndex h name config =>
    match t0.createIndex sch h name config with
    | .error e => .error e
    | .ok (t, name) => .ok (t, nu, .name name)
  | .dropIndex h name =>
    match t0.dropIndex h name with
    | .error e => .error e
    | .ok t => .ok (t, nu, .unit)
  | .dropAllIndexes h =>
    match t0.dropIndex h "" with
    | .error e => .error e
    | .ok t => .ok (t, nu, .unit)
  | .dropIndexByKey h key =>
    match t0.dropIndexByKey h key with
    | .error e => .error e
    | .ok t => .ok (t, nu, .unit)
  | .listIndexes h =>
    match t0.listIndexes h with
    | .error e => .error e
    | .ok l => .ok (t0, nu, .docs l)
  | .createCollection h =>
    match t0.create h with
    | .error e => .error e
    | .ok t => .ok (t, nu, .unit)
  | .dropCollection h =>
    -- Collection.Drop validates its handle (a collection is needed) before beginning the
    -- transaction: a handle without a collection would be the request to drop the database
    match h.validate true with
    | .error e => .error e
    | .ok _ =>
      match t0.drop h nu with
      | .error e => .error e
      | .ok (t, nu) => .ok (t, nu, .unit)
  | .dropDatabase db =>
    match t0.drop ⟨db, ""⟩ nu with
    | .error e => .error e
    | .ok (t, nu) => .ok (t, nu, .unit)
  | .listCollections db q =>
    match (Handle.mk db "").validate false with
    | .error e => .error e
    | .ok _ =>
      match filterPlain sch q (listCollectionDocs t0.catalog db) with
      | .error e => .error e
      | .ok l => .ok (t0, nu, .names (namesOf (sortDocs l [{ path := "name", reverse := false }])))
  | .listDatabases q =>
    match filterPlain sch q (listDatabaseDocs t0.catalog) with
    | .error e => .error e
    | .ok l => .ok (t0, nu, .names (namesOf (sortDocs l [{ path := "name", reverse := false }])))
  | .expire nowMs =>
    match t0.expire sch nowMs nu with
    | .error e => .error e
    | .ok (t, n, nu) => .ok (t, nu, .num n)

/-- one driver call outside any session: Begin → call → Commit. -/
def Sys.step (sch : SchemaEval) (s : Sys) (c : Call) (oids : List V) : Res (Sys × Reply) :=
  match runCall sch { catalog := s.catalog } (s.nu oids) c with
  | .error e => .error e
  | .ok (t, nu, r) => .ok (s.commit t nu, r)

end Lungo
