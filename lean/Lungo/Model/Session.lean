/-
  Lungo.Model.Session — sessions and multi-call transactions executed ONE CALL AT A TIME
  (the sequential reading of session.go, utils.go `useTransaction`, engine.go Begin/Commit/Abort).

  There is a single writer slot: while a session holds the engine's write transaction every
  other write (and every direct `Begin(lock)`) blocks until its context expires — modelled as
  the result `blocked` with no state change. Reads outside the transaction see the committed
  catalog; calls carrying the session context run on the session's transaction.
-/
import Lungo.Model.Api
namespace Lungo

structure SessState where
  txn : Option Txn := none
  ended : Bool := false
deriving Inhabited

structure SSys where
  sys : Sys
  holder : Option Nat := none            -- session whose transaction is the engine's e.txn
  sessions : List (Nat × SessState) := []
deriving Inhabited

def SSys.init : SSys := { sys := Sys.init }

def SSys.sess (s : SSys) (sid : Nat) : SessState :=
  ((s.sessions.find? (·.1 == sid)).map (·.2)).getD {}

def SSys.setSess (s : SSys) (sid : Nat) (st : SessState) : SSys :=
  if s.sessions.any (·.1 == sid) then
    { s with sessions := s.sessions.map fun (k, x) => if k == sid then (k, st) else (k, x) }
  else { s with sessions := s.sessions ++ [(sid, st)] }

/-- calls that use `engine.Begin(ctx, true)` directly instead of `useTransaction` -/
def Call.directBegin : Call → Bool
  | .createIndex .. => true
  | .dropIndex .. => true
  | .dropAllIndexes .. => true
  | .dropIndexByKey .. => true
  | .createCollection .. => true
  | .dropCollection .. => true
  | .dropDatabase .. => true
  | _ => false

/-- calls that take the writer slot (`lock = true`) -/
def Call.isWrite : Call → Bool
  | .find .. => false
  | .findOne .. => false
  | .count .. => false
  | .estCount .. => false
  | .distinct .. => false
  | .listIndexes .. => false
  | .listCollections .. => false
  | .listDatabases .. => false
  | _ => true

/-- argument validation performed before `Begin` (collection.go: validateReplacement; Collection.Drop
    validates its handle — a collection name is needed — before beginning the transaction) -/
def Call.prevalidationFails : Call → Bool
  | .dropCollection h => (h.validate true).toBool == false
  | .replaceOne _ _ repl _ => (validateReplacement repl).toBool == false
  | .findOneAndReplace _ _ repl _ _ _ _ => (validateReplacement repl).toBool == false
  | .bulkWrite _ models _ => models.any fun m => match m with
      | .replaceOne _ r _ => (validateReplacement r).toBool == false
      | _ => false
  | _ => false

inductive SReply where
  | ok (r : Reply)
  | done
  | blocked              -- the call waits for the writer slot (returns a context/timeout error)
  | failed (e : Err)
deriving Inhabited

inductive SCall where
  | start (sid : Nat)
  | commit (sid : Nat)
  | abort (sid : Nat)
  | endSession (sid : Nat)
  | call (sid : Option Nat) (c : Call) (oids : List V)

/-- one step of the session-level system -/
def SSys.step (sch : SchemaEval) (s : SSys) : SCall → SSys × SReply
  | .start sid =>
    let st := s.sess sid
    if st.ended then (s, .failed .err)
    else if st.txn.isSome then (s, .failed .err)
    else if s.holder.isSome then (s, .blocked)
    else ({ (s.setSess sid { st with txn := some { catalog := s.sys.catalog } }) with holder := some sid }, .done)
  | .commit sid =>
    let st := s.sess sid
    if st.ended then (s, .failed .err)
    else match st.txn with
      | none => (s, .failed .err)
      | some t =>
        -- Engine.Commit: publish iff dirty (Clean is a no-op on short logs); the slot is freed
        let sys' : Sys := { s.sys with catalog := if t.dirty then t.catalog else s.sys.catalog }
        ({ (s.setSess sid { st with txn := none }) with sys := sys', holder := none }, .done)
  | .abort sid =>
    let st := s.sess sid
    if st.ended then (s, .failed .err)
    else match st.txn with
      | none => (s, .done)
      | some _ => ({ (s.setSess sid { st with txn := none }) with holder := none }, .done)
  | .endSession sid =>
    let st := s.sess sid
    if st.ended then (s, .done)
    else
      let s' := match st.txn with
        | none => s
        | some _ => { s with holder := none }
      (s'.setSess sid { txn := none, ended := true }, .done)
  | .call sid c oids =>
    let active : Option (Nat × Txn) := match sid with
      | none => none
      | some k => (s.sess k).txn.map fun t => (k, t)
    match active with
    | some (k, t) =>
      if c.directBegin then (s, .failed .err)      -- "detected nested transaction"
      else
        match runCall sch t { nextId := s.sys.nextId, oids := oids } c with
        | .error e => (s, .failed e)
        | .ok (t', nu, r) =>
          ({ (s.setSess k { (s.sess k) with txn := some t' }) with sys := { s.sys with nextId := nu.nextId } }, .ok r)
    | none =>
      -- validateReplacement runs before Begin: such calls fail at once even while the slot is held
      if c.prevalidationFails then (s, .failed .err)
      else if c.isWrite && s.holder.isSome then (s, .blocked)
      else
        match s.sys.step sch c oids with
        | .error e => (s, .failed e)
        | .ok (sys', r) => ({ s with sys := sys' }, .ok r)

end Lungo
