/-
  Lungo.Model.Compare — mirrors bsonkit/compare.go function by function.

  Go floats are represented by their decoded exact value (`XR`); the Go operations used by
  compare.go are modelled on those values:
    l == r, l < r, l > r  : exact comparison, false if either side is NaN
    float64(int32/int64)  : exact (only used for |n| ≤ 2^53)
    int64(float64)        : truncation toward zero (only used for |r| < 2^63)
  decimal.Decimal.Cmp is modelled as exact rational comparison (trusted contract of shopspring/decimal).
-/
import Lungo.Model.Num
namespace Lungo

def Ordering.toInt : Ordering → Int
  | .lt => -1 | .eq => 0 | .gt => 1

/-- compareFloat64s -/
def compareFloat64s (l r : XR) : Ordering :=
  if !l.isNaN && !r.isNaN then XR.cmp l r
  else if l.isNaN then (if r.isNaN then .eq else .lt)
  else .gt

def xrTrunc : XR → Int
  | .fin q => ratTrunc q
  | _ => 0

/-- compareInt64ToFloat64 -/
def compareInt64ToFloat64 (l : Int) (r : XR) : Ordering :=
  if r.isNaN then .gt
  else if l ≤ two53 ∧ l ≥ -two53 then compareFloat64s (.fin (l : Rat)) r
  else if XR.cmp r (.fin (two63 : Rat)) != .lt then .lt
  else if XR.cmp r (.fin ((-two63 : Int) : Rat)) == .lt then .gt
  else intCmp l (xrTrunc r)

/-- compareFloat64ToInt64 = -compareInt64ToFloat64(r, l) -/
def compareFloat64ToInt64 (l : XR) (r : Int) : Ordering :=
  (compareInt64ToFloat64 r l).swap

/-- compareExact: classification NaN < -Inf < finite < +Inf, finite by decimal.Cmp (exact). -/
def compareExact (l r : XR) : Ordering := XR.cmp l r

/-- compareNumbers: the 4×4 dispatch of compare.go. Non-numbers are unreachable (Go panics);
    the model returns `.eq` there and `Compare` never calls it on them. -/
def compareNumbers : V → V → Ordering
  | .f64 l, .f64 r => compareFloat64s (f64Val l) (f64Val r)
  | .f64 l, .i32 r => compareFloat64s (f64Val l) (.fin (r : Rat))
  | .f64 l, .i64 r => compareFloat64ToInt64 (f64Val l) r
  | .f64 l, .dec h lo => compareExact (f64Val l) (decVal h lo)
  | .i32 l, .f64 r => compareFloat64s (.fin (l : Rat)) (f64Val r)
  | .i32 l, .i32 r => intCmp l r
  | .i32 l, .i64 r => intCmp l r
  | .i32 l, .dec h lo => compareExact (.fin (l : Rat)) (decVal h lo)
  | .i64 l, .f64 r => compareInt64ToFloat64 l (f64Val r)
  | .i64 l, .i32 r => intCmp l r
  | .i64 l, .i64 r => intCmp l r
  | .i64 l, .dec h lo => compareExact (.fin (l : Rat)) (decVal h lo)
  | .dec h lo, .f64 r => compareExact (decVal h lo) (f64Val r)
  | .dec h lo, .i32 r => compareExact (decVal h lo) (.fin (r : Rat))
  | .dec h lo, .i64 r => compareExact (decVal h lo) (.fin (r : Rat))
  | .dec h lo, .dec h' lo' => compareExact (decVal h lo) (decVal h' lo')
  | _, _ => .eq

/-- bytes.Compare / strings.Compare on byte sequences: lexicographic, shorter prefix first. -/
def cmpBytes : List UInt8 → List UInt8 → Ordering
  | [], [] => .eq
  | [], _ :: _ => .lt
  | _ :: _, [] => .gt
  | a :: as, b :: bs =>
    if a < b then .lt else if a == b then cmpBytes as bs else .gt

/-- strings.Compare (Go strings are byte strings; the model's are their UTF-8 bytes). -/
def cmpStr (a b : String) : Ordering := cmpBytes a.toUTF8.toList b.toUTF8.toList

def cmpBool (l r : Bool) : Ordering :=
  if l == r then .eq else if l then .gt else .lt

/-- compareBinaries: length, then subtype, then bytes. -/
def cmpBin (ls : UInt8) (ld : List UInt8) (rs : UInt8) (rd : List UInt8) : Ordering :=
  if ld.length > rd.length then .gt
  else if ld.length < rd.length then .lt
  else if ls > rs then .gt
  else if ls < rs then .lt
  else cmpBytes ld rd

/-- primitive.CompareTimestamp: by T then I. -/
def cmpTs (lt li rt ri : Nat) : Ordering :=
  if lt > rt then .gt else if lt < rt then .lt
  else if li > ri then .gt else if li < ri then .lt else .eq

def cmpRegex (lp lo rp ro : String) : Ordering :=
  match cmpStr lp rp with
  | .eq => cmpStr lo ro
  | o => o

mutual
/-- bsonkit.Compare -/
def V.cmp : V → V → Ordering
  | l, r =>
    let lc := l.cls.rank
    let rc := r.cls.rank
    if lc > rc then .gt
    else if lc < rc then .lt
    else match l, r with
      | .str a, .str b => cmpStr a b
      | .doc a, .doc b => cmpFields a b
      | .arr a, .arr b => cmpList a b
      | .bin s a, .bin t b => cmpBin s a t b
      | .oid a, .oid b => cmpBytes a b
      | .bool a, .bool b => cmpBool a b
      | .date a, .date b => intCmp a b
      | .ts a b, .ts c d => cmpTs a b c d
      | .regex a b, .regex c d => cmpRegex a b c d
      | l, r => if l.cls == .number then compareNumbers l r else .eq
/-- compareDocuments: element-wise key then value; a proper prefix is smaller. -/
def cmpFields : List (String × V) → List (String × V) → Ordering
  | [], [] => .eq
  | [], _ :: _ => .lt
  | _ :: _, [] => .gt
  | (k, v) :: r, (k', v') :: r' =>
    match cmpStr k k' with
    | .eq => match V.cmp v v' with
      | .eq => cmpFields r r'
      | o => o
    | o => o
/-- compareArrays -/
def cmpList : List V → List V → Ordering
  | [], [] => .eq
  | [], _ :: _ => .lt
  | _ :: _, [] => .gt
  | v :: r, v' :: r' =>
    match V.cmp v v' with
    | .eq => cmpList r r'
    | o => o
end

end Lungo
