/-
  Lungo.Model.Match — mirrors mongokit/process.go (specialised to the query context) and
  mongokit/match.go operator by operator.

  Paths are Go strings here (prefix + "." + key) and split only when accessing the document.
  `$jsonSchema` evaluation is a parameter (`sch`): the logical laws are proved for every
  evaluator; the driver instantiates it with `schemaUnmodelled`.
-/
import Lungo.Model.Access
import Lungo.Model.Compare
import Lungo.Model.Arith
namespace Lungo

abbrev SchemaEval := Doc → Doc → Res Unit

def schemaUnmodelled : SchemaEval := fun _ _ => .error (.unmodelled "$jsonSchema")

def isOpKey (k : String) : Bool := k.startsWith "$"

def notMatched : Res Unit := .error .notMatched

/-- matchNegate -/
def negate (r : Res Unit) : Res Unit :=
  match r with
  | .ok _ => .error .notMatched
  | .error .notMatched => .ok ()
  | .error e => .error e

/-- the loop of matchUnwind over the unwound elements: first success wins, NotMatched continues,
    another error aborts. Returns `none` if no element decided. -/
def unwindLoop (op : V → Res Unit) : List V → Option (Res Unit)
  | [] => none
  | f :: r =>
    match op f with
    | .error .notMatched => unwindLoop op r
    | .error e => some (.error e)
    | .ok _ => some (.ok ())

/-- matchUnwind -/
def matchUnwind (d : Doc) (path : String) (merge yieldMerge : Bool) (op : V → Res Unit) : Res Unit :=
  let (value, multi) := All d (splitPath path) true merge
  let looped : Option (Res Unit) := match value with
    | .arr arr => unwindLoop op arr
    | _ => none
  match looped with
  | some r => r
  | none => if !multi || yieldMerge then op value else notMatched

/-- matchComp -/
def matchComp (d : Doc) (op path : String) (v : V) : Res Unit :=
  matchUnwind d path true false fun field =>
    let comp := field.cls == v.cls
    let res := V.cmp field v
    let r : Res Bool := match op with
      | "" => .ok (comp && res == .eq)
      | "$eq" => .ok (comp && res == .eq)
      | "$gt" => .ok (comp && res == .gt)
      | "$gte" => .ok (comp && res != .lt)
      | "$lt" => .ok (comp && res == .lt)
      | "$lte" => .ok (comp && res != .gt)
      | _ => .error .err
    match r with
    | .ok true => .ok ()
    | .ok false => notMatched
    | .error e => .error e

/-- matchIn -/
def matchIn (d : Doc) (path : String) (v : V) : Res Unit :=
  matchUnwind d path true false fun field =>
    match v with
    | .arr array => if array.any (fun item => V.cmp field item == .eq) then .ok () else notMatched
    | _ => .error .err

/-- MongoDB truthiness of the $exists argument. -/
def existsArg (v : V) : Bool :=
  match v with
  | .bool b => b
  | .null => false
  | .i32 n => n != 0
  | .i64 n => n != 0
  | .f64 b => match f64Val b with
    | .fin q => q != 0
    | _ => true       -- NaN != 0 and ±Inf != 0 are true in Go
  | .dec h l => match decParts h l with   -- `big, _, err := n.BigInt(); err != nil || big.Sign() != 0`
    | .fin _ c _ => c != 0                -- ±0 of any exponent (incl. the "11" form, read as coefficient 0)
    | _ => true                           -- NaN, ±Inf: BigInt returns an error
  | _ => true

/-- matchExists -/
def matchExists (d : Doc) (path : String) (v : V) : Res Unit :=
  let ex := existsArg v
  let (value, multi) := All d (splitPath path) true false     -- not merged: an empty array is a value that exists
  let found : Bool :=
    if multi then
      match value with
      | .arr arr => !arr.isEmpty
      | _ => !value.isMissing
    else !value.isMissing
  if ex == found then .ok () else notMatched

/-- bsonkit.Type2Alias (alias → type byte). -/
def alias2Type (s : String) : Option Nat :=
  match s with
  | "double" => some 0x01 | "string" => some 0x02 | "object" => some 0x03 | "array" => some 0x04
  | "binData" => some 0x05 | "undefined" => some 0x06 | "objectId" => some 0x07 | "bool" => some 0x08
  | "date" => some 0x09 | "null" => some 0x0A | "regex" => some 0x0B | "dbPointer" => some 0x0C
  | "javascript" => some 0x0D | "symbol" => some 0x0E | "javascriptWithScope" => some 0x0F
  | "int" => some 0x10 | "timestamp" => some 0x11 | "long" => some 0x12 | "decimal" => some 0x13
  | "minKey" => some 0xFF | "maxKey" => some 0x7F
  | _ => none

def number2Type (n : Nat) : Option Nat :=
  if (1 ≤ n && n ≤ 0x13) || n == 0xFF || n == 0x7F then some n else none

/-- Go `int64(f)` on amd64: truncation when in range, MinInt64 otherwise (NaN, ±Inf, overflow). -/
def f64ToInt64 (b : UInt64) : Int :=
  match f64Val b with
  | .fin q =>
    let t := ratTrunc q
    if i64Min ≤ t ∧ t ≤ i64Max then t else i64Min
  | _ => i64Min

/-- `n == float64(int64(n))` (value equality; false for NaN). -/
def f64IsInt64Valued (b : UInt64) : Bool :=
  match f64Val b with
  | .fin q => XR.cmp (.fin q) (f64Val (f64OfInt (f64ToInt64 b))) == .eq
  | .pinf => false
  | .ninf => false
  | .nan => false

/-- resolveType: (isNumberClass, type byte) -/
def resolveType (v : V) : Res (Bool × Nat) :=
  let ofInt (n : Int) : Res (Bool × Nat) :=
    if n < 0 || n > 0xFF then .error .err
    else match number2Type n.toNat with
      | some t => .ok (false, t)
      | none => .error .err
  match v with
  | .str s =>
    if s == "number" then .ok (true, 0)
    else match alias2Type s with
      | some t => .ok (false, t)
      | none => .error .err
  | .i32 n => ofInt n
  | .i64 n => ofInt n
  | .f64 b => if !f64IsInt64Valued b then .error .err else ofInt (f64ToInt64 b)
  | _ => .error .err

def resolveTypes : List V → Res (Bool × List Nat)
  | [] => .ok (false, [])
  | o :: r =>
    match resolveType o with
    | .error e => .error e
    | .ok (nc, t) =>
      match resolveTypes r with
      | .error e => .error e
      | .ok (nc', ts) => .ok (nc || nc', if nc then ts else t :: ts)

/-- matchType -/
def matchType (d : Doc) (path : String) (v : V) : Res Unit :=
  let operands : Res (List V) := match v with
    | .arr arr => if arr.isEmpty then .error .err else .ok arr
    | _ => .ok [v]
  match operands with
  | .error e => .error e
  | .ok ops =>
    match resolveTypes ops with
    | .error e => .error e
    | .ok (numberClass, want) =>
      matchUnwind d path true false fun field =>
        if field.isMissing then notMatched      -- a missing field has no type
        else if numberClass && field.cls == .number then .ok ()
        else if want.contains field.typ then .ok ()
        else notMatched

/-- matchAll's loop: every member as an equality condition (`matchComp … "$eq" path item`);
    the first failure (NotMatched or error) is returned. -/
def allLoop (d : Doc) (path : String) : List V → Res Unit
  | [] => .ok ()
  | item :: r =>
    match matchComp d "$eq" path item with
    | .error e => .error e
    | .ok _ => allLoop d path r

/-- matchAll -/
def matchAll (d : Doc) (path : String) (v : V) : Res Unit :=
  match v with
  | .arr array => if array.isEmpty then notMatched else allLoop d path array
  | _ => .error .err

/-- the integer argument of $size / $push modifiers: int32, int64 or whole-valued double. -/
def intArg (v : V) : Res Int :=
  match v with
  | .i32 n => .ok n
  | .i64 n => .ok n
  | .f64 b => if f64IsInt64Valued b then .ok (f64ToInt64 b) else .error .err
  | _ => .error .err

/-- matchSize -/
def matchSize (d : Doc) (path : String) (v : V) : Res Unit :=
  match intArg v with
  | .error e => .error e
  | .ok size =>
    if size < 0 then .error .err else
    let (value, multi) := All d (splitPath path) false false
    if multi then
      match value with
      | .arr arr =>
        if arr.any (fun item => match item with
          | .arr a => (a.length : Int) == size
          | _ => false) then .ok () else notMatched
      | _ => notMatched
    else
      match value with
      | .arr arr => if (arr.length : Int) == size then .ok () else notMatched
      | _ => notMatched

/-- modOperandToInt64 -/
def modOperand (v : V) : Res Int :=
  match v with
  | .i32 n => .ok n
  | .i64 n => .ok n
  | .f64 b =>
    match f64Val b with
    | .fin q =>
      if q < ((i64Min : Int) : Rat) || q ≥ ((two63 : Int) : Rat) then .error .err
      else .ok (ratTrunc q)
    | _ => .error .err
  | _ => .error .err

/-- numberToInt64 -/
def numberToInt64 (v : V) : Option Int :=
  match v with
  | .i32 n => some n
  | .i64 n => some n
  | .f64 b =>
    match f64Val b with
    | .fin q =>
      if q < ((i64Min : Int) : Rat) || q ≥ ((two63 : Int) : Rat) then none
      else some (ratTrunc q)
    | _ => none
  | _ => none

/-- Go's `%` on int64 (truncated; MinInt64 % -1 = 0 without panic). -/
def goMod (n d : Int) : Int := Int.tmod n d

/-- matchMod -/
def matchMod (d : Doc) (path : String) (v : V) : Res Unit :=
  match v with
  | .arr [a, b] =>
    match modOperand a with
    | .error e => .error e
    | .ok divisor =>
      match modOperand b with
      | .error e => .error e
      | .ok remainder =>
        if divisor == 0 then .error .err else
        matchUnwind d path true false fun field =>
          match numberToInt64 field with
          | none => notMatched
          | some n => if goMod n divisor != remainder then notMatched else .ok ()
  | _ => .error .err

def natToPositions (v : Nat) : List Nat :=
  (List.range 64).filter fun i => v.testBit i

/-- bitPosition -/
def bitPosition (v : V) : Res Nat :=
  match v with
  | .i32 n => if n < 0 then .error .err else .ok n.toNat
  | .i64 n => if n < 0 then .error .err else .ok n.toNat
  | .f64 b =>
    match f64Val b with
    | .fin q =>
      if q.den != 1 then .error .err
      else if q < 0 then .error .err
      else if q ≥ ((two63 : Int) : Rat) then .error (.unmodelled "uint(float64) out of range")
      else .ok q.num.toNat
    | _ => .error .err
  | _ => .error .err

def bitPositions : List V → Res (List Nat)
  | [] => .ok []
  | x :: r =>
    match bitPosition x with
    | .error e => .error e
    | .ok p => match bitPositions r with
      | .error e => .error e
      | .ok ps => .ok (p :: ps)

def bytePositions (data : List UInt8) : List Nat :=
  let rec go : List UInt8 → Nat → List Nat
    | [], _ => []
    | b :: r, i => ((List.range 8).filter (fun j => b.toNat.testBit j)).map (fun j => i * 8 + j) ++ go r (i + 1)
  go data 0

/-- parseBitMask -/
def parseBitMask (v : V) : Res (List Nat) :=
  match v with
  | .i32 m => if m < 0 then .error .err else .ok (natToPositions m.toNat)
  | .i64 m => if m < 0 then .error .err else .ok (natToPositions m.toNat)
  | .f64 b =>
    match f64Val b with
    | .fin q =>
      if q.den != 1 then .error .err
      else if q < 0 then .error .err
      else if q > ((two63 : Int) : Rat) then .error .err   -- m > math.MaxInt64 (as float64: 2^63)
      else .ok (natToPositions q.num.toNat)
    | _ => .error .err
  | .arr m => bitPositions m
  | .bin _ data => .ok (bytePositions data)
  | _ => .error .err

/-- bitAccessor: the set-bit test of a field, `none` if the field never matches. -/
def bitAccessor (field : V) : Option (Nat → Bool) :=
  let ofInt (n : Int) : Nat → Bool :=
    let u : Nat := (n % (2 : Int) ^ 64).toNat      -- uint64(int64(n))
    fun pos => if pos ≥ 64 then false else u.testBit pos
  match field with
  | .i32 n => some (ofInt n)
  | .i64 n => some (ofInt n)
  | .f64 b =>
    match f64Val b with
    | .fin q =>
      if q.den != 1 then none
      else if q < ((i64Min : Int) : Rat) || q ≥ ((two63 : Int) : Rat) then none
      else some (ofInt q.num)
    | _ => none
  | .bin _ data => some fun pos =>
      match data[pos / 8]? with
      | some byte => byte.toNat.testBit (pos % 8)
      | none => false
  | _ => none

/-- matchBits -/
def matchBits (d : Doc) (op path : String) (v : V) : Res Unit :=
  match parseBitMask v with
  | .error e => .error e
  | .ok positions =>
    matchUnwind d path true false fun field =>
      match bitAccessor field with
      | none => notMatched
      | some bitAt =>
        let set := (positions.filter bitAt).length
        let clear := positions.length - set
        let matched : Res Bool := match op with
          | "$bitsAllSet" => .ok (set == positions.length)
          | "$bitsAllClear" => .ok (clear == positions.length)
          | "$bitsAnySet" => .ok (set > 0)
          | "$bitsAnyClear" => .ok (clear > 0)
          | _ => .error .err
        match matched with
        | .ok true => .ok ()
        | .ok false => notMatched
        | .error e => .error e

/-- the leaf (non-recursive) expression operators; `none` = not a leaf operator. -/
def leafOp (d : Doc) (op path : String) (v : V) : Option (Res Unit) :=
  match op with
  | "" => some (matchComp d op path v)
  | "$eq" => some (matchComp d op path v)
  | "$gt" => some (matchComp d op path v)
  | "$lt" => some (matchComp d op path v)
  | "$gte" => some (matchComp d op path v)
  | "$lte" => some (matchComp d op path v)
  | "$ne" => some (negate (matchComp d "$eq" path v))
  | "$in" => some (matchIn d path v)
  | "$nin" => some (negate (matchIn d path v))
  | "$exists" => some (matchExists d path v)
  | "$type" => some (matchType d path v)
  | "$all" => some (matchAll d path v)
  | "$size" => some (matchSize d path v)
  | "$bitsAllClear" => some (matchBits d op path v)
  | "$bitsAllSet" => some (matchBits d op path v)
  | "$bitsAnyClear" => some (matchBits d op path v)
  | "$bitsAnySet" => some (matchBits d op path v)
  | "$mod" => some (matchMod d path v)
  | _ => none

def joinKey (pfx key : String) : String :=
  if pfx == "" then key else pfx ++ "." ++ key

/-- matchElem's loop over the array items (f evaluates the query on the virtual document {item: x}). -/
def elemLoop (f : V → Res Unit) : List V → Res Unit
  | [] => notMatched
  | item :: r =>
    match f item with
    | .error .notMatched => elemLoop f r
    | .error e => .error e
    | .ok _ => .ok ()

mutual
/-- an expression operator call `ctx.Expression[op](ctx, doc, op, path, v)`; unknown → error. -/
def mOp (sch : SchemaEval) (d : Doc) (op path : String) (v : V) : Res Unit :=
  match leafOp d op path v with
  | some r => r
  | none =>
    if op == "$not" then
      match v with
      | .doc query => if query.isEmpty then .error .err else mNotLoop sch d path query
      | _ => .error .err
    else if op == "$elemMatch" then
      match v with
      | .doc query =>
        if query.isEmpty then notMatched else
        let (value, _) := All d (splitPath path) true true
        match value with
        | .arr array =>
          -- a query on fields only (no operators) applies to embedded documents only
          let fieldQuery := query.all fun (k, _) => !isOpKey k
          elemLoop (fun item =>
            if fieldQuery && !item.isDoc then notMatched
            else mProcess sch [("item", item)] query "item" false) array
        | _ => notMatched
      | _ => .error .err
    else .error .err
termination_by (sizeOf v, 0)
/-- matchNot's loop: the first NotMatched expression yields success; all matching yields NotMatched. -/
def mNotLoop (sch : SchemaEval) (d : Doc) (path : String) (query : List (String × V)) : Res Unit :=
  match query with
  | [] => notMatched
  | (k, v) :: r =>
    match mExpr sch d path k v false with
    | .error .notMatched => .ok ()
    | .error e => .error e
    | .ok _ => mNotLoop sch d path r
termination_by (sizeOf query, 0)
/-- Process -/
def mProcess (sch : SchemaEval) (d : Doc) (query : List (String × V)) (pfx : String) (root : Bool) : Res Unit :=
  match query with
  | [] => .ok ()
  | (k, v) :: r =>
    match mExpr sch d pfx k v root with
    | .error e => .error e
    | .ok _ => mProcess sch d r pfx root
termination_by (sizeOf query, 0)
/-- ProcessExpression -/
def mExpr (sch : SchemaEval) (d : Doc) (pfx key : String) (value : V) (root : Bool) : Res Unit :=
  if isOpKey key then
    if root then
      if key == "$and" then
        match value with
        | .arr array => if array.isEmpty then .error .err else mAndLoop sch d array
        | _ => .error .err
      else if key == "$or" then
        match value with
        | .arr array => if array.isEmpty then .error .err else mOrLoop sch d array
        | _ => .error .err
      else if key == "$nor" then
        negate (match value with
          | .arr array => if array.isEmpty then .error .err else mOrLoop sch d array
          | _ => .error .err)
      else if key == "$jsonSchema" then
        match value with
        | .doc s => sch s d
        | _ => .error .err
      else .error .err
    else mOp sch d key pfx value
  else
    let path := joinKey pfx key
    match value with
    | .doc ((k0, v0) :: exps) =>
      if isOpKey k0 then mOps sch d path ((k0, v0) :: exps)
      else matchComp d "" path value
    | _ => matchComp d "" path value
termination_by (sizeOf value, 1)
/-- the operator document of a field condition: every key must be an operator. -/
def mOps (sch : SchemaEval) (d : Doc) (path : String) (exps : List (String × V)) : Res Unit :=
  match exps with
  | [] => .ok ()
  | (k, v) :: r =>
    if !isOpKey k then .error .err else
    match mOp sch d k path v with
    | .error e => .error e
    | .ok _ => mOps sch d path r
termination_by (sizeOf exps, 0)
/-- matchAnd's loop -/
def mAndLoop (sch : SchemaEval) (d : Doc) (items : List V) : Res Unit :=
  match items with
  | [] => .ok ()
  | .doc query :: r =>
    match mProcess sch d query "" true with
    | .error e => .error e
    | .ok _ => mAndLoop sch d r
  | _ :: _ => .error .err
termination_by (sizeOf items, 0)
/-- matchOr's loop -/
def mOrLoop (sch : SchemaEval) (d : Doc) (items : List V) : Res Unit :=
  match items with
  | [] => notMatched
  | .doc query :: r =>
    match mProcess sch d query "" true with
    | .error .notMatched => mOrLoop sch d r
    | .error e => .error e
    | .ok _ => .ok ()
  | _ :: _ => .error .err
termination_by (sizeOf items, 0)
end

/-- mongokit.Match -/
def Match (sch : SchemaEval) (d query : Doc) : Res Bool :=
  match mProcess sch d query "" true with
  | .ok _ => .ok true
  | .error .notMatched => .ok false
  | .error e => .error e

end Lungo
