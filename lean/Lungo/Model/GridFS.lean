/-
  Lungo.Model.GridFS — executable model of /repo/bucket.go (Bucket, UploadStream, DownloadStream).

  What is mirrored (function by function, quirks included):
    UploadStream.Write / upload(final) / Close / Abort / Suspend / Resume,
    Bucket.Delete / ClaimUpload / Cleanup(age = 0),
    DownloadStream.load / Seek / Skip / Read / seek / next.
  The three collections `<bucket>.files/.chunks/.markers` are lists of documents (insertion order);
  the unique indexes created by EnsureIndexes ((files_id,n) on chunks, files_id on markers, _id on
  files) are modelled by duplicate checks on insert (InsertMany is ordered: it stops at the first
  duplicate, leaving the earlier documents inserted).  `Find … sort n:1` is a stable merge sort.

  Representation choices:
    * ids (file ids, marker ObjectIDs) are `Nat`; fresh marker ids come from `Store.nextId`.
    * `UploadStream.buffer` is the valid prefix `s.buffer[:s.bufLen]` of the Go buffer (the bytes
      beyond bufLen are never read by the code); `bufCap` is `len(s.buffer)` (gridfs.UploadBufferSize
      in the real code, a parameter here).
    * Go `int` values that the code keeps non-negative (lengths, positions, chunk numbers) are `Nat`;
      seek offsets are `Int`; int64 wrap-around of `position + offset` is modelled by `wrap64`.
    * timestamps, filename and metadata are not observed by C18 and are omitted.

  Termination guards (explicit, as the real loops need them):
    * OpenUploadStreamWithID rejects chunkSize ≤ 0 and chunkSize > len(buffer) (`openUpload`), so every
      stream that exists satisfies 0 < chunkSize ≤ bufCap.
    * `cut` (the `for i := 0; i < bufLen; i += chunkSize` loop of upload()) uses fuel `bufLen + 1`,
      exact for chunkSize > 0.
    * `writeLoop` (the `for` of Write) makes progress because upload(false) frees buffer space when
      chunkSize ≤ len(buffer); fuel `len(data) + 1`; `Err.diverged` marks exhausted fuel and is never
      returned for a stream created by `openUpload` (Props/C18 `write_never_diverges`).
    * `readLoop` (the `for read < len(buf)` of Read) gets fuel `len(buf) + remaining cursor + 1`.
-/
namespace Lungo.GridFS

abbrev Bytes := List UInt8

/-- error classes (never texts) -/
inductive Err where
  | closed            -- gridfs.ErrStreamClosed
  | notTracked        -- "bucket not tracked"
  | notPristine       -- "stream not pristine"
  | noDocuments       -- mongo.ErrNoDocuments
  | badState          -- "invalid marker state"
  | chunkSizeMismatch -- "marker chunk size does not match"
  | invalidChunk      -- "found invalid chunk"
  | dupKey            -- duplicate key on a unique index
  | markerUpdate      -- "unable to update marker"
  | notFinished       -- "upload is not finished"
  | fileNotFound      -- ErrFileNotFound
  | uploadInProgress  -- ErrUploadInProgress
  | badChunkSize      -- "invalid chunk size" (OpenUploadStreamWithID) / "invalid chunk size %d in file metadata"
  | invalidWhence     -- "invalid whence"
  | negPos            -- ErrNegativePosition
  | expectedChunk     -- "expected chunk"
  | wrongIndex        -- gridfs.ErrWrongIndex
  | wrongSize         -- gridfs.ErrWrongSize
  | eof               -- io.EOF
  | panic             -- slice bounds / nil dereference in the real code
  | diverged          -- the real loop does not terminate
  deriving DecidableEq, Repr, Inhabited

def Err.name : Err → String
  | .closed => "closed" | .notTracked => "not_tracked" | .notPristine => "not_pristine"
  | .noDocuments => "no_documents" | .badState => "bad_state" | .chunkSizeMismatch => "chunk_size_mismatch"
  | .invalidChunk => "invalid_chunk" | .dupKey => "dup_key" | .markerUpdate => "marker_update"
  | .notFinished => "not_finished" | .fileNotFound => "file_not_found" | .uploadInProgress => "upload_in_progress"
  | .badChunkSize => "bad_chunk_size" | .invalidWhence => "invalid_whence" | .negPos => "negative_position" | .expectedChunk => "expected_chunk"
  | .wrongIndex => "wrong_index" | .wrongSize => "wrong_size" | .eof => "eof" | .panic => "panic"
  | .diverged => "diverged"

/-! ## Store -/

structure ChunkDoc where
  file : Nat
  n : Nat
  data : Bytes
  deriving DecidableEq, Repr, Inhabited

structure FileDoc where
  id : Nat
  length : Nat
  chunkSize : Nat
  deriving DecidableEq, Repr, Inhabited

inductive MState where
  | uploading | uploaded | deleted
  deriving DecidableEq, Repr, Inhabited

def MState.name : MState → String
  | .uploading => "uploading" | .uploaded => "uploaded" | .deleted => "deleted"

structure Marker where
  id : Nat
  file : Nat
  state : MState
  length : Nat
  chunkSize : Nat
  deriving DecidableEq, Repr, Inhabited

structure Store where
  files : List FileDoc := []
  chunks : List ChunkDoc := []
  markers : List Marker := []
  nextId : Nat := 0
  deriving Repr, Inhabited

def Store.hasChunk (st : Store) (file n : Nat) : Bool :=
  st.chunks.any fun d => d.file == file && d.n == n

/-- ordered InsertMany into `.chunks` under the unique (files_id, n) index -/
def Store.insertChunks (st : Store) : List ChunkDoc → Store × Option Err
  | [] => (st, none)
  | d :: ds =>
    if st.hasChunk d.file d.n then (st, some .dupKey)
    else Store.insertChunks { st with chunks := st.chunks ++ [d] } ds

/-- `chunks.Find({files_id: id}).sort({n: 1})` -/
def Store.chunksOfFile (st : Store) (id : Nat) : List ChunkDoc :=
  (st.chunks.filter fun d => d.file == id).mergeSort fun a b => decide (a.n ≤ b.n)

def Store.findMarker (st : Store) (file : Nat) : Option Marker :=
  st.markers.find? fun m => m.file == file

def Store.findFile (st : Store) (id : Nat) : Option FileDoc :=
  st.files.find? fun f => f.id == id

/-- InsertOne into `.markers` under the unique files_id index -/
def Store.insertMarker (st : Store) (m : Marker) : Store × Option Err :=
  if (st.findMarker m.file).isSome then (st, some .dupKey)
  else ({ st with markers := st.markers ++ [m] }, none)

/-- InsertOne into `.files` (unique _id) -/
def Store.insertFile (st : Store) (f : FileDoc) : Store × Option Err :=
  if (st.findFile f.id).isSome then (st, some .dupKey)
  else ({ st with files := st.files ++ [f] }, none)

def Store.deleteChunks (st : Store) (file : Nat) : Store :=
  { st with chunks := st.chunks.filter fun d => d.file != file }

def Store.deleteMarkerById (st : Store) (id : Nat) : Store :=
  { st with markers := st.markers.filter fun m => m.id != id }

def Store.deleteFile (st : Store) (id : Nat) : Store :=
  { st with files := st.files.filter fun f => f.id != id }

/-! ## UploadStream -/

structure UploadStream where
  tracked : Bool           -- s.bucket.tracked
  id : Nat
  chunkSize : Nat
  bufCap : Nat             -- len(s.buffer)
  marker : Option Nat := none   -- s.marker (its _id)
  length : Nat := 0
  chunks : Nat := 0
  buffer : Bytes := []     -- s.buffer[:s.bufLen]
  closed : Bool := false
  deriving Repr, Inhabited

/-- newUploadStream -/
def UploadStream.new (tracked : Bool) (id chunkSize bufCap : Nat) : UploadStream :=
  { tracked, id, chunkSize, bufCap }

/-- OpenUploadStreamWithID: the chunk size (a Go int, possibly ≤ 0) must fit the upload buffer;
    otherwise no stream is created (and nothing is stored). -/
def openUpload (tracked : Bool) (id : Nat) (chunkSize : Int) (bufCap : Nat) : Except Err UploadStream :=
  if chunkSize ≤ 0 ∨ chunkSize > bufCap then .error .badChunkSize
  else .ok (UploadStream.new tracked id chunkSize.toNat bufCap)

/-- The chunk-cutting loop of upload(final): returns the cut chunk payloads and the bytes that stay.
    `buf` is s.buffer[i:s.bufLen]; `piece` has size = min(bufLen − i, chunkSize) bytes. -/
def cut (c : Nat) (final : Bool) : Nat → Bytes → List Bytes × Bytes
  | 0, buf => ([], buf)
  | fuel + 1, buf =>
    if buf.isEmpty then ([], buf)                            -- i < s.bufLen fails
    else
      let piece := buf.take c
      if piece.length < c ∧ final = false then ([], buf)     -- skip partial chunks if not final
      else
        let r := cut c final fuel (buf.drop c)
        (piece :: r.1, r.2)

/-- BucketChunk documents numbered from `k` -/
def mkDocs (file : Nat) : Nat → List Bytes → List ChunkDoc
  | _, [] => []
  | k, d :: ds => ⟨file, k, d⟩ :: mkDocs file (k + 1) ds

/-- the marker part of upload(): insert the upload marker before the first write if tracked
    (s.marker is assigned before the insert, so it stays set when the insert fails) -/
def UploadStream.ensureMarker (st : Store) (s : UploadStream) : Store × UploadStream × Option Err :=
  if s.marker.isNone ∧ s.tracked = true then
    let r := ({ st with nextId := st.nextId + 1 } : Store).insertMarker ⟨st.nextId, s.id, .uploading, 0, s.chunkSize⟩
    (r.1, { s with marker := some st.nextId }, r.2)
  else (st, s, none)

/-- upload(final) -/
def UploadStream.upload (st : Store) (s : UploadStream) (final : Bool) : Store × UploadStream × Option Err :=
  let r := cut s.chunkSize final (s.buffer.length + 1) s.buffer
  let docs := mkDocs s.id s.chunks r.1
  let m := s.ensureMarker st
  match m.2.2 with
  | some e => (m.1, m.2.1, some e)
  | none =>
    let i := if docs.isEmpty then (m.1, none) else m.1.insertChunks docs
    match i.2 with
    | some e => (i.1, m.2.1, some e)
    | none =>
      (i.1, { m.2.1 with buffer := r.2, chunks := s.chunks + r.1.length, length := s.length + r.1.flatten.length }, none)

/-- the loop of Write; returns (store, stream, written, err) -/
def writeLoop : Nat → Store → UploadStream → Bytes → Nat → Store × UploadStream × Nat × Option Err
  | 0, st, s, _, _ => (st, s, 0, some .diverged)
  | fuel + 1, st, s, data, written =>
    if data.length = 0 then (st, s, written, none)
    else
      let n := min (s.bufCap - s.buffer.length) data.length   -- copy(s.buffer[s.bufLen:], data)
      let s := { s with buffer := s.buffer ++ data.take n }
      let data := data.drop n
      let written := written + n
      if s.buffer.length = s.bufCap then
        match s.upload st false with
        | (st, s, some e) => (st, s, 0, some e)
        | (st, s, none) => writeLoop fuel st s data written
      else writeLoop fuel st s data written

/-- UploadStream.Write -/
def UploadStream.write (st : Store) (s : UploadStream) (data : Bytes) : Store × UploadStream × Nat × Option Err :=
  if s.closed then (st, s, 0, some .closed)
  else writeLoop (data.length + 1) st s data 0

/-- Marker replace by _id as done by Close; returns ModifiedCount = 1 -/
def Store.replaceMarker (st : Store) (m : Marker) : Store × Bool :=
  if st.markers.any (fun x => x.id == m.id) then
    ({ st with markers := st.markers.map fun x => if x.id == m.id then m else x }, true)
  else (st, false)

/-- UploadStream.Close -/
def UploadStream.close (st : Store) (s : UploadStream) : Store × UploadStream × Option Err :=
  if s.closed then (st, s, some .closed)
  else
    let u := if s.buffer.length > 0 ∨ (s.tracked = true ∧ s.marker.isNone) then s.upload st true else (st, s, none)
    let st := u.1
    let s := u.2.1
    match u.2.2 with
    | some e => (st, s, some e)
    | none =>
      if s.tracked then
        match s.marker with
        | none => (st, s, some .panic)   -- unreachable: upload(true) has set the marker
        | some mid =>
          let (st, ok) := st.replaceMarker ⟨mid, s.id, .uploaded, s.length, s.chunkSize⟩
          if ok then (st, { s with closed := true }, none) else (st, s, some .markerUpdate)
      else
        match st.insertFile ⟨s.id, s.length, s.chunkSize⟩ with
        | (st, some e) => (st, s, some e)
        | (st, none) => (st, { s with closed := true }, none)

/-- UploadStream.Abort -/
def UploadStream.abort (st : Store) (s : UploadStream) : Store × UploadStream × Option Err :=
  if s.closed then (st, s, some .closed)
  else
    let st := if s.chunks > 0 then st.deleteChunks s.id else st
    let st := match s.marker with
      | some mid => st.deleteMarkerById mid
      | none => st
    (st, { s with closed := true }, none)

/-- UploadStream.Suspend; returns (store, stream, length, err) -/
def UploadStream.suspend (st : Store) (s : UploadStream) : Store × UploadStream × Nat × Option Err :=
  if s.tracked = false then (st, s, 0, some .notTracked)
  else if s.closed then (st, s, 0, some .closed)
  else
    let u := if s.buffer.length > 0 then s.upload st false else (st, s, none)
    match u.2.2 with
    | some e => (u.1, u.2.1, 0, some e)
    | none => (u.1, { u.2.1 with closed := true }, u.2.1.length, none)

/-- the chunk validation loop of Resume: (expected, length) or "found invalid chunk" -/
def resumeScan (c : Nat) : List ChunkDoc → Nat → Nat → Option (Nat × Nat)
  | [], expected, length => some (expected, length)
  | d :: ds, expected, length =>
    if d.n ≠ expected ∨ d.data.length ≠ c then none
    else resumeScan c ds (expected + 1) (length + d.data.length)

/-- UploadStream.Resume; returns (stream, length, err).  The found marker is held in a local variable and
    adopted (s.marker, together with s.chunks / s.length) only after every check has passed: a rejected
    Resume leaves the stream unchanged (pristine), so a following Abort removes nothing. -/
def UploadStream.resume (st : Store) (s : UploadStream) : UploadStream × Nat × Option Err :=
  if s.tracked = false then (s, 0, some .notTracked)
  else if s.marker.isSome ∨ s.buffer.length > 0 then (s, 0, some .notPristine)
  else
    match st.findMarker s.id with
    | none => (s, 0, some .noDocuments)
    | some m =>
      if m.state ≠ .uploading then (s, 0, some .badState)
      else if m.chunkSize ≠ s.chunkSize then (s, 0, some .chunkSizeMismatch)
      else
        match resumeScan s.chunkSize (st.chunksOfFile s.id) 0 0 with
        | none => (s, 0, some .invalidChunk)
        | some (expected, length) => ({ s with marker := some m.id, chunks := expected, length := length }, length, none)

/-! ## Bucket operations -/

/-- Bucket.Delete -/
def delete (st : Store) (tracked : Bool) (id : Nat) : Store × Option Err :=
  if tracked then
    match st.findMarker id with
    | none =>
      let mid := st.nextId
      let st := { st with nextId := st.nextId + 1 }
      st.insertMarker ⟨mid, id, .deleted, 0, 0⟩
    | some m =>
      if m.state = .uploading then (st, some .uploadInProgress)
      else ((st.replaceMarker ⟨m.id, id, .deleted, 0, 0⟩).1, none)
  else
    let found := (st.findFile id).isSome
    let st := (st.deleteFile id).deleteChunks id
    (st, if found then none else some .fileNotFound)

/-- Bucket.ClaimUpload -/
def claimUpload (st : Store) (tracked : Bool) (id : Nat) : Store × Option Err :=
  if tracked = false then (st, some .notTracked)
  else
    match st.findMarker id with
    | none => (st, some .noDocuments)
    | some m =>
      if m.state ≠ .uploaded then (st, some .notFinished)
      else
        match st.insertFile ⟨id, m.length, m.chunkSize⟩ with
        | (st, some e) => (st, some e)
        | (st, none) => (st.deleteMarkerById m.id, none)

/-- Bucket.Cleanup with age ≤ 0 (every marker is old enough): all markers are processed in order -/
def cleanupLoop (st : Store) : List Marker → Store
  | [] => st
  | m :: ms =>
    let st := ((st.deleteFile m.file).deleteChunks m.file).deleteMarkerById m.id
    cleanupLoop st ms

def cleanup (st : Store) (tracked : Bool) : Store × Option Err :=
  if tracked = false then (st, some .notTracked) else (cleanupLoop st st.markers, none)

/-! ## DownloadStream -/

structure DownloadStream where
  file : FileDoc
  chunks : Nat := 0
  position : Nat := 0
  cursor : Option (List ChunkDoc) := none   -- remaining documents of the Find snapshot
  chunk : Option Nat := none                -- s.chunk.Num
  buffer : Bytes := []
  closed : Bool := false
  deriving Repr, Inhabited

/-- two's complement wrap of a Go `int`/`int64` sum -/
def wrap64 (x : Int) : Int := (x + 2 ^ 63) % 2 ^ 64 - 2 ^ 63

/-- DownloadStream.seek for a non-negative position (the negative check is in `seek`) -/
def DownloadStream.seekTo (st : Store) (s : DownloadStream) (pos : Nat) : DownloadStream × Option Err :=
  let s := { s with cursor := none }
  if pos ≥ s.file.length then ({ s with chunk := none, buffer := [] }, none)
  else
    let num := pos / s.file.chunkSize
    match (st.chunksOfFile s.file.id).drop num with
    | [] => (s, some .expectedChunk)
    | ch :: rest =>
      if ch.n ≠ num then (s, some .wrongIndex)
      else if num + 1 < s.chunks ∧ ch.data.length ≠ s.file.chunkSize then (s, some .wrongSize)
      else
        let offset := pos - num * s.file.chunkSize
        if offset > ch.data.length then (s, some .panic)
        else ({ s with cursor := some rest, chunk := some ch.n, buffer := ch.data.drop offset }, none)

/-- OpenDownloadStream + load -/
def DownloadStream.open (st : Store) (id : Nat) : Except Err DownloadStream :=
  match st.findFile id with
  | none => .error .fileNotFound
  | some f =>
    if f.chunkSize = 0 then .error .badChunkSize
    else
      let chunks := f.length / f.chunkSize + (if f.length % f.chunkSize ≠ 0 then 1 else 0)
      match DownloadStream.seekTo st { file := f, chunks := chunks } 0 with
      | (_, some e) => .error e
      | (s, none) => .ok s

/-- the tail of Seek once the target position is computed: seek(position), then update position -/
def DownloadStream.seekPos (st : Store) (s : DownloadStream) (position : Int) : DownloadStream × Nat × Option Err :=
  if position < 0 then (s, 0, some .negPos)
  else
    match s.seekTo st position.toNat with
    | (s, some e) => (s, 0, some e)
    | (s, none) => ({ s with position := position.toNat }, position.toNat, none)

/-- DownloadStream.Seek; returns (stream, position, err).  An unknown whence is an error and nothing is
    seeked. -/
def DownloadStream.seek (st : Store) (s : DownloadStream) (offset whence : Int) : DownloadStream × Nat × Option Err :=
  if s.closed then (s, 0, some .closed)
  else if whence = 0 ∨ whence = 1 ∨ whence = 2 then
    s.seekPos st
      (if whence = 0 then offset
       else if whence = 1 then wrap64 (s.position + offset)
       else wrap64 (s.file.length + offset))
  else (s, 0, some .invalidWhence)

/-- DownloadStream.Skip -/
def DownloadStream.skip (st : Store) (s : DownloadStream) (n : Int) : DownloadStream × Nat × Option Err :=
  s.seek st n 1

/-- DownloadStream.next -/
def DownloadStream.next (s : DownloadStream) : DownloadStream × Option Err :=
  match s.cursor with
  | none => (s, some .eof)
  | some [] => (s, some .eof)
  | some (ch :: rest) =>
    let s := { s with cursor := some rest }
    match s.chunk with
    | none => (s, some .panic)     -- s.chunk.Num on nil; unreachable (cursor ≠ nil ⇒ chunk ≠ nil)
    | some prev =>
      if ch.n ≠ prev + 1 then (s, some .wrongIndex)
      else if ch.n + 1 < s.chunks ∧ ch.data.length ≠ s.file.chunkSize then (s, some .wrongSize)
      else ({ s with chunk := some ch.n, buffer := ch.data }, none)

/-- the copy step of Read: copy, resize buffer, update position -/
def DownloadStream.take (s : DownloadStream) (k : Nat) : DownloadStream :=
  { s with buffer := s.buffer.drop k, position := s.position + k }

/-- the loop of Read (`want` = len(buf) − read); returns the bytes copied from here on.
    Each iteration: fetch the next chunk if the buffer is empty, then copy. -/
def readLoop : Nat → DownloadStream → Nat → Nat → DownloadStream × Bytes × Option Err
  | 0, s, _, _ => (s, [], some .diverged)
  | fuel + 1, s, want, read =>
    if want = 0 then (s, [], none)
    else
      let nx := if s.buffer.length = 0 then s.next else (s, none)
      match nx.2 with
      | some .eof => (nx.1, [], if read = 0 then some .eof else none)   -- EOF only if nothing was read
      | some e => (nx.1, [], some e)
      | none =>
        let k := min want nx.1.buffer.length
        let r := readLoop fuel (nx.1.take k) (want - k) (read + k)
        (r.1, nx.1.buffer.take k ++ r.2.1, r.2.2)

def DownloadStream.cursorLen (s : DownloadStream) : Nat :=
  match s.cursor with
  | none => 0
  | some l => l.length

/-- DownloadStream.Read with len(buf) = n; the bytes returned are buf[:read] -/
def DownloadStream.read (s : DownloadStream) (n : Nat) : DownloadStream × Bytes × Option Err :=
  if s.closed then (s, [], some .closed)
  else if s.position ≥ s.file.length then (s, [], some .eof)
  else readLoop (n + s.cursorLen + 1) s n 0

/-! ## Scripts on a download stream -/

inductive ROp where
  | read (n : Nat)
  | seek (offset whence : Int)
  | skip (n : Int)
  deriving Repr, DecidableEq, Inhabited

/-- observable result of one script step: bytes (reads), returned number (bytes read or position),
    the position afterwards and the error class -/
structure ROut where
  bytes : Bytes
  ret : Nat
  pos : Nat
  err : Option Err
  deriving Repr, DecidableEq, Inhabited

def DownloadStream.step (st : Store) (s : DownloadStream) : ROp → DownloadStream × ROut
  | .read n => let r := s.read n; (r.1, ⟨r.2.1, r.2.1.length, r.1.position, r.2.2⟩)
  | .seek o w => let r := s.seek st o w; (r.1, ⟨[], r.2.1, r.1.position, r.2.2⟩)
  | .skip n => let r := s.skip st n; (r.1, ⟨[], r.2.1, r.1.position, r.2.2⟩)

def DownloadStream.run (st : Store) : DownloadStream → List ROp → List ROut
  | _, [] => []
  | s, op :: ops => let r := s.step st op; r.2 :: DownloadStream.run st r.1 ops

/-! ## Whole uploads (used by the properties and by the driver) -/

/-- write all pieces in order; stops at the first error -/
def writeAll (st : Store) (s : UploadStream) : List Bytes → Store × UploadStream × Option Err
  | [] => (st, s, none)
  | p :: ps =>
    match s.write st p with
    | (st, s, _, some e) => (st, s, some e)
    | (st, s, _, none) => writeAll st s ps

/-- OpenUploadStreamWithID; Write each piece; Close -/
def uploadAll (st : Store) (tracked : Bool) (id c bufCap : Nat) (ws : List Bytes) : Store × Option Err :=
  match writeAll st (UploadStream.new tracked id c bufCap) ws with
  | (st, _, some e) => (st, some e)
  | (st, s, none) => let r := s.close st; (r.1, r.2.2)

/-- the same through OpenUploadStreamWithID's chunk size guard: a rejected open stores nothing -/
def upload (st : Store) (tracked : Bool) (id : Nat) (c : Int) (bufCap : Nat) (ws : List Bytes) : Store × Option Err :=
  match openUpload tracked id c bufCap with
  | .error e => (st, some e)
  | .ok s =>
    match writeAll st s ws with
    | (st, _, some e) => (st, some e)
    | (st, s, none) => let r := s.close st; (r.1, r.2.2)

/-! ## Tracked uploads in segments (the client protocol of Suspend/Resume)

  A client that may be interrupted uploads `content` in segments.  Every segment opens a new stream
  for the file id and calls Resume: on success it continues from the returned offset; if there is
  nothing to resume (ErrNoDocuments: no marker yet) it starts from offset 0 on the same, still pristine,
  stream.  A non-final segment writes some pieces and calls Suspend; the final segment writes all the
  remaining content, calls Close and the upload is claimed (ClaimUpload). -/

/-- successive pieces of the given sizes (clipped at the end of the data) -/
def pieces : Bytes → List Nat → List Bytes
  | _, [] => []
  | l, n :: ns => l.take n :: pieces (l.drop n) ns

def resumeOrFresh (st : Store) (id c B : Nat) : Except Err (UploadStream × Nat) :=
  match (UploadStream.new true id c B).resume st with
  | (s, n, none) => .ok (s, n)
  | (s, _, some .noDocuments) => .ok (s, 0)
  | (_, _, some e) => .error e

/-- the non-final segments: resume, write the pieces of the given sizes, suspend -/
def trackedSegments (content : Bytes) (id c B : Nat) : Store → List (List Nat) → Store × Option Err
  | st, [] => (st, none)
  | st, sizes :: plan =>
    match resumeOrFresh st id c B with
    | .error e => (st, some e)
    | .ok (s, off) =>
      match writeAll st s (pieces (content.drop off) sizes) with
      | (st, _, some e) => (st, some e)
      | (st, s, none) =>
        match s.suspend st with
        | (st, _, _, some e) => (st, some e)
        | (st, _, _, none) => trackedSegments content id c B st plan

/-- a complete tracked upload: the segments of `plan`, then a final segment writing pieces of sizes
    `last` followed by everything that is left, Close and ClaimUpload -/
def trackedUpload (st : Store) (content : Bytes) (id c B : Nat) (plan : List (List Nat)) (last : List Nat) : Store × Option Err :=
  match trackedSegments content id c B st plan with
  | (st, some e) => (st, some e)
  | (st, none) =>
    match resumeOrFresh st id c B with
    | .error e => (st, some e)
    | .ok (s, off) =>
      match writeAll st s (pieces (content.drop off) last ++ [(content.drop off).drop last.sum]) with
      | (st, _, some e) => (st, some e)
      | (st, s, none) =>
        match s.close st with
        | (st, _, some e) => (st, some e)
        | (st, _, none) => claimUpload st true id

end Lungo.GridFS
