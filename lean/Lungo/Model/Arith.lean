/-
  Lungo.Model.Arith — mirrors bsonkit/math.go `Add` and `Mul` (the arithmetic behind $inc/$mul).

  * int32 ⊕ int32 is computed exactly; a result outside int32 is promoted to int64
    (MongoDB's rule); an exact int64 result outside int64 yields Missing (→ the update is
    rejected).
  * float64 arithmetic is IEEE-754 binary64 round-to-nearest-even, computed here from the exact
    rational result (`roundF64`); NaN results are canonical (0x7ff8000000000000) — the harness
    compares NaNs modulo payload.
  * decimal128 arithmetic is exact (shopspring/decimal Add/Mul on coefficient × 10^exp) followed
    by `ParseDecimal128FromBigInt` (mongo-driver), which yields the ZERO VALUE on failure.
    Non-finite Decimal128 operands collapse to 0 (safeD128ToDec), as the code documents.
  * float64 ⊕ decimal128 goes through decimal.NewFromFloat (shortest decimal rendering), which
    is NOT modelled: `Add`/`Mul` return `none` there and the correspondence skips those cases.
-/
import Lungo.Model.Num
namespace Lungo

def canonNaN : UInt64 := 0x7ff8000000000000
def f64PosInf : UInt64 := 0x7ff0000000000000
def f64NegInf : UInt64 := 0xfff0000000000000
def f64NegZero : UInt64 := 0x8000000000000000

/-- ⌊log2 (n/d)⌋ for positive n, d. -/
def ratLog2 (n d : Nat) : Int :=
  let e0 : Int := (Nat.log2 n : Int) - (Nat.log2 d : Int)
  -- 2^e0 may be off by one; fix up
  let ge (e : Int) : Bool := -- n/d ≥ 2^e
    if e ≥ 0 then decide (n ≥ d * 2 ^ e.toNat) else decide (n * 2 ^ (-e).toNat ≥ d)
  if ge (e0 + 1) then e0 + 1 else if ge e0 then e0 else e0 - 1

/-- round-half-even of n/d (n, d naturals, d > 0) -/
def roundHalfEven (n d : Nat) : Nat :=
  let q := n / d
  let r := n % d
  if 2 * r < d then q else if 2 * r > d then q + 1 else (if q % 2 == 0 then q else q + 1)

/-- IEEE-754 binary64 round-to-nearest-even of a non-zero rational. -/
def roundF64 (q : Rat) : UInt64 :=
  let neg := decide (q.num < 0)
  let n := q.num.natAbs
  let d := q.den
  let e := ratLog2 n d
  let signBit : Nat := if neg then 2 ^ 63 else 0
  -- quantum exponent
  let qe : Int := if e < -1022 then -1074 else e - 52
  -- m = round(|q| / 2^qe)
  let m : Nat := if qe ≥ 0 then roundHalfEven n (d * 2 ^ qe.toNat) else roundHalfEven (n * 2 ^ (-qe).toNat) d
  if e < -1022 then UInt64.ofNat (signBit + m)   -- subnormal (m = 2^52 becomes the smallest normal)
  else
    let (m, e) := if m == 2 ^ 53 then (2 ^ 52, e + 1) else (m, e)
    let ef : Int := e + 1023
    if ef ≥ 2047 then UInt64.ofNat (signBit + 0x7ff0000000000000)
    else UInt64.ofNat (signBit + ef.toNat * 2 ^ 52 + (m - 2 ^ 52))

def f64IsNegZeroOrNeg (b : UInt64) : Bool := f64Sign b

/-- Go `float64(int64)` conversion (round to nearest even). -/
def f64OfInt (n : Int) : UInt64 :=
  if n == 0 then 0 else roundF64 (n : Rat)

/-- a NaN operand propagates with its payload, quieted (x86 SSE; when both operands are NaN
    the first is taken — the harness generates canonical NaNs only, see DESIGN §0.2). -/
def quietNaN (b : UInt64) : UInt64 := b ||| 0x0008000000000000

/-- IEEE addition on bit patterns. -/
def f64Add (a b : UInt64) : UInt64 :=
  match f64Val a, f64Val b with
  | .nan, _ => quietNaN a
  | _, .nan => quietNaN b
  | .pinf, .ninf => canonNaN
  | .ninf, .pinf => canonNaN
  | .pinf, _ => f64PosInf
  | _, .pinf => f64PosInf
  | .ninf, _ => f64NegInf
  | _, .ninf => f64NegInf
  | .fin x, .fin y =>
    let s := x + y
    if s == 0 then (if f64Sign a && f64Sign b then f64NegZero else 0)
    else roundF64 s

/-- IEEE multiplication on bit patterns. -/
def f64Mul (a b : UInt64) : UInt64 :=
  let neg := f64Sign a != f64Sign b
  let inf := if neg then f64NegInf else f64PosInf
  let zero := if neg then f64NegZero else (0 : UInt64)
  match f64Val a, f64Val b with
  | .nan, _ => quietNaN a
  | _, .nan => quietNaN b
  | .fin x, .fin y =>
    if x == 0 || y == 0 then zero
    else
      let r := roundF64 (x * y)
      -- underflow to zero keeps the sign (roundF64 already sets it)
      r
  | .fin x, _ => if x == 0 then canonNaN else inf
  | _, .fin y => if y == 0 then canonNaN else inf
  | _, _ => inf

/-- shopspring Decimal as (coefficient, exponent). -/
structure SDec where
  coeff : Int
  exp : Int
deriving Repr, Inhabited

/-- safeD128ToDec: non-finite collapses to the zero Decimal (value 0, exp 0). -/
def sdecOfD128 (hi lo : UInt64) : SDec :=
  match decParts hi lo with
  | .fin neg c e => ⟨if neg then -(c : Int) else c, e⟩
  | _ => ⟨0, 0⟩

def sdecOfInt (n : Int) : SDec := ⟨n, 0⟩

/-- decimal.Add: rescale to the smaller exponent, add coefficients. -/
def SDec.add (a b : SDec) : SDec :=
  let e := min a.exp b.exp
  ⟨a.coeff * 10 ^ (a.exp - e).toNat + b.coeff * 10 ^ (b.exp - e).toNat, e⟩

/-- decimal.Mul -/
def SDec.mul (a b : SDec) : SDec := ⟨a.coeff * b.coeff, a.exp + b.exp⟩

def maxS : Nat := 9999999999999999999999999999999999

/-- the first loop of ParseDecimal128FromBigInt: shed trailing zeros while |bi| > maxS. -/
def d128Shrink : Nat → Int → Int → Option (Int × Int)
  | 0, _, _ => none
  | fuel + 1, bi, exp =>
    if bi.natAbs > maxS then
      if bi % 10 != 0 then none
      else if exp + 1 > 6111 then none
      else d128Shrink fuel (bi / 10) (exp + 1)   -- Int./ is exact here (remainder 0)
    else some (bi, exp)

def d128Subnormal : Nat → Int → Int → Option (Int × Int)
  | 0, _, _ => none
  | fuel + 1, bi, exp =>
    if exp < -6176 then
      if bi % 10 != 0 then none else d128Subnormal fuel (bi / 10) (exp + 1)
    else some (bi, exp)

def d128Clamp : Nat → Int → Int → Option (Int × Int)
  | 0, _, _ => none
  | fuel + 1, bi, exp =>
    if exp > 6111 then
      let bi' := bi * 10
      if bi'.natAbs > maxS then none else d128Clamp fuel bi' (exp - 1)
    else some (bi, exp)

/-- primitive.ParseDecimal128FromBigInt; `none` = (Decimal128{}, false). -/
def parseD128FromBigInt (bi0 : Int) (exp0 : Int) : Option (UInt64 × UInt64) :=
  let exp1 : Int := if bi0 == 0 then (if exp0 > 6111 then 6111 else if exp0 < -6176 then -6176 else exp0) else exp0
  -- fuel: each loop runs at most (digits of bi + |exp| + 1) times
  let fuel := 20000 + bi0.natAbs.log2 + exp1.natAbs
  match d128Shrink fuel bi0 exp1 with
  | none => none
  | some (bi, exp) =>
    match d128Subnormal fuel bi exp with
    | none => none
    | some (bi, exp) =>
      match d128Clamp fuel bi exp with
      | none => none
      | some (bi, exp) =>
        let c := bi.natAbs
        let h : Nat := c / 2 ^ 64
        let l : Nat := c % 2 ^ 64
        let ebits : Nat := ((exp + 6176).toNat % 16384) * 2 ^ 49
        let sign : Nat := if bi < 0 then 2 ^ 63 else 0
        -- h |= ebits | sign; the coefficient's high part is < 2^49 so OR = +
        some (UInt64.ofNat (h + ebits + sign), UInt64.ofNat l)

/-- decToD128: failure gives the zero value Decimal128{0,0}. -/
def decToD128 (d : SDec) : V :=
  match parseD128FromBigInt d.coeff d.exp with
  | some (h, l) => .dec h l
  | none => .dec 0 0

/-- integer result typing shared by Add and Mul: int32 unless the exact result leaves int32,
    then int64; outside int64 → Missing. `wide` = an int64 operand was involved. -/
def intResult (wide : Bool) (r : Int) : V :=
  if !wide && inI32 r then .i32 r
  else if inI64 r then .i64 r
  else .missing

/-- bsonkit.Add; `none` = not modelled (float64 with decimal128). Missing = not a number / overflow. -/
def Add (num inc : V) : Option V :=
  match num, inc with
  | .i32 a, .i32 b => some (intResult false (a + b))
  | .i32 a, .i64 b => some (intResult true (a + b))
  | .i32 a, .f64 b => some (.f64 (f64Add (f64OfInt a) b))
  | .i32 a, .dec h l => some (decToD128 ((sdecOfInt a).add (sdecOfD128 h l)))
  | .i64 a, .i32 b => some (intResult true (a + b))
  | .i64 a, .i64 b => some (intResult true (a + b))
  | .i64 a, .f64 b => some (.f64 (f64Add (f64OfInt a) b))
  | .i64 a, .dec h l => some (decToD128 ((sdecOfInt a).add (sdecOfD128 h l)))
  | .f64 a, .i32 b => some (.f64 (f64Add a (f64OfInt b)))
  | .f64 a, .i64 b => some (.f64 (f64Add a (f64OfInt b)))
  | .f64 a, .f64 b => some (.f64 (f64Add a b))
  | .f64 _, .dec _ _ => none
  | .dec h l, .i32 b => some (decToD128 ((sdecOfD128 h l).add (sdecOfInt b)))
  | .dec h l, .i64 b => some (decToD128 ((sdecOfD128 h l).add (sdecOfInt b)))
  | .dec _ _, .f64 _ => none
  | .dec h l, .dec h' l' => some (decToD128 ((sdecOfD128 h l).add (sdecOfD128 h' l')))
  | _, _ => some .missing

/-- bsonkit.Mul -/
def Mul (num mul : V) : Option V :=
  match num, mul with
  | .i32 a, .i32 b => some (intResult false (a * b))
  | .i32 a, .i64 b => some (intResult true (a * b))
  | .i32 a, .f64 b => some (.f64 (f64Mul (f64OfInt a) b))
  | .i32 a, .dec h l => some (decToD128 ((sdecOfInt a).mul (sdecOfD128 h l)))
  | .i64 a, .i32 b => some (intResult true (a * b))
  | .i64 a, .i64 b => some (intResult true (a * b))
  | .i64 a, .f64 b => some (.f64 (f64Mul (f64OfInt a) b))
  | .i64 a, .dec h l => some (decToD128 ((sdecOfInt a).mul (sdecOfD128 h l)))
  | .f64 a, .i32 b => some (.f64 (f64Mul a (f64OfInt b)))
  | .f64 a, .i64 b => some (.f64 (f64Mul a (f64OfInt b)))
  | .f64 a, .f64 b => some (.f64 (f64Mul a b))
  | .f64 _, .dec _ _ => none
  | .dec h l, .i32 b => some (decToD128 ((sdecOfD128 h l).mul (sdecOfInt b)))
  | .dec h l, .i64 b => some (decToD128 ((sdecOfD128 h l).mul (sdecOfInt b)))
  | .dec _ _, .f64 _ => none
  | .dec h l, .dec h' l' => some (decToD128 ((sdecOfD128 h l).mul (sdecOfD128 h' l')))
  | _, _ => some .missing

end Lungo
