/-
  Lungo.Model.Collection — mirrors bsonkit/set.go, bsonkit/index.go, mongokit/index.go,
  mongokit/extract.go and mongokit/collection.go.

  Stored documents carry an identity (`SDoc.id`, the Go pointer); values are immutable.
  The btree of bsonkit.Index is modelled by the list of its (key tuple, doc id) entries —
  contract of tidwall/btree: an ordered set under `less`; `Copy` = value copy. The Go map
  `Collection.Indexes` is an association list (iteration order is unobservable).
-/
import Lungo.Model.Apply
import Lungo.Model.Project
namespace Lungo

structure SDoc where
  id : Nat
  doc : Doc
deriving Inhabited

structure IndexConfig where
  key : Doc
  unique : Bool := false
  partialF : Option Doc := none
  expiry : Int := 0          -- time.Duration in ns
deriving Inhabited

structure Index where
  config : IndexConfig
  columns : List Column
  entries : List (List V × Nat)      -- (key tuple, document id)
deriving Inhabited

/-- Index.tuples: Cartesian product over the columns of the expanded values. -/
def tuples (cols : List Column) (d : Doc) : List (List V) :=
  cols.foldl (fun acc col =>
    let v := (All d (splitPath col.path) true true).1
    let values : List V := match v with
      | .arr [] => [v]
      | .arr a => a
      | _ => [v]
    acc.flatMap fun t => values.map fun x => t ++ [x]) [[]]

/-- keys compare equal column-wise (`less` neither way, ignoring the document) -/
def tupleEq (a b : List V) : Bool :=
  match a, b with
  | [], [] => true
  | x :: r, y :: s => V.cmp x y == .eq && tupleEq r s
  | _, _ => false

def Index.hasEntry (i : Index) (t : List V) (id : Nat) : Bool :=
  i.entries.any fun (k, d) => d == id && tupleEq k t

/-- hasKey: some entry (of any document) with an equal key tuple -/
def Index.hasKey (i : Index) (t : List V) : Bool :=
  i.entries.any fun (k, _) => tupleEq k t

/-- bsonkit.Index.Add -/
def Index.baseAdd (i : Index) (sd : SDoc) : Index × Bool :=
  let ts := tuples i.columns sd.doc
  match ts with
  | [] => (i, false)       -- unreachable: tuples always returns at least one tuple
  | t0 :: _ =>
    if i.hasEntry t0 sd.id then (i, false)
    else if i.config.unique && ts.any i.hasKey then (i, false)
    else
      let entries := ts.foldl (fun es t => if es.any (fun (k, d) => d == sd.id && tupleEq k t) then es else es ++ [(t, sd.id)]) i.entries
      ({ i with entries := entries }, true)

/-- bsonkit.Index.Remove -/
def Index.baseRemove (i : Index) (sd : SDoc) : Index × Bool :=
  let ts := tuples i.columns sd.doc
  match ts with
  | [] => (i, false)
  | t0 :: _ =>
    if !i.hasEntry t0 sd.id then (i, false)
    else ({ i with entries := i.entries.filter fun (k, d) => !(d == sd.id && ts.any (tupleEq k)) }, true)

def partialMatches (sch : SchemaEval) (i : Index) (d : Doc) : Res Bool :=
  match i.config.partialF with
  | none => .ok true
  | some f => Match sch d f

/-- mongokit.Index.Add: (index', ok) -/
def Index.add (sch : SchemaEval) (i : Index) (sd : SDoc) : Res (Index × Bool) :=
  match partialMatches sch i sd.doc with
  | .error e => .error e
  | .ok false => .ok (i, true)
  | .ok true => .ok (i.baseAdd sd)

/-- mongokit.Index.Remove -/
def Index.remove (sch : SchemaEval) (i : Index) (sd : SDoc) : Res (Index × Bool) :=
  match partialMatches sch i sd.doc with
  | .error e => .error e
  | .ok false => .ok (i, true)
  | .ok true => .ok (i.baseRemove sd)

/-- mongokit.CreateIndex -/
def newIndex (config : IndexConfig) : Res Index :=
  if config.key.isEmpty then .error .err else
  match columns config.key with
  | .error e => .error e
  | .ok cols =>
    -- a field name starting with `$` is rejected (for any index, as MongoDB does)
    if cols.any (fun col => isOpKey col.path) then .error .err
    else if config.expiry > 0 && config.key.length > 1 then .error .err
    else .ok { config := config, columns := cols, entries := [] }

/-- mongokit.Index.Build -/
def Index.build (sch : SchemaEval) (i : Index) : List SDoc → Res (Index × Bool)
  | [] => .ok (i, true)
  | sd :: r =>
    match i.add sch sd with
    | .error e => .error e
    | .ok (i', false) => .ok (i', false)
    | .ok (i', true) => i'.build sch r

/-- IndexConfig.Equal -/
def IndexConfig.equal (c d : IndexConfig) : Bool :=
  V.cmp (.doc c.key) (.doc d.key) == .eq && c.unique == d.unique &&
  V.cmp (.doc (c.partialF.getD [])) (.doc (d.partialF.getD [])) == .eq && c.expiry == d.expiry

/-- IndexConfig.Name -/
def IndexConfig.name (c : IndexConfig) : Res String :=
  match columns c.key with
  | .error e => .error e
  | .ok cols => .ok ("_".intercalate (cols.flatMap fun col => [col.path, if col.reverse then "-1" else "1"]))

structure Coll where
  docs : List SDoc
  indexes : List (String × Index)
deriving Inhabited

def idIndexConfig : IndexConfig := { key := [("_id", .i32 1)], unique := true }

/-- mongokit.NewCollection -/
def newColl (idIndex : Bool) : Coll :=
  { docs := [],
    indexes := if idIndex then [("_id_", { config := idIndexConfig, columns := [{ path := "_id", reverse := false }], entries := [] })] else [] }

def assocSet {α} (l : List (String × α)) (k : String) (v : α) : List (String × α) :=
  if l.any (·.1 == k) then l.map (fun (k', x) => if k' == k then (k', v) else (k', x)) else l ++ [(k, v)]

/-- add a document to every index; the first failure aborts (dup / match error). -/
def addToIndexes (sch : SchemaEval) (sd : SDoc) : List (String × Index) → Res (List (String × Index))
  | [] => .ok []
  | (n, i) :: r =>
    match i.add sch sd with
    | .error e => .error e
    | .ok (_, false) => .error .dup
    | .ok (i', true) =>
      match addToIndexes sch sd r with
      | .error e => .error e
      | .ok r' => .ok ((n, i') :: r')

def removeFromIndexes (sch : SchemaEval) (sd : SDoc) : List (String × Index) → Res (List (String × Index))
  | [] => .ok []
  | (n, i) :: r =>
    match i.remove sch sd with
    | .error e => .error e
    | .ok (_, false) => .error .err
    | .ok (i', true) =>
      match removeFromIndexes sch sd r with
      | .error e => .error e
      | .ok r' => .ok ((n, i') :: r')

/-- mongokit.Filter (bsonkit.Select with the Match selector; limit 0 = all). -/
def filterDocs (sch : SchemaEval) (query : Doc) (limit : Nat) : List SDoc → Res (List SDoc)
  | [] => .ok []
  | sd :: r =>
    match Match sch sd.doc query with
    | .error e => .error e
    | .ok false => filterDocs sch query limit r
    | .ok true =>
      if limit == 1 then .ok [sd]
      else match filterDocs sch query (limit - 1) r with
        | .error e => .error e
        | .ok rest => .ok (sd :: rest)

def sortSDocs (list : List SDoc) (cols : List Column) : List SDoc :=
  list.mergeSort (fun a b => order a.doc b.doc cols != .gt)

/-- the common prefix of Find/Update/Delete: sort → filter(limit+skip) → skip.
    Negative skip is rejected (the Go code re-slices with it). -/
def selectDocs (sch : SchemaEval) (c : Coll) (query : Doc) (sort : Option Doc) (skip limit : Int) : Res (List SDoc) :=
  if skip < 0 then .error .err else
  let sorted : Res (List SDoc) := match sort with
    | some s => if s.isEmpty then .ok c.docs else
      match columns s with
      | .error e => .error e
      | .ok cols => .ok (sortSDocs c.docs cols)
    | none => .ok c.docs
  match sorted with
  | .error e => .error e
  | .ok list =>
    let lim : Nat := if limit > 0 then (limit + skip).toNat else 0
    match filterDocs sch query lim list with
    | .error e => .error e
    | .ok l => .ok (l.drop skip.toNat)

/-- mongokit.Collection.Find -/
def Coll.find (sch : SchemaEval) (c : Coll) (query : Doc) (sort : Option Doc) (skip limit : Int) : Res (List SDoc) :=
  selectDocs sch c query sort skip limit

structure CResult where
  coll : Coll
  matched : List SDoc := []
  modified : List SDoc := []
  upserted : Option SDoc := none
  changes : List (List (String × V)) := []
deriving Inhabited

/-- ν: observed nondeterminism — the next document identity and the generated ObjectIDs. -/
structure Nu where
  nextId : Nat
  oids : List V
deriving Inhabited

def Nu.fresh (n : Nu) : Nat × Nu := (n.nextId, { n with nextId := n.nextId + 1 })

/-- take a generated ObjectID; `unmodelled` if the harness supplied none -/
def Nu.oid (n : Nu) : Res (V × Nu) :=
  match n.oids with
  | o :: r => .ok (o, { n with oids := r })
  | [] => .error (.unmodelled "no generated ObjectID observed")

/-- ensure `_id` (prepended when generated) -/
def ensureId (d : Doc) (nu : Nu) : Res (Doc × Nu) :=
  if (Get d "_id").isMissing then
    match nu.oid with
    | .error e => .error e
    | .ok (o, nu') =>
      match Put d ["_id"] o true with
      | .error e => .error e
      | .ok (d', _) => .ok (d', nu')
  else .ok (d, nu)

/-- mongokit.Collection.Insert -/
def Coll.insert (sch : SchemaEval) (c : Coll) (d : Doc) (nu : Nu) : Res (Coll × SDoc × Nu) :=
  match ensureId d nu with
  | .error e => .error e
  | .ok (d, nu) =>
    let (id, nu) := nu.fresh
    let sd : SDoc := { id := id, doc := d }
    match addToIndexes sch sd c.indexes with
    | .error e => .error e
    | .ok idx => .ok ({ docs := c.docs ++ [sd], indexes := idx }, sd, nu)

def replaceDoc (docs : List SDoc) (oldId : Nat) (nw : SDoc) : List SDoc :=
  docs.map fun sd => if sd.id == oldId then nw else sd

/-- `_id` values are the same BSON value (the code compares the interface values). -/
def sameId (a b : V) : Bool := a == b

/-- mongokit.Collection.Replace -/
def Coll.replace (sch : SchemaEval) (c : Coll) (query repl : Doc) (sort : Option Doc) (nu : Nu) : Res (CResult × Nu) :=
  match selectDocs sch c query sort 0 1 with
  | .error e => .error e
  | .ok [] => .ok ({ coll := c }, nu)
  | .ok (old :: _) =>
    let replID := Get repl "_id"
    let replR : Res Doc :=
      if replID.isMissing then
        match Put repl ["_id"] (Get old.doc "_id") true with
        | .error e => .error e
        | .ok (d, _) => .ok d
      else if !sameId replID (Get old.doc "_id") then .error .err
      else .ok repl
    match replR with
    | .error e => .error e
    | .ok repl =>
      let (id, nu) := nu.fresh
      let nw : SDoc := { id := id, doc := repl }
      -- per index: remove old, add replacement
      let rec upd : List (String × Index) → Res (List (String × Index))
        | [] => .ok []
        | (n, i) :: r =>
          match i.remove sch old with
          | .error e => .error e
          | .ok (_, false) => .error .err
          | .ok (i1, true) =>
            match i1.add sch nw with
            | .error e => .error e
            | .ok (_, false) => .error .dup
            | .ok (i2, true) =>
              match upd r with
              | .error e => .error e
              | .ok r' => .ok ((n, i2) :: r')
      match upd c.indexes with
      | .error e => .error e
      | .ok idx =>
        let c' : Coll := { docs := replaceDoc c.docs old.id nw, indexes := idx }
        let modified := if (V.doc old.doc) == (V.doc repl) then [] else [nw]
        .ok ({ coll := c', matched := [old], modified := modified }, nu)

def foldIdx (f : List (String × Index) → SDoc → Res (List (String × Index))) (idx : List (String × Index)) : List SDoc → Res (List (String × Index))
  | [] => .ok idx
  | sd :: r =>
    match f idx sd with
    | .error e => .error e
    | .ok idx' => foldIdx f idx' r

/-- mongokit.Collection.Update -/
def Coll.update (ac : ACtx) (c : Coll) (query update : Doc) (sort : Option Doc) (skip limit : Int)
    (arrayFilters : List Doc) (nu : Nu) : Res (CResult × Nu) :=
  let sch := ac.sch
  match selectDocs sch c query sort skip limit with
  | .error e => .error e
  | .ok [] => .ok ({ coll := c }, nu)
  | .ok list =>
    -- apply the update to clones of all matched documents
    let rec applyAll (nu : Nu) : List SDoc → Res (List (SDoc × List (String × V)) × Nu)
      | [] => .ok ([], nu)
      | sd :: r =>
        match Apply { ac with upsert := false } sd.doc update arrayFilters with
        | .error e => .error e
        | .ok (d', ch) =>
          let (id, nu) := nu.fresh
          match applyAll nu r with
          | .error e => .error e
          | .ok (rest, nu) => .ok (({ id := id, doc := d' }, ch) :: rest, nu)
    match applyAll nu list with
    | .error e => .error e
    | .ok (news, nu) =>
      if (list.zip news).any (fun (o, (n, _)) => !sameId (Get n.doc "_id") (Get o.doc "_id")) then .error .err else
      match foldIdx (fun idx sd => removeFromIndexes sch sd idx) c.indexes list with
      | .error e => .error e
      | .ok idx =>
        match foldIdx (fun idx sd => addToIndexes sch sd idx) idx (news.map (·.1)) with
        | .error e => .error e
        | .ok idx =>
          let docs := (list.zip news).foldl (fun ds (o, (n, _)) => replaceDoc ds o.id n) c.docs
          let mods := (list.zip news).filter fun (o, (n, _)) => !((V.doc o.doc) == (V.doc n.doc))
          .ok ({ coll := { docs := docs, indexes := idx }, matched := list,
                 modified := mods.map (·.2.1), changes := mods.map (·.2.2) }, nu)

/-! ### Extract (upsert seed) — process.go with SkipMissing -/

def extractEq (doc : Doc) (path : String) (v : V) : Res Doc :=
  match Put doc (splitPath path) v false with
  | .error e => .error e
  | .ok (d, _) => .ok d

def extractIn (doc : Doc) (path : String) (v : V) : Res Doc :=
  match v with
  | .arr [x] =>
    match Put doc (splitPath path) x false with
    | .error e => .error e
    | .ok (d, _) => .ok d
  | .arr _ => .ok doc
  | _ => .error .err

/-- the operator document of a field: the first unknown operator ends the field silently -/
def extractOps (doc : Doc) (path : String) : List (String × V) → Res Doc
  | [] => .ok doc
  | (k, v) :: r =>
    if !isOpKey k then .error .err
    else if k == "$eq" then
      match extractEq doc path v with
      | .error e => .error e
      | .ok d => extractOps d path r
    else if k == "$in" then
      match extractIn doc path v with
      | .error e => .error e
      | .ok d => extractOps d path r
    else .ok doc

mutual
/-- Process over the extract context -/
def extractSeq (doc : Doc) (query : List (String × V)) (pfx : String) (root : Bool) : Res Doc :=
  match query with
  | [] => .ok doc
  | (key, value) :: r =>
    let res : Res Doc :=
      if isOpKey key then
        if root then
          if key == "$and" then
            match value with
            | .arr array => if array.isEmpty then .error .err else extractAndLoop doc array
            | _ => .error .err
          else if key == "$or" then
            match value with
            | .arr array =>
              if array.isEmpty then .error .err
              else match array with
                | [.doc q] => extractSeq doc q "" false
                | [_] => .error .err
                | _ => .ok doc
            | _ => .error .err
          else .ok doc        -- unknown top-level operator: skipped
        else
          if key == "$eq" then
            match Put doc (splitPath pfx) value false with
            | .error e => .error e
            | .ok (d, _) => .ok d
          else if key == "$in" then extractIn doc pfx value
          else .ok doc
      else
        let path := joinKey pfx key
        match value with
        | .doc ((k0, v0) :: exps) =>
          if isOpKey k0 then extractOps doc path ((k0, v0) :: exps)
          else extractEq doc path value
        | _ => extractEq doc path value
    match res with
    | .error e => .error e
    | .ok d => extractSeq d r pfx root
termination_by (sizeOf query, 1)
def extractAndLoop (doc : Doc) (items : List V) : Res Doc :=
  match items with
  | [] => .ok doc
  | .doc q :: r =>
    match extractSeq doc q "" true with
    | .error e => .error e
    | .ok d => extractAndLoop d r
  | _ :: _ => .error .err
termination_by (sizeOf items, 0)
end

/-- mongokit.Extract -/
def Extract (query : Doc) : Res Doc := extractSeq [] query "" true

/-- mongokit.Collection.Upsert -/
def Coll.upsert (ac : ACtx) (c : Coll) (query : Doc) (repl update : Option Doc) (arrayFilters : List Doc) (nu : Nu) :
    Res (Coll × SDoc × Nu) :=
  match Extract query with
  | .error e => .error e
  | .ok seed =>
    let docR : Res Doc := match repl with
      | some r =>
        let queryID := Get seed "_id"
        let replID := Get r "_id"
        if !queryID.isMissing && !replID.isMissing && V.cmp replID queryID != .eq then .error .err
        else if !replID.isMissing then
          match Put r ["_id"] replID true with
          | .error e => .error e
          | .ok (d, _) => .ok d
        else if !queryID.isMissing then
          match Put r ["_id"] queryID true with
          | .error e => .error e
          | .ok (d, _) => .ok d
        else .ok r
      | none => .ok seed
    match docR with
    | .error e => .error e
    | .ok doc =>
      let docR : Res Doc := match update with
        | some u =>
          match Apply { ac with upsert := true } doc u arrayFilters with
          | .error e => .error e
          | .ok (d, _) => .ok d
        | none => .ok doc
      match docR with
      | .error e => .error e
      | .ok doc => c.insert ac.sch doc nu

/-- mongokit.Collection.Delete -/
def Coll.delete (sch : SchemaEval) (c : Coll) (query : Doc) (sort : Option Doc) (skip limit : Int) : Res (Coll × List SDoc) :=
  match selectDocs sch c query sort skip limit with
  | .error e => .error e
  | .ok list =>
    match foldIdx (fun idx sd => removeFromIndexes sch sd idx) c.indexes list with
    | .error e => .error e
    | .ok idx => .ok ({ docs := c.docs.filter (fun sd => !(list.any (·.id == sd.id))), indexes := idx }, list)

/-- mongokit.Collection.CreateIndex -/
def Coll.createIndex (sch : SchemaEval) (c : Coll) (name : String) (config : IndexConfig) : Res (Coll × String) :=
  let nameR : Res String := if name == "" then config.name else .ok name
  match nameR with
  | .error e => .error e
  | .ok name =>
    let same : Bool := match c.indexes.lookup name with
      | some i => config.equal i.config
      | none => false
    if same then .ok (c, name)
    else if c.indexes.any (fun (_, i) => V.cmp (.doc config.key) (.doc i.config.key) == .eq) then .error .err
    else if c.indexes.any (·.1 == name) then .error .err      -- an index of that name with another definition exists
    else
      match newIndex config with
      | .error e => .error e
      | .ok index =>
        match index.build sch c.docs with
        | .error e => .error e
        | .ok (_, false) => .error .dup
        | .ok (index', true) => .ok ({ c with indexes := assocSet c.indexes name index' }, name)

/-- mongokit.Collection.DropIndex: ("" = all); `_id_` is never dropped. -/
def Coll.dropIndex (c : Coll) (name : String) : Res (Coll × List String) :=
  if name != "" then
    if name == "_id_" then .error .err
    else if !c.indexes.any (·.1 == name) then .error .err
    else .ok ({ c with indexes := c.indexes.filter (·.1 != name) }, [name])
  else
    let dropped := (c.indexes.filter (·.1 != "_id_")).map (·.1)
    .ok ({ c with indexes := c.indexes.filter (·.1 == "_id_") }, dropped)

/-! ### Index.List (appended for C15; nothing above depends on it) -/

/-- column-wise key comparison of the btree's `less` without the identity tiebreak: `a ≤ b` -/
def keyLe : List Column → List V → List V → Bool
  | col :: cs, x :: r, y :: s =>
    let res := V.cmp x y
    let res := if col.reverse then res.swap else res
    match res with
    | .lt => true
    | .gt => false
    | .eq => keyLe cs r s
  | _, _, _ => true

/-- keep the first occurrence of every identity -/
def dedupIds : List Nat → List Nat
  | [] => []
  | x :: r => x :: (dedupIds r).filter (· != x)

/-- bsonkit.Index.List: the documents in ascending key order, each once (at its smallest key).
    Among entries with equal keys the btree orders by pointer value, which is not observable;
    the model keeps insertion order there (stable sort). -/
def Index.list (i : Index) : List Nat :=
  dedupIds ((i.entries.mergeSort fun a b => keyLe i.columns a.1 b.1).map (·.2))

end Lungo
