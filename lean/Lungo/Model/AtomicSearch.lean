/-
  Lungo.Model.AtomicSearch — bounded counterexample search for crash safety (property C05) of ANY write
  protocol given as a `List Step` (in particular the list REGENERATED from /repo/dbkit/atomic.go).

  `search P` runs the interpreter of `Lungo.AtomicWrite` on `P.steps` and explores
      fault plan  (none, or a single fault at executed call `j` of kind `some 0` / `some 1`)
    × cut `k`     (crash point after `k` executed system calls, up to the first `k` at which the run has returned)
    × image       (plain process kill, then every element of `crashImages` = power loss)
  and checks for every image `x` (a first pass with the first two checks and `failedChanged`, a second pass
  with `rerunFails`):
    notOldOrNew    `load x path` is neither `old` nor `some new`                         (atomicity)
    ackedLost      the run had RETURNED SUCCESS and `load x path ≠ some new`             (durability)
    rerunFails     a complete fault-free run of the same protocol on `x` returns an error or does not
                   leave `new` at `path`                                                 (no poisoning garbage)
  and for the state in which the run has RETURNED AN ERROR (no crash):
    failedChanged  `path` shows neither `old` nor — if a rename to `path` had succeeded — `new`.
                   (After a successful rename the error cannot be rolled back: the property's "failed store"
                   clause is met at engine level by keeping the visible catalog, `Props.C05.visible_le_durable`;
                   at file level `fault_reports` allows exactly old, or new once the rename has happened.)
  The first counterexample in this order is returned.  Core-only, total.
  Theorems (`Props/C05.lean`): `search_ce_sound` / `search_ce_image` (a returned counterexample is a reachable
  post-crash state of the interpreter on the given list that violates the named clause), `no_rename_keeps_old`
  (meaning of the trace), `search_no_false_alarm` (on the expected protocol the search returns none, for all contents).
-/
import Lungo.Model.AtomicWrite
namespace Lungo.AtomicSearch
open Lungo.FS Lungo.AtomicWrite

/-- the initial file system of the driver ops and of the search: `path` = name 0 durably holds `old` in
    inode 0 (absent if `old = none`); if `stale`, `tmp` = name 1 ↦ inode 1 with half-synced garbage -/
def fsInit (old : Option Bytes) (stale : Bool) : State :=
  { ino := fun i => if i = 0 then ⟨old.getD [], []⟩ else if i = 1 then ⟨[0xAA], [0xBB, 0xCC]⟩ else ⟨[], []⟩,
    next := 2,
    vdir := fun n => if n = 0 then (if old.isSome then some 0 else none) else if n = 1 then (if stale then some 1 else none) else none,
    ddir := fun n => if n = 0 then (if old.isSome then some 0 else none) else if n = 1 then (if stale then some 1 else none) else none,
    pending := [], fds := [] }

/-! ### the executed calls (trace) -/

abbrev Ev := Call × Option Err

/-- the calls executed by `cleanupUpTo`, with their results -/
def cleanupTrace (path tmp : Name) (f : Faults) : Nat → List Call → M → Nat → List Ev
  | _, [], _, _ => []
  | 0, _ :: _, _, _ => []
  | k + 1, c :: cs, m, j =>
    let r := execCall path tmp c [] m (f j)
    (c, r.2) :: cleanupTrace path tmp f k cs r.1 (j + 1)

/-- the calls executed by `runUpTo`, with their results -/
def runTrace (path tmp : Name) (f : Faults) (fin : List Call) : Nat → List Instr → M → Nat → List Ev
  | k, [], m, j => cleanupTrace path tmp f k fin m j
  | 0, _ :: _, _, _ => []
  | k + 1, i :: is, m, j =>
    let r := execCall path tmp i.call i.chunk m (f j)
    (i.call, r.2) ::
      (if proceeds i.onErr r.2 then runTrace path tmp f fin k is r.1 (j + 1)
       else cleanupTrace path tmp f k i.cleanup { r.1 with err := true } (j + 1))

/-- the calls executed by `interpUpTo` -/
def traceUpTo (steps : List Step) (path tmp : Name) (chunks : List Bytes) (f : Faults) (k : Nat) (s : State) : List Ev :=
  let p := compile chunks steps []
  runTrace path tmp f p.2 k p.1 (initM s) 0

/-- a rename onto `path` has succeeded -/
def renamed (tr : List Ev) : Bool := tr.any (fun e => e.1 = Call.renameTmpToPath ∧ e.2 = none)

/-! ### parameters, images -/

structure Params where
  steps : List Step
  path : Name
  tmp : Name
  s0 : State
  old : Option Bytes
  chunks : List Bytes

/-- the content being committed -/
def Params.new (P : Params) : Bytes := P.chunks.flatten

/-- description of one element of `crashImages`: which pending directory operations survive, how many of
    the temp inode's un-synced bytes arrive, and whether they arrive as garbage (all bits flipped) -/
structure ImgDesc where
  mask : List Bool
  len : Nat
  flipped : Bool
  deriving Repr, DecidableEq

def garbage (m : M) (d : ImgDesc) : Ino → Bytes :=
  match m.tmpH with
  | none => fun _ => []
  | some h =>
    if d.flipped then fun i => if i = h then flipBytes (((m.fs.ino h).pend).take d.len) else []
    else fun i => if i = h then ((m.fs.ino h).pend).take d.len else []

/-- same enumeration (and order) as `crashImages` -/
def imgDescs (m : M) : List ImgDesc :=
  let gs : List (Nat × Bool) :=
    match m.tmpH with
    | none => [(0, false)]
    | some h => (prefixLens ((m.fs.ino h).pend).length).flatMap (fun l => [(l, false), (l, true)])
  (allMasks m.fs.pending.length).flatMap (fun mk => gs.map (fun g => ⟨mk, g.1, g.2⟩))

def imageOf (m : M) (d : ImgDesc) : State := crashImage m.fs d.mask (garbage m d)

/-! ### the checks -/

inductive Kind
  | notOldOrNew | ackedLost | failedChanged | rerunFails
  deriving Repr, DecidableEq

/-- `some 0` / `some 1`: the call fails (a write after 0 / 1 bytes) -/
abbrev FaultAt := Option (Nat × Nat)

def faultsOf : FaultAt → Faults
  | none => noFaults
  | some (j, n) => singleFault j (some n)

structure CE where
  kind : Kind
  fault : FaultAt
  k : Nat
  /-- `none` = process kill (nothing lost); `some d` = the power-loss image `imageOf _ d` -/
  img : Option ImgDesc
  /-- the post-crash state itself -/
  st : State

/-- checks on one post-crash state; `acked` = the run had returned success.
    `rerun = false`: atomicity and durability; `rerun = true`: the re-run check only -/
def checkImage (P : Params) (rerun acked : Bool) (x : State) : Option Kind :=
  if rerun = false then
    if load x P.path ≠ P.old ∧ load x P.path ≠ some P.new then some .notOldOrNew
    else if acked = true ∧ load x P.path ≠ some P.new then some .ackedLost
    else none
  else
    let m2 := interp P.steps P.path P.tmp P.chunks noFaults x
    if m2.err = true ∨ load m2.fs P.path ≠ some P.new then some .rerunFails else none

/-- check on a run that has returned an error (no crash) -/
def checkFailed (P : Params) (r : M × Bool) (ren : Bool) : Option Kind :=
  if r.2 = true ∧ r.1.err = true ∧ load r.1.fs P.path ≠ P.old ∧ ¬ (ren = true ∧ load r.1.fs P.path = some P.new)
  then some .failedChanged else none

def checkState (P : Params) (rerun : Bool) (ft : FaultAt) (k : Nat) : Option CE :=
  let r := interpUpTo P.steps P.path P.tmp P.chunks (faultsOf ft) k P.s0
  let acked := r.2 && !r.1.err
  match checkImage P rerun acked (kill r.1.fs) with
  | some kd => some ⟨kd, ft, k, none, kill r.1.fs⟩
  | none =>
    match (if rerun = false then
             checkFailed P r (renamed (traceUpTo P.steps P.path P.tmp P.chunks (faultsOf ft) k P.s0))
           else none) with
    | some kd => some ⟨kd, ft, k, none, kill r.1.fs⟩
    | none =>
      (imgDescs r.1).findSome? (fun d =>
        (checkImage P rerun acked (imageOf r.1 d)).map (fun kd => ⟨kd, ft, k, some d, imageOf r.1 d⟩))

/-- fault plans: none, then a single fault at each executed-call index, of each kind -/
def plans (P : Params) : List FaultAt :=
  none :: (List.range (bound P.steps P.chunks)).flatMap (fun j => [some (j, 0), some (j, 1)])

/-- cuts worth exploring under plan `ft`: after the faulted call (earlier cuts coincide with the fault-free
    plan) and up to the first cut at which the run has returned (later cuts give the same state) -/
def cuts (P : Params) (ft : FaultAt) : List Nat :=
  (List.range (bound P.steps P.chunks + 1)).filter (fun k =>
    (match ft with
     | none => true
     | some (j, _) => decide (j < k)) &&
    (k == 0 || !(interpUpTo P.steps P.path P.tmp P.chunks (faultsOf ft) (k - 1) P.s0).2))

/-- one pass over all plans, cuts and images -/
def searchPass (P : Params) (rerun : Bool) : Option CE :=
  (plans P).findSome? (fun ft => (cuts P ft).findSome? (checkState P rerun ft))

/-- the search: the first counterexample (first pass: atomicity / durability / failed-run checks; second
    pass: the re-run check), or `none` = safe within the explored space -/
def search (P : Params) : Option CE :=
  match searchPass P false with
  | some ce => some ce
  | none => searchPass P true

/-- number of post-crash states a complete (counterexample-free) search looks at -/
def explored (P : Params) : Nat :=
  ((plans P).map (fun ft => ((cuts P ft).map (fun k =>
    1 + (imgDescs (interpUpTo P.steps P.path P.tmp P.chunks (faultsOf ft) k P.s0).1).length)).sum)).sum

/-! ### the concrete shapes sent by the stream's corpus (driver op `fs.shapes`; `Props.C05.search_expected_safe`) -/

structure Shape where
  old : Option Bytes
  chunks : List Bytes
  stale : Bool
  deriving Repr, DecidableEq

def shapes : List Shape :=
  [ ⟨none, [[1, 2]], false⟩,                   -- no file yet
    ⟨some [1, 2, 3], [[9]], true⟩,             -- new smaller than old, stale temp file present
    ⟨some [1], [[4], [5, 6]], false⟩ ]         -- new larger than old, written by two write calls

/-- parameters of a search on `steps` for a shape; `inPlace` = the protocol's temp name IS the path -/
def paramsOf (steps : List Step) (inPlace : Bool) (sh : Shape) : Params :=
  ⟨steps, 0, if inPlace then 0 else 1, fsInit sh.old sh.stale, sh.old, sh.chunks⟩

end Lungo.AtomicSearch
