/-
  Lungo.Model.CatalogLite — the part of a catalog that `FileStore` persists (C06).

  Mirrors: catalog.go (Catalog.Namespaces : map[Handle]*mongokit.Collection, Handle = [2]string),
  mongokit/collection.go (Collection.Documents.List, Collection.Indexes : map[string]*Index),
  mongokit/index.go (IndexConfig). A live `mongokit.Index` is determined by its config and the
  documents it was built from (`CreateIndex` + `Build`), so the persisted observable is the config.
  Go maps are modelled as association lists with pairwise distinct keys (see `Catalog.WF`).
  Core Lean only; self-contained (the full collection model lives elsewhere).
-/
import Lungo.Model.Value
namespace Lungo.Lite

/-- mongokit.IndexConfig. `partialF = none` is a nil `Partial`; `expiry` is a
    `time.Duration` in nanoseconds (int64). -/
structure IndexDef where
  key : Doc
  unique : Bool
  partialF : Option Doc
  expiry : Int
deriving Inhabited

/-- One entry of `Catalog.Namespaces`. -/
structure Namespace where
  db : String
  coll : String
  docs : List Doc
  indexes : List (String × IndexDef)
deriving Inhabited

abbrev Catalog := List Namespace

/-- Handle.String(): `strings.Join(h[:], ".")`. -/
def handleString (db coll : String) : String := db ++ "." ++ coll

def Namespace.handle (n : Namespace) : String × String := (n.db, n.coll)

/-- Map lookup by handle (first entry; entries are distinct in a well-formed catalog). -/
def Catalog.get? : Catalog → String × String → Option Namespace
  | [], _ => none
  | n :: r, h => if n.db = h.1 ∧ n.coll = h.2 then some n else Catalog.get? r h

end Lungo.Lite
