/-
  Lungo.Model.Project — mirrors mongokit/project.go (Project, projectCondition, projectSlice,
  projectElemMatch) and the projection context of process.go (no top-level operators; the
  expression operators "", $slice, $elemMatch).

  `state.merge` + `state.order`: overlays are applied in registration order (last value per
  path wins, at its first-registered position). Included values and overlays are deep copies
  (ConvertValue) — invisible at the value level, checked by the stream's stored-document monitor.
-/
import Lungo.Model.Match
namespace Lungo

structure PState where
  hideID : Bool := false
  includes : List String := []
  excludes : List String := []
  merge : List (String × V) := []
  skip : List String := []

def mergeSet (m : List (String × V)) (path : String) (v : V) : List (String × V) :=
  if m.any (·.1 == path) then m.map (fun (p, x) => if p == path then (p, v) else (p, x))
  else m ++ [(path, v)]

/-- Go `int(x)` of a projection $slice argument. -/
def sliceInt (v : V) : Option Int :=
  match v with
  | .i32 n => some n
  | .i64 n => some n
  | .f64 b => some (f64TruncInt' b)
  | _ => none
where
  f64TruncInt' (b : UInt64) : Int :=
    match f64Val b with
    | .fin q =>
      let t := ratTrunc q
      if i64Min ≤ t ∧ t ≤ i64Max then t else i64Min
    | _ => i64Min

/-- projectCondition -/
def projectCondition (s : PState) (path : String) (v : V) : Res PState :=
  let inc : Res Bool := match v with
    | .bool b => .ok b
    | _ =>
      if V.cmp v (.i64 1) == .eq then .ok true
      else if V.cmp v (.i64 0) == .eq then .ok false
      else .error .err
  match inc with
  | .error e => .error e
  | .ok isInc =>
    if isInc then .ok { s with includes := s.includes ++ [path] }
    else if path == "_id" then .ok { s with hideID := true }
    else .ok { s with excludes := s.excludes ++ [path] }

/-- projectSlice -/
def projectSlice (s : PState) (d : Doc) (path : String) (v : V) : Res PState :=
  let parsed : Res (Int × Int × Bool) := match v with
    | .arr [a, b] =>
      match sliceInt a, sliceInt b with
      | some sk, some l => if l < 0 then .error .err else .ok (sk, l, true)
      | _, _ => .error .err
    | .arr _ => .error .err
    | _ => match sliceInt v with
      | some l => .ok (0, l, false)
      | none => .error .err
  match parsed with
  | .error e => .error e
  | .ok (skip, limit, hasSkip) =>
    match Get d path with
    | .arr array =>
      let n : Int := array.length
      if hasSkip then
        let start : Int := if skip < 0 then (if n + skip < 0 then 0 else n + skip) else (if skip > n then n else skip)
        let stop : Int := if limit < n - start then start + limit else n
        .ok { s with merge := mergeSet s.merge path (.arr ((array.drop start.toNat).take (stop - start).toNat)) }
      else if limit > 0 then
        .ok { s with merge := mergeSet s.merge path (.arr (if limit < n then array.take limit.toNat else array)) }
      else if limit < 0 then
        .ok { s with merge := mergeSet s.merge path (.arr (if limit > -n then array.drop (n + limit).toNat else array)) }
      else .ok { s with merge := mergeSet s.merge path (.arr []) }
    | _ => .ok s

/-- first element matching the query (as virtual document {item: x} with prefix "item") -/
def firstElemMatch (sch : SchemaEval) (query : Doc) : List V → Res (Option V)
  | [] => .ok none
  | item :: r =>
    -- a query on fields only (no operators) applies to embedded documents only
    if (query.all fun (k, _) => !isOpKey k) && !item.isDoc then firstElemMatch sch query r else
    match mProcess sch [("item", item)] query "item" false with
    | .error .notMatched => firstElemMatch sch query r
    | .error e => .error e
    | .ok _ => .ok (some item)

/-- projectElemMatch -/
def projectElemMatch (sch : SchemaEval) (s : PState) (d : Doc) (path : String) (v : V) : Res PState :=
  match v with
  | .doc query =>
    let s := { s with includes := s.includes ++ [path], skip := s.skip ++ [path] }
    match Get d path with
    | .arr array =>
      match firstElemMatch sch query array with
      | .error e => .error e
      | .ok none => .ok s
      | .ok (some item) => .ok { s with merge := mergeSet s.merge path (.arr [item]) }
    | _ => .ok s
  | _ => .error .err

/-- one expression operator of the projection context -/
def projOp (sch : SchemaEval) (s : PState) (d : Doc) (op path : String) (v : V) : Res PState :=
  if op == "" then projectCondition s path v
  else if op == "$slice" then projectSlice s d path v
  else if op == "$elemMatch" then projectElemMatch sch s d path v
  else .error .err

def projOps (sch : SchemaEval) (s : PState) (d : Doc) (path : String) : List (String × V) → Res PState
  | [] => .ok s
  | (k, v) :: r =>
    if !isOpKey k then .error .err else
    match projOp sch s d k path v with
    | .error e => .error e
    | .ok s' => projOps sch s' d path r

/-- Process over the projection document (root = true, no top-level operators). -/
def projProcess (sch : SchemaEval) (s : PState) (d : Doc) : List (String × V) → Res PState
  | [] => .ok s
  | (key, value) :: r =>
    let res : Res PState :=
      if isOpKey key then .error .err      -- ctx.TopLevel is nil
      else match value with
        | .doc ((k0, v0) :: exps) =>
          if isOpKey k0 then projOps sch s d key ((k0, v0) :: exps)
          else projectCondition s key value
        | _ => projectCondition s key value
    match res with
    | .error e => .error e
    | .ok s' => projProcess sch s' d r

def putAll (res : Doc) : List (String × V) → Res Doc
  | [] => .ok res
  | (p, v) :: r =>
    match Put res (splitPath p) v false with
    | .error e => .error e
    | .ok (d, _) => putAll d r

def prefixRelated (a b : String) : Bool :=
  let pa := splitPath a
  let pb := splitPath b
  a != b && (pa.isPrefixOf pb || pb.isPrefixOf pa)

/-- mongokit.Project -/
def Project (sch : SchemaEval) (d proj : Doc) : Res Doc :=
  match projProcess sch {} d proj with
  | .error e => .error e
  | .ok st =>
    if !st.includes.isEmpty && !st.excludes.isEmpty then .error .err else
    let base : Res Doc :=
      if !st.includes.isEmpty then
        -- res := {}; Put(res, "_id", Get(doc, "_id")) — fails when _id is Missing
        match Put [] ["_id"] (Get d "_id") false with
        | .error e => .error e
        | .ok (res, _) =>
          let copies := (st.includes.filter fun p => !st.skip.contains p).filterMap fun p =>
            let v := Get d p
            if v.isMissing then none else some (p, v)
          putAll res copies
      else
        .ok (st.excludes.foldl (fun acc p => (Unset acc (splitPath p)).1) d)
    match base with
    | .error e => .error e
    | .ok res =>
      match putAll res st.merge with
      | .error e => .error e
      | .ok res => .ok (if st.hideID then (Unset res ["_id"]).1 else res)

end Lungo
