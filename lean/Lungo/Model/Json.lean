/-
  Lungo.Model.Json — tagged JSON encoding of `V` for the line protocol (DESIGN appendix A).

    null            JSON null            | {"m":1}            missing
    {"i":n}         int32                | {"l":n}            int64
    {"f":"16 hex"}  double bits          | {"D":["hex","hex"]} decimal128 (hi, lo)
    "text"          string               | {"d":[["k",v]…]}   document (ordered)
    [v…]            array                | {"b":[sub,"hex"]}  binary
    {"o":"24 hex"}  object id            | true/false         bool
    {"t":ms}        date                 | {"T":[t,i]}        timestamp
    {"r":["p","o"]} regex
-/
import Lean.Data.Json
import Lungo.Model.Value
namespace Lungo
open Lean

def hexDigit (c : Char) : Option Nat :=
  if '0' ≤ c ∧ c ≤ '9' then some (c.toNat - '0'.toNat)
  else if 'a' ≤ c ∧ c ≤ 'f' then some (c.toNat - 'a'.toNat + 10)
  else if 'A' ≤ c ∧ c ≤ 'F' then some (c.toNat - 'A'.toNat + 10)
  else none

def parseHexNat (s : String) : Option Nat :=
  s.toList.foldlM (fun acc c => do let d ← hexDigit c; pure (acc * 16 + d)) 0

def parseHexBytes (s : String) : Option (List UInt8) :=
  let rec go : List Char → List UInt8 → Option (List UInt8)
    | [], acc => some acc.reverse
    | [_], _ => none
    | a :: b :: r, acc => do
      let x ← hexDigit a
      let y ← hexDigit b
      go r (UInt8.ofNat (x * 16 + y) :: acc)
  go s.toList []

def hexChar (n : Nat) : Char :=
  if n < 10 then Char.ofNat ('0'.toNat + n) else Char.ofNat ('a'.toNat + n - 10)

def hexOfBytes (bs : List UInt8) : String :=
  String.ofList (bs.foldr (fun b acc => hexChar (b.toNat / 16) :: hexChar (b.toNat % 16) :: acc) [])

def hexOfU64 (x : UInt64) : String :=
  String.ofList ((List.range 16).map fun i => hexChar ((x.toNat >>> (4 * (15 - i))) % 16))

def jsonInt? (j : Json) : Option Int :=
  match j with
  | .num n => if n.exponent == 0 then some n.mantissa else
      -- tolerate e.g. 1e3 style never produced by the harness
      none
  | .str s => s.toInt?
  | _ => none

partial def V.ofJson (j : Json) : Except String V :=
  match j with
  | .null => pure .null
  | .bool b => pure (.bool b)
  | .str s => pure (.str s)
  | .arr xs => do
    let vs ← xs.toList.mapM V.ofJson
    pure (.arr vs)
  | .obj kv =>
    match kv.toList with
    | [(tag, x)] =>
      match tag with
      | "m" => pure .missing
      | "i" => match jsonInt? x with
        | some n => pure (.i32 n)
        | none => throw "bad i32"
      | "l" => match jsonInt? x with
        | some n => pure (.i64 n)
        | none => throw "bad i64"
      | "f" => match x with
        | .str s => match parseHexNat s with
          | some n => pure (.f64 (UInt64.ofNat n))
          | none => throw "bad f64"
        | _ => throw "bad f64"
      | "D" => match x with
        | .arr #[.str h, .str l] => match parseHexNat h, parseHexNat l with
          | some a, some b => pure (.dec (UInt64.ofNat a) (UInt64.ofNat b))
          | _, _ => throw "bad dec"
        | _ => throw "bad dec"
      | "d" => match x with
        | .arr fs => do
          let fs' ← fs.toList.mapM fun f =>
            match f with
            | .arr #[.str k, v] => do
              let v' ← V.ofJson v
              pure (k, v')
            | _ => throw "bad field"
          pure (.doc fs')
        | _ => throw "bad doc"
      | "b" => match x with
        | .arr #[s, .str h] => match jsonInt? s, parseHexBytes h with
          | some n, some bs => pure (.bin (UInt8.ofNat n.toNat) bs)
          | _, _ => throw "bad bin"
        | _ => throw "bad bin"
      | "o" => match x with
        | .str h => match parseHexBytes h with
          | some bs => pure (.oid bs)
          | none => throw "bad oid"
        | _ => throw "bad oid"
      | "t" => match jsonInt? x with
        | some n => pure (.date n)
        | none => throw "bad date"
      | "T" => match x with
        | .arr #[a, b] => match jsonInt? a, jsonInt? b with
          | some t, some i => pure (.ts t.toNat i.toNat)
          | _, _ => throw "bad ts"
        | _ => throw "bad ts"
      | "r" => match x with
        | .arr #[.str p, .str o] => pure (.regex p o)
        | _ => throw "bad regex"
      | _ => throw s!"unknown tag {tag}"
    | _ => throw "bad tagged value"
  | _ => throw "bad value"

partial def V.toJson : V → Json
  | .null => .null
  | .missing => Json.mkObj [("m", (1 : Nat))]
  | .i32 n => Json.mkObj [("i", Json.num ⟨n, 0⟩)]
  | .i64 n => Json.mkObj [("l", Json.num ⟨n, 0⟩)]
  | .f64 b => Json.mkObj [("f", hexOfU64 b)]
  | .dec h l => Json.mkObj [("D", Json.arr #[hexOfU64 h, hexOfU64 l])]
  | .str s => .str s
  | .doc fs => Json.mkObj [("d", Json.arr (fs.map fun (k, v) => Json.arr #[.str k, v.toJson]).toArray)]
  | .arr xs => Json.arr (xs.map V.toJson).toArray
  | .bin s d => Json.mkObj [("b", Json.arr #[Json.num ⟨s.toNat, 0⟩, hexOfBytes d])]
  | .oid b => Json.mkObj [("o", hexOfBytes b)]
  | .bool b => .bool b
  | .date ms => Json.mkObj [("t", Json.num ⟨ms, 0⟩)]
  | .ts t i => Json.mkObj [("T", Json.arr #[Json.num ⟨t, 0⟩, Json.num ⟨i, 0⟩])]
  | .regex p o => Json.mkObj [("r", Json.arr #[.str p, .str o])]

def docOfJson (j : Json) : Except String Doc := do
  match ← V.ofJson j with
  | .doc fs => pure fs
  | _ => throw "expected document"

def docToJson (d : Doc) : Json := (V.doc d).toJson

def Json.field (j : Json) (k : String) : Except String Json :=
  match j.getObjVal? k with
  | .ok v => pure v
  | .error _ => throw s!"missing field {k}"

def Json.fieldV (j : Json) (k : String) : Except String V := do
  V.ofJson (← Json.field j k)

def Json.fieldDoc (j : Json) (k : String) : Except String Doc := do
  docOfJson (← Json.field j k)

def Json.fieldStr (j : Json) (k : String) : Except String String := do
  match ← Json.field j k with
  | .str s => pure s
  | _ => throw s!"field {k}: expected string"

def Json.fieldInt (j : Json) (k : String) : Except String Int := do
  match jsonInt? (← Json.field j k) with
  | some n => pure n
  | none => throw s!"field {k}: expected integer"

def Json.fieldBool (j : Json) (k : String) : Except String Bool := do
  match ← Json.field j k with
  | .bool b => pure b
  | _ => throw s!"field {k}: expected bool"

def Json.fieldArr (j : Json) (k : String) : Except String (List Json) := do
  match ← Json.field j k with
  | .arr xs => pure xs.toList
  | _ => throw s!"field {k}: expected array"

def Json.fieldDocs (j : Json) (k : String) : Except String (List Doc) := do
  (← Json.fieldArr j k).mapM docOfJson

end Lungo
