/-
  Lungo.Model.Value — the BSON value universe of lungo (bsonkit's "standard types").

  Mirrors: bsonkit/inspect.go (Class, Inspect), bsonkit/access.go (Missing).
  Core Lean only (this file is linked into the `lungo_model` executable).
-/
namespace Lungo

/-- A supported BSON value. `missing` is `bsonkit.Missing` (absence of a value);
    `null` is Go `nil` / `primitive.Null`. Numbers carry their BSON type:
    `i32`/`i64` hold the integer (well-formed when in range, see `V.WF`),
    `f64` holds the raw IEEE-754 bits, `dec` the raw Decimal128 words. -/
inductive V where
  | null
  | missing
  | i32 (n : Int)
  | i64 (n : Int)
  | f64 (bits : UInt64)
  | dec (hi lo : UInt64)
  | str (s : String)
  | doc (fs : List (String × V))
  | arr (xs : List V)
  | bin (sub : UInt8) (data : List UInt8)
  | oid (b : List UInt8)
  | bool (b : Bool)
  | date (ms : Int)
  | ts (t i : Nat)
  | regex (p o : String)
deriving Repr, Inhabited

abbrev Doc := List (String × V)

/-- bsonkit.Class, as its iota rank (inspect.go). -/
inductive Class where
  | null | number | string | document | array | binary | objectID | boolean | date | timestamp | regex
deriving Repr, DecidableEq, Inhabited

def Class.rank : Class → Nat
  | .null => 0 | .number => 1 | .string => 2 | .document => 3 | .array => 4 | .binary => 5
  | .objectID => 6 | .boolean => 7 | .date => 8 | .timestamp => 9 | .regex => 10

/-- bsonkit.Inspect (class part). -/
def V.cls : V → Class
  | .null => .null | .missing => .null
  | .i32 _ => .number | .i64 _ => .number | .f64 _ => .number | .dec _ _ => .number
  | .str _ => .string | .doc _ => .document | .arr _ => .array | .bin _ _ => .binary
  | .oid _ => .objectID | .bool _ => .boolean | .date _ => .date | .ts _ _ => .timestamp
  | .regex _ _ => .regex

/-- bsonkit.Inspect (bsontype part), as the BSON type byte. -/
def V.typ : V → Nat
  | .null => 0x0A | .missing => 0x0A
  | .i32 _ => 0x10 | .i64 _ => 0x12 | .f64 _ => 0x01 | .dec _ _ => 0x13
  | .str _ => 0x02 | .doc _ => 0x03 | .arr _ => 0x04 | .bin _ _ => 0x05
  | .oid _ => 0x07 | .bool _ => 0x08 | .date _ => 0x09 | .ts _ _ => 0x11
  | .regex _ _ => 0x0B

def V.isMissing : V → Bool
  | .missing => true
  | _ => false

def V.isArr : V → Bool
  | .arr _ => true
  | _ => false

def V.isDoc : V → Bool
  | .doc _ => true
  | _ => false

def V.isNumber (v : V) : Bool := v.cls == .number

def i32Min : Int := -2147483648
def i32Max : Int := 2147483647
def i64Min : Int := -9223372036854775808
def i64Max : Int := 9223372036854775807

def inI32 (n : Int) : Bool := decide (i32Min ≤ n) && decide (n ≤ i32Max)
def inI64 (n : Int) : Bool := decide (i64Min ≤ n) && decide (n ≤ i64Max)

/-- Go's wrap-around conversion to a signed fixed-width integer. -/
def wrapTo (bits : Nat) (n : Int) : Int :=
  let m : Int := (2 : Int) ^ bits
  let r := n % m
  if r ≥ m / 2 then r - m else r

def wrap32 (n : Int) : Int := wrapTo 32 n
def wrap64 (n : Int) : Int := wrapTo 64 n

mutual
/-- Well-formed values: integers in range, object ids of 12 bytes, timestamps in uint32. -/
def V.wf : V → Bool
  | .i32 n => inI32 n
  | .i64 n => inI64 n
  | .doc fs => wfFields fs
  | .arr xs => wfList xs
  | .oid b => b.length == 12
  | .date ms => inI64 ms
  | .ts t i => decide (t < 4294967296) && decide (i < 4294967296)
  | _ => true
def wfFields : List (String × V) → Bool
  | [] => true
  | (_, v) :: r => v.wf && wfFields r
def wfList : List V → Bool
  | [] => true
  | v :: r => v.wf && wfList r
end

mutual
/-- Structural (representation) equality: same BSON encoding. Not `Compare`. -/
def V.beq : V → V → Bool
  | .null, .null => true
  | .missing, .missing => true
  | .i32 a, .i32 b => a == b
  | .i64 a, .i64 b => a == b
  | .f64 a, .f64 b => a == b
  | .dec a b, .dec c d => a == c && b == d
  | .str a, .str b => a == b
  | .doc a, .doc b => beqFields a b
  | .arr a, .arr b => beqList a b
  | .bin s a, .bin t b => s == t && a == b
  | .oid a, .oid b => a == b
  | .bool a, .bool b => a == b
  | .date a, .date b => a == b
  | .ts a b, .ts c d => a == c && b == d
  | .regex a b, .regex c d => a == c && b == d
  | _, _ => false
def beqFields : List (String × V) → List (String × V) → Bool
  | [], [] => true
  | (k, v) :: r, (k', v') :: r' => k == k' && v.beq v' && beqFields r r'
  | _, _ => false
def beqList : List V → List V → Bool
  | [], [] => true
  | v :: r, v' :: r' => v.beq v' && beqList r r'
  | _, _ => false
end

instance : BEq V := ⟨V.beq⟩

/-- Lookup of the first field with the given key (Go: linear scan of bson.D). -/
def Doc.find? : Doc → String → Option V
  | [], _ => none
  | (k, v) :: r, key => if k == key then some v else Doc.find? r key

end Lungo
