/-
  Lungo.Model.Txn — mirrors catalog.go and transaction.go (Transaction methods, oplog append,
  Clean, Expire) at the value level. A `Txn` is the pair (catalog, dirty); every method
  returns the new transaction state only on success (the code assigns `t.catalog = clone`
  after the inner call succeeded; the clone discipline itself is the subject of the
  TxnPublish tie and of the snapshot monitors, not of this functional layer).

  Observed nondeterminism: ν (document identities, generated ObjectIDs) and the logical
  oplog clock `ts` (the harness renumbers `_id.ts`/clusterTime and blanks wallTime).
-/
import Lungo.Model.Collection
namespace Lungo

structure Handle where
  db : String
  coll : String
deriving DecidableEq, Repr, Inhabited

def oplogHandle : Handle := ⟨"local", "oplog"⟩

structure Catalog where
  namespaces : List (Handle × Coll)
  clock : Nat := 0            -- number of oplog events ever appended (logical timestamp)
deriving Inhabited

def Catalog.get? (c : Catalog) (h : Handle) : Option Coll :=
  (c.namespaces.find? (·.1 == h)).map (·.2)

def Catalog.set (c : Catalog) (h : Handle) (coll : Coll) : Catalog :=
  if c.namespaces.any (·.1 == h) then
    { c with namespaces := c.namespaces.map fun (h', x) => if h' == h then (h', coll) else (h', x) }
  else { c with namespaces := c.namespaces ++ [(h, coll)] }

def newCatalog : Catalog := { namespaces := [(oplogHandle, newColl false)] }

structure Txn where
  catalog : Catalog
  dirty : Bool := false
deriving Inhabited

/-- Handle.Validate (with the dot rule for database names) -/
def Handle.validate (h : Handle) (needCollection : Bool) : Res Unit :=
  if h.db == "" then .error .err
  else if h.db.contains '.' then .error .err
  else if needCollection && h.coll == "" then .error .err
  else .ok ()

def writable (h : Handle) (needCollection : Bool) : Res Unit :=
  match h.validate needCollection with
  | .error e => .error e
  | .ok _ => if h.db == "local" then .error .err else .ok ()

def sentinelWall : V := .date 0

/-- Transaction.append: the oplog event document (keys sorted as bson.M → MustConvert does). -/
def oplogEvent (ts : Nat) (h : Handle) (op : String) (doc : Option Doc) (changes : Option (List (String × V))) : Doc :=
  let tsV : V := .ts 0 ts
  let ns : Doc := (if h.coll != "" then [("coll", V.str h.coll)] else []) ++ [("db", .str h.db)]
  let docInfo : Doc := match doc with
    | none => []
    | some d =>
      [("documentKey", .doc [("_id", Get d "_id")])] ++
      (if op == "insert" || op == "replace" || op == "update" then [("fullDocument", .doc d)] else [])
  let upd : Doc := match changes with
    | none => []
    | some ch =>
      let updated := (ch.filter fun (_, v) => !v.isMissing).toArray.qsort (fun a b => a.1 < b.1) |>.toList
      let removed := ((ch.filter fun (_, v) => v.isMissing).map (·.1)).toArray.qsort (· < ·) |>.toList
      [("updateDescription", .doc [("removedFields", .arr (removed.map V.str)), ("truncatedArrays", .arr []), ("updatedFields", .doc updated)])]
  [("_id", .doc [("ts", tsV)]), ("clusterTime", tsV)] ++ docInfo ++ [("ns", .doc ns), ("operationType", .str op)] ++ upd ++ [("wallTime", sentinelWall)]

/-- append an event to the oplog collection of the catalog -/
def appendOplog (c : Catalog) (nu : Nu) (h : Handle) (op : String) (doc : Option Doc) (changes : Option (List (String × V))) : Catalog × Nu :=
  let oplog := (c.get? oplogHandle).getD (newColl false)
  let ts := c.clock + 1
  let (id, nu) := nu.fresh
  let ev : SDoc := { id := id, doc := oplogEvent ts h op doc changes }
  ({ (c.set oplogHandle { oplog with docs := oplog.docs ++ [ev] }) with clock := ts }, nu)

def ensureNs (c : Catalog) (h : Handle) : Coll := (c.get? h).getD (newColl true)

structure TResult where
  matched : List Doc := []
  modified : List Doc := []
  upserted : Option Doc := none
  error : Option Err := none
deriving Inhabited

/-- Transaction.Create -/
def Txn.create (t : Txn) (h : Handle) : Res Txn :=
  match writable h true with
  | .error e => .error e
  | .ok _ =>
    if (t.catalog.get? h).isSome then .ok t
    else .ok { catalog := t.catalog.set h (newColl true), dirty := true }

/-- Transaction.Find -/
def Txn.find (sch : SchemaEval) (t : Txn) (h : Handle) (query : Doc) (sort : Option Doc) (skip limit : Int) : Res (List Doc) :=
  match h.validate true with
  | .error e => .error e
  | .ok _ =>
    match t.catalog.get? h with
    | none => .ok []
    | some c =>
      match c.find sch query sort skip limit with
      | .error e => .error e
      | .ok l => .ok (l.map (·.doc))

/-- Transaction.insert (one document into cloned namespace + oplog) -/
def insertOne (sch : SchemaEval) (cat : Catalog) (h : Handle) (d : Doc) (nu : Nu) : Res (Catalog × Doc × Nu) :=
  match (ensureNs cat h).insert sch d nu with
  | .error e => .error e
  | .ok (coll, sd, nu) =>
    let (cat, nu) := appendOplog (cat.set h coll) nu h "insert" (some sd.doc) none
    .ok (cat, sd.doc, nu)

/-- Transaction.Insert: ordered stops at the first error; unordered skips failing documents. -/
def Txn.insert (sch : SchemaEval) (t : Txn) (h : Handle) (list : List Doc) (ordered : Bool) (nu : Nu) : Res (Txn × TResult × Nu) :=
  match writable h true with
  | .error e => .error e
  | .ok _ =>
    let rec go (cat : Catalog) (nu : Nu) (acc : List Doc) (err : Option Err) : List Doc → Catalog × Nu × List Doc × Option Err
      | [] => (cat, nu, acc, err)
      | d :: r =>
        match insertOne sch cat h d nu with
        | .error e =>
          let err := if err.isNone then some e else err
          if ordered then (cat, nu, acc, err) else go cat nu acc err r
        | .ok (cat', d', nu') => go cat' nu' (acc ++ [d']) err r
    let base : Catalog := if (t.catalog.get? h).isSome then t.catalog else t.catalog.set h (newColl true)
    let (cat, nu, mods, err) := go base nu [] none list
    let t' : Txn := if mods.isEmpty then t else { catalog := cat, dirty := true }
    .ok (t', { modified := mods, error := err }, nu)

/-- Transaction.replace -/
def replaceOp (ac : ACtx) (cat : Catalog) (h : Handle) (query repl : Doc) (sort : Option Doc) (upsert : Bool) (nu : Nu) :
    Res (Catalog × TResult × Nu) :=
  let ns := ensureNs cat h
  match ns.replace ac.sch query repl sort nu with
  | .error e => .error e
  | .ok (res, nu) =>
    if res.matched.isEmpty && upsert then
      match ns.upsert ac query (some repl) none [] nu with
      | .error e => .error e
      | .ok (coll, sd, nu) =>
        let (cat, nu) := appendOplog (cat.set h coll) nu h "insert" (some sd.doc) none
        .ok (cat, { upserted := some sd.doc }, nu)
    else
      let cat := cat.set h res.coll
      let (cat, nu) := match res.modified with
        | m :: _ => appendOplog cat nu h "replace" (some m.doc) none
        | [] => (cat, nu)
      .ok (cat, { matched := res.matched.map (·.doc), modified := res.modified.map (·.doc) }, nu)

/-- Transaction.update -/
def updateOp (ac : ACtx) (cat : Catalog) (h : Handle) (query update : Doc) (sort : Option Doc) (upsert : Bool)
    (skip limit : Int) (arrayFilters : List Doc) (nu : Nu) : Res (Catalog × TResult × Nu) :=
  let ns := ensureNs cat h
  match ns.update ac query update sort skip limit arrayFilters nu with
  | .error e => .error e
  | .ok (res, nu) =>
    if res.matched.isEmpty && upsert then
      match ns.upsert ac query none (some update) arrayFilters nu with
      | .error e => .error e
      | .ok (coll, sd, nu) =>
        let (cat, nu) := appendOplog (cat.set h coll) nu h "insert" (some sd.doc) none
        .ok (cat, { upserted := some sd.doc }, nu)
    else
      let cat := cat.set h res.coll
      let (cat, nu) := (res.modified.zip res.changes).foldl (fun (cn : Catalog × Nu) (m, ch) =>
        appendOplog cn.1 cn.2 h "update" (some m.doc) (some ch)) (cat, nu)
      .ok (cat, { matched := res.matched.map (·.doc), modified := res.modified.map (·.doc) }, nu)

/-- Transaction.delete -/
def deleteOp (sch : SchemaEval) (cat : Catalog) (h : Handle) (query : Doc) (sort : Option Doc) (skip limit : Int) (nu : Nu) :
    Res (Catalog × TResult × Nu) :=
  let ns := ensureNs cat h
  match ns.delete sch query sort skip limit with
  | .error e => .error e
  | .ok (coll, list) =>
    let (cat, nu) := list.foldl (fun (cn : Catalog × Nu) sd => appendOplog cn.1 cn.2 h "delete" (some sd.doc) none) (cat.set h coll, nu)
    .ok (cat, { matched := list.map (·.doc) }, nu)

/-- Transaction.Replace -/
def Txn.replace (ac : ACtx) (t : Txn) (h : Handle) (query : Doc) (sort : Option Doc) (repl : Doc) (upsert : Bool) (nu : Nu) :
    Res (Txn × TResult × Nu) :=
  match writable h true with
  | .error e => .error e
  | .ok _ =>
    if (t.catalog.get? h).isNone && !upsert then .ok (t, {}, nu) else
    match replaceOp ac t.catalog h query repl sort upsert nu with
    | .error e => .error e
    | .ok (cat, res, nu) =>
      if !res.modified.isEmpty || res.upserted.isSome then .ok ({ catalog := cat, dirty := true }, res, nu)
      else .ok (t, res, nu)

/-- Transaction.Update -/
def Txn.update (ac : ACtx) (t : Txn) (h : Handle) (query : Doc) (sort : Option Doc) (update : Doc) (skip limit : Int)
    (upsert : Bool) (arrayFilters : List Doc) (nu : Nu) : Res (Txn × TResult × Nu) :=
  match writable h true with
  | .error e => .error e
  | .ok _ =>
    if (t.catalog.get? h).isNone && !upsert then .ok (t, {}, nu) else
    match updateOp ac t.catalog h query update sort upsert skip limit arrayFilters nu with
    | .error e => .error e
    | .ok (cat, res, nu) =>
      if !res.modified.isEmpty || res.upserted.isSome then .ok ({ catalog := cat, dirty := true }, res, nu)
      else .ok (t, res, nu)

/-- Transaction.Delete -/
def Txn.delete (sch : SchemaEval) (t : Txn) (h : Handle) (query : Doc) (sort : Option Doc) (skip limit : Int) (nu : Nu) :
    Res (Txn × TResult × Nu) :=
  match writable h true with
  | .error e => .error e
  | .ok _ =>
    if (t.catalog.get? h).isNone then .ok (t, {}, nu) else
    match deleteOp sch t.catalog h query sort skip limit nu with
    | .error e => .error e
    | .ok (cat, res, nu) =>
      if !res.matched.isEmpty then .ok ({ catalog := cat, dirty := true }, res, nu) else .ok (t, res, nu)

inductive Opcode where
  | insert | replace | update | delete
deriving DecidableEq, Repr, Inhabited

structure Operation where
  opcode : Opcode
  filter : Doc := []
  document : Doc := []
  sort : Option Doc := none
  upsert : Bool := false
  skip : Int := 0
  limit : Int := 0
  arrayFilters : List Doc := []
deriving Inhabited

/-- Transaction.Bulk -/
def Txn.bulk (ac : ACtx) (t : Txn) (h : Handle) (ops : List Operation) (ordered : Bool) (nu : Nu) :
    Res (Txn × List TResult × Nu) :=
  match writable h true with
  | .error e => .error e
  | .ok _ =>
    let rec go (cat : Catalog) (nu : Nu) (acc : List TResult) (changes : Nat) : List Operation → Catalog × Nu × List TResult × Nat
      | [] => (cat, nu, acc, changes)
      | op :: r =>
        let res : Res (Catalog × TResult × Nu) := match op.opcode with
          | .insert => match insertOne ac.sch cat h op.document nu with
            | .error e => .error e
            | .ok (c, d, n) => .ok (c, { modified := [d] }, n)
          | .replace => replaceOp ac cat h op.filter op.document op.sort op.upsert nu
          | .update => updateOp ac cat h op.filter op.document op.sort op.upsert op.skip op.limit op.arrayFilters nu
          | .delete => deleteOp ac.sch cat h op.filter op.sort op.skip op.limit nu
        match res with
        | .error e =>
          let acc := acc ++ [{ error := some e }]
          if ordered then (cat, nu, acc, changes) else go cat nu acc changes r
        | .ok (cat', tr, nu') =>
          let ch := tr.modified.length + (if tr.upserted.isSome then 1 else if op.opcode == .delete then tr.matched.length else 0)
          go cat' nu' (acc ++ [tr]) (changes + ch) r
    let base : Catalog := if (t.catalog.get? h).isSome then t.catalog else t.catalog.set h (newColl true)
    let (cat, nu, results, changes) := go base nu [] 0 ops
    let t' : Txn := if changes > 0 then { catalog := cat, dirty := true } else t
    .ok (t', results, nu)

/-- Transaction.Drop (collection, or the whole database when `h.coll = ""`) -/
def Txn.drop (t : Txn) (h : Handle) (nu : Nu) : Res (Txn × Nu) :=
  match writable h false with
  | .error e => .error e
  | .ok _ =>
    let hit (ns : Handle) : Bool := ns == h || (h.coll == "" && ns.db == h.db)
    let dropped := (t.catalog.namespaces.filter fun (ns, _) => hit ns).map (·.1)
    if dropped.isEmpty then .ok (t, nu) else
    let cat : Catalog := { t.catalog with namespaces := t.catalog.namespaces.filter fun (ns, _) => !hit ns }
    let (cat, nu) := dropped.foldl (fun (cn : Catalog × Nu) ns => appendOplog cn.1 cn.2 ns "drop" none none) (cat, nu)
    let (cat, nu) := if h.coll == "" then appendOplog cat nu h "dropDatabase" none none else (cat, nu)
    .ok ({ catalog := cat, dirty := true }, nu)

/-- Transaction.CreateIndex -/
def Txn.createIndex (sch : SchemaEval) (t : Txn) (h : Handle) (name : String) (config : IndexConfig) : Res (Txn × String) :=
  match writable h true with
  | .error e => .error e
  | .ok _ =>
    match (ensureNs t.catalog h).createIndex sch name config with
    | .error e => .error e
    | .ok (coll, name) => .ok ({ catalog := t.catalog.set h coll, dirty := true }, name)

/-- Transaction.DropIndex -/
def Txn.dropIndex (t : Txn) (h : Handle) (name : String) : Res Txn :=
  match writable h true with
  | .error e => .error e
  | .ok _ =>
    match t.catalog.get? h with
    | none => .error .err
    | some c =>
      match c.dropIndex name with
      | .error e => .error e
      | .ok (coll, dropped) =>
        if dropped.isEmpty then .ok t else .ok { catalog := t.catalog.set h coll, dirty := true }

/-- Transaction.DropIndexByKey -/
def Txn.dropIndexByKey (t : Txn) (h : Handle) (key : Doc) : Res Txn :=
  match writable h true with
  | .error e => .error e
  | .ok _ =>
    match t.catalog.get? h with
    | none => .error .err
    | some c =>
      match c.indexes.find? (fun (_, i) => V.cmp (.doc i.config.key) (.doc key) == .eq) with
      | none => .error .err
      | some (name, _) => t.dropIndex h name

/-- Transaction.ListIndexes (sorted by name) -/
def Txn.listIndexes (t : Txn) (h : Handle) : Res (List Doc) :=
  match h.validate true with
  | .error e => .error e
  | .ok _ =>
    match t.catalog.get? h with
    | none => .ok []
    | some c =>
      let specs := c.indexes.map fun (name, i) =>
        ([("v", V.i32 2), ("key", .doc i.config.key), ("name", .str name)] : Doc) ++
        (if i.config.unique && name != "_id_" then [("unique", .bool true)] else []) ++
        (match i.config.partialF with
         | some p => [("partialFilterExpression", V.doc p)]
         | none => []) ++
        (if i.config.expiry > 0 then [("expireAfterSeconds", .i32 (wrap32 (i.config.expiry / 1000000000)))] else [])
      .ok (sortDocs specs [{ path := "name", reverse := false }])

/-- Transaction.CountDocuments -/
def Txn.count (t : Txn) (h : Handle) : Res Nat :=
  match h.validate true with
  | .error e => .error e
  | .ok _ => .ok ((t.catalog.get? h).map (·.docs.length) |>.getD 0)

/-- the retention decision of Transaction.Clean on a list of event timestamps (oldest first):
    the number of events dropped from the front. `nowT` = seconds of the current timestamp,
    ages in seconds. -/
def cleanCount (tsList : List (Nat × Nat)) (minSize maxSize : Int) (minAgeS maxAgeS : Nat) (minAgeZero : Bool) (nowT nowI : Nat) : Nat :=
  let n : Int := tsList.length
  let minIndex := n - minSize
  let maxIndex := n - maxSize
  -- uint32 subtraction wraps around
  let minT : Nat := (nowT + 4294967296 - minAgeS % 4294967296) % 4294967296
  let maxT : Nat := (nowT + 4294967296 - maxAgeS % 4294967296) % 4294967296
  let rec go (i : Nat) : List (Nat × Nat) → Nat
    | [] => 0
    | (tT, tI) :: r =>
      let afterMin := (i : Int) < minIndex && (minAgeZero || cmpTs tT tI minT 0 == .lt)
      let beyondMax := (i : Int) < maxIndex || cmpTs tT tI maxT nowI == .lt
      if afterMin && beyondMax then 1 + go (i + 1) r else 0
  go 0 tsList

/-- Transaction.Expire, with `cutoff h field` supplying the date `now − expiry` (ms) per TTL index. -/
def Txn.expire (sch : SchemaEval) (t : Txn) (nowMs : Int) (nu : Nu) : Res (Txn × Nat × Nu) :=
  let rec go (cat : Catalog) (nu : Nu) (deleted : Nat) : List (Handle × Coll) → Res (Catalog × Nu × Nat)
    | [] => .ok (cat, nu, deleted)
    | (h, c) :: r =>
      let ttl := c.indexes.filter fun (_, i) => i.config.expiry > 0
      if ttl.isEmpty then go cat nu deleted r else
      let conds : List V := ttl.map fun (_, i) =>
        let field := match i.config.key with
          | (k, _) :: _ => k
          | [] => ""
        -- time.Now().Add(-expiry) converted to a BSON date (ms, truncated)
        V.doc [(field, .doc [("$lt", .date (nowMs - i.config.expiry / 1000000))])]
      match deleteOp sch cat h [("$or", .arr conds)] none 0 0 nu with
      | .error e => .error e
      | .ok (cat', res, nu') => go cat' nu' (deleted + res.matched.length) r
  match go t.catalog nu 0 t.catalog.namespaces with
  | .error e => .error e
  | .ok (cat, nu, deleted) =>
    if deleted > 0 then .ok ({ catalog := cat, dirty := true }, deleted, nu) else .ok (t, 0, nu)

/-! ### Transaction.Clean -/

/-- the path `"_id.ts"` of `bsonkit.Get(doc, "_id.ts")`, pre-split (`splitPath "_id.ts"`; string
    splitting does not reduce in the kernel, the `#guard` below checks the two agree). -/
def tsPath : Path := ["_id", "ts"]

#guard splitPath "_id.ts" == tsPath

/-- `now.T - uint32(age/time.Second)` in uint32 arithmetic (wraps around). -/
def cutoffT (nowT ageS : Nat) : Nat := (nowT + 4294967296 - ageS % 4294967296) % 4294967296

/-- the prefix loop of Transaction.Clean: the number of leading events (starting at index `i`)
    that are both "willing" (`afterMin`) and "forced" (`beyondMax`); stops at the first keeper.
    The timestamp is whatever value sits at `_id.ts` (compared with bsonkit.Compare). -/
def cleanDropped (minIndex maxIndex : Int) (minAgeZero : Bool) (minT maxT nowI : Nat) : Nat → List SDoc → Nat
  | _, [] => 0
  | i, sd :: r =>
    let ts := getP sd.doc tsPath
    let afterMin := (i : Int) < minIndex && (minAgeZero || V.cmp ts (.ts minT 0) == .lt)
    let beyondMax := (i : Int) < maxIndex || V.cmp ts (.ts maxT nowI) == .lt
    if afterMin && beyondMax then 1 + cleanDropped minIndex maxIndex minAgeZero minT maxT nowI (i + 1) r else 0

/-- Transaction.Clean(minSize, maxSize, minAge, maxAge) with `now = bsonkit.Now() = (nowT, nowI)`;
    `minAgeS`/`maxAgeS` = `age/time.Second`, `minAgeZero` = `minAge == 0` (on the Duration, so a
    sub-second `minAge` has `minAgeS = 0` but `minAgeZero = false`). The dropped prefix is removed
    from the oplog's document list (`Documents.Remove(List[0])` × dropped; the oplog has no
    indexes); catalog and dirty flag change only if something was dropped. -/
def Txn.clean (t : Txn) (minSize maxSize : Int) (minAgeS maxAgeS : Nat) (minAgeZero : Bool) (nowT nowI : Nat) : Txn :=
  let oplog := (t.catalog.get? oplogHandle).getD (newColl false)
  let minT := cutoffT nowT minAgeS
  let maxT := cutoffT nowT maxAgeS
  let n : Int := oplog.docs.length
  let minIndex := n - minSize
  let maxIndex := n - maxSize
  let dropped := cleanDropped minIndex maxIndex minAgeZero minT maxT nowI 0 oplog.docs
  if dropped > 0 then
    { catalog := t.catalog.set oplogHandle { oplog with docs := oplog.docs.drop dropped }, dirty := true }
  else t

end Lungo
