/-
  Lungo.Model.Conc — labelled transition system of the Engine / Session / useTransaction
  synchronisation code of /repo (engine.go, session.go, utils.go, dbkit/semaphore.go).

  Granularity: one model step = one blocking acquisition (e.mutex, s.mutex, token), or the
  straight-line code between two scheduling points (scheduling points: mutex Lock, token
  Acquire, Store call, callback call, tomb.Wait, expiry select).  An `Unlock` is merged into
  the step that precedes it (unlock is a left mover).  Every model step is labelled by the
  actor that takes it and a `Choice` carrying all nondeterminism (acquire outcome, store
  outcome, callback outcome, which call an idle actor issues next).

  Data is abstract: a catalog is the list of applied operation ids (`List OpId`, "the log").
  A transaction object is `{base, ops}`: `NewTransaction(e.catalog)` records `base := catalog`,
  a write callback appends a fresh op id to `ops`, `txn.Catalog()` is `base ++ ops` and
  `txn.Dirty()` is `ops ≠ []`.  Operation results are functions of the log prefix the
  operation ran on (`HEntry.seen`).

  Actors: actor 0 is the expiry goroutine (`Engine.expire`), actors 1..n are client goroutines
  issuing API calls.  Subroutine structure: Engine.Begin / Commit / Abort are subroutines with a
  continuation tag `K` stored in the actor's local state; on return the actor is at `Pc.after`.

  Engine.Begin follows /repo commit 1490243 ("read the session before taking the engine lock in
  Begin"): for lock = true the session in ctx is read (s.mutex) BEFORE e.mutex is taken, so a nested
  session transaction yields the nested error even on a closed engine.  The previous order is kept
  in Model/ConcOld.lean (`stepOld`).

  Fields marked (ghost) are never read by a guard; they only record history for the theorems.
-/
namespace Lungo.Conc

abbrev ActorId := Nat
abbrev Tid := Nat
abbrev SessId := Nat
abbrev OpId := Nat

/-- point update of a function on `Nat` -/
def upd {α : Type} (f : Nat → α) (i : Nat) (v : α) : Nat → α := fun j => if j = i then v else f j

@[simp] theorem upd_same {α : Type} (f : Nat → α) (i : Nat) (v : α) : upd f i v i = v := by
  simp [upd]
@[simp] theorem upd_other {α : Type} (f : Nat → α) (i j : Nat) (v : α) (h : j ≠ i) :
    upd f i v j = f j := by simp [upd, h]
theorem upd_apply {α : Type} (f : Nat → α) (i j : Nat) (v : α) :
    upd f i v j = if j = i then v else f j := rfl

/-- error classes (never texts) -/
inductive Err
  | closed | ctx | timeout | nested | existing | noActive | mismatch | store | callback
  | sessEnded | missingTxn
  deriving DecidableEq, Repr, Inhabited

/-- result of a subroutine / call -/
inductive Res
  | none | ok | err (e : Err) | panic
  deriving DecidableEq, Repr, Inhabited

/-- program counters -/
inductive Pc
  | idle
  -- Engine.Begin
  | bSessLock | bSessRead | bLock | bCheck | bAcquire | bRelock | bPost
  -- Engine.Commit
  | cLock | cCheck | cStore
  -- Engine.Abort
  | aLock | aBody
  -- return point of Begin/Commit/Abort (continuation in `Local.k`)
  | after
  -- useTransaction
  | uSessLock | uSessRead | uCb | uCbSess | uCbRead
  -- Session.startTransaction
  | ssLock | ssReserve | ssRelock | ssFinal
  -- Session.CommitTransaction
  | scLock | scBody
  -- Session.AbortTransaction / EndSession (flag `endF`)
  | saLock | saBody
  -- Engine.Close
  | clLock | clKill | clStreams | clWait
  -- short e.mutex critical sections (Watch, stream.cancel, stream.oplog, Catalog)
  | kLock | kBody
  -- Engine.expire
  | xWait | xExpire | xExited
  deriving DecidableEq, Repr, Inhabited

/-- continuation of an Engine.Begin/Commit/Abort subroutine call -/
inductive K
  | use          -- useTransaction: after Begin
  | useCommit    -- useTransaction: after Commit (deferred Abort follows)
  | useAbort     -- useTransaction: after the deferred Abort
  | start        -- Session.startTransaction: after Begin
  | startAbort   -- Session.startTransaction: after Abort (session ended meanwhile)
  | sessCommit   -- Session.CommitTransaction: after Commit
  | sessAbort    -- Session.AbortTransaction / EndSession: after Abort
  | expBegin | expAbort | expCommit      -- Engine.expire
  | dBegin | dCommit | dAbort            -- direct Engine API use
  deriving DecidableEq, Repr, Inhabited

inductive CritKind | watch | cancel | read
  deriving DecidableEq, Repr, Inhabited

/-- why a token acquisition ended -/
inductive Acq | tok | cancel | timeout | dying
  deriving DecidableEq, Repr, Inhabited

/-- (ghost) who is responsible for finishing the engine's current write transaction -/
inductive Own | actor (a : Nat) | sess (sid : Nat)
  deriving DecidableEq, Repr, Inhabited

/-- API calls an idle client actor may issue -/
inductive Call
  | useTx (lock : Bool) (sess : Option SessId)   -- any CRUD call: useTransaction(ctx, engine, lock, fn)
  | begin (lock : Bool) | commit | abort          -- direct Engine.Begin / Commit / Abort on the own handle
  | sessStart (sid : SessId) | sessCommit (sid : SessId)
  | sessAbort (sid : SessId) | sessEnd (sid : SessId)
  | close
  | crit (kind : CritKind)
  deriving DecidableEq, Repr, Inhabited

/-- labels: all nondeterminism of a step -/
inductive Choice
  | go                                   -- the unique continuation / lock acquisition
  | call (c : Call)                      -- idle actor issues a call
  | tok | cancel | timeout | dying       -- outcome of `token.Acquire` / of the expiry select
  | storeOk | storeFail | storePanic     -- outcome of `store.Store`
  | cbWrite | cbNoop | cbErr | cbPanic   -- outcome of the callback
  | tick                                 -- expiry ticker fires
  deriving DecidableEq, Repr, Inhabited

/-- a transaction object (heap cell) -/
structure Txn where
  base : List OpId := []
  ops : List OpId := []
  locked : Bool := false
  /-- (ghost) log length when the creating call was invoked -/
  invLen : Nat := 0
  /-- (ghost) (transaction, end position in the log) of every commit whose call had returned when
      the creating call was invoked -/
  before : List (Tid × Nat) := []
  /-- (ghost) the session whose startTransaction created it -/
  sessOf : Option SessId := none
  deriving Repr, Inhabited

structure Sess where
  txn : Option Tid := none
  starting : Bool := false
  ended : Bool := false
  mutex : Option ActorId := none
  /-- (ghost) the actor that set `starting` -/
  starter : Option ActorId := none
  deriving Repr, Inhabited

structure Eng where
  alive : Bool := true
  mutex : Option ActorId := none
  token : Nat := 1
  txn : Option Tid := none
  catalog : List OpId := []
  durable : List OpId := []
  streams : Nat := 0
  nextTid : Nat := 0
  nextOp : Nat := 0
  /-- (ghost) actor holding the token outside of `txn` -/
  holder : Option ActorId := none
  /-- (ghost) who must finish `txn` (meaningful while `txn.isSome`) -/
  own : Own := .actor 0
  /-- (ghost) `Semaphore.Release` was executed with the slot already full (it panics) -/
  relPanic : Bool := false
  deriving Repr, Inhabited

structure Local where
  pc : Pc := .idle
  k : K := .dBegin
  lockF : Bool := false
  ctxSess : Option SessId := none
  sid : SessId := 0
  endF : Bool := false
  okF : Bool := false
  acq : Acq := .tok
  t : Option Tid := none
  res : Res := .none
  saved : Res := .none
  handle : Option Tid := none
  crit : CritKind := .read
  /-- (ghost) log length / returned transactions at invocation of the current call -/
  invLen : Nat := 0
  invDone : List (Tid × Nat) := []
  /-- (ghost) transaction committed by the current call and the log position where its ops end -/
  cmt : Option (Tid × Nat) := none
  /-- (ghost) snapshot observed by the current read-only call -/
  obs : Option (List OpId) := none
  deriving Repr, Inhabited

/-- (ghost) a committed transaction, recorded at its commit step -/
structure CRec where
  tid : Tid
  base : List OpId
  ops : List OpId
  /-- log length at invocation of the call that began the transaction -/
  invLen : Nat := 0
  /-- (transaction, log end position) of commits whose call had returned before that invocation -/
  before : List (Tid × Nat) := []
  deriving Repr, DecidableEq

/-- (ghost) a write performed by a callback: it ran on log `seen` and produced `op` -/
structure HEntry where
  tid : Tid
  seen : List OpId
  op : OpId
  deriving Repr, DecidableEq

/-- (ghost) a finished read-only call -/
structure RRec where
  actor : ActorId
  obs : List OpId
  invLen : Nat
  retLen : Nat
  deriving Repr, DecidableEq

structure State where
  n : Nat
  eng : Eng := {}
  loc : ActorId → Local
  sess : SessId → Sess := fun _ => {}
  txns : Tid → Txn := fun _ => {}
  commitLog : List CRec := []
  hist : List HEntry := []
  done : List (Tid × Nat) := []
  reads : List RRec := []

/-- initial state: `n` idle clients (1..n), actor 0 is the expiry goroutine parked at its select -/
def init (n : Nat) : State :=
  { n := n, loc := fun a => if a = 0 then { pc := .xWait } else { sid := a } }

/-! ## primitive effects -/

/-- `Semaphore.Release`: non-blocking send into the 1-slot channel, panics iff full -/
def Eng.release (e : Eng) : Eng :=
  if e.token = 0 then { e with token := 1, holder := none } else { e with relPanic := true }

def Eng.unlock (e : Eng) : Eng := { e with mutex := none }

def State.put (s : State) (a : ActorId) (l : Local) (e : Eng) : State :=
  { s with loc := upd s.loc a l, eng := e }

def State.putS (s : State) (sid : SessId) (x : Sess) : State :=
  { s with sess := upd s.sess sid x }

/-- (ghost) bookkeeping at call invocation -/
def Local.invoke (l : Local) (s : State) : Local :=
  { l with invLen := s.eng.catalog.length, invDone := s.done, cmt := none, obs := none, res := .none }

/-- the outer call returns `r` (ghost: record finished commit / read) -/
def State.finish (s : State) (a : ActorId) (l : Local) (e : Eng) (r : Res) (pc : Pc := .idle) : State :=
  { s with
    loc := upd s.loc a { l with pc := pc, res := r },
    eng := e,
    done := match l.cmt with | some t => s.done ++ [t] | none => s.done,
    reads := match l.obs with
      | some o => s.reads ++ [{ actor := a, obs := o, invLen := l.invLen, retLen := e.catalog.length }]
      | none => s.reads }

/-- return from Begin/Commit/Abort to the continuation -/
def Local.back (l : Local) (r : Res) : Local := { l with pc := .after, res := r }

/-! ## Engine.Begin -/

def newTxn (s : State) (l : Local) (locked : Bool) : Txn :=
  { base := s.eng.catalog, ops := [], locked := locked, invLen := l.invLen, before := l.invDone,
    sessOf := if l.k = .start then some l.sid else none }

def stepBegin (s : State) (a : ActorId) (l : Local) (c : Choice) : Option State :=
  let e := s.eng
  match l.pc, c with
  | .bSessLock, .go =>                   -- (lock ∧ session in ctx) sess.Transaction(): s.mutex.Lock(); e.mutex NOT held
    match l.ctxSess with
    | some sid =>
      if (s.sess sid).mutex = none then
        some ((s.put a { l with pc := .bSessRead } e).putS sid { s.sess sid with mutex := some a })
      else none
    | none => none
  | .bSessRead, .go =>                   -- return s.txn; s.mutex.Unlock(); nested → error (before any engine check)
    match l.ctxSess with
    | some sid =>
      let x := s.sess sid
      if x.txn.isSome then
        some ((s.put a (l.back (.err .nested)) e).putS sid { x with mutex := none })
      else
        some ((s.put a { l with pc := .bLock } e).putS sid { x with mutex := none })
    | none => none
  | .bLock, .go =>                       -- B0: e.mutex.Lock()
    if e.mutex = none then some (s.put a { l with pc := .bCheck } { e with mutex := some a }) else none
  | .bCheck, .go =>                      -- alive check, unlocked snapshot, or e.mutex.Unlock() before Acquire
    if !e.alive then
      some (s.put a (l.back (.err .closed)) e.unlock)
    else if !l.lockF then
      -- unlocked snapshot transaction: NewTransaction(e.catalog); deferred unlock
      let t := e.nextTid
      some { s.put a { l.back .ok with t := some t } { e.unlock with nextTid := t + 1 } with
             txns := upd s.txns t (newTxn s l false) }
    else some (s.put a { l with pc := .bAcquire } e.unlock)             -- e.mutex.Unlock(); Acquire
  | .bAcquire, .tok =>                   -- B5: <-s.tokens
    if e.token = 1 then
      some (s.put a { l with pc := .bRelock, okF := true, acq := .tok } { e with token := 0, holder := some a })
    else none
  | .bAcquire, .cancel =>                -- B5: ctx done (not for the expiry actor: ctx = Background)
    if l.k ≠ .expBegin then some (s.put a { l with pc := .bRelock, okF := false, acq := .cancel } e) else none
  | .bAcquire, .timeout =>               -- B5: one minute passed
    some (s.put a { l with pc := .bRelock, okF := false, acq := .timeout } e)
  | .bAcquire, .dying =>                 -- B5: tomb dying
    if !e.alive then some (s.put a { l with pc := .bRelock, okF := false, acq := .dying } e) else none
  | .bRelock, .go =>                     -- B6: e.mutex.Lock()
    if e.mutex = none then some (s.put a { l with pc := .bPost } { e with mutex := some a }) else none
  | .bPost, .go =>                       -- B7..B10 + deferred unlock
    if !l.okF then
      let er := if !e.alive then Err.closed else if l.acq = .cancel then Err.ctx else Err.timeout
      some (s.put a (l.back (.err er)) e.unlock)
    else if !e.alive then
      some (s.put a (l.back (.err .closed)) e.release.unlock)
    else if e.txn.isSome then
      some (s.put a (l.back (.err .existing)) e.release.unlock)
    else
      let t := e.nextTid
      some { s.put a { l.back .ok with t := some t }
                    { e.unlock with txn := some t, holder := none, nextTid := t + 1, own := .actor a } with
             txns := upd s.txns t (newTxn s l true) }
  | _, _ => none

/-! ## Engine.Commit -/

def stepCommit (s : State) (a : ActorId) (l : Local) (c : Choice) : Option State :=
  let e := s.eng
  match l.pc, c with
  | .cLock, .go =>
    if e.mutex = none then some (s.put a { l with pc := .cCheck } { e with mutex := some a }) else none
  | .cCheck, .go =>
    if !e.alive then some (s.put a (l.back (.err .closed)) e.unlock)
    else match e.txn with
      | none => some (s.put a (l.back (.err .noActive)) e.unlock)
      | some t =>
        if l.t ≠ some t then some (s.put a (l.back (.err .mismatch)) e.unlock)
        else
          -- defer e.token.Release(); e.txn = nil
          let e1 := { e with txn := none, holder := some a }
          if (s.txns t).ops = [] then
            -- !txn.Dirty(): return nil  (deferred release, deferred unlock)
            some { s.put a { l.back .ok with cmt := some (t, e.catalog.length) } e1.release.unlock with
                   commitLog := s.commitLog ++
                     [{ tid := t, base := (s.txns t).base, ops := [], invLen := (s.txns t).invLen, before := (s.txns t).before }] }
          else some (s.put a { l with pc := .cStore } e1)
  | .cStore, ch =>
    match l.t with
    | none => none
    | some t =>
      let tx := s.txns t
      match ch with
      | .storeOk =>
        -- Clean; Store ok; e.catalog = txn.Catalog(); broadcast; deferred release + unlock
        let cat := tx.base ++ tx.ops
        some { s.put a { l.back .ok with cmt := some (t, cat.length) }
                      { e with catalog := cat, durable := cat }.release.unlock with
               commitLog := s.commitLog ++
                 [{ tid := t, base := tx.base, ops := tx.ops, invLen := tx.invLen, before := tx.before }] }
      | .storeFail => some (s.put a (l.back (.err .store)) e.release.unlock)
      | .storePanic =>
        -- a panic inside the expiry goroutine kills the process: outside the model
        if l.k ≠ .expCommit then some (s.put a (l.back .panic) e.release.unlock) else none
      | _ => none
  | _, _ => none

/-! ## Engine.Abort -/

def stepAbort (s : State) (a : ActorId) (l : Local) (c : Choice) : Option State :=
  let e := s.eng
  match l.pc, c with
  | .aLock, .go =>
    if e.mutex = none then some (s.put a { l with pc := .aBody } { e with mutex := some a }) else none
  | .aBody, .go =>
    if !e.alive then some (s.put a (l.back .ok) e.unlock)
    else if e.txn.isSome ∧ e.txn = l.t then some (s.put a (l.back .ok) { e with txn := none }.release.unlock)
    else some (s.put a (l.back .ok) e.unlock)     -- (callers never pass a nil transaction)
  | _, _ => none

/-! ## continuations -/

def stepAfter (s : State) (a : ActorId) (l : Local) (c : Choice) : Option State :=
  let e := s.eng
  match c with
  | .go =>
    match l.k with
    | .use =>
      if l.res ≠ .ok then some (s.finish a l e l.res)
      else if !l.lockF then some (s.put a { l with pc := .uCbRead } e)
      else some (s.put a { l with pc := .uCb } e)
    | .useCommit =>                      -- deferred engine.Abort(txn)
      some (s.put a { l with pc := .aLock, k := .useAbort, saved := l.res } e)
    | .useAbort => some (s.finish a l e l.saved)
    | .start => some (s.put a { l with pc := .ssRelock } e)
    | .startAbort =>
      some ((s.finish a l e (.err .sessEnded)).putS l.sid { s.sess l.sid with mutex := none })
    | .sessCommit =>
      some ((s.finish a l e l.res).putS l.sid { s.sess l.sid with mutex := none })
    | .sessAbort =>
      let x := s.sess l.sid
      some ((s.finish a l e .ok).putS l.sid
        { x with txn := none, ended := x.ended || l.endF, mutex := none })
    | .expBegin =>
      if l.res = .ok then some (s.put a { l with pc := .xExpire } e)
      else some (s.finish a l e l.res .xWait)
    | .expAbort => some (s.finish a l e l.res .xWait)
    | .expCommit => some (s.finish a l e l.res .xWait)
    | .dBegin =>
      some (s.finish a { l with handle := if l.res = .ok ∧ l.lockF then l.t else none } e l.res)
    | .dCommit => some (s.finish a l e l.res)
    | .dAbort => some (s.finish a l e l.res)
  | _ => none

/-! ## useTransaction -/

/-- (ghost + data) a callback writes one operation into transaction `t` -/
def State.write (s : State) (t : Tid) : State :=
  let tx := s.txns t
  let op := s.eng.nextOp
  { s with
    txns := upd s.txns t { tx with ops := tx.ops ++ [op] },
    eng := { s.eng with nextOp := op + 1 },
    hist := s.hist ++ [{ tid := t, seen := tx.base ++ tx.ops, op := op }] }

def stepUse (s : State) (a : ActorId) (l : Local) (c : Choice) : Option State :=
  let e := s.eng
  match l.pc, c with
  | .uSessLock, .go =>                   -- sess.Transaction(): s.mutex.Lock()  (e.mutex NOT held)
    match l.ctxSess with
    | some sid =>
      if (s.sess sid).mutex = none then
        some ((s.put a { l with pc := .uSessRead } e).putS sid { s.sess sid with mutex := some a })
      else none
    | none => none
  | .uSessRead, .go =>
    match l.ctxSess with
    | some sid =>
      let x := s.sess sid
      match x.txn with
      | some t => some ((s.put a { l with pc := .uCbSess, t := some t } e).putS sid { x with mutex := none })
      | none =>
        -- engine.Begin(ctx, lock): for lock = true the session in ctx is read first (no engine lock held)
        some ((s.put a { l with pc := if l.lockF then .bSessLock else .bLock, k := .use } e).putS sid
          { x with mutex := none })
    | none => none
  | .uCb, ch =>                          -- fn(txn) on the own locked transaction
    match l.t with
    | none => none
    | some t =>
      match ch with
      | .cbWrite =>
        let s1 := s.write t
        some (s1.put a { l with pc := .cLock, k := .useCommit } s1.eng)
      | .cbNoop => some (s.put a { l with pc := .cLock, k := .useCommit } e)
      | .cbErr => some (s.put a { l with pc := .aLock, k := .useAbort, saved := .err .callback } e)
      | .cbPanic => some (s.put a { l with pc := .aLock, k := .useAbort, saved := .panic } e)
      | _ => none
  | .uCbSess, ch =>                      -- fn(txn) on the session's transaction
    match l.t with
    | none => none
    | some t =>
      match ch with
      | .cbWrite => let s1 := s.write t; some (s1.finish a l s1.eng .ok)
      | .cbNoop => some (s.finish a l e .ok)
      | .cbErr => some (s.finish a l e (.err .callback))
      | .cbPanic => some (s.finish a l e .panic)
      | _ => none
  | .uCbRead, ch =>                      -- fn(txn) on an unlocked snapshot: a read
    match l.t with
    | none => none
    | some t =>
      let l1 := { l with obs := some (s.txns t).base }
      match ch with
      | .cbNoop => some (s.finish a l1 e .ok)
      | .cbErr => some (s.finish a l1 e (.err .callback))
      | .cbPanic => some (s.finish a l1 e .panic)
      | _ => none
  | _, _ => none

/-! ## Session -/

def stepSess (s : State) (a : ActorId) (l : Local) (c : Choice) : Option State :=
  let e := s.eng
  let sid := l.sid
  let x := s.sess sid
  let lockS (pc : Pc) : Option State :=
    if x.mutex = none then some ((s.put a { l with pc := pc } e).putS sid { x with mutex := some a }) else none
  match l.pc, c with
  | .ssLock, .go => lockS .ssReserve
  | .ssReserve, .go =>
    if x.ended then some ((s.finish a l e (.err .sessEnded)).putS sid { x with mutex := none })
    else if x.txn ≠ none ∨ x.starting then
      some ((s.finish a l e (.err .existing)).putS sid { x with mutex := none })
    else
      some ((s.put a { l with pc := .bLock, k := .start, lockF := true, ctxSess := none } e).putS sid
        { x with starting := true, mutex := none, starter := some a })
  | .ssRelock, .go => lockS .ssFinal
  | .ssFinal, .go =>
    if l.res ≠ .ok then
      some ((s.finish a l e l.res).putS sid { x with starting := false, mutex := none, starter := none })
    else if x.ended then
      -- s.engine.Abort(txn) while holding s.mutex
      some ((s.put a { l with pc := .aLock, k := .startAbort } e).putS sid
        { x with starting := false, starter := none })
    else
      some ((s.finish a l { e with own := if e.txn = l.t then .sess sid else e.own } .ok).putS sid
        { x with starting := false, txn := l.t, mutex := none, starter := none })
  | .scLock, .go => lockS .scBody
  | .scBody, .go =>
    if x.ended then some ((s.finish a l e (.err .sessEnded)).putS sid { x with mutex := none })
    else match x.txn with
      | none => some ((s.finish a l e (.err .missingTxn)).putS sid { x with mutex := none })
      | some t =>
        -- txn := s.txn; s.txn = nil; s.engine.Commit(txn) while holding s.mutex
        some ((s.put a { l with pc := .cLock, k := .sessCommit, t := some t }
                 { e with own := if e.txn = some t then .actor a else e.own }).putS sid { x with txn := none })
  | .saLock, .go => lockS .saBody
  | .saBody, .go =>
    if x.ended then
      some ((s.finish a l e (if l.endF then .ok else .err .sessEnded)).putS sid { x with mutex := none })
    else match x.txn with
      | some t =>
        -- s.engine.Abort(s.txn) while holding s.mutex; s.txn = nil afterwards
        some (s.put a { l with pc := .aLock, k := .sessAbort, t := some t } e)
      | none =>
        some ((s.finish a l e .ok).putS sid { x with ended := x.ended || l.endF, mutex := none })
  | _, _ => none

/-! ## Engine.Close, short critical sections, Engine.expire -/

def stepClose (s : State) (a : ActorId) (l : Local) (c : Choice) : Option State :=
  let e := s.eng
  match l.pc, c with
  | .clLock, .go =>
    if e.mutex = none then some (s.put a { l with pc := .clKill } { e with mutex := some a }) else none
  | .clKill, .go =>
    if !e.alive then some (s.finish a l e.unlock .ok)
    else some (s.put a { l with pc := .clStreams } { e.unlock with alive := false })   -- tomb.Kill; Unlock
  | .clStreams, .go => some (s.put a { l with pc := .clWait } { e with streams := 0 }) -- close every stream's signal
  | .clWait, .go =>                      -- tomb.Wait(): the expiry goroutine has returned
    if (s.loc 0).pc = .xExited then some (s.finish a l e .ok) else none
  | .kLock, .go =>
    if e.mutex = none then some (s.put a { l with pc := .kBody } { e with mutex := some a }) else none
  | .kBody, .go =>
    match l.crit with
    | .watch =>
      if !e.alive then some (s.finish a l e.unlock (.err .closed))
      else some (s.finish a l { e.unlock with streams := e.streams + 1 } .ok)
    | .cancel => some (s.finish a l { e.unlock with streams := e.streams - 1 } .ok)
    | .read => some (s.finish a l e.unlock .ok)
  | _, _ => none

def stepExp (s : State) (a : ActorId) (l : Local) (c : Choice) : Option State :=
  let e := s.eng
  match l.pc, c with
  | .xWait, .tick =>                     -- case <-ticker.C  → e.Begin(nil, true)
    some (s.put a { l.invoke s with pc := .bLock, k := .expBegin, lockF := true, ctxSess := none } e)
  | .xWait, .dying =>                    -- case <-e.tomb.Dying(): return
    if !e.alive then some (s.put a { l with pc := .xExited } e) else none
  | .xExpire, ch =>                      -- txn.Expire()
    match l.t with
    | none => none
    | some t =>
      match ch with
      | .cbWrite => let s1 := s.write t; some (s1.put a { l with pc := .cLock, k := .expCommit } s1.eng)
      | .cbNoop => some (s.put a { l with pc := .cLock, k := .expCommit } e)
      | .cbErr => some (s.put a { l with pc := .aLock, k := .expAbort } e)
      | _ => none
  | _, _ => none

/-! ## idle: issuing a call -/

def stepIdle (s : State) (a : ActorId) (l : Local) (c : Choice) : Option State :=
  let e := s.eng
  let l0 := l.invoke s
  match c with
  | .call cl =>
    match cl with
    | .useTx lock sess =>
      match sess with
      | some sid => some (s.put a { l0 with pc := .uSessLock, lockF := lock, ctxSess := some sid } e)
      | none => some (s.put a { l0 with pc := .bLock, k := .use, lockF := lock, ctxSess := none } e)
    | .begin lock =>
      if l.handle = none then some (s.put a { l0 with pc := .bLock, k := .dBegin, lockF := lock, ctxSess := none } e)
      else none
    | .commit =>
      match l.handle with
      | some t => some (s.put a { l0 with pc := .cLock, k := .dCommit, t := some t, handle := none } e)
      | none => none
    | .abort =>
      match l.handle with
      | some t => some (s.put a { l0 with pc := .aLock, k := .dAbort, t := some t, handle := none } e)
      | none => none
    | .sessStart sid => some (s.put a { l0 with pc := .ssLock, sid := sid } e)
    | .sessCommit sid => some (s.put a { l0 with pc := .scLock, sid := sid } e)
    | .sessAbort sid => some (s.put a { l0 with pc := .saLock, sid := sid, endF := false } e)
    | .sessEnd sid => some (s.put a { l0 with pc := .saLock, sid := sid, endF := true } e)
    | .close => some (s.put a { l0 with pc := .clLock } e)
    | .crit kind => some (s.put a { l0 with pc := .kLock, crit := kind } e)
  | _ => none

/-! ## the step function -/

def step (s : State) (a : ActorId) (c : Choice) : Option State :=
  if a > s.n then none else
  let l := s.loc a
  match l.pc with
  | .idle => stepIdle s a l c
  | .bLock | .bCheck | .bSessLock | .bSessRead | .bAcquire | .bRelock | .bPost => stepBegin s a l c
  | .cLock | .cCheck | .cStore => stepCommit s a l c
  | .aLock | .aBody => stepAbort s a l c
  | .after => stepAfter s a l c
  | .uSessLock | .uSessRead | .uCb | .uCbSess | .uCbRead => stepUse s a l c
  | .ssLock | .ssReserve | .ssRelock | .ssFinal | .scLock | .scBody | .saLock | .saBody => stepSess s a l c
  | .clLock | .clKill | .clStreams | .clWait | .kLock | .kBody => stepClose s a l c
  | .xWait | .xExpire | .xExited => stepExp s a l c

/-- reachable states: reflexive-transitive closure of `step` from `init n` -/
inductive Reachable (n : Nat) : State → Prop
  | init : Reachable n (init n)
  | step {s s' : State} {a : ActorId} {c : Choice} :
      Reachable n s → step s a c = some s' → Reachable n s'

/-- the sessions a call touches -/
def Call.sessions : Call → List SessId
  | .useTx _ (some sid) => [sid]
  | .sessStart sid | .sessCommit sid | .sessAbort sid | .sessEnd sid => [sid]
  | _ => []

/-- a label respects "no session is used by two actors": actor `a` only uses session `a` -/
def Choice.unshared (a : ActorId) : Choice → Prop
  | .call cl => ∀ sid ∈ cl.sessions, sid = a
  | _ => True

/-- reachable without sharing a session between two actors -/
inductive ReachableU (n : Nat) : State → Prop
  | init : ReachableU n (init n)
  | step {s s' : State} {a : ActorId} {c : Choice} :
      ReachableU n s → c.unshared a → step s a c = some s' → ReachableU n s'

theorem ReachableU.reachable {n : Nat} {s : State} (h : ReachableU n s) : Reachable n s := by
  induction h with
  | init => exact .init
  | step _ _ hs ih => exact .step ih hs

/-- run a schedule (for tests, witnesses and the driver) -/
def run (s : State) : List (ActorId × Choice) → Option State
  | [] => some s
  | (a, c) :: rest => match step s a c with
    | some s' => run s' rest
    | none => none

theorem run_reachable {n : Nat} {s : State} (h : Reachable n s) :
    ∀ (sch : List (ActorId × Choice)) (s' : State), run s sch = some s' → Reachable n s' := by
  intro sch
  induction sch generalizing s with
  | nil => intro s' h'; simp [run] at h'; subst h'; exact h
  | cons x rest ih =>
    intro s' h'
    obtain ⟨a, c⟩ := x
    simp only [run] at h'
    split at h'
    · rename_i s1 hs1; exact ih (.step h hs1) s' h'
    · cases h'

end Lungo.Conc
