/-
  Lungo.Model.Codec — byte-level BSON encoder/decoder for `V`, mirroring what
  go.mongodb.org/mongo-driver v1.17.9 does for `bson.Marshal(bson.D)` and
  `bson.Unmarshal(bytes, *bson.D)` (the codec behind lungo's `bsonkit.Transform`,
  `FileStore.Store` and `FileStore.Load`).

  Mirrors (trusted, compared byte for byte by stream `codec`):
    bson/bsonrw/value_writer.go   (element header, cstring keys, length back-patching,
                                   WriteRegex sorting the options, array keys "0","1",…)
    x/bsonx/bsoncore/bsoncore.go  (AppendBinary incl. the subtype-2 inner length)
    bson/bsonrw/value_reader.go   (ReadElement/ReadValue terminator check `offset == end`,
                                   array keys skipped unchecked, readString, ReadBinary's
                                   `btype == 2 && length > 4` quirk, ReadBoolean rejecting > 1)
    bson/bsoncodec                (D → bson.D, array → bson.A, null → nil, int32 → int32, …)

  Out of scope (decoder answers `none`): undefined, symbol, JavaScript, code-with-scope,
  DBPointer, MinKey, MaxKey; strings/keys that are not valid UTF-8 (a Go string may hold
  arbitrary bytes, a Lean `String` cannot).
  Core Lean only.
-/
import Lungo.Model.Value
namespace Lungo.Bson

abbrev Bytes := List UInt8

/-! ### little-endian integers -/

/-- `k` little-endian bytes of `n` (i.e. of `n mod 256^k`). -/
def leBytes : Nat → Nat → Bytes
  | 0, _ => []
  | k + 1, n => UInt8.ofNat (n % 256) :: leBytes k (n / 256)

/-- Little-endian value of a byte string. -/
def leNat : Bytes → Nat
  | [] => 0
  | b :: r => b.toNat + 256 * leNat r

/-- Two's complement reading of an unsigned `bits`-bit number. -/
def toSigned (bits : Nat) (u : Nat) : Int :=
  if u ≥ 2 ^ (bits - 1) then (u : Int) - (2 : Int) ^ bits else (u : Int)

def encI32 (n : Int) : Bytes := leBytes 4 (n % (2 : Int) ^ 32).toNat
def encI64 (n : Int) : Bytes := leBytes 8 (n % (2 : Int) ^ 64).toNat

/-! ### strings -/

/-- The UTF-8 bytes of a string. -/
def strBytes (s : String) : Bytes := s.toUTF8.data.toList

/-- Go `string(bytes)` restricted to valid UTF-8. -/
def bytesStr? (b : Bytes) : Option String := String.fromUTF8? ⟨⟨b⟩⟩

/-- `isValidCString`: no NUL byte. -/
def noNul (s : String) : Bool := !(strBytes s).contains 0

def insertChar (c : Char) : List Char → List Char
  | [] => [c]
  | d :: r => if c.val ≤ d.val then c :: d :: r else d :: insertChar c r

/-- `sortStringAlphebeticAscending` (by rune). -/
def sortChars : List Char → List Char
  | [] => []
  | c :: r => insertChar c (sortChars r)

def sortOpts (o : String) : String := String.ofList (sortChars o.toList)

/-! ### array keys -/

def decDigits : Nat → Nat → Bytes → Bytes
  | 0, _, acc => acc
  | f + 1, n, acc =>
    let acc' := UInt8.ofNat (48 + n % 10) :: acc
    if n / 10 = 0 then acc' else decDigits f (n / 10) acc'

/-- `strconv.Itoa(i)` as ASCII bytes. -/
def idxKey (n : Nat) : Bytes := decDigits (n + 1) n []

/-! ### encoder -/

def tyNat (v : V) : Nat := v.typ
def tyByte (v : V) : UInt8 := UInt8.ofNat v.typ

mutual
/-- The value payload (without type byte and key). `missing` has no encoding (see `wfEnc`). -/
def encV : V → Bytes
  | .null => []
  | .missing => []
  | .i32 n => encI32 n
  | .i64 n => encI64 n
  | .f64 b => leBytes 8 b.toNat
  | .dec hi lo => leBytes 8 lo.toNat ++ leBytes 8 hi.toNat
  | .str s => leBytes 4 ((strBytes s).length + 1) ++ (strBytes s ++ [0])
  | .doc fs => leBytes 4 ((encElems fs).length + 5) ++ (encElems fs ++ [0])
  | .arr xs => leBytes 4 ((encArr 0 xs).length + 5) ++ (encArr 0 xs ++ [0])
  | .bin sub d =>
    if sub = 2 then leBytes 4 (d.length + 4) ++ (2 :: (leBytes 4 d.length ++ d))
    else leBytes 4 d.length ++ (sub :: d)
  | .oid b => b
  | .bool b => [if b then 1 else 0]
  | .date ms => encI64 ms
  | .ts t i => leBytes 4 i ++ leBytes 4 t
  | .regex p o => strBytes p ++ (0 :: (strBytes (sortOpts o) ++ [0]))
def encElems : List (String × V) → Bytes
  | [] => []
  | (k, v) :: r => tyByte v :: (strBytes k ++ (0 :: (encV v ++ encElems r)))
def encArr : Nat → List V → Bytes
  | _, [] => []
  | i, v :: r => tyByte v :: (idxKey i ++ (0 :: (encV v ++ encArr (i + 1) r)))
end

/-- `bson.Marshal(doc)`. -/
def encDoc (d : Doc) : Bytes := encV (.doc d)

mutual
/-- What `bson.Marshal` accepts: no NUL in keys / regex parts, no `missing`. -/
def marshalOk : V → Bool
  | .missing => false
  | .doc fs => marshalOkFields fs
  | .arr xs => marshalOkList xs
  | .regex p o => noNul p && noNul o
  | _ => true
def marshalOkFields : List (String × V) → Bool
  | [] => true
  | (k, v) :: r => noNul k && marshalOk v && marshalOkFields r
def marshalOkList : List V → Bool
  | [] => true
  | v :: r => marshalOk v && marshalOkList r
end

/-! ### decoder -/

def takeN : Nat → Bytes → Option (Bytes × Bytes)
  | 0, bs => some ([], bs)
  | _ + 1, [] => none
  | n + 1, b :: r =>
    match takeN n r with
    | some (x, y) => some (b :: x, y)
    | none => none

/-- `readCString`: bytes up to the first NUL, and the rest after it. -/
def splitNul : Bytes → Option (Bytes × Bytes)
  | [] => none
  | b :: r =>
    if b = 0 then some ([], r) else
    match splitNul r with
    | some (x, y) => some (b :: x, y)
    | none => none

/-- Read a little-endian unsigned number of `k` bytes. -/
def rdNat (k : Nat) (bs : Bytes) : Option (Nat × Bytes) :=
  match takeN k bs with
  | some (x, r) => some (leNat x, r)
  | none => none

/-- `readString`: int32 length (> 0, counts the trailing NUL), bytes, NUL. -/
def rdString (bs : Bytes) : Option (String × Bytes) :=
  match rdNat 4 bs with
  | none => none
  | some (u, r) =>
    let len := toSigned 32 u
    if len ≤ 0 then none else
    match takeN (len.toNat - 1) r with
    | none => none
    | some (sb, r1) =>
      match r1 with
      | z :: r2 => if z = 0 then
          match bytesStr? sb with
          | some s => some (s, r2)
          | none => none
        else none
      | [] => none

/-- `ReadBinary`, including the "old binary" quirk: the inner length of subtype 2 is only
    read when the outer length exceeds 4. -/
def rdBinary (bs : Bytes) : Option (V × Bytes) :=
  match rdNat 4 bs with
  | none => none
  | some (u, r) =>
    let len := toSigned 32 u
    match r with
    | [] => none
    | sub :: r1 =>
      if sub = 2 ∧ len > 4 then
        match rdNat 4 r1 with
        | none => none
        | some (u2, r2) =>
          let len2 := toSigned 32 u2
          if len2 < 0 then none else
          match takeN len2.toNat r2 with
          | some (d, r3) => some (.bin sub d, r3)
          | none => none
      else
        if len < 0 then none else
        match takeN len.toNat r1 with
        | some (d, r3) => some (.bin sub d, r3)
        | none => none

/-- Scalar payloads by BSON type byte. -/
def decScalar (t : Nat) (bs : Bytes) : Option (V × Bytes) :=
  match t with
  | 0x0A => some (.null, bs)
  | 0x10 => match rdNat 4 bs with
    | some (u, r) => some (.i32 (toSigned 32 u), r)
    | none => none
  | 0x12 => match rdNat 8 bs with
    | some (u, r) => some (.i64 (toSigned 64 u), r)
    | none => none
  | 0x01 => match rdNat 8 bs with
    | some (u, r) => some (.f64 (UInt64.ofNat u), r)
    | none => none
  | 0x13 => match rdNat 8 bs with
    | some (lo, r) => match rdNat 8 r with
      | some (hi, r') => some (.dec (UInt64.ofNat hi) (UInt64.ofNat lo), r')
      | none => none
    | none => none
  | 0x02 => match rdString bs with
    | some (s, r) => some (.str s, r)
    | none => none
  | 0x05 => rdBinary bs
  | 0x07 => match takeN 12 bs with
    | some (b, r) => some (.oid b, r)
    | none => none
  | 0x08 => match bs with
    | b :: r => if b = 0 then some (.bool false, r) else if b = 1 then some (.bool true, r) else none
    | [] => none
  | 0x09 => match rdNat 8 bs with
    | some (u, r) => some (.date (toSigned 64 u), r)
    | none => none
  | 0x11 => match rdNat 4 bs with
    | some (i, r) => match rdNat 4 r with
      | some (t, r') => some (.ts t i, r')
      | none => none
    | none => none
  | 0x0B => match splitNul bs with
    | some (pb, r) => match splitNul r with
      | some (ob, r') => match bytesStr? pb, bytesStr? ob with
        | some p, some o => some (.regex p o, r')
        | _, _ => none
      | none => none
    | none => none
  | _ => none

mutual
/-- One value of type `t`. Fuel bounds the nesting/element count (every step consumes a byte). -/
def decVal : Nat → Nat → Bytes → Option (V × Bytes)
  | 0, _, _ => none
  | f + 1, t, bs =>
    if t = 0x03 then
      match rdNat 4 bs with
      | none => none
      | some (u, r) =>
        match decElems f r ((bs.length : Int) - toSigned 32 u) with
        | some (fs, r') => some (.doc fs, r')
        | none => none
    else if t = 0x04 then
      match rdNat 4 bs with
      | none => none
      | some (u, r) =>
        match decArr f r ((bs.length : Int) - toSigned 32 u) with
        | some (xs, r') => some (.arr xs, r')
        | none => none
    else decScalar t bs
/-- `ReadElement` loop: the terminator must sit exactly at the declared end
    (`endRem` = number of bytes that remain after the document). -/
def decElems : Nat → Bytes → Int → Option (List (String × V) × Bytes)
  | 0, _, _ => none
  | _ + 1, [], _ => none
  | f + 1, t :: r, endRem =>
    if t = 0 then (if (r.length : Int) = endRem then some ([], r) else none) else
    match splitNul r with
    | none => none
    | some (kb, r1) =>
      match bytesStr? kb with
      | none => none
      | some k =>
        match decVal f t.toNat r1 with
        | none => none
        | some (v, r2) =>
          match decElems f r2 endRem with
          | none => none
          | some (fs, r3) => some ((k, v) :: fs, r3)
/-- `ReadValue` loop: like `decElems`, the keys are skipped without being checked. -/
def decArr : Nat → Bytes → Int → Option (List V × Bytes)
  | 0, _, _ => none
  | _ + 1, [], _ => none
  | f + 1, t :: r, endRem =>
    if t = 0 then (if (r.length : Int) = endRem then some ([], r) else none) else
    match splitNul r with
    | none => none
    | some (_, r1) =>
      match decVal f t.toNat r1 with
      | none => none
      | some (v, r2) =>
        match decArr f r2 endRem with
        | none => none
        | some (xs, r3) => some (v :: xs, r3)
end

/-- `bson.Unmarshal(bytes, *bson.D)`: the declared size must be the buffer size. -/
def decDoc (bs : Bytes) : Option Doc :=
  match rdNat 4 bs with
  | none => none
  | some (u, r) =>
    if toSigned 32 u ≠ (bs.length : Int) then none else
    match decElems (bs.length + 1) r 0 with
    | some (fs, _) => some fs
    | none => none

/-! ### the domain on which the codec is the identity -/

mutual
/-- Values that survive `Unmarshal ∘ Marshal` unchanged: marshalable, integers in range,
    12-byte object ids, sizes below 2^31 (the driver's `maxSize`), sorted regex options,
    and not the subtype-2 binary with empty data. -/
def wfEnc : V → Bool
  | .null => true
  | .missing => false
  | .i32 n => inI32 n
  | .i64 n => inI64 n
  | .f64 _ => true
  | .dec _ _ => true
  | .str s => decide ((strBytes s).length + 1 < 2 ^ 31)
  | .doc fs => wfEncFields fs && decide ((encElems fs).length + 5 < 2 ^ 31)
  | .arr xs => wfEncList xs && decide ((encArr 0 xs).length + 5 < 2 ^ 31)
  | .bin sub d => decide (d.length + 4 < 2 ^ 31) && !(sub == 2 && d.isEmpty)
  | .oid b => b.length == 12
  | .bool _ => true
  | .date ms => inI64 ms
  | .ts t i => decide (t < 2 ^ 32) && decide (i < 2 ^ 32)
  | .regex p o => noNul p && noNul o && (sortOpts o == o)
def wfEncFields : List (String × V) → Bool
  | [] => true
  | (k, v) :: r => noNul k && wfEnc v && wfEncFields r
def wfEncList : List V → Bool
  | [] => true
  | v :: r => wfEnc v && wfEncList r
end

def wfEncDoc (d : Doc) : Bool := wfEnc (V.doc d)

end Lungo.Bson
