/-
  Lungo.Model.AtomicWrite — `dbkit.AtomicWriteFile` (/repo/dbkit/atomic.go) as DATA plus an interpreter
  over the crash model `Lungo.FS`.

  The program is a `List Step`: calls with their error edge, and `defer` registrations.  The
  translator emits `Gen.atomicWriteSteps` from the Go source; `Expected.atomicWriteSteps` is the
  hand-written copy; the theorems are stated about the interpretation of the expected list.

  Interpretation: `compile` turns the step list into straight-line instructions, each carrying
  the deferred calls in scope (run, LIFO, when its error edge returns) and the final deferred calls.
  `io.Copy` is one `write` system call per chunk of ANY split of the content.
  `runUpTo k` executes the first `k` system calls (kill/crash point `k`); `run` executes all.
  Faults: `f j` is the adversary's choice for the `j`-th executed system call.
-/
import Lungo.Model.FS
namespace Lungo.AtomicWrite
open Lungo.FS

/-- the `os.*` / `(*os.File).*` calls of AtomicWriteFile -/
inductive Call
  | removeTmp         -- os.Remove(tempPath)
  | createExclTmp     -- os.OpenFile(tempPath, O_WRONLY|O_CREATE|O_EXCL, mode)
  | writeTmp          -- io.Copy(tempFile, r)
  | fsyncTmp          -- tempFile.Sync()
  | closeTmp          -- tempFile.Close()
  | renameTmpToPath   -- os.Rename(tempPath, path)
  | openDir           -- os.Open(filepath.Dir(path))
  | fsyncDir          -- dir.Sync()
  | closeDir          -- dir.Close()
  deriving Repr, DecidableEq

/-- what the code does with the call's error -/
inductive OnErr
  | ret                 -- `if err != nil { return err }`
  | retUnlessNotExist   -- `if err != nil && !os.IsNotExist(err) { return err }`
  | ignore              -- `_ = ...` / bare deferred call
  deriving Repr, DecidableEq

inductive Step
  | call (c : Call) (e : OnErr)
  | defer (cs : List Call)      -- one `defer`; its calls in execution order, errors ignored
  deriving Repr, DecidableEq

structure Instr where
  call : Call
  chunk : Bytes
  onErr : OnErr
  cleanup : List Call
  deriving Repr

/-- straight-line instructions and the deferred calls to run at a normal return -/
def compile (chunks : List Bytes) : List Step → List Call → List Instr × List Call
  | [], ds => ([], ds)
  | .defer cs :: rest, ds => compile chunks rest (cs ++ ds)
  | .call c e :: rest, ds =>
    let r := compile chunks rest ds
    match c with
    | .writeTmp => (chunks.map (fun b => ⟨.writeTmp, b, e, ds⟩) ++ r.1, r.2)
    | _ => (⟨c, [], e, ds⟩ :: r.1, r.2)

/-- machine state: the file system, the temp file handle (its inode), the function's result -/
structure M where
  fs : State
  tmpH : Option Ino
  err : Bool

abbrev Fault := Option Nat          -- `some k` = this call fails (a write after `k` bytes)
abbrev Faults := Nat → Fault

def noFaults : Faults := fun _ => none
def singleFault (j : Nat) (ft : Fault) : Faults := fun i => if i = j then ft else none

def withFile (m : M) (op : Ino → State × Option Err) : M × Option Err :=
  match m.tmpH with
  | none => (m, some .badFd)
  | some h => let r := op h; ({ m with fs := r.1 }, r.2)

def execCall (path tmp : Name) (c : Call) (chunk : Bytes) (m : M) (ft : Fault) : M × Option Err :=
  match c with
  | .removeTmp => let r := unlink m.fs tmp ft.isSome; ({ m with fs := r.1 }, r.2)
  | .createExclTmp =>
    let r := createExcl m.fs tmp ft.isSome
    match r.2.1 with
    | none => ({ m with fs := r.1, tmpH := some r.2.2 }, none)
    | some e => ({ m with fs := r.1 }, some e)
  | .writeTmp => withFile m (fun h => write m.fs h chunk ft)
  | .fsyncTmp => withFile m (fun h => fsync m.fs h ft.isSome)
  | .closeTmp => withFile m (fun h => close m.fs (.file h) ft.isSome)
  | .renameTmpToPath => let r := rename m.fs tmp path ft.isSome; ({ m with fs := r.1 }, r.2)
  | .openDir => let r := openDir m.fs ft.isSome; ({ m with fs := r.1 }, r.2)
  | .fsyncDir => let r := fsyncDir m.fs ft.isSome; ({ m with fs := r.1 }, r.2)
  | .closeDir => let r := close m.fs .dir ft.isSome; ({ m with fs := r.1 }, r.2)

/-- does execution continue past a call with this result? -/
def proceeds : OnErr → Option Err → Bool
  | _, none => true
  | .ignore, some _ => true
  | .retUnlessNotExist, some .notExist => true
  | _, some _ => false

/-- deferred calls (errors ignored); result: state and "finished" -/
def cleanupUpTo (path tmp : Name) (f : Faults) : Nat → List Call → M → Nat → M × Bool
  | _, [], m, _ => (m, true)
  | 0, _ :: _, m, _ => (m, false)
  | k + 1, c :: cs, m, j => cleanupUpTo path tmp f k cs (execCall path tmp c [] m (f j)).1 (j + 1)

/-- first `k` system calls of the instruction list (then the final deferred calls `fin`) -/
def runUpTo (path tmp : Name) (f : Faults) (fin : List Call) : Nat → List Instr → M → Nat → M × Bool
  | k, [], m, j => cleanupUpTo path tmp f k fin m j
  | 0, _ :: _, m, _ => (m, false)
  | k + 1, i :: is, m, j =>
    let r := execCall path tmp i.call i.chunk m (f j)
    if proceeds i.onErr r.2 then runUpTo path tmp f fin k is r.1 (j + 1)
    else cleanupUpTo path tmp f k i.cleanup { r.1 with err := true } (j + 1)

def initM (s : State) : M := ⟨s, none, false⟩

/-- state after the first `k` system calls of the program `steps` writing the chunks to `path` -/
def interpUpTo (steps : List Step) (path tmp : Name) (chunks : List Bytes) (f : Faults) (k : Nat) (s : State) : M × Bool :=
  let p := compile chunks steps []
  runUpTo path tmp f p.2 k p.1 (initM s) 0

/-- number of system calls after which every run of `steps` has returned -/
def bound (steps : List Step) (chunks : List Bytes) : Nat :=
  let p := compile chunks steps []
  p.1.length + p.2.length

/-- complete run -/
def interp (steps : List Step) (path tmp : Name) (chunks : List Bytes) (f : Faults) (s : State) : M :=
  (interpUpTo steps path tmp chunks f (bound steps chunks) s).1

/-! ### finite representative enumeration of post-crash images (driver op `fs.images`) -/

def allMasks : Nat → List (List Bool)
  | 0 => [[]]
  | n + 1 => (allMasks n).flatMap (fun m => [false :: m, true :: m])

def flipBytes (bs : Bytes) : Bytes := bs.map (fun b => b ^^^ 0xFF)

/-- prefix lengths tried for an un-synced remainder of length `n` (all, if short) -/
def prefixLens (n : Nat) : List Nat :=
  if n ≤ 16 then List.range (n + 1) else [0, 1, 2, n / 2, n - 2, n - 1, n]

/-- every subset of the pending directory operations × for the temp inode each chosen prefix length of
    its un-synced bytes, once with the true bytes and once with the bytes flipped (garbage) -/
def crashImages (m : M) : List State :=
  let gs : List (Ino → Bytes) :=
    match m.tmpH with
    | none => [fun _ => []]
    | some h =>
      let p := (m.fs.ino h).pend
      (prefixLens p.length).flatMap (fun l =>
        [fun i => if i = h then p.take l else [], fun i => if i = h then flipBytes (p.take l) else []])
  (allMasks m.fs.pending.length).flatMap (fun mk => gs.map (fun g => crashImage m.fs mk g))

theorem crashImages_sound (m : M) : ∀ img ∈ crashImages m, Crash m.fs img := by
  intro img h
  simp only [crashImages, List.mem_flatMap, List.mem_map] at h
  obtain ⟨mk, _, g, _, rfl⟩ := h
  exact crashImage_crash _ _ _

end Lungo.AtomicWrite
