/-
  Lungo.Model.Sort — mirrors bsonkit/sort.go (Column, sortKey, Order, Sort), mongokit/sort.go
  (Columns, Sort) and bsonkit/lists.go (Select, Pick, Collect/Distinct).

  sort.SliceStable is modelled by core's `List.mergeSort` (a stable sort); sort.Slice (unstable,
  used by Collect's distinct) is modelled by the same function — its result is only observed
  modulo `Compare = 0` (trusted contract: some permutation sorted w.r.t. less).
-/
import Lungo.Model.Access
import Lungo.Model.Compare
namespace Lungo

structure Column where
  path : String
  reverse : Bool
deriving Repr, Inhabited, DecidableEq

/-- sortKey: arrays are reduced to their smallest (ascending) or largest (descending) element. -/
def sortKey (v : V) (reverse : Bool) : V :=
  match v with
  | .arr (x :: rest) =>
    rest.foldl (fun best item =>
      let c := V.cmp item best
      if reverse then (if c == .gt then item else best)
      else (if c == .lt then item else best)) x
  | _ => v

/-- bsonkit.Order with identity = false -/
def order (l r : Doc) : List Column → Ordering
  | [] => .eq
  | col :: cols =>
    let a := sortKey (Get l col.path) col.reverse
    let b := sortKey (Get r col.path) col.reverse
    match V.cmp a b with
    | .eq => order l r cols
    | res => if col.reverse then res.swap else res

/-- bsonkit.Sort (stable) -/
def sortDocs (list : List Doc) (cols : List Column) : List Doc :=
  list.mergeSort (fun a b => order a b cols != .gt)

/-- Go `int(float64)` for the direction argument: truncation (amd64: MinInt64 when out of range). -/
def f64TruncInt (b : UInt64) : Int :=
  match f64Val b with
  | .fin q =>
    let t := ratTrunc q
    if i64Min ≤ t ∧ t ≤ i64Max then t else i64Min
  | _ => i64Min

/-- mongokit.Columns -/
def columns : Doc → Res (List Column)
  | [] => .ok []
  | (k, v) :: r =>
    let dir : Res Int := match v with
      | .i32 n => .ok n
      | .i64 n => .ok n
      | .f64 b => .ok (f64TruncInt b)
      | _ => .error .err
    match dir with
    | .error e => .error e
    | .ok d =>
      if d != -1 && d != 1 then .error .err
      else match columns r with
        | .error e => .error e
        | .ok cs => .ok ({ path := k, reverse := d == -1 } :: cs)

/-- mongokit.Sort -/
def sortBySpec (list : List Doc) (spec : Doc) : Res (List Doc) :=
  match columns spec with
  | .error e => .error e
  | .ok cols => .ok (sortDocs list cols)

/-- bsonkit.Pick -/
def pick (list : List Doc) (path : String) (compact : Bool) : List V :=
  list.filterMap fun d =>
    let v := Get d path
    if compact && v.isMissing then none else some v

/-- remove adjacent duplicates under Compare (input sorted) -/
def dedupSorted : List V → List V
  | [] => []
  | [x] => [x]
  | x :: y :: r => if V.cmp x y == .eq then dedupSorted (x :: r) else x :: dedupSorted (y :: r)
termination_by l => l.length

/-- bsonkit.Collect -/
def collect (list : List Doc) (path : String) (compact merge flatten distinct : Bool) : List V :=
  let result := list.foldr (fun d acc =>
    let (v, _) := All d (splitPath path) compact merge
    if compact && v.isMissing then acc
    else match v with
      | .arr a => if flatten then a ++ acc else v :: acc
      | _ => v :: acc) []
  if !distinct then result
  else dedupSorted (result.mergeSort (fun a b => V.cmp a b != .gt))

/-- mongokit.Distinct -/
def Distinct (list : List Doc) (path : String) : List V := collect list path true true true true

end Lungo
