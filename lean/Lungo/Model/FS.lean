/-
  Lungo.Model.FS — POSIX-style file-system crash model (DESIGN appendix C, property C05).

  State: inodes with durable bytes `dur` and an un-synced remainder `pend` (files are append-only here:
  the volatile content is `dur ++ pend`), a volatile directory `vdir`, a durable directory `ddir`
  (name ↦ inode) and the list `pending` of directory operations not yet made durable.
  Every operation takes a fault input (`fail`) — the adversary decides which calls fail.
  `Crash s s'` : power loss.  `kill s` : process death only.  `load s n` : bytes reachable at name `n`.
  Names and inode numbers are abstract identifiers (`Nat`).  Core-only.
-/
namespace Lungo.FS

abbrev Bytes := List UInt8
abbrev Name := Nat
abbrev Ino := Nat

structure Inode where
  dur : Bytes
  pend : Bytes
  deriving Repr, DecidableEq

/-- volatile bytes (what a running process reads) -/
def Inode.vol (i : Inode) : Bytes := i.dur ++ i.pend

abbrev Dir := Name → Option Ino

def Dir.set (d : Dir) (n : Name) (v : Option Ino) : Dir := fun m => if m = n then v else d m

/-- directory operations as recorded in the pending list: effects are resolved to inodes
    at the time of the call (a rename carries the inode it moves), so each is atomic. -/
inductive DirOp
  | link (n : Name) (i : Ino)
  | unlink (n : Name)
  | rename (a b : Name) (i : Ino)
  deriving Repr, DecidableEq

def DirOp.apply : DirOp → Dir → Dir
  | .link n i, d => d.set n (some i)
  | .unlink n, d => d.set n none
  | .rename a b i, d => (d.set a none).set b (some i)

def applyAll (d : Dir) : List DirOp → Dir
  | [] => d
  | op :: ops => applyAll (op.apply d) ops

inductive Fd
  | file (i : Ino)
  | dir
  deriving Repr, DecidableEq

inductive Err
  | notExist | exist | badFd | io
  deriving Repr, DecidableEq

structure State where
  ino : Ino → Inode
  next : Ino
  vdir : Dir
  ddir : Dir
  pending : List DirOp
  fds : List Fd

def setIno (f : Ino → Inode) (i : Ino) (v : Inode) : Ino → Inode := fun j => if j = i then v else f j

/-- `unlink(n)` -/
def unlink (s : State) (n : Name) (fail : Bool) : State × Option Err :=
  if fail then (s, some .io) else
  match s.vdir n with
  | none => (s, some .notExist)
  | some _ => ({ s with vdir := s.vdir.set n none, pending := s.pending ++ [.unlink n] }, none)

/-- `open(n, O_WRONLY|O_CREAT|O_EXCL)`; returns the fresh inode -/
def createExcl (s : State) (n : Name) (fail : Bool) : State × Option Err × Ino :=
  if fail then (s, some .io, 0) else
  match s.vdir n with
  | some _ => (s, some .exist, 0)
  | none =>
    let i := s.next
    ({ s with ino := setIno s.ino i ⟨[], []⟩, next := i + 1, vdir := s.vdir.set n (some i),
              pending := s.pending ++ [.link n i], fds := .file i :: s.fds }, none, i)

/-- `write(fd, bs)`; `fail = some k` : only the first `k` bytes are written, then an error -/
def write (s : State) (i : Ino) (bs : Bytes) (fail : Option Nat) : State × Option Err :=
  if Fd.file i ∈ s.fds then
    match fail with
    | none => ({ s with ino := setIno s.ino i ⟨(s.ino i).dur, (s.ino i).pend ++ bs⟩ }, none)
    | some k => ({ s with ino := setIno s.ino i ⟨(s.ino i).dur, (s.ino i).pend ++ bs.take k⟩ }, some .io)
  else (s, some .badFd)

/-- `fsync(fd)` of a file -/
def fsync (s : State) (i : Ino) (fail : Bool) : State × Option Err :=
  if Fd.file i ∈ s.fds then
    if fail then (s, some .io) else
    ({ s with ino := setIno s.ino i ⟨(s.ino i).dur ++ (s.ino i).pend, []⟩ }, none)
  else (s, some .badFd)

/-- `close(fd)`: the descriptor is released even when an error is reported -/
def close (s : State) (fd : Fd) (fail : Bool) : State × Option Err :=
  if fd ∈ s.fds then ({ s with fds := s.fds.erase fd }, if fail then some .io else none)
  else (s, some .badFd)

/-- `rename(a, b)` -/
def rename (s : State) (a b : Name) (fail : Bool) : State × Option Err :=
  if fail then (s, some .io) else
  match s.vdir a with
  | none => (s, some .notExist)
  | some i => ({ s with vdir := (s.vdir.set a none).set b (some i), pending := s.pending ++ [.rename a b i] }, none)

/-- `open(dir)` -/
def openDir (s : State) (fail : Bool) : State × Option Err :=
  if fail then (s, some .io) else ({ s with fds := .dir :: s.fds }, none)

/-- `fsync(dirfd)`: all pending directory operations become durable -/
def fsyncDir (s : State) (fail : Bool) : State × Option Err :=
  if Fd.dir ∈ s.fds then
    if fail then (s, some .io) else
    ({ s with ddir := applyAll s.ddir s.pending, pending := [] }, none)
  else (s, some .badFd)

/-- Power loss: the directory is the durable one with ANY order-preserving subset of the pending
    operations applied; every inode keeps its durable bytes followed by ANY bytes `g` whose length
    is at most that of the un-synced remainder (garbage allowed). Descriptors are gone. -/
def Crash (s s' : State) : Prop :=
  ∃ sub : List DirOp, sub.Sublist s.pending ∧
    (∀ n, s'.ddir n = applyAll s.ddir sub n) ∧ (∀ n, s'.vdir n = s'.ddir n) ∧
    s'.pending = [] ∧ s'.fds = [] ∧ s'.next = s.next ∧
    ∀ i, ∃ g : Bytes, s'.ino i = ⟨(s.ino i).dur ++ g, []⟩ ∧ g.length ≤ (s.ino i).pend.length

/-- Process death only: volatile state survives, descriptors are gone. -/
def kill (s : State) : State := { s with fds := [] }

/-- bytes a (new) process reads at name `n` -/
def load (s : State) (n : Name) : Option Bytes := (s.vdir n).map (fun i => (s.ino i).vol)

/-- order-preserving selection of a sub-list by a mask (missing mask entries = dropped) -/
def pick {α : Type} : List Bool → List α → List α
  | [], _ => []
  | _, [] => []
  | b :: bs, x :: xs => if b then x :: pick bs xs else pick bs xs

theorem pick_sublist {α : Type} (mask : List Bool) (l : List α) : (pick mask l).Sublist l := by
  induction l generalizing mask with
  | nil => cases mask <;> exact List.Sublist.slnil
  | cons x xs ih =>
    cases mask with
    | nil => exact List.nil_sublist _
    | cons b bs =>
      cases b
      · exact (ih bs).cons x
      · exact (ih bs).cons_cons x

/-- executable crash-image constructor (used by the driver to enumerate representatives and by the
    examples): the pending operations selected by `mask` are applied; inode `i` keeps its durable
    bytes followed by the bytes `g i`, clipped to the length of its un-synced remainder. -/
def crashImage (s : State) (mask : List Bool) (g : Ino → Bytes) : State :=
  let d := applyAll s.ddir (pick mask s.pending)
  { ino := fun i => ⟨(s.ino i).dur ++ (g i).take (s.ino i).pend.length, []⟩,
    next := s.next, vdir := d, ddir := d, pending := [], fds := [] }

theorem crashImage_crash (s : State) (mask : List Bool) (g : Ino → Bytes) : Crash s (crashImage s mask g) :=
  ⟨pick mask s.pending, pick_sublist _ _, fun _ => rfl, fun _ => rfl, rfl, rfl, rfl,
    fun i => ⟨(g i).take (s.ino i).pend.length, rfl, by simp [List.length_take]; exact Nat.min_le_left _ _⟩⟩

end Lungo.FS
