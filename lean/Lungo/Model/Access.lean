/-
  Lungo.Model.Access — mirrors bsonkit/path.go (segments, ParseIndex) and bsonkit/access.go
  (get / Get / All / put / Put / Unset).

  A Go path string p ≠ PathEnd is represented by its segments `p.splitOn "."` (always ≥ 1
  segment, "" ↦ [""]); PathEnd ("\x00") is `[]`. Then PathSegment = head, ReducePath = tail.
-/
import Lungo.Model.Value
namespace Lungo

/-- Errors of the model. `err` = any Go error value, `dup` = uniqueness error
    (lungo.IsUniquenessError), `notMatched` = mongokit.ErrNotMatched,
    `panic site` = the Go code would panic at `site`. -/
inductive Err where
  | err
  | dup
  | notMatched
  | panic (site : String)
  | unmodelled (what : String)   -- behaviour deliberately outside the model (listed in DESIGN §6); never compared
deriving Repr, DecidableEq, Inhabited

abbrev Res := Except Err

abbrev Path := List String

def splitPath (s : String) : Path := s.splitOn "."

def joinPath (p : Path) : String := ".".intercalate p

def isDigit (c : Char) : Bool := '0' ≤ c && c ≤ '9'

def digitsToNat (cs : List Char) : Nat :=
  cs.foldl (fun acc c => acc * 10 + (c.toNat - '0'.toNat)) 0

def maxInt : Nat := 9223372036854775807

/-- bsonkit.MaxArrayPadding -/
def maxArrayPadding : Nat := 1500000

/-- bsonkit.ParseIndex: first byte a digit and strconv.Atoi succeeds (digits only, ≤ MaxInt64). -/
def parseIndex (s : String) : Option Nat :=
  let cs := s.toList
  match cs with
  | [] => none
  | _ :: _ =>
    if cs.all isDigit then
      let n := digitsToNat cs
      if n ≤ maxInt then some n else none
    else none

/-- bsonkit.IndexedPath: some segment parses as an index. -/
def indexedPath (p : Path) : Bool := p.any fun s => (parseIndex s).isSome

mutual
/-- access.go `get(v, path, collect, compact)`; returns (value, nested). -/
def get (v : V) (path : Path) (collect compact : Bool) : V × Bool :=
  match path with
  | [] => (v, false)
  | key :: rest =>
    if key == "" && rest.isEmpty then (.missing, false) else
    match v with
    | .doc fs => getField fs key rest collect compact
    | .arr xs =>
      match (match parseIndex key with
             | some idx => getIdx xs idx rest collect compact
             | none => none) with
      | some r => r
      | none =>
        if collect then (.arr (getCollect xs key rest collect compact), true)
        else (.missing, false)
    | _ => (.missing, false)
/-- first field named `key`, else Missing. -/
def getField (fs : List (String × V)) (key : String) (rest : Path) (collect compact : Bool) : V × Bool :=
  match fs with
  | [] => (.missing, false)
  | (k, v) :: r =>
    if k == key then get v rest collect compact
    else getField r key rest collect compact
/-- arr[idx] if in range. -/
def getIdx (xs : List V) (idx : Nat) (rest : Path) (collect compact : Bool) : Option (V × Bool) :=
  match xs, idx with
  | [], _ => none
  | v :: _, 0 => some (get v rest collect compact)
  | _ :: r, n + 1 => getIdx r n rest collect compact
/-- the fan-out loop over array items (same path on every item). -/
def getCollect (xs : List V) (key : String) (rest : Path) (collect compact : Bool) : List V :=
  match xs with
  | [] => []
  | item :: r =>
    let (value, nested) := get item (key :: rest) collect compact
    let tail := getCollect r key rest collect compact
    if value.isMissing then
      (if !compact then value :: tail else tail)
    else
      match value with
      | .arr a => if nested && compact then a ++ tail else value :: tail
      | _ => value :: tail
end

/-- bsonkit.Get -/
def Get (d : Doc) (path : String) : V := (get (.doc d) (splitPath path) false false).1

def getP (d : Doc) (path : Path) : V := (get (.doc d) path false false).1

/-- bsonkit.All -/
def All (d : Doc) (path : Path) (compact merge : Bool) : V × Bool :=
  let (value, nested) := get (.doc d) path true compact
  if !nested || !merge then (value, nested)
  else match value with
    | .arr array =>
      (.arr (array.foldr (fun item acc => match item with
          | .arr a => a ++ acc
          | _ => item :: acc) []), nested)
    | _ => (value, nested)

def listSet {α} : List α → Nat → α → List α
  | [], _, _ => []
  | _ :: r, 0, x => x :: r
  | a :: r, n + 1, x => a :: listSet r n x

def fieldIndex (fs : List (String × V)) (key : String) : Option Nat :=
  fs.findIdx? (fun kv => kv.1 == key)

/-- access.go `put`: returns (new value to store in place of `v`, previous value).
    A result `new = .missing` tells the parent to remove the field (documents) or nil the
    element (arrays). `value = .missing` means unset. Recursion is on the path. -/
def put (v : V) (path : Path) (value : V) (prepend : Bool) : Res (V × V) :=
  match path with
  | [] => .ok (value, v)
  | key :: rest =>
    if key == "" && rest.isEmpty then .error .err else
    match v with
    | .doc fs =>
      match fieldIndex fs key with
      | some i =>
        match fs[i]? with
        | some (k, old) =>
          match put old rest value prepend with
          | .ok (nv, prev) =>
            if nv.isMissing then .ok (.doc (fs.eraseIdx i), prev)
            else .ok (.doc (listSet fs i (k, nv)), prev)
          | .error e => .error e
        | none => .error .err
      | none =>
        if value.isMissing then .error .err else
        match put .missing rest value prepend with
        | .ok (nv, _) =>
          if prepend then .ok (.doc ((key, nv) :: fs), .missing)
          else .ok (.doc (fs ++ [(key, nv)]), .missing)
        | .error e => .error e
    | .arr xs =>
      match parseIndex key with
      | none => .error .err
      | some idx =>
        if idx == maxInt then .error .err else   -- math.MaxInt is rejected (index+1 would wrap)
        if idx < xs.length then
          match xs[idx]? with
          | some old =>
            match put old rest value prepend with
            | .ok (nv, prev) =>
              .ok (.arr (listSet xs idx (if nv.isMissing then .null else nv)), prev)
            | .error e => .error e
          | none => .error .err
        else if value.isMissing then .error .err
        else if idx - xs.length > maxArrayPadding then .error .err   -- bsonkit.MaxArrayPadding
        else
          match put .missing rest value prepend with
          | .ok (nv, _) =>
            .ok (.arr (xs ++ List.replicate (idx - xs.length) .null ++ [if nv.isMissing then .null else nv]), .missing)
          | .error e => .error e
    | .missing =>
      if value.isMissing then .error .err else
      match put .missing rest value prepend with
      | .ok (nv, _) => .ok (.doc [(key, nv)], .missing)
      | .error e => .error e
    | _ => .error .err

/-- bsonkit.Put: returns (new document, previous value). -/
def Put (d : Doc) (path : Path) (value : V) (prepend : Bool) : Res (Doc × V) :=
  if value.isMissing then .error .err else
  match put (.doc d) path value prepend with
  | .ok (.doc d', prev) => .ok (d', prev)
  | .ok (_, _) => .error (.panic "access.Put:v.(bson.D)")
  | .error e => .error e

/-- bsonkit.Unset: returns (new document, previous value or Missing). Never fails. -/
def Unset (d : Doc) (path : Path) : Doc × V :=
  match put (.doc d) path .missing false with
  | .ok (.doc d', prev) => (d', prev)
  | _ => (d, .missing)

end Lungo
