/-
  Lungo.Model.ApiFlow — the table type of the translator fact `Gen.ApiFlow` (DESIGN §4.1, property C17).

  One `Flow` row per exported driver method (Collection, IndexView, Database, Client, Cursor, SingleResult,
  Stream of /repo's root package): how every caller-owned value ENTERS the call and how every result
  component LEAVES it.  The rows are produced syntactically by go/cmd/extract/apiflow.go; the meaning of
  the kinds is given by `Lungo.Props.C17` (entry/exit through a copy allocates fresh heap nodes, `raw`
  hands over the very nodes).
-/
namespace Lungo.ApiFlow

/-- How a caller-owned value enters a driver call. -/
inductive Entry
  | ctx                    -- context.Context
  | options                -- options struct / index model / write model (carrier; BSON fields are listed separately)
  | transform              -- only ever the argument of bsonkit.Transform      (marshal + unmarshal = deep copy)
  | transformList          -- only ever the argument of bsonkit.TransformList  (deep copy)
  | scalar                 -- non-interface type, dereferenced, compared
  | out                    -- decode target (destination of bsonkit.Decode/DecodeList)
  | unused                 -- never mentioned
  | raw (expr : String)    -- anything else: the call keeps or uses the caller's value itself
  deriving DecidableEq, Repr

/-- How a result component leaves a driver call. -/
inductive Exit
  | error
  | scalar
  | decode                 -- bsonkit.Decode      (marshal + unmarshal into the caller's target)
  | decodeList             -- bsonkit.DecodeList
  | marshal                -- bson.Marshal        (fresh bytes)
  | copyValue              -- copyValue(…)        (Transform of a wrapper document)
  | cursorList             -- *Cursor over the internal list; hands out through Cursor.All/Decode only
  | singleDoc              -- *SingleResult over the internal document; hands out through Decode/DecodeBytes only
  | stream                 -- *Stream over the oplog; hands out through Decode/ResumeToken only
  | raw (expr : String)    -- a stored value itself (bsonkit.Get / Pick / Distinct / .Matched / .Modified / .Upserted)
  deriving DecidableEq, Repr

structure Flow where
  name : String
  params : List (String × Entry)
  results : List (String × Exit)
  deriving DecidableEq, Repr

end Lungo.ApiFlow
