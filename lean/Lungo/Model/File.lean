/-
  Lungo.Model.File — `File` / `FileNamespace` / `FileIndex` (file.go), their BSON form
  (struct tags, as produced/consumed by `bson.Marshal(file)` / `bson.Unmarshal(buf, &file)` in
  store.go), `BuildFile` and `File.BuildCatalog`.

  Encoding facts (checked against mongo-driver v1.17.9 by stream `reload`, op `loadfile`):
    * struct fields are written in declaration order under their tag names;
    * a nil `*bson.D` (FileIndex.Partial) is written as BSON null and read back as nil; an empty
      non-nil one as `{}` and read back non-nil;
    * nil slices/maps are written as null and read back as nil (an empty, never-used
      `Documents.List` is nil); `time.Duration` is an int64;
    * maps are written in Go's (random) iteration order; decoding a map or struct is
      insensitive to element order, unknown struct fields are ignored, absent ones stay zero,
      a repeated key overwrites the earlier one.
  Decoding of values of unexpected BSON types (the driver converts some, e.g. int32 → bool)
  is out of scope: `decodeFile` answers an error for them.

  `BuildCatalog` re-creates every index from its config (`CreateIndex`) and fills it from the
  documents (`Index.Build`); that step is a parameter `indexOk` here (it is the collection
  model's business: key validation, partial-filter matching, uniqueness) — the catalog produced
  is the same whenever it succeeds.
  Core Lean only.
-/
import Lungo.Model.Codec
import Lungo.Model.CatalogLite
namespace Lungo.Lite
open Lungo.Bson

structure FileIndex where
  key : Option Doc
  unique : Bool
  partialF : Option Doc
  expiry : Int
deriving Inhabited

structure FileNamespace where
  documents : Option (List Doc)
  indexes : Option (List (String × FileIndex))
deriving Inhabited

structure File where
  namespaces : Option (List (String × FileNamespace))
deriving Inhabited

/-! ### File → BSON -/

def optDocV : Option Doc → V
  | none => .null
  | some d => .doc d

def idxV (i : FileIndex) : V :=
  .doc [("key", optDocV i.key), ("unique", .bool i.unique), ("partial", optDocV i.partialF), ("expiry", .i64 i.expiry)]

def idxFields : List (String × FileIndex) → List (String × V)
  | [] => []
  | (n, i) :: r => (n, idxV i) :: idxFields r

def docsV : List Doc → List V
  | [] => []
  | d :: r => .doc d :: docsV r

def nsV (n : FileNamespace) : V :=
  .doc [("documents", match n.documents with
                      | none => .null
                      | some ds => .arr (docsV ds)),
        ("indexes", match n.indexes with
                    | none => .null
                    | some is => .doc (idxFields is))]

def nsFields : List (String × FileNamespace) → List (String × V)
  | [] => []
  | (n, x) :: r => (n, nsV x) :: nsFields r

def fileDoc (f : File) : Doc :=
  [("namespaces", match f.namespaces with
                  | none => .null
                  | some nss => .doc (nsFields nss))]

/-- `bson.Marshal(file)` (for one particular order of the map entries). -/
def encodeFile (f : File) : Bytes := encDoc (fileDoc f)

/-! ### BSON → File -/

/-- Struct decoding: the last element with the field's name wins; absent → `none`. -/
def lastField (k : String) : Doc → Option V
  | [] => none
  | (k', v) :: r =>
    match lastField k r with
    | some x => some x
    | none => if k' = k then some v else none

/-- Map decoding: `m[key] = value` in element order (a repeated key overwrites in place). -/
def mapPut {α : Type} (k : String) (x : α) : List (String × α) → List (String × α)
  | [] => [(k, x)]
  | (k', y) :: r => if k' = k then (k', x) :: r else (k', y) :: mapPut k x r

def vOptDoc : Option V → Except String (Option Doc)
  | none => .ok none
  | some .null => .ok none
  | some (.doc d) => .ok (some d)
  | some _ => .error "unsupported"

def vBool : Option V → Except String Bool
  | none => .ok false
  | some (.bool b) => .ok b
  | some _ => .error "unsupported"

def vInt64 : Option V → Except String Int
  | none => .ok 0
  | some (.i64 n) => .ok n
  | some (.i32 n) => .ok n
  | some _ => .error "unsupported"

def vIdx : V → Except String FileIndex
  | .doc fs =>
    match vOptDoc (lastField "key" fs), vBool (lastField "unique" fs),
          vOptDoc (lastField "partial" fs), vInt64 (lastField "expiry" fs) with
    | .ok k, .ok u, .ok p, .ok e => .ok { key := k, unique := u, partialF := p, expiry := e }
    | _, _, _, _ => .error "unsupported"
  | _ => .error "unsupported"

def vIdxMap : List (String × V) → List (String × FileIndex) → Except String (List (String × FileIndex))
  | [], acc => .ok acc
  | (n, v) :: r, acc =>
    match vIdx v with
    | .ok i => vIdxMap r (mapPut n i acc)
    | .error e => .error e

def vDocs : List V → Except String (List Doc)
  | [] => .ok []
  | .doc d :: r =>
    match vDocs r with
    | .ok ds => .ok (d :: ds)
    | .error e => .error e
  | .null :: r =>            -- a null element of a []*bson.D decodes to a nil pointer: out of scope
    match vDocs r with
    | .ok _ => .error "unsupported"
    | .error e => .error e
  | _ :: _ => .error "unsupported"

def vNs : V → Except String FileNamespace
  | .doc fs =>
    let docs : Except String (Option (List Doc)) :=
      match lastField "documents" fs with
      | none => .ok none
      | some .null => .ok none
      | some (.arr xs) => (vDocs xs).map some
      | some _ => .error "unsupported"
    let idx : Except String (Option (List (String × FileIndex))) :=
      match lastField "indexes" fs with
      | none => .ok none
      | some .null => .ok none
      | some (.doc is) => (vIdxMap is []).map some
      | some _ => .error "unsupported"
    match docs, idx with
    | .ok d, .ok i => .ok { documents := d, indexes := i }
    | _, _ => .error "unsupported"
  | _ => .error "unsupported"

def vNsMap : List (String × V) → List (String × FileNamespace) → Except String (List (String × FileNamespace))
  | [], acc => .ok acc
  | (n, v) :: r, acc =>
    match vNs v with
    | .ok x => vNsMap r (mapPut n x acc)
    | .error e => .error e

def docFile (d : Doc) : Except String File :=
  match lastField "namespaces" d with
  | none => .ok { namespaces := none }
  | some .null => .ok { namespaces := none }
  | some (.doc nss) => (vNsMap nss []).map fun m => { namespaces := some m }
  | some _ => .error "unsupported"

/-- `bson.Unmarshal(buf, &file)`. -/
def decodeFile (bs : Bytes) : Except String File :=
  match decDoc bs with
  | none => .error "malformed"
  | some d => docFile d

/-! ### BuildFile / BuildCatalog -/

def toFileIndex (i : IndexDef) : FileIndex :=
  { key := some i.key, unique := i.unique, partialF := i.partialF, expiry := i.expiry }

def toFileIndexes : List (String × IndexDef) → List (String × FileIndex)
  | [] => []
  | (n, i) :: r => (n, toFileIndex i) :: toFileIndexes r

def toFileNamespaces : Catalog → List (String × FileNamespace)
  | [] => []
  | n :: r => (handleString n.db n.coll,
      { documents := some n.docs, indexes := some (toFileIndexes n.indexes) }) :: toFileNamespaces r

/-- BuildFile. -/
def buildFile (c : Catalog) : File := { namespaces := some (toFileNamespaces c) }

/-- `strings.SplitN(name, ".", 2)` on the characters: split at the first '.'. -/
def splitDot : List Char → Option (List Char × List Char)
  | [] => none
  | c :: r =>
    if c = '.' then some ([], r) else
    match splitDot r with
    | some (a, b) => some (c :: a, b)
    | none => none

def fromFileIndexes (indexOk : IndexDef → List Doc → Bool) (docs : List Doc) :
    List (String × FileIndex) → Except String (List (String × IndexDef))
  | [] => .ok []
  | (n, i) :: r =>
    match i.key with
    | none => .error "panic: nil key"                 -- `len(*config.Key)` on a nil pointer
    | some k =>
      let d : IndexDef := { key := k, unique := i.unique, partialF := i.partialF, expiry := i.expiry }
      if indexOk d docs then
        match fromFileIndexes indexOk docs r with
        | .ok is => .ok ((n, d) :: is)
        | .error e => .error e
      else .error "index"                              -- CreateIndex / Build failed

def fromFileNamespaces (indexOk : IndexDef → List Doc → Bool) :
    List (String × FileNamespace) → Except String Catalog
  | [] => .ok []
  | (name, ns) :: r =>
    match splitDot name.toList with
    | none => .error "invalid namespace name"
    | some (a, b) =>
      let docs := ns.documents.getD []
      match fromFileIndexes indexOk docs (ns.indexes.getD []) with
      | .error e => .error e
      | .ok is =>
        match fromFileNamespaces indexOk r with
        | .error e => .error e
        | .ok c => .ok ({ db := String.ofList a, coll := String.ofList b, docs := docs, indexes := is } :: c)

/-- `NewCatalog()` starts with an empty `local.oplog`; it stays when the file has none. -/
def ensureOplog (c : Catalog) : Catalog :=
  if (Catalog.get? c ("local", "oplog")).isSome then c
  else c ++ [{ db := "local", coll := "oplog", docs := [], indexes := [] }]

/-- File.BuildCatalog. -/
def buildCatalog (indexOk : IndexDef → List Doc → Bool) (f : File) : Except String Catalog :=
  match fromFileNamespaces indexOk (f.namespaces.getD []) with
  | .ok c => .ok (ensureOplog c)
  | .error e => .error e

/-- Store, then Load. -/
def reload (indexOk : IndexDef → List Doc → Bool) (c : Catalog) : Except String Catalog :=
  match decodeFile (encodeFile (buildFile c)) with
  | .error e => .error e
  | .ok f => buildCatalog indexOk f

end Lungo.Lite
