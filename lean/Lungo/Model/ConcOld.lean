/-
  Lungo.Model.ConcOld — the step order of `Engine.Begin` BEFORE the fix "read the session before
  taking the engine lock in Begin" (/repo commit 1490243): `sess.Transaction()` (which takes s.mutex)
  was called while holding e.mutex.  Kept only to state why the fix was needed
  (`Lungo.Props.C16.old_order_shared_session_deadlock`).  Everything except Begin's session read and
  the hand-over from useTransaction is the current machine.
-/
import Lungo.Model.Conc
namespace Lungo.Conc

def stepBeginOld (s : State) (a : ActorId) (l : Local) (c : Choice) : Option State :=
  let e := s.eng
  match l.pc, c with
  | .bLock, .go =>                       -- B0: e.mutex.Lock()
    if e.mutex = none then some (s.put a { l with pc := .bCheck } { e with mutex := some a }) else none
  | .bCheck, .go =>                      -- B1..B3 (entry), B4
    if !e.alive then
      some (s.put a (l.back (.err .closed)) e.unlock)
    else if !l.lockF then
      -- unlocked snapshot transaction: NewTransaction(e.catalog); deferred unlock
      let t := e.nextTid
      some { s.put a { l.back .ok with t := some t } { e.unlock with nextTid := t + 1 } with
             txns := upd s.txns t (newTxn s l false) }
    else match l.ctxSess with
      | some _ => some (s.put a { l with pc := .bSessLock } e)          -- sess.Transaction(): wants s.mutex, holds e.mutex
      | none => some (s.put a { l with pc := .bAcquire } e.unlock)      -- e.mutex.Unlock(); Acquire
  | .bSessLock, .go =>                   -- Session.Transaction(): s.mutex.Lock() while holding e.mutex
    match l.ctxSess with
    | some sid =>
      if (s.sess sid).mutex = none then
        some ((s.put a { l with pc := .bSessRead } e).putS sid { s.sess sid with mutex := some a })
      else none
    | none => none
  | .bSessRead, .go =>                   -- return s.txn; s.mutex.Unlock()
    match l.ctxSess with
    | some sid =>
      let x := s.sess sid
      if x.txn.isSome then
        some ((s.put a (l.back (.err .nested)) e.unlock).putS sid { x with mutex := none })
      else
        some ((s.put a { l with pc := .bAcquire } e.unlock).putS sid { x with mutex := none })
    | none => none
  | .bAcquire, .tok =>                   -- B5: <-s.tokens
    if e.token = 1 then
      some (s.put a { l with pc := .bRelock, okF := true, acq := .tok } { e with token := 0, holder := some a })
    else none
  | .bAcquire, .cancel =>                -- B5: ctx done (not for the expiry actor: ctx = Background)
    if l.k ≠ .expBegin then some (s.put a { l with pc := .bRelock, okF := false, acq := .cancel } e) else none
  | .bAcquire, .timeout =>               -- B5: one minute passed
    some (s.put a { l with pc := .bRelock, okF := false, acq := .timeout } e)
  | .bAcquire, .dying =>                 -- B5: tomb dying
    if !e.alive then some (s.put a { l with pc := .bRelock, okF := false, acq := .dying } e) else none
  | .bRelock, .go =>                     -- B6: e.mutex.Lock()
    if e.mutex = none then some (s.put a { l with pc := .bPost } { e with mutex := some a }) else none
  | .bPost, .go =>                       -- B7..B10 + deferred unlock
    if !l.okF then
      let er := if !e.alive then Err.closed else if l.acq = .cancel then Err.ctx else Err.timeout
      some (s.put a (l.back (.err er)) e.unlock)
    else if !e.alive then
      some (s.put a (l.back (.err .closed)) e.release.unlock)
    else if e.txn.isSome then
      some (s.put a (l.back (.err .existing)) e.release.unlock)
    else
      let t := e.nextTid
      some { s.put a { l.back .ok with t := some t }
                    { e.unlock with txn := some t, holder := none, nextTid := t + 1, own := .actor a } with
             txns := upd s.txns t (newTxn s l true) }
  | _, _ => none


/-- useTransaction handing over to the old Begin: straight to `e.mutex.Lock()` -/
def stepUseOld (s : State) (a : ActorId) (l : Local) (c : Choice) : Option State :=
  match l.pc, c with
  | .uSessRead, .go =>
    match l.ctxSess with
    | some sid =>
      let x := s.sess sid
      match x.txn with
      | some t => some ((s.put a { l with pc := .uCbSess, t := some t } s.eng).putS sid { x with mutex := none })
      | none => some ((s.put a { l with pc := .bLock, k := .use } s.eng).putS sid { x with mutex := none })
    | none => none
  | _, _ => stepUse s a l c

/-- the transition function with the old Begin -/
def stepOld (s : State) (a : ActorId) (c : Choice) : Option State :=
  if a > s.n then none else
  let l := s.loc a
  match l.pc with
  | .bLock | .bCheck | .bSessLock | .bSessRead | .bAcquire | .bRelock | .bPost => stepBeginOld s a l c
  | .uSessLock | .uSessRead | .uCb | .uCbSess | .uCbRead => stepUseOld s a l c
  | _ => step s a c

inductive ReachableOld (n : Nat) : State → Prop
  | init : ReachableOld n (init n)
  | step {s s' : State} {a : ActorId} {c : Choice} :
      ReachableOld n s → stepOld s a c = some s' → ReachableOld n s'

def runOld (s : State) : List (ActorId × Choice) → Option State
  | [] => some s
  | (a, c) :: rest => match stepOld s a c with
    | some s' => runOld s' rest
    | none => none

theorem runOld_reachable {n : Nat} {s : State} (h : ReachableOld n s) :
    ∀ (sch : List (ActorId × Choice)) (s' : State), runOld s sch = some s' → ReachableOld n s' := by
  intro sch
  induction sch generalizing s with
  | nil => intro s' h'; simp [runOld] at h'; subst h'; exact h
  | cons x rest ih =>
    intro s' h'
    obtain ⟨a, c⟩ := x
    simp only [runOld] at h'
    split at h'
    · rename_i s1 hs1; exact ih (.step h hs1) s' h'
    · cases h'

end Lungo.Conc
