/-
  Lungo.Model.Num — exact meaning of the four BSON numeric types.

  `XR` = extended rationals with NaN lowest: nan < -inf < finite q < +inf.
  `f64Val` decodes raw IEEE-754 binary64 bits, `decVal` decodes raw Decimal128 words
  exactly as `primitive.Decimal128.BigInt` does (incl. the "11" combination form, which the
  driver reads as coefficient 0).
-/
import Lungo.Model.Value
namespace Lungo

inductive XR where
  | nan | ninf | fin (q : Rat) | pinf
deriving Repr, Inhabited

def XR.rank : XR → Nat
  | .nan => 0 | .ninf => 1 | .fin _ => 2 | .pinf => 3

def ratCmp (a b : Rat) : Ordering :=
  if a < b then .lt else if a = b then .eq else .gt

def natCmp (a b : Nat) : Ordering :=
  if a < b then .lt else if a = b then .eq else .gt

def intCmp (a b : Int) : Ordering :=
  if a < b then .lt else if a = b then .eq else .gt

def XR.cmp : XR → XR → Ordering
  | .fin a, .fin b => ratCmp a b
  | a, b => natCmp a.rank b.rank

def XR.isNaN : XR → Bool
  | .nan => true
  | _ => false

def XR.isFinite : XR → Bool
  | .fin _ => true
  | _ => false

/-- 2^e as a rational, e any integer. -/
def pow2 (e : Int) : Rat :=
  if e ≥ 0 then ((2 ^ e.toNat : Nat) : Rat) else mkRat 1 (2 ^ (-e).toNat)

/-- 10^e as a rational, e any integer. -/
def pow10 (e : Int) : Rat :=
  if e ≥ 0 then ((10 ^ e.toNat : Nat) : Rat) else mkRat 1 (10 ^ (-e).toNat)

def f64Sign (b : UInt64) : Bool := (b >>> 63) == 1
def f64Exp (b : UInt64) : Nat := ((b >>> 52) &&& 0x7ff).toNat
def f64Man (b : UInt64) : Nat := (b &&& 0xFFFFFFFFFFFFF).toNat

/-- Exact value of a binary64 bit pattern. -/
def f64Val (b : UInt64) : XR :=
  let s := f64Sign b
  let e := f64Exp b
  let m := f64Man b
  if e == 2047 then
    if m == 0 then (if s then .ninf else .pinf) else .nan
  else
    let mant : Nat := if e == 0 then m else m + 2 ^ 52
    let ex : Int := (if e == 0 then (1 : Int) else (e : Int)) - 1075
    let q : Rat := (mant : Rat) * pow2 ex
    .fin (if s then -q else q)

/-- Decoded Decimal128 as the driver's `BigInt()` sees it. -/
inductive DecParts where
  | nan | pinf | ninf
  | fin (neg : Bool) (coeff : Nat) (exp : Int)
deriving Repr, Inhabited

def decParts (hi lo : UInt64) : DecParts :=
  let pos := ((hi >>> 63) &&& 1) == 0
  let comb := (hi >>> 58) &&& 31
  if comb == 0x1F then .nan
  else if comb == 0x1E then (if pos then .pinf else .ninf)
  else if ((hi >>> 61) &&& 3) == 3 then
    .fin (!pos) 0 (((hi >>> 47) &&& 16383).toNat - 6176)
  else
    let e : Int := ((hi >>> 49) &&& 16383).toNat - 6176
    let h := (hi &&& 0x1FFFFFFFFFFFF).toNat
    .fin (!pos) (h * 2 ^ 64 + lo.toNat) e

def decVal (hi lo : UInt64) : XR :=
  match decParts hi lo with
  | .nan => .nan
  | .pinf => .pinf
  | .ninf => .ninf
  | .fin neg c e =>
    let q : Rat := (c : Rat) * pow10 e
    .fin (if neg then -q else q)

/-- Exact mathematical value of a numeric `V` (non-numbers map to NaN; never used on them). -/
def V.numVal : V → XR
  | .i32 n => .fin (n : Rat)
  | .i64 n => .fin (n : Rat)
  | .f64 b => f64Val b
  | .dec h l => decVal h l
  | _ => .nan

/-- Truncation toward zero (Go's `int64(f)` for in-range `f`, `math.Trunc`). -/
def ratTrunc (q : Rat) : Int :=
  if q.num ≥ 0 then q.num / q.den else -((-q.num) / q.den)

/-- Largest integer ≤ q. -/
def ratFloor (q : Rat) : Int := q.num / q.den   -- Int./ is floor division for positive divisor (Int.div rounds toward -inf in Lean's `/`)

def two53 : Int := 9007199254740992
def two63 : Int := 9223372036854775808

end Lungo
