/-
  Lungo.Tests.IndexFixtures — concrete small collections used by the `#guard` TESTS of
  Props/C15.lean and Props/C07.lean (evaluated by the compiler, not the kernel: strings do not
  reduce in the kernel). These are tests / non-vacuity witnesses, not theorems.
-/
import Lungo.Model.Api
namespace Lungo.IndexFixtures
open Lungo

def tSch : SchemaEval := schemaUnmodelled
def nu0 : Nu := ⟨0, []⟩

/-- unique index on `a` -/
def cfgA : IndexConfig := { key := [("a", .i32 1)], unique := true }
/-- unique partial index on `b` for documents with `b > 0` -/
def cfgB : IndexConfig :=
  { key := [("b", .i32 1)], unique := true, partialF := some [("b", .doc [("$gt", .i32 0)])] }
/-- unique compound index on `(a, b)` -/
def cfgAB : IndexConfig := { key := [("a", .i32 1), ("b", .i32 (-1))], unique := true }

def okAnd {α} (r : Res α) (p : α → Bool) : Bool := match r with
  | .ok a => p a
  | .error _ => false
def isDup {α} : Res α → Bool
  | .error .dup => true
  | _ => false
def isErr {α} : Res α → Bool
  | .error .err => true
  | _ => false
def entriesOf (c : Coll) (n : String) : Nat := match c.indexes.lookup n with
  | some i => i.entries.length
  | none => 0
def names (c : Coll) : List String := c.indexes.map (·.1)
def fieldOf (c : Coll) (f : String) : List (Nat × V) := c.docs.map fun sd => (sd.id, Get sd.doc f)

/-- two documents, the second multikey; then a unique index on `a` is built over them -/
def demo : Res (Coll × Nu) := do
  let c := newColl true
  let (c, _, nu) ← c.insert tSch [("_id", .i32 1), ("a", .i32 1)] nu0
  let (c, _, nu) ← c.insert tSch [("_id", .i32 2), ("a", .arr [.i32 2, .i32 3])] nu
  let (c, _) ← c.createIndex tSch "" cfgA
  pure (c, nu)

/-- unique index on `a` first, then `a = 1` and `a = -1` -/
def demoSwap : Res (Coll × Nu) := do
  let c := newColl true
  let (c, _) ← c.createIndex tSch "" cfgA
  let (c, _, nu) ← c.insert tSch [("_id", .i32 1), ("a", .i32 1)] nu0
  let (c, _, nu) ← c.insert tSch [("_id", .i32 2), ("a", .i32 (-1))] nu
  pure (c, nu)

/-- `demoSwap` plus the partial unique index on `b` -/
def demoPartial : Res (Coll × Nu) := do
  let (c, nu) ← demoSwap
  let (c, _) ← c.createIndex tSch "" cfgB
  pure (c, nu)

def insertInto (base : Res (Coll × Nu)) (d : Doc) : Res (Coll × Nu) := do
  let (c, nu) ← base
  let (c, _, nu) ← c.insert tSch d nu
  pure (c, nu)

def updateIn (base : Res (Coll × Nu)) (q u : Doc) : Res (Coll × Nu) := do
  let (c, nu) ← base
  let (r, nu) ← c.update (acOf tSch) q u none 0 0 [] nu
  pure (r.coll, nu)

def replaceIn (base : Res (Coll × Nu)) (q repl : Doc) : Res (Coll × Nu) := do
  let (c, nu) ← base
  let (r, nu) ← c.replace tSch q repl none nu
  pure (r.coll, nu)

def deleteIn (base : Res (Coll × Nu)) (q : Doc) : Res (Coll × Nu) := do
  let (c, nu) ← base
  let (c, _) ← c.delete tSch q none 0 0
  pure (c, nu)

def createIn (base : Res (Coll × Nu)) (name : String) (cfg : IndexConfig) : Res (Coll × Nu) := do
  let (c, nu) ← base
  let (c, _) ← c.createIndex tSch name cfg
  pure (c, nu)

def dropIn (base : Res (Coll × Nu)) (name : String) : Res (Coll × Nu) := do
  let (c, nu) ← base
  let (c, _) ← c.dropIndex name
  pure (c, nu)

/-- the double 3.0 -/
def f3 : V := .f64 0x4008000000000000

def h : Handle := ⟨"db", "c"⟩

/-- a short history through the driver-level model -/
def history : List (Call × List V) :=
  [(.insertOne h [("_id", .i32 1), ("a", .i32 1)], []),
   (.createIndex h "" cfgA, []),
   (.insertOne h [("_id", .i32 2), ("a", .i64 1)], []),          -- rejected (dup on a)
   (.insertOne h [("_id", .i32 2), ("a", .arr [.i32 2, .i32 3])], []),
   (.updateMany h [] [("$set", .doc [("b", .i32 1)])] false [], []),
   (.dropAllIndexes h, []),
   (.deleteOne h [("_id", .i32 1)], [])]

end Lungo.IndexFixtures
