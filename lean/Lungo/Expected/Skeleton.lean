/-
# Lungo.Expected.Skeleton — synchronisation skeletons as DATA

The synchronisation skeleton of the Go functions that make up lungo's concurrency
protocol (engine / session / stream / semaphore), read off the source by hand:

    /repo/engine.go          Engine.Catalog Begin Commit Abort Watch Close expire
    /repo/session.go         Session.startTransaction CommitTransaction AbortTransaction
                             EndSession Transaction WithTransaction
    /repo/utils.go           useTransaction
    /repo/stream.go          Stream.next Stream.Close
    /repo/dbkit/semaphore.go Semaphore.Acquire Semaphore.Release

A Go extractor (go/ast, *no type information needed*) emits `Gen.skeleton` in the SAME
datatype; the fact `Gen.skeleton = Expected.skeleton` (checked by `decide`) ties the
transition systems of the model (DESIGN Appendix B) to the code.  The CODE is the
reference; Appendix B is prose.  Core Lean only.
The rules below were validated with a throw-away go/ast prototype (~400 lines) that follows
them literally: its output was `decide`-equal to `Expected.skeleton` on the pinned tree.

## 0. Shape

    skeleton : List (String × Sk)       key = "<RecvType>.<Name>"  (receiver type without `*`)
                                        or  "<Name>" for plain functions (useTransaction)
    FuncDecl                            ↦ (key, .func (T body.List))
    []ast.Stmt                          ↦ List Sk          (T below; order preserved)
    one kept ast.Stmt                   ↦ exactly ONE Sk   (one constructor application)
    dropped ast.Stmt                    ↦ nothing

`Sk` has few constructors (the ones that contain statement lists) plus `.atom a` where
`Atom` is a flat enum of leaf statements.  `Sk.lock m` etc. are `@[match_pattern]`
abbreviations for `.atom (.lock m)`; the extractor may emit either spelling.
The two closures that `Engine.Watch` stores into the stream (`stream.oplog`, `stream.cancel`)
are rendered as NESTED `.closure "<lhs path>" body` nodes at the position of the assignment
(not as separate entries).

## 1. Text normalisation

`strip(e)`     remove any number of outer `*ast.ParenExpr`.
`path(e)`      (may be undefined)  Ident x ↦ "x";  SelectorExpr{X,Sel} ↦ path(X) ++ "." ++ Sel;
               IndexExpr{X,_} ↦ path(X) ++ "[_]"   (the index is ERASED, ASCII underscore);
               CallExpr{Fun,_} ↦ path(Fun) ++ "()"  (arguments erased);
               StarExpr{X} / ParenExpr{X} ↦ path(X);  anything else: undefined.
`pure(e)`      path(e) is defined and uses only Ident / SelectorExpr / StarExpr / ParenExpr
               (no index, no call).
`last(p)`      the final dot-separated component of a path string.
`text(e)`      `go/types.ExprString(strip(e))`  (binary operators always get one space on
               each side: `len(oplog.List) > index + 1`; string literals keep their quotes).
`name(e)`      path(e) if defined, else text(e).
Receiver and variable names are taken VERBATIM from the source (no renaming by type):
the engine receiver is `e`, session and stream receivers are both `s`, `Engine.Close` uses
the loop variable `stream`, `useTransaction` the parameter `engine`, `Begin` the local `sess`.

## 2. Tables (also as Lean `def`s below: the Go side should read those)

`trackedCallees` are FINAL names: a CallExpr `f(..)` is a *tracked call* iff `f` is an Ident
whose name is in the table, or a SelectorExpr whose `Sel.Name` is in the table.  It is
rendered as `path(f)` WITHOUT the "()" (e.g. "e.store.Store", "sess.Transaction", "fn").
`trackedFields`, `trackedChannels`, `trackedClosures` are compared against `path(e)`.

## 3. Classification of a call  (`callKind`, first match wins)

For `c = CallExpr{Fun: f, Args}`:
 1. f = Sel{X, "Lock"|"RLock"}     and last(path X) = "mutex"  ↦ lock (path X)
 2. f = Sel{X, "Unlock"|"RUnlock"} and last(path X) = "mutex"  ↦ unlock (path X)
 3. f = Sel{X, "Acquire"} and last(path X) = "token"           ↦ acquire
 4. f = Sel{X, "Release"} and last(path X) = "token"           ↦ release
 5. f = Sel{X, "Kill"}    and last(path X) = "tomb"            ↦ kill
 6. f = Sel{X, "Wait"}    and last(path X) = "tomb"            ↦ wait
 7. f = Ident "panic"                                          ↦ panic
 8. f = Ident "close"  and path(Args[0]) ∈ trackedChannels     ↦ close (path Args[0])
 9. f = Ident "delete" and path(Args[0]) ++ "[_]" ∈ trackedFields ↦ delete (path Args[0] ++ "[_]")
10. c is a tracked call                                        ↦ call (path f)
11. otherwise                                                  ↦ none

## 4. Simple statements  (first match wins; "dropped" = emit nothing)

 * ExprStmt{CallExpr c}                       ↦ callKind c (dropped if none)
 * ExprStmt{UnaryExpr{<-, ch}}, path ch ∈ trackedChannels            ↦ recv (path ch)
 * SendStmt{Chan: ch}, path ch ∈ trackedChannels                     ↦ send (path ch)
 * AssignStmt (`=` or `:=`) with Lhs, Rhs:
    a. |Lhs| = |Rhs| = 1, path(Lhs[0]) ∈ trackedClosures, Rhs[0] is a FuncLit
                                    ↦ .closure (path Lhs[0]) (T funcLit.Body.List)
    b. |Lhs| = |Rhs| = 1, path(Lhs[0]) ∈ trackedFields   ↦ set (path Lhs[0]) (rhs Rhs[0])
    c. |Rhs| = 1, Rhs[0] a CallExpr with callKind ≠ none ↦ that atom (the Lhs is ignored:
         `ok = e.token.Acquire(..)` ↦ acquire, `_ = e.tomb.Wait()` ↦ wait,
         `txn, err := e.Begin(nil, true)` ↦ call "e.Begin")
    d. |Rhs| = 1, Rhs[0] = UnaryExpr{<-, ch}, path ch ∈ trackedChannels ↦ recv (path ch)
    e. |Lhs| = |Rhs| = 1, Lhs[0] an Ident v, path(Rhs[0]) ∈ trackedFields ∪ trackedChannels
                                    ↦ read v (path Rhs[0])      (`txn := s.txn`, `signal := s.signal`)
    f. otherwise dropped.  (A multi-assignment with a tracked field on the left is
       UNSUPPORTED: the extractor must fail loudly.)
 * DeferStmt{Call c}:
    - c.Fun is a FuncLit                      ↦ .deferBlock (T body)   (dropped if T body = [])
    - callKind c = unlock m ↦ deferUnlock m;  release ↦ deferRelease;  call x ↦ deferCall x;
      none ↦ dropped (`defer ticker.Stop()`, `defer t.Stop()`); any other kind: UNSUPPORTED.
   Deferred actions are recorded where they are REGISTERED; they are not replayed at
   `return`s (the consumer applies LIFO order itself).
 * ReturnStmt ↦ ret kind calls  (§7).  A `return` inside nested blocks is rendered in place;
   nothing is hoisted or pruned after it.
 * BranchStmt break ↦ brk, continue ↦ cont (labels dropped; goto/fallthrough UNSUPPORTED).
 * DeclStmt, IncDecStmt, EmptyStmt, every other ExprStmt/AssignStmt: dropped.
   GoStmt, SwitchStmt, TypeSwitchStmt: UNSUPPORTED inside the configured functions
   (none occurs today).  LabeledStmt ↦ T of the inner statement.  BlockStmt ↦ its
   statements spliced into the surrounding list.
 * FuncLits other than the two cases above (tracked closure, `defer func(){..}()`) are
   NOT descended into.

rhs kinds (`rhs e`, e stripped, first match): Ident nil ↦ nil; Ident true ↦ tt; false ↦ ff;
Ident with prefix "Err" ↦ named x; other Ident ↦ var x; CallExpr{Fun f} with Fun Ident
`make`/`new` ↦ fresh; other CallExpr ↦ call (name f)  [tracked or not: "bsonkit.Get",
"ctx.Err", "NewTransaction", "txn.Catalog"; a `.Clone()` shows up as call "x.Clone"];
CompositeLit, `&`CompositeLit, FuncLit ↦ fresh; pure(e) ↦ field (path e); else other (text e).

## 5. Compound statements

 * IfStmt{Init, Cond, Body, Else}: first emit T[Init] (a simple statement, §4) into the
   CURRENT list if it is kept (`if err := ctx.Err(); err != nil {..}` ↦
   `call "ctx.Err"` followed by the `ite`).  Then t := T Body, e := T Else (Else = nil ↦ [],
   `else if` ↦ the list T [that IfStmt], so its Init lands inside `els`).
   Emit `.ite (cond Cond) t e` iff t ++ e ≠ []; otherwise nothing.
 * ForStmt / RangeStmt: b := T Body.  kind: no Cond/Init/Post ↦ forever; RangeStmt{X} ↦
   range (name X); otherwise cond (cond Cond) (Init/Post dropped).
   Emit `.loop kind b` iff `liveList b` (§ `Sk.live`: b contains, transitively, some node
   other than brk/cont and ite/loop wrappers of those) or it is a RangeStmt with
   path X ∈ trackedFields (then b may be []: `for stream := range e.streams {append}` in Close).
   Consequence: `brk`/`cont` are always emitted by T, but survive only inside kept loops;
   `if x { break }` inside a loop that has nothing else disappears together with the loop
   (the three search loops of Engine.Watch).
 * SelectStmt: ALWAYS kept.  Each CommClause ↦ `.arm op (T clause.Body)`, in source order:
       Comm = nil                              ↦ dflt
       ExprStmt{<-ch}  or  `v := <-ch`/`v = <-ch`   ↦ recv (name ch)
       `v, ok := <-ch` / `v, ok = <-ch`        ↦ recvOk (name ch)
       SendStmt{ch <- _}                       ↦ send (name ch)
   `ctx.Done()`, `e.tomb.Dying()`, timers are ordinary recv arms, recognisable by the
   channel text ("ctx.Done()", "e.tomb.Dying()", "ticker.C", "deadline").
   Exception (the only one): a select with exactly two clauses, one `send ch` and one
   default, whose two translated bodies are BOTH empty ↦ the atom `trysend (name ch)`.
   (Semaphore.Release has a `panic` in the default arm, so it stays a `.select`.)

## 6. Conditions (`cond e`, e stripped; ordered, first match wins)

 1. `!x` ↦ not (cond x);  `a && b` ↦ and (cond a) (cond b);  `a || b` ↦ or (cond a) (cond b)
    (Go's left-associative parse: `a && b && c` ↦ and (and a b) c).
 2. CallExpr{Sel{X,"Alive"}} with last(path X) = "tomb" ↦ alive;
    CallExpr with final name "Dirty" ↦ dirty;  other tracked call ↦ call (path f).
 3. `x != nil` / `x == nil`: x = Ident "err" ↦ errNotNil / errNil;  pure(x) ↦ notNil / isNil (path x).
 4. `x == y` / `x != y` with pure(x) and pure(y) ↦ eq / ne (path x) (path y).
 5. `len(x) > 0` with pure(x) ↦ lenPos (path x).
 6. pure(e) (Ident or selector used as a boolean), not the Idents true/false ↦ flag (path e).
 7. otherwise other (text e).      Error strings never occur in conditions.

## 7. Return kinds (`ret kind calls`)

R := result list of the innermost enclosing FuncDecl/FuncLit; rs := the ReturnStmt results.
 1. rs = []                                 ↦ void
 2. |rs| = 1 and R has more than one result ↦ forward      (`return fn(txn)`)
 3. R's last type is the Ident `error`; x := strip(last rs):
      Ident nil ↦ ok;  Ident with prefix "Err" ↦ named x;
      CallExpr to `fmt.Errorf` or `errors.New` ↦ fmtErr (the string is NOT recorded);
      anything else ↦ err
 4. otherwise x := strip(last rs): Ident true ↦ tt; Ident false ↦ ff;
      path(x) defined ↦ path (path x); else value.
calls := [ path f | r ← rs, strip r = CallExpr{Fun f} a tracked call ]  (top level only).
-/

namespace Lungo.Expected

/-! ## Tables -/

/-- FINAL names of tracked callees (Ident name or `Sel.Name`). -/
def trackedCallees : List String :=
  [ "Store", "Clean", "NewTransaction", "Begin", "Commit", "Abort", "Transaction",
    "cancel", "oplog", "fn", "Expire", "reporter", "Dirty", "Err",
    "startTransaction", "CommitTransaction", "AbortTransaction" ]

/-- Tracked fields, as `path` strings (index erased to `[_]`). `e.streams` itself is listed so
that `for … range e.streams` is always kept. -/
def trackedFields : List String :=
  [ "e.txn", "e.catalog", "e.streams", "e.streams[_]",
    "s.txn", "s.starting", "s.ended",
    "s.closed", "s.dropped", "s.last", "s.error", "s.event", "s.token",
    "stream.closed" ]

/-- Tracked channels for stand-alone send / recv / close / read (select arms are always kept). -/
def trackedChannels : List String :=
  [ "s.signal", "stream.signal", "signal", "s.tokens" ]

/-- Left-hand sides whose FuncLit right-hand side is rendered as a nested `.closure`. -/
def trackedClosures : List String := [ "stream.oplog", "stream.cancel" ]

/-- `last(path X)` recognised for Lock/Unlock, Acquire/Release, Alive/Kill/Wait. -/
def mutexName : String := "mutex"
def tokenName : String := "token"
def tombName  : String := "tomb"

/-- Functions the extractor is configured with: (file, key). -/
def functions : List (String × String) :=
  [ ("engine.go", "Engine.Catalog"), ("engine.go", "Engine.Begin"), ("engine.go", "Engine.Commit"),
    ("engine.go", "Engine.Abort"), ("engine.go", "Engine.Watch"), ("engine.go", "Engine.Close"),
    ("engine.go", "Engine.expire"),
    ("session.go", "Session.startTransaction"), ("session.go", "Session.CommitTransaction"),
    ("session.go", "Session.AbortTransaction"), ("session.go", "Session.EndSession"),
    ("session.go", "Session.Transaction"), ("session.go", "Session.WithTransaction"),
    ("utils.go", "useTransaction"),
    ("stream.go", "Stream.next"), ("stream.go", "Stream.Close"),
    ("dbkit/semaphore.go", "Semaphore.Acquire"), ("dbkit/semaphore.go", "Semaphore.Release") ]

/-! ## Datatypes -/

/-- Condition kinds (§6). -/
inductive Cond where
  | alive                         -- `<..>.tomb.Alive()`
  | dirty                         -- `<..>.Dirty()`
  | errNotNil                     -- `err != nil`
  | errNil                        -- `err == nil`
  | isNil  (p : String)           -- `p == nil`
  | notNil (p : String)           -- `p != nil`
  | eq (a b : String)             -- `a == b`, both pure paths
  | ne (a b : String)             -- `a != b`
  | lenPos (p : String)           -- `len(p) > 0`
  | flag (p : String)             -- a pure path used as a boolean
  | call (callee : String)        -- a tracked call used as a boolean
  | not (c : Cond)
  | and (a b : Cond)
  | or  (a b : Cond)
  | other (text : String)         -- go/types.ExprString
  deriving DecidableEq, BEq, Repr

/-- Right-hand-side kinds of `set` (§4). -/
inductive Rhs where
  | nil | tt | ff
  | named (name : String)         -- Ident with prefix "Err"
  | var   (name : String)         -- any other Ident (parameter or local)
  | field (p : String)            -- pure path that is not an Ident
  | call  (callee : String)       -- any call (callee = name f)
  | fresh                         -- composite literal, &composite, make/new, func literal
  | other (text : String)
  deriving DecidableEq, BEq, Repr

/-- Return kinds (§7). -/
inductive Ret where
  | void                          -- `return`
  | ok                            -- error position is `nil`
  | err                           -- error position is a variable / other expression
  | named (name : String)         -- error position is `ErrXxx`
  | fmtErr                        -- error position is fmt.Errorf / errors.New (string dropped)
  | forward                       -- `return f(..)` in a multi-result function
  | tt | ff                       -- non-error function: literal booleans
  | path (p : String)             -- non-error function: a path
  | value                         -- non-error function: anything else
  deriving DecidableEq, BEq, Repr

/-- Communication of a select arm (§5). -/
inductive ChanOp where
  | recv   (ch : String)
  | recvOk (ch : String)
  | send   (ch : String)
  | dflt
  deriving DecidableEq, BEq, Repr

/-- Loop kinds (§5). -/
inductive LoopKind where
  | forever
  | range (over : String)
  | cond (c : Cond)
  deriving DecidableEq, BEq, Repr

/-- Leaf statements. -/
inductive Atom where
  | lock (m : String) | unlock (m : String) | deferUnlock (m : String)
  | acquire | release | deferRelease
  | kill | wait
  | set (field : String) (rhs : Rhs)
  | delete (field : String)
  | read (var field : String)
  | call (callee : String)
  | deferCall (callee : String)
  | send (ch : String) | recv (ch : String) | close (ch : String) | trysend (ch : String)
  | brk | cont
  | ret (kind : Ret) (calls : List String)
  | panic
  deriving DecidableEq, BEq, Repr

/-- The skeleton tree. `select` contains only `arm` nodes; `func` occurs only at top level. -/
inductive Sk where
  | atom (a : Atom)
  | ite (c : Cond) (thn els : List Sk)
  | loop (k : LoopKind) (body : List Sk)
  | select (arms : List Sk)
  | arm (op : ChanOp) (body : List Sk)
  | deferBlock (body : List Sk)
  | closure (name : String) (body : List Sk)
  | func (body : List Sk)
  deriving Repr

namespace Sk
@[match_pattern] abbrev lock (m : String) : Sk := .atom (.lock m)
@[match_pattern] abbrev unlock (m : String) : Sk := .atom (.unlock m)
@[match_pattern] abbrev deferUnlock (m : String) : Sk := .atom (.deferUnlock m)
@[match_pattern] abbrev acquire : Sk := .atom .acquire
@[match_pattern] abbrev release : Sk := .atom .release
@[match_pattern] abbrev deferRelease : Sk := .atom .deferRelease
@[match_pattern] abbrev kill : Sk := .atom .kill
@[match_pattern] abbrev wait : Sk := .atom .wait
@[match_pattern] abbrev set (f : String) (r : Rhs) : Sk := .atom (.set f r)
@[match_pattern] abbrev delete (f : String) : Sk := .atom (.delete f)
@[match_pattern] abbrev read (v f : String) : Sk := .atom (.read v f)
@[match_pattern] abbrev call (c : String) : Sk := .atom (.call c)
@[match_pattern] abbrev deferCall (c : String) : Sk := .atom (.deferCall c)
@[match_pattern] abbrev send (ch : String) : Sk := .atom (.send ch)
@[match_pattern] abbrev recv (ch : String) : Sk := .atom (.recv ch)
@[match_pattern] abbrev close (ch : String) : Sk := .atom (.close ch)
@[match_pattern] abbrev trysend (ch : String) : Sk := .atom (.trysend ch)
@[match_pattern] abbrev brk : Sk := .atom .brk
@[match_pattern] abbrev cont : Sk := .atom .cont
/-- `return` with no tracked call among its results. -/
@[match_pattern] abbrev ret (k : Ret) : Sk := .atom (.ret k [])
/-- `return` whose results contain tracked calls. -/
@[match_pattern] abbrev retc (k : Ret) (calls : List String) : Sk := .atom (.ret k calls)
@[match_pattern] abbrev panic : Sk := .atom .panic
/-- `if c { t }` without else. -/
@[match_pattern] abbrev when (c : Cond) (t : List Sk) : Sk := .ite c t []
end Sk

/-! ## Equality: structural `beq` by mutual recursion, lawful, hence `DecidableEq` -/

mutual
def Sk.beq : Sk → Sk → Bool
  | .atom a, .atom b => decide (a = b)
  | .ite c t e, .ite c' t' e' => decide (c = c') && Sk.beqList t t' && Sk.beqList e e'
  | .loop k b, .loop k' b' => decide (k = k') && Sk.beqList b b'
  | .select a, .select a' => Sk.beqList a a'
  | .arm o b, .arm o' b' => decide (o = o') && Sk.beqList b b'
  | .deferBlock b, .deferBlock b' => Sk.beqList b b'
  | .closure n b, .closure n' b' => decide (n = n') && Sk.beqList b b'
  | .func b, .func b' => Sk.beqList b b'
  | _, _ => false
def Sk.beqList : List Sk → List Sk → Bool
  | [], [] => true
  | a :: as, b :: bs => Sk.beq a b && Sk.beqList as bs
  | _, _ => false
end

instance : BEq Sk := ⟨Sk.beq⟩

mutual
theorem Sk.beq_refl : ∀ a : Sk, Sk.beq a a = true
  | .atom a => by simp [Sk.beq]
  | .ite c t e => by simp [Sk.beq, Sk.beqList_refl t, Sk.beqList_refl e]
  | .loop k b => by simp [Sk.beq, Sk.beqList_refl b]
  | .select a => by simp [Sk.beq, Sk.beqList_refl a]
  | .arm o b => by simp [Sk.beq, Sk.beqList_refl b]
  | .deferBlock b => by simp [Sk.beq, Sk.beqList_refl b]
  | .closure n b => by simp [Sk.beq, Sk.beqList_refl b]
  | .func b => by simp [Sk.beq, Sk.beqList_refl b]
theorem Sk.beqList_refl : ∀ l : List Sk, Sk.beqList l l = true
  | [] => by simp [Sk.beqList]
  | a :: as => by simp [Sk.beqList, Sk.beq_refl a, Sk.beqList_refl as]
end

mutual
theorem Sk.eq_of_beq : ∀ a b : Sk, Sk.beq a b = true → a = b
  | .atom a, b, h => by
      cases b <;> simp [Sk.beq] at h ⊢; exact h
  | .ite c t e, b, h => by
      cases b <;> simp [Sk.beq] at h ⊢
      exact ⟨h.1.1, Sk.eq_of_beqList _ _ h.1.2, Sk.eq_of_beqList _ _ h.2⟩
  | .loop k b₁, b, h => by
      cases b <;> simp [Sk.beq] at h ⊢
      exact ⟨h.1, Sk.eq_of_beqList _ _ h.2⟩
  | .select a, b, h => by
      cases b <;> simp [Sk.beq] at h ⊢
      exact Sk.eq_of_beqList _ _ h
  | .arm o b₁, b, h => by
      cases b <;> simp [Sk.beq] at h ⊢
      exact ⟨h.1, Sk.eq_of_beqList _ _ h.2⟩
  | .deferBlock b₁, b, h => by
      cases b <;> simp [Sk.beq] at h ⊢
      exact Sk.eq_of_beqList _ _ h
  | .closure n b₁, b, h => by
      cases b <;> simp [Sk.beq] at h ⊢
      exact ⟨h.1, Sk.eq_of_beqList _ _ h.2⟩
  | .func b₁, b, h => by
      cases b <;> simp [Sk.beq] at h ⊢
      exact Sk.eq_of_beqList _ _ h
theorem Sk.eq_of_beqList : ∀ l l' : List Sk, Sk.beqList l l' = true → l = l'
  | [], [], _ => rfl
  | [], _ :: _, h => by simp [Sk.beqList] at h
  | _ :: _, [], h => by simp [Sk.beqList] at h
  | a :: as, b :: bs, h => by
      simp [Sk.beqList] at h
      rw [Sk.eq_of_beq a b h.1, Sk.eq_of_beqList as bs h.2]
end

theorem Sk.beq_iff (a b : Sk) : Sk.beq a b = true ↔ a = b :=
  ⟨Sk.eq_of_beq a b, fun h => h ▸ Sk.beq_refl a⟩

instance : LawfulBEq Sk where
  eq_of_beq {a b} h := Sk.eq_of_beq a b h
  rfl {a} := Sk.beq_refl a

instance : DecidableEq Sk := fun a b => decidable_of_iff _ (Sk.beq_iff a b)

/-- The checker: `skEq Gen.skeleton Expected.skeleton = true` is provable by `decide`/`rfl`. -/
def skEq (a b : List (String × Sk)) : Bool := a == b

theorem skEq_iff (a b : List (String × Sk)) : skEq a b = true ↔ a = b := by
  simp [skEq]

/-! ## Liveness (the keep-rule for loops, §5) — reference definition for the extractor -/

mutual
/-- A node that justifies keeping an enclosing loop: anything except `brk`/`cont` and
`ite`/`loop` wrappers around only those. -/
def Sk.live : Sk → Bool
  | .atom .brk => false
  | .atom .cont => false
  | .atom _ => true
  | .ite _ t e => Sk.liveList t || Sk.liveList e
  | .loop (.range x) b => trackedFields.contains x || Sk.liveList b
  | .loop _ b => Sk.liveList b
  | .select _ => true
  | .arm _ _ => true
  | .deferBlock _ => true
  | .closure _ _ => true
  | .func _ => true
def Sk.liveList : List Sk → Bool
  | [] => false
  | a :: as => Sk.live a || Sk.liveList as
end

mutual
/-- Well-formedness w.r.t. the keep-rules: no empty `ite`, no dead loop, no empty deferBlock,
`select` holds only arms, arms occur only in selects, `func` only at top level. -/
def Sk.wf : Sk → Bool
  | .atom _ => true
  | .ite _ t e => (!t.isEmpty || !e.isEmpty) && Sk.wfList t && Sk.wfList e
  | .loop (.range x) b => (trackedFields.contains x || Sk.liveList b) && Sk.wfList b
  | .loop _ b => Sk.liveList b && Sk.wfList b
  | .select arms => Sk.wfArms arms
  | .arm _ _ => false
  | .deferBlock b => !b.isEmpty && Sk.wfList b
  | .closure _ b => Sk.wfList b
  | .func _ => false
def Sk.wfList : List Sk → Bool
  | [] => true
  | a :: as => Sk.wf a && Sk.wfList as
def Sk.wfArms : List Sk → Bool
  | [] => true
  | .arm _ b :: as => Sk.wfList b && Sk.wfArms as
  | _ :: _ => false
end

def wfEntry : String × Sk → Bool
  | (_, .func b) => Sk.wfList b
  | _ => false

/-! ## The skeletons -/

open Sk in
/-- engine.go `func (e *Engine) Catalog() *Catalog` -/
def catalog : Sk := .func
  [ lock "e.mutex", deferUnlock "e.mutex",
    ret (.path "e.catalog") ]

open Sk in
/-- engine.go `func (e *Engine) Begin(ctx, lock bool) (*Transaction, error)` -/
def begin_ : Sk := .func
  [ -- nested-transaction check BEFORE the engine lock (fix 1490243): reading the session takes
    -- s.mutex, which the session methods hold while they call into the engine
    when (.flag "lock")
      [ -- `ctx = ensureContext(ctx)`, `sess, ok := ctx.Value(..).(*Session)` dropped
        when (.flag "ok")
          [ call "sess.Transaction",                   -- takes s.mutex; e.mutex NOT held
            when (.notNil "txn") [ ret .fmtErr ] ] ],
    lock "e.mutex", deferUnlock "e.mutex",             -- (`verifAt(..)` / `defer verifAt(..)` ignored)
    when (.not .alive) [ ret (.named "ErrEngineClosed") ],
    when (.not (.flag "lock")) [ retc .ok ["NewTransaction"] ],
    unlock "e.mutex",
    acquire,                                           -- ok = e.token.Acquire(tombctx.Done(), 1min)
    lock "e.mutex",
    when (.not (.flag "ok"))
      [ when (.not .alive) [ ret (.named "ErrEngineClosed") ],
        call "ctx.Err",
        when .errNotNil [ ret .err ],
        ret .fmtErr ],
    when (.not .alive) [ release, ret (.named "ErrEngineClosed") ],
    when (.notNil "e.txn") [ release, ret .fmtErr ],
    set "e.txn" (.call "NewTransaction"),
    ret .ok ]

open Sk in
/-- engine.go `func (e *Engine) Commit(txn *Transaction) error` -/
def commit : Sk := .func
  [ lock "e.mutex", deferUnlock "e.mutex",
    when (.not .alive) [ ret (.named "ErrEngineClosed") ],
    when (.isNil "e.txn") [ ret .fmtErr ],
    when (.ne "e.txn" "txn") [ ret .fmtErr ],
    deferRelease,
    set "e.txn" .nil,
    when (.not .dirty) [ ret .ok ],
    call "txn.Clean",
    call "e.store.Store",
    when .errNotNil [ ret .err ],
    set "e.catalog" (.call "txn.Catalog"),
    .loop (.range "e.streams") [ trysend "stream.signal" ],
    ret .ok ]

open Sk in
/-- engine.go `func (e *Engine) Abort(txn *Transaction)` -/
def abort : Sk := .func
  [ lock "e.mutex", deferUnlock "e.mutex",
    when (.not .alive) [ ret .void ],
    when (.ne "e.txn" "txn") [ ret .void ],
    set "e.txn" .nil,
    release ]

open Sk in
/-- engine.go `func (e *Engine) Watch(handle, pipeline, resumeAfter, startAfter, startAt) (*Stream, error)`.
The three search loops and the `startAt` block contain no kept statement and vanish. -/
def watch : Sk := .func
  [ lock "e.mutex", deferUnlock "e.mutex",
    when (.not .alive) [ ret (.named "ErrEngineClosed") ],
    when (.notNil "resumeAfter") [ when (.not (.flag "resumed")) [ ret .fmtErr ] ],
    when (.notNil "startAfter") [ when (.not (.flag "resumed")) [ ret .fmtErr ] ],
    .closure "stream.oplog"
      [ lock "e.mutex", deferUnlock "e.mutex",
        ret (.path "e.catalog.Namespaces[_].Documents") ],
    .closure "stream.cancel"
      [ lock "e.mutex", deferUnlock "e.mutex",
        delete "e.streams[_]" ],
    set "e.streams[_]" .fresh,
    ret .ok ]

open Sk in
/-- engine.go `func (e *Engine) Close()` — no defers; explicit unlocks. -/
def close_ : Sk := .func
  [ lock "e.mutex",
    when (.not .alive) [ unlock "e.mutex", ret .void ],
    .loop (.range "e.streams") [],                     -- snapshot of the stream set (body dropped)
    kill,
    unlock "e.mutex",
    .loop (.range "streams")
      [ lock "stream.mutex",
        when (.not (.flag "stream.closed"))
          [ set "stream.closed" .tt, close "stream.signal" ],
        unlock "stream.mutex" ],
    wait ]

open Sk in
/-- engine.go `func (e *Engine) expire(interval, reporter)` -/
def expire : Sk := .func
  [ .loop .forever
      [ .select
          [ .arm (.recv "e.tomb.Dying()") [ ret .void ],
            .arm (.recv "ticker.C") [] ],
        call "e.Begin",
        when .errNotNil
          [ when (.notNil "reporter") [ call "reporter" ], cont ],
        call "txn.Expire",
        when .errNotNil
          [ call "e.Abort", when (.notNil "reporter") [ call "reporter" ], cont ],
        call "e.Commit",
        when .errNotNil
          [ when (.notNil "reporter") [ call "reporter" ], cont ] ] ]

open Sk in
/-- session.go `func (s *Session) startTransaction(ctx, opts...) error` -/
def startTransaction : Sk := .func
  [ lock "s.mutex",
    when (.flag "s.ended") [ unlock "s.mutex", ret (.named "ErrSessionEnded") ],
    when (.or (.notNil "s.txn") (.flag "s.starting")) [ unlock "s.mutex", ret .fmtErr ],
    set "s.starting" .tt,
    unlock "s.mutex",
    call "s.engine.Begin",
    lock "s.mutex", deferUnlock "s.mutex",
    set "s.starting" .ff,
    when .errNotNil [ ret .err ],
    when (.flag "s.ended") [ call "s.engine.Abort", ret (.named "ErrSessionEnded") ],
    set "s.txn" (.var "txn"),
    ret .ok ]

open Sk in
/-- session.go `func (s *Session) CommitTransaction(context.Context) error` -/
def commitTransaction : Sk := .func
  [ lock "s.mutex", deferUnlock "s.mutex",
    when (.flag "s.ended") [ ret (.named "ErrSessionEnded") ],
    when (.isNil "s.txn") [ ret .fmtErr ],
    read "txn" "s.txn",
    set "s.txn" .nil,
    call "s.engine.Commit",
    when .errNotNil [ ret .err ],
    ret .ok ]

open Sk in
/-- session.go `func (s *Session) AbortTransaction(context.Context) error` -/
def abortTransaction : Sk := .func
  [ lock "s.mutex", deferUnlock "s.mutex",
    when (.flag "s.ended") [ ret (.named "ErrSessionEnded") ],
    when (.notNil "s.txn") [ call "s.engine.Abort", set "s.txn" .nil ],
    ret .ok ]

open Sk in
/-- session.go `func (s *Session) EndSession(context.Context)` -/
def endSession : Sk := .func
  [ lock "s.mutex", deferUnlock "s.mutex",
    when (.flag "s.ended") [ ret .void ],
    when (.notNil "s.txn") [ call "s.engine.Abort", set "s.txn" .nil ],
    set "s.ended" .tt ]

open Sk in
/-- session.go `func (s *Session) Transaction() *Transaction` -/
def transaction : Sk := .func
  [ lock "s.mutex", deferUnlock "s.mutex",
    ret (.path "s.txn") ]

open Sk in
/-- session.go `func (s *Session) WithTransaction(ctx, fn, opts...) (interface{}, error)` — takes no locks itself. -/
def withTransaction : Sk := .func
  [ call "s.startTransaction",
    when .errNotNil [ ret .err ],
    .deferBlock [ call "s.AbortTransaction" ],
    call "fn",
    when .errNotNil [ ret .err ],
    call "s.CommitTransaction",
    when .errNotNil [ ret .err ],
    ret .ok ]

open Sk in
/-- utils.go `func useTransaction(ctx, engine, lock, fn) (interface{}, error)` -/
def useTransaction : Sk := .func
  [ when (.flag "ok")
      [ call "sess.Transaction",
        when (.notNil "txn") [ retc .forward ["fn"] ] ],
    call "engine.Begin",
    when .errNotNil [ ret .err ],
    when (.not (.flag "lock")) [ retc .forward ["fn"] ],
    deferCall "engine.Abort",
    call "fn",
    when .errNotNil [ ret .err ],
    call "engine.Commit",
    when .errNotNil [ ret .err ],
    ret .ok ]

open Sk in
/-- stream.go `func (s *Stream) next(ctx, block bool) bool` — no defers. -/
def streamNext : Sk := .func
  [ .loop .forever
      [ lock "s.mutex",
        when (.or (.notNil "s.error") (.flag "s.closed")) [ unlock "s.mutex", ret .ff ],
        when (.flag "s.dropped")
          [ set "s.event" (.call "bsonkit.MustConvert"),
            set "s.token" (.call "bsonkit.Get"),
            call "s.cancel",
            set "s.closed" .tt,
            unlock "s.mutex",
            ret .tt ],
        call "s.oplog",
        when (.notNil "s.last")
          [ when (.not (.flag "ok"))
              [ call "s.cancel",
                set "s.closed" .tt,
                set "s.error" (.named "ErrLostOplogPosition"),
                unlock "s.mutex",
                ret .ff ] ],
        when (.other "len(oplog.List) > index + 1")
          [ .ite (.and (.other "s.handle[0] != \"\"") (.other "s.handle[0] != nsDB"))
              [ set "s.last" (.var "event"), unlock "s.mutex", cont ]
              [ when (.and (.and (.other "s.handle[1] != \"\"") (.other "s.handle[1] != nsColl"))
                           (.other "opType != \"dropDatabase\""))
                  [ set "s.last" (.var "event"), unlock "s.mutex", cont ] ],
            .ite (.and (.and (.other "s.handle[0] != \"\"") (.other "s.handle[1] != \"\""))
                       (.other "opType == \"drop\""))
              [ set "s.dropped" .tt ]
              [ when (.and (.other "s.handle[0] != \"\"") (.other "opType == \"dropDatabase\""))
                  [ set "s.dropped" .tt ] ],
            set "s.last" (.var "event"),
            set "s.event" (.var "event"),
            set "s.token" (.var "token"),
            unlock "s.mutex",
            ret .tt ],
        when (.not (.flag "block"))
          [ call "ctx.Err",
            when .errNotNil [ set "s.error" (.var "err") ],
            unlock "s.mutex",
            ret .ff ],
        read "signal" "s.signal",
        unlock "s.mutex",
        .select
          [ .arm (.recvOk "signal")
              [ when (.not (.flag "ok"))
                  [ lock "s.mutex",
                    call "s.cancel",
                    set "s.closed" .tt,
                    unlock "s.mutex",
                    ret .ff ] ],
            .arm (.recv "ctx.Done()")
              [ lock "s.mutex",
                when (.isNil "s.error") [ set "s.error" (.call "ctx.Err") ],
                unlock "s.mutex",
                ret .ff ] ] ] ]

open Sk in
/-- stream.go `func (s *Stream) Close(context.Context) error` -/
def streamClose : Sk := .func
  [ lock "s.mutex", deferUnlock "s.mutex",
    when (.flag "s.closed") [ ret .ok ],
    call "s.cancel",
    set "s.event" .nil,
    set "s.closed" .tt,
    set "s.error" .nil,
    trysend "s.signal",
    ret .ok ]

open Sk in
/-- dbkit/semaphore.go `func (s *Semaphore) Acquire(cancel <-chan struct{}, timeout) bool`.
The `if timeout > 0 { … deadline = t.C }` block has no kept statement and vanishes. -/
def semAcquire : Sk := .func
  [ .select
      [ .arm (.recv "s.tokens") [ ret .tt ],
        .arm (.recv "cancel") [ ret .ff ],
        .arm (.recv "deadline") [ ret .ff ] ] ]

open Sk in
/-- dbkit/semaphore.go `func (s *Semaphore) Release()` -/
def semRelease : Sk := .func
  [ .select
      [ .arm (.send "s.tokens") [],
        .arm .dflt [ panic ] ] ]

/-- The expected skeletons, in the order of `functions`. -/
def skeleton : List (String × Sk) :=
  [ ("Engine.Catalog", catalog),
    ("Engine.Begin", begin_),
    ("Engine.Commit", commit),
    ("Engine.Abort", abort),
    ("Engine.Watch", watch),
    ("Engine.Close", close_),
    ("Engine.expire", expire),
    ("Session.startTransaction", startTransaction),
    ("Session.CommitTransaction", commitTransaction),
    ("Session.AbortTransaction", abortTransaction),
    ("Session.EndSession", endSession),
    ("Session.Transaction", transaction),
    ("Session.WithTransaction", withTransaction),
    ("useTransaction", useTransaction),
    ("Stream.next", streamNext),
    ("Stream.Close", streamClose),
    ("Semaphore.Acquire", semAcquire),
    ("Semaphore.Release", semRelease) ]

/-- Look a function up by key. -/
def find? (key : String) (sk : List (String × Sk) := skeleton) : Option Sk :=
  (sk.find? (·.1 == key)).map (·.2)

/-! ## Self-tests (these are tests, not theorems about the code) -/

/-- the keys are exactly the configured functions, in order -/
example : skeleton.map (·.1) = functions.map (·.2) := by decide

/-- every entry respects the keep-rules of §5 -/
example : skeleton.all wfEntry = true := by decide

/-- the checker accepts the expected skeleton against itself … -/
example : skEq skeleton skeleton = true := by decide
/-- … and so does plain decidable equality. -/
example : skeleton = skeleton := by decide

open Sk in
/-- MUTANT: `Commit` with `defer e.token.Release()` hoisted above the transaction checks
(would release a token the caller never held). -/
def commitMutant : Sk := .func
  [ lock "e.mutex", deferUnlock "e.mutex",
    when (.not .alive) [ ret (.named "ErrEngineClosed") ],
    deferRelease,
    when (.isNil "e.txn") [ ret .fmtErr ],
    when (.ne "e.txn" "txn") [ ret .fmtErr ],
    set "e.txn" .nil,
    when (.not .dirty) [ ret .ok ],
    call "txn.Clean",
    call "e.store.Store",
    when .errNotNil [ ret .err ],
    set "e.catalog" (.call "txn.Catalog"),
    .loop (.range "e.streams") [ trysend "stream.signal" ],
    ret .ok ]

def skeletonMutant : List (String × Sk) :=
  skeleton.map fun (k, s) => if k == "Engine.Commit" then (k, commitMutant) else (k, s)

example : skEq skeletonMutant skeleton = false := by decide
example : skeletonMutant ≠ skeleton := by decide
example : skEq [("Engine.Commit", commitMutant)] [("Engine.Commit", commit)] = false := by decide
/-- only the mutated entry differs -/
example : (skeletonMutant.zip skeleton).filterMap
    (fun (a, b) => if a == b then none else some a.1) = ["Engine.Commit"] := by decide

end Lungo.Expected
