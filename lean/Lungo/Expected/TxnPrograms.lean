/-
  Lungo.Expected.TxnPrograms — the clone/mutate/publish structure of every Transaction write method of
  /repo/transaction.go, transcribed by hand into the IR of Model/Own.lean, and the write structure of
  every mongokit.Collection method of /repo/mongokit/collection.go (DESIGN §4.1 `Gen/TxnPublish`,
  `Gen/CollWrites`).  go/cmd/extract/txnprog.go regenerates the same terms from the source on every run
  (`Gen.txnPrograms`, `Gen.collPrograms`); Ties/TxnPrograms.lean compares them.

  Conventions (identical to the extractor's mapping rules, documented in txnprog.go):
  variables keep their Go names; `t.catalog` is the variable "t.catalog"; the item variable of a
  `for _, d := range list` stands for `list`; private helpers (`t.insert`, `t.replace`, `t.update`,
  `t.delete`, `t.append`) are inlined as `helper` with actual arguments substituted for parameters;
  statements without any tracked effect are dropped; conditions are decomposed along `&&`, `||`, `!`,
  `x == nil` (collection expressions), `err != nil`; everything else is kept as opaque source text.
-/
import Lungo.Model.Own
namespace Lungo.Expected
open Lungo.Own Lungo.Own.Stmt Lungo.Own.Cond Lungo.Own.CExpr Lungo.Own.HExpr

/-- `err := handle.Validate(…); if err != nil { return }; if handle[0] == Local { return Errorf }` -/
def writable : List Stmt :=
  [validate, ifErrReturn, ite (test "handle[0] == Local") [fail] []]

/-- `t.append(oplog, …)`: builds the event, `_, err := oplog.Insert(MustConvert(event))` -/
def append : Stmt :=
  helper "append" [callColl "oplog" .insert none, ifErrReturn, retOk]

def hInsert : Stmt :=
  helper "insert" [callColl "namespace" .insert (some "list"), ifErrReturn, append, ifErrReturn, retOk]

def hInsertBulk : Stmt :=
  helper "insert" [callColl "namespace" .insert (some "doc"), ifErrReturn, append, ifErrReturn, retOk]

def hReplace (doc q : Var) : Stmt :=
  helper "replace" [
    -- since /repo e6de740: an upsert takes values from the filter, so the filter is copied first
    ite (both (test "upsert") (test "query != nil")) [cloneDocs "query" q] [],
    callColl "namespace" .replace (some doc), ifErrReturn,
    ite (both (test "len(res.Matched) == 0") (test "upsert")) [
      callColl "namespace" .upsert (some doc), ifErrReturn,
      append, ifErrReturn,
      retOk] [],
    ite (test "len(res.Modified) > 0") [append, ifErrReturn] [],
    retOk]

def hUpdate (u q : Var) : Stmt :=
  helper "update" [
    -- since /repo e6de740: the operators store values of the update document, upserts values of the filter
    ite (test "update != nil") [cloneDocs "update" u] [],
    ite (both (test "upsert") (test "query != nil")) [cloneDocs "query" q] [],
    callColl "namespace" .update none, ifErrReturn,
    ite (both (test "len(res.Matched) == 0") (test "upsert")) [
      callColl "namespace" .upsert none, ifErrReturn,
      append, ifErrReturn,
      retOk] [],
    loop false [append, ifErrReturn],
    retOk]

def hDelete : Stmt :=
  helper "delete" [
    callColl "namespace" .delete none, ifErrReturn,
    loop false [append, ifErrReturn],
    retOk]

/-- `var namespace; if clone.Namespaces[handle] == nil { new; install } else { clone; install }` -/
def createOrClone : Stmt :=
  ite (isNil (ns "clone" param))
    [newColl "namespace", setNs "clone" param "namespace"]
    [cloneColl "namespace" (ns "clone" param), setNs "clone" param "namespace"]

def cloneOplog : List Stmt :=
  [cloneColl "oplog" (ns "clone" oplog), setNs "clone" oplog "oplog"]

def publish : List Stmt := [setCatalog "clone", setDirty]

def pCreate : Prog :=
  writable ++ [
    ite (neg (isNil (ns "t.catalog" param))) [retOk] [],
    cloneCatalog "$clone" "t.catalog", setCatalog "$clone",
    setNsNew "t.catalog" param,
    setDirty,
    retOk]

def pInsert : Prog :=
  writable ++ [
    cloneDocs "list" "list",
    cloneCatalog "clone" "t.catalog",
    ite (isNil (ns "clone" param)) [setNsNew "clone" param] [],
    loop false [
      cloneColl "namespace" (ns "clone" param),
      cloneColl "oplog" (ns "clone" oplog),
      hInsert,
      ite err [ite (test "ordered") [brk] [cont]] [],
      setNs "clone" param "namespace",
      setNs "clone" oplog "oplog"],
    ite (test "len(result.Modified) > 0") publish [],
    retOk]

def pBulk : Prog :=
  writable ++ [
    cloneCatalog "clone" "t.catalog",
    ite (isNil (ns "clone" param)) [setNsNew "clone" param] [],
    loop false [
      cloneColl "namespace" (ns "clone" param),
      cloneColl "oplog" (ns "clone" oplog),
      ite (test "op.Opcode == Insert") [hInsertBulk] [
      ite (test "op.Opcode == Replace") [hReplace "ops" "ops"] [
      ite (test "op.Opcode == Update") [hUpdate "ops" "ops"] [
      ite (test "op.Opcode == Delete") [hDelete] [
      fail]]]],
      ite err [ite (test "ordered") [brk] [cont]] [],
      setNs "clone" param "namespace",
      setNs "clone" oplog "oplog"],
    ite (test "changes > 0") publish [],
    retOk]

def pReplace : Prog :=
  writable ++ [
    ite (both (isNil (ns "t.catalog" param)) (neg (test "upsert"))) [retOk] [],
    cloneDocs "repl" "repl",
    cloneCatalog "clone" "t.catalog",
    createOrClone] ++ cloneOplog ++ [
    hReplace "repl" "query", ifErrReturn,
    ite (either (test "len(res.Modified) > 0") (test "res.Upserted != nil")) publish [],
    retOk]

def pUpdate : Prog :=
  writable ++ [
    ite (both (isNil (ns "t.catalog" param)) (neg (test "upsert"))) [retOk] [],
    cloneCatalog "clone" "t.catalog",
    createOrClone] ++ cloneOplog ++ [
    hUpdate "update" "query", ifErrReturn,
    ite (either (test "len(res.Modified) > 0") (test "res.Upserted != nil")) publish [],
    retOk]

def pDelete : Prog :=
  writable ++ [
    ite (isNil (ns "t.catalog" param)) [retOk] [],
    cloneCatalog "clone" "t.catalog",
    cloneColl "namespace" (ns "clone" param), setNs "clone" param "namespace"] ++ cloneOplog ++ [
    hDelete, ifErrReturn,
    ite (test "len(res.Matched) > 0") publish [],
    retOk]

def pDrop : Prog :=
  writable ++ [
    cloneCatalog "clone" "t.catalog"] ++ cloneOplog ++ [
    loop true [
      ite (either (test "ns == handle") (both (test "handle[1] == \"\"") (test "ns[0] == handle[0]"))) [
        deleteNs "clone" loopVar,
        append, ifErrReturn] []],
    ite (both (test "handle[1] == \"\"") (test "dropped > 0")) [append, ifErrReturn] [],
    ite (test "dropped > 0") publish [],
    retOk]

def pCreateIndex : Prog :=
  writable ++ [
    cloneCatalog "clone" "t.catalog",
    createOrClone,
    callColl "namespace" .createIndex none, ifErrReturn,
    setCatalog "clone", setDirty,
    retOk]

def dropIndexTail : List Stmt := [
    cloneCatalog "clone" "t.catalog",
    cloneColl "namespace" (ns "clone" param), setNs "clone" param "namespace",
    callColl "namespace" .dropIndex none, ifErrReturn,
    ite (test "len(dropped) > 0") publish [],
    retOk]

def pDropIndex : Prog :=
  writable ++ [ite (isNil (ns "t.catalog" param)) [fail] []] ++ dropIndexTail

def pDropIndexByKey : Prog :=
  writable ++ [
    ite (isNil (ns "t.catalog" param)) [fail] [],
    ite (test "name == \"\"") [fail] []] ++ dropIndexTail

def pClean : Prog :=
  [cloneCatalog "clone" "t.catalog"] ++ cloneOplog ++ [
    loop false [callColl "oplog" .setRemove none],
    ite (test "dropped > 0") publish []]

def pExpire : Prog :=
  [cloneCatalog "clone" "t.catalog"] ++ cloneOplog ++ [
    loop true [
      alias "namespace" (ns "clone" loopVar),
      ite (test "len(ttlIndexes) == 0") [cont] [],
      cloneColl "namespace" (ns "clone" loopVar), setNs "clone" loopVar "namespace",
      hDelete, ifErrReturn],
    ite (test "deletions > 0") publish [],
    retOk]

def txnPrograms : List (String × Prog) := [
  ("Create", pCreate), ("Bulk", pBulk), ("Insert", pInsert), ("Replace", pReplace), ("Update", pUpdate),
  ("Delete", pDelete), ("Drop", pDrop), ("CreateIndex", pCreateIndex), ("DropIndex", pDropIndex),
  ("DropIndexByKey", pDropIndexByKey), ("Clean", pClean), ("Expire", pExpire)]

theorem expected_owned : ∀ p ∈ txnPrograms, ownedOK p.2 = true := by decide +kernel

/-- every method except Bulk writes only documents it cloned itself; `Transaction.Bulk` passes
    `op.Document` straight to `Collection.Insert/Replace`, which `Put` the `_id` into it -/
theorem expected_args : ∀ p ∈ txnPrograms, p.1 ≠ "Bulk" → argsOK p.2 = true := by decide +kernel
theorem bulk_args_not_cloned : argsOK pBulk = false := by decide +kernel

/-! ## mongokit.Collection write methods (DESIGN §4.1 `Gen/CollWrites`) -/

open CollStep in
def collPrograms : List CollProg := [
  { name := "Insert", params := ["doc"],
    steps := [putId "doc", forBegin "c.Indexes", idxAdd, forEnd, setAdd] },
  { name := "Replace", params := ["query", "repl", "sort"],
    steps := [sort, filter, putId "repl", idCheck,
              forBegin "c.Indexes", idxRemove, idxAdd, forEnd, setReplace] },
  { name := "Update", params := ["query", "update", "sort", "skip", "limit", "arrayFilters"],
    steps := [sort, filter, skip, cloneDocs, apply "newList",
              forBegin "newList", idCheck, forEnd,
              forBegin "list", forBegin "c.Indexes", idxRemove, forEnd, forEnd,
              forBegin "newList", forBegin "c.Indexes", idxAdd, forEnd, forEnd,
              forBegin "newList", setReplace, forEnd] },
  { name := "Upsert", params := ["query", "repl", "update", "arrayFilters"],
    steps := [extract, cloneDocs, putId "doc", putId "doc", apply "doc", putId "doc",
              forBegin "c.Indexes", idxAdd, forEnd, setAdd] },
  { name := "Delete", params := ["query", "sort", "skip", "limit"],
    steps := [sort, filter, skip,
              forBegin "list", forBegin "c.Indexes", idxRemove, forEnd, forEnd,
              forBegin "list", setRemove, forEnd] },
  { name := "CreateIndex", params := ["name", "config"],
    steps := [mapPut, idxBuild] },
  { name := "DropIndex", params := ["name"],
    steps := [mapDelete, forBegin "c.Indexes", mapDelete, forEnd] }]

def methodOf : String → Option Method
  | "Insert" => some .insert | "Replace" => some .replace | "Update" => some .update
  | "Upsert" => some .upsert | "Delete" => some .delete | "CreateIndex" => some .createIndex
  | "DropIndex" => some .dropIndex | _ => none

/-- what a method writes, read off its steps: its document PARAMETER (`putId` on a parameter), the Set,
    existing indexes, the Indexes map (`idxBuild` fills the index the call has just created) -/
def footprintOf (c : CollProg) : Footprint :=
  { arg := c.steps.any fun s => match s with | .putId x => c.params.contains x | _ => false,
    list := c.steps.any fun s => s == .setAdd || s == .setReplace || s == .setRemove,
    idx := c.steps.any fun s => s == .idxAdd || s == .idxRemove,
    map := c.steps.any fun s => s == .mapPut || s == .mapDelete }

/-- documents written in place (`apply`, `putId`) are parameters only for `putId` (covered by the footprint);
    `apply` only ever targets a local produced by `cloneDocs`/`extract` earlier in the method -/
def applyFresh (c : CollProg) : Bool :=
  let rec go : List CollStep → Bool → Bool
    | [], _ => true
    | .cloneDocs :: r, _ => go r true
    | .extract :: r, _ => go r true
    | .apply x :: r, fresh => fresh && !c.params.contains x && go r fresh
    | .other _ :: _, _ => false
    | _ :: r, fresh => go r fresh
  go c.steps false

/-- the interpreter's per-method footprint (`Method.footprint`, Model/Own.lean) is exactly what the
    Collection methods write -/
theorem collFootprint_ok : ∀ c ∈ collPrograms, (methodOf c.name).map Method.footprint = some (footprintOf c) := by
  decide +kernel

/-- `Update`/`Apply` run on clones (`CloneList`, `Clone`, `Extract`), never on a stored document -/
theorem collApply_fresh : ∀ c ∈ collPrograms, applyFresh c = true := by decide +kernel

/-! ## The Clone functions whose meaning the IR's `cloneCatalog` / `cloneColl` state

  `cloneCatalog`: a NEW map with the SAME collection pointers.  `cloneColl`: a new struct, `Documents.Clone()`
  = a new List slice and a new Index map holding the same document pointers, every index cloned
  (`btree.Copy()`: copy-on-write isolation is tidwall/btree's contract — trusted), a new Indexes map.
  The bodies are compared as text (whitespace-normalised, comments dropped): any edit asks for a review. -/
def cloneBodies : List (String × String) := [
  ("lungo.Catalog.Clone", "{ clone := &Catalog{ Namespaces: make(map[Handle]*mongokit.Collection, len(d.Namespaces)), } for name, namespace := range d.Namespaces { clone.Namespaces[name] = namespace } return clone }"),
  ("mongokit.Collection.Clone", "{ clone := &Collection{ Documents: c.Documents.Clone(), Indexes: map[string]*Index{}, } for name, index := range c.Indexes { clone.Indexes[name] = index.Clone() } return clone }"),
  ("mongokit.Index.Clone", "{ return &Index{ config: i.config, columns: i.columns, base: i.base.Clone(), } }"),
  ("bsonkit.Set.Clone", "{ clone := &Set{ List: make(List, len(s.List)), Index: make(map[Doc]int, len(s.Index)), } copy(clone.List, s.List) for doc, index := range s.Index { clone.Index[doc] = index } return clone }"),
  ("bsonkit.Index.Clone", "{ clone := &Index{ btree: i.btree.Copy(), columns: i.columns, unique: i.unique, } return clone }")]

end Lungo.Expected
