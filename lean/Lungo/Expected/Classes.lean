/- EXPECTED facts (hand-maintained snapshot; the model and theorems were written against these).
   Compared with the regenerated Lungo.Gen.Classes by the tie theorems in Lungo/Ties/Classes.lean. -/
namespace Lungo.Expected

def classOrder : List String := ["Null", "Number", "String", "Document", "Array", "Binary", "ObjectID", "Boolean", "Date", "Timestamp", "Regex"]

def inspectArms : List (List String × String) := [
  (["nil", "primitive.Null", "MissingType"], "Null, bsontype.Null"),
  (["int32"], "Number, bsontype.Int32"),
  (["int64"], "Number, bsontype.Int64"),
  (["float64"], "Number, bsontype.Double"),
  (["primitive.Decimal128"], "Number, bsontype.Decimal128"),
  (["string"], "String, bsontype.String"),
  (["bson.D"], "Document, bsontype.EmbeddedDocument"),
  (["bson.A"], "Array, bsontype.Array"),
  (["primitive.Binary"], "Binary, bsontype.Binary"),
  (["primitive.ObjectID"], "ObjectID, bsontype.ObjectID"),
  (["bool"], "Boolean, bsontype.Boolean"),
  (["primitive.DateTime"], "Date, bsontype.DateTime"),
  (["primitive.Timestamp"], "Timestamp, bsontype.Timestamp"),
  (["primitive.Regex"], "Regex, bsontype.Regex"),
  (["default"], "panic")]

end Lungo.Expected
