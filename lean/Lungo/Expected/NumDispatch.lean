/- EXPECTED facts (hand-maintained snapshot; the model and theorems were written against these).
   Compared with the regenerated Lungo.Gen.NumDispatch by the tie theorems in Lungo/Ties/NumDispatch.lean. -/
namespace Lungo.Expected

def compareNumbers : List (String × String × String) := [
  ("float64", "float64", "return compareFloat64s(l, r)"),
  ("float64", "int32", "return compareFloat64s(l, float64(r))"),
  ("float64", "int64", "return compareFloat64ToInt64(l, r)"),
  ("float64", "primitive.Decimal128", "return compareExact(exactFromFloat64(l), exactFromDecimal128(r))"),
  ("int32", "float64", "return compareFloat64s(float64(l), r)"),
  ("int32", "int32", "return compareInt32s(l, r)"),
  ("int32", "int64", "return compareInt64s(int64(l), r)"),
  ("int32", "primitive.Decimal128", "return compareExact(exactFromInt64(int64(l)), exactFromDecimal128(r))"),
  ("int64", "float64", "return compareInt64ToFloat64(l, r)"),
  ("int64", "int32", "return compareInt64s(l, int64(r))"),
  ("int64", "int64", "return compareInt64s(l, r)"),
  ("int64", "primitive.Decimal128", "return compareExact(exactFromInt64(l), exactFromDecimal128(r))"),
  ("primitive.Decimal128", "float64", "return compareExact(exactFromDecimal128(l), exactFromFloat64(r))"),
  ("primitive.Decimal128", "int32", "return compareExact(exactFromDecimal128(l), exactFromInt64(int64(r)))"),
  ("primitive.Decimal128", "int64", "return compareExact(exactFromDecimal128(l), exactFromInt64(r))"),
  ("primitive.Decimal128", "primitive.Decimal128", "return compareExact(exactFromDecimal128(l), exactFromDecimal128(r))")]

def add : List (String × String × String) := [
  ("int32", "int32", "return promoteInt32(int64(num) + int64(inc))"),
  ("int32", "int64", "return addInt64(int64(num), inc)"),
  ("int32", "float64", "return float64(num) + inc"),
  ("int32", "primitive.Decimal128", "return decToD128(decimal.NewFromInt(int64(num)).Add(safeD128ToDec(inc)))"),
  ("int32", "default", "return Missing"),
  ("int64", "int32", "return addInt64(num, int64(inc))"),
  ("int64", "int64", "return addInt64(num, inc)"),
  ("int64", "float64", "return float64(num) + inc"),
  ("int64", "primitive.Decimal128", "return decToD128(decimal.NewFromInt(num).Add(safeD128ToDec(inc)))"),
  ("int64", "default", "return Missing"),
  ("float64", "int32", "return num + float64(inc)"),
  ("float64", "int64", "return num + float64(inc)"),
  ("float64", "float64", "return num + inc"),
  ("float64", "primitive.Decimal128", "return decToD128(safeFloatToDec(num).Add(safeD128ToDec(inc)))"),
  ("float64", "default", "return Missing"),
  ("primitive.Decimal128", "int32", "return decToD128(safeD128ToDec(num).Add(decimal.NewFromInt(int64(inc))))"),
  ("primitive.Decimal128", "int64", "return decToD128(safeD128ToDec(num).Add(decimal.NewFromInt(inc)))"),
  ("primitive.Decimal128", "float64", "return decToD128(safeD128ToDec(num).Add(safeFloatToDec(inc)))"),
  ("primitive.Decimal128", "primitive.Decimal128", "return decToD128(safeD128ToDec(num).Add(safeD128ToDec(inc)))"),
  ("primitive.Decimal128", "default", "return Missing"),
  ("", "default", "return Missing")]

def mul : List (String × String × String) := [
  ("int32", "int32", "return promoteInt32(int64(num) * int64(mul))"),
  ("int32", "int64", "return mulInt64(int64(num), mul)"),
  ("int32", "float64", "return float64(num) * mul"),
  ("int32", "primitive.Decimal128", "return decToD128(decimal.NewFromInt(int64(num)).Mul(safeD128ToDec(mul)))"),
  ("int32", "default", "return Missing"),
  ("int64", "int32", "return mulInt64(num, int64(mul))"),
  ("int64", "int64", "return mulInt64(num, mul)"),
  ("int64", "float64", "return float64(num) * mul"),
  ("int64", "primitive.Decimal128", "return decToD128(decimal.NewFromInt(num).Mul(safeD128ToDec(mul)))"),
  ("int64", "default", "return Missing"),
  ("float64", "int32", "return num * float64(mul)"),
  ("float64", "int64", "return num * float64(mul)"),
  ("float64", "float64", "return num * mul"),
  ("float64", "primitive.Decimal128", "return decToD128(safeFloatToDec(num).Mul(safeD128ToDec(mul)))"),
  ("float64", "default", "return Missing"),
  ("primitive.Decimal128", "int32", "return decToD128(safeD128ToDec(num).Mul(decimal.NewFromInt(int64(mul))))"),
  ("primitive.Decimal128", "int64", "return decToD128(safeD128ToDec(num).Mul(decimal.NewFromInt(mul)))"),
  ("primitive.Decimal128", "float64", "return decToD128(safeD128ToDec(num).Mul(safeFloatToDec(mul)))"),
  ("primitive.Decimal128", "primitive.Decimal128", "return decToD128(safeD128ToDec(num).Mul(safeD128ToDec(mul)))"),
  ("primitive.Decimal128", "default", "return Missing"),
  ("", "default", "return Missing")]

def compareHelpers : List (String × String) := [
  ("compareFloat64s", "{ if l == r { return 0 } else if l > r { return 1 } else if l < r { return -1 } if math.IsNaN(l) { if math.IsNaN(r) { return 0 } return -1 } return 1 }"),
  ("compareInt64ToFloat64", "{ const maxPreciseFloat64 = int64(1 << 53) const boundOfLongRange = float64(1 << 63) if math.IsNaN(r) { return 1 } if l <= maxPreciseFloat64 && l >= -maxPreciseFloat64 { return compareFloat64s(float64(l), r) } if r >= boundOfLongRange { return -1 } else if r < -boundOfLongRange { return 1 } return compareInt64s(l, int64(r)) }"),
  ("compareFloat64ToInt64", "{ return -compareInt64ToFloat64(r, l) }"),
  ("compareExact", "{ if l.kind < r.kind { return -1 } else if l.kind > r.kind { return 1 } if l.kind != exactFinite { return 0 } return l.dec.Cmp(r.dec) }"),
  ("exactFromFloat64", "{ if math.IsNaN(f) { return exactNumber{kind: exactNaN} } else if math.IsInf(f, 1) { return exactNumber{kind: exactPosInf} } else if math.IsInf(f, -1) { return exactNumber{kind: exactNegInf} } rat := new(big.Rat).SetFloat64(f) k := rat.Denom().BitLen() - 1 num := new(big.Int).Set(rat.Num()) if k > 0 { num.Mul(num, new(big.Int).Exp(big.NewInt(5), big.NewInt(int64(k)), nil)) } return exactNumber{kind: exactFinite, dec: decimal.NewFromBigInt(num, int32(-k))} }"),
  ("exactFromDecimal128", "{ if d.IsNaN() { return exactNumber{kind: exactNaN} } else if d.IsInf() > 0 { return exactNumber{kind: exactPosInf} } else if d.IsInf() < 0 { return exactNumber{kind: exactNegInf} } return exactNumber{kind: exactFinite, dec: safeD128ToDec(d)} }"),
  ("exactFromInt64", "{ return exactNumber{kind: exactFinite, dec: decimal.NewFromInt(i)} }"),
  ("Compare", "{ lc, _ := Inspect(lv) rc, _ := Inspect(rv) if lc > rc { return 1 } else if lc < rc { return -1 } switch lc { case Null: return 0 case Number: return compareNumbers(lv, rv) case String: return compareStrings(lv, rv) case Document: return compareDocuments(lv, rv) case Array: return compareArrays(lv, rv) case Binary: return compareBinaries(lv, rv) case ObjectID: return compareObjectIDs(lv, rv) case Boolean: return compareBooleans(lv, rv) case Date: return compareDates(lv, rv) case Timestamp: return compareTimestamps(lv, rv) case Regex: return compareRegexes(lv, rv) default: panic(\"bsonkit: unreachable\") } }")]

end Lungo.Expected
