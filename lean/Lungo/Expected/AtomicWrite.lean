/-
  Lungo.Expected.AtomicWrite — hand-written copy of the fact `Gen.atomicWriteSteps`
  (ordered calls of `dbkit.AtomicWriteFile` with error edges and defers; /repo/dbkit/atomic.go).
  Tie: `theorem tie_atomicWrite : Gen.atomicWriteSteps = Expected.atomicWriteSteps := by decide`.
-/
import Lungo.Model.AtomicWrite
namespace Lungo.Expected
open Lungo.AtomicWrite

def atomicWriteSteps : List Step :=
  [ .call .removeTmp .retUnlessNotExist,
    .call .createExclTmp .ret,
    .defer [.closeTmp, .removeTmp],
    .call .writeTmp .ret,
    .call .fsyncTmp .ret,
    .call .closeTmp .ret,
    .call .renameTmpToPath .ret,
    .call .openDir .ret,
    .defer [.closeDir],
    .call .fsyncDir .ret ]

/-- expected copy of the fact `Gen.atomicWriteTmpDistinct`: the temporary name is `path + ".tmp"`, so the
    hypothesis `tmp ≠ path` of the C05 theorems holds (`tempPath := path` would make the protocol work in place) -/
def atomicWriteTmpDistinct : Bool := true

end Lungo.Expected
