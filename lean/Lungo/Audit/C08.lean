import Lungo.Props.C08
open Lungo.C08
#print axioms nowrap_of_validated
#print axioms cutoff_nowrap
#print axioms clean_prefix_any
#print axioms clean_prefix
#print axioms clean_other_namespaces
#print axioms clean_noop_not_dirty
#print axioms clean_drop_dirty
#print axioms removed_droppable
#print axioms clean_protects_min_size
#print axioms clean_protects_min_age
#print axioms clean_protects_min_age_nowrap
#print axioms clean_min_age_zero
#print axioms droppable_monotone
#print axioms clean_removes_all_droppable
#print axioms clean_enforces
#print axioms clean_enforces_age_nowrap
