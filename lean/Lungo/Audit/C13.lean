/-
  Lungo.Audit.C13 — axiom audit of the C13 property theorems.
  Compiled separately (`lake env lean Lungo/Audit/C13.lean`); not imported anywhere.
  Every line must report at most [propext, Classical.choice, Quot.sound].
-/
import Lungo.Props.C13
open Lungo.C13

#print axioms Lungo.C13.order_refl
#print axioms Lungo.C13.order_swap
#print axioms Lungo.C13.order_trans
#print axioms Lungo.C13.order_congr
#print axioms Lungo.C13.order_lexicographic
#print axioms Lungo.C13.order_ascending
#print axioms Lungo.C13.order_reverse
#print axioms Lungo.C13.sortKey_spec_ascending
#print axioms Lungo.C13.sortKey_spec_descending
#print axioms Lungo.C13.sortKey_spec_other
#print axioms Lungo.C13.missing_is_null
#print axioms Lungo.C13.order_missing_as_null
#print axioms Lungo.C13.sort_perm
#print axioms Lungo.C13.sort_nondecreasing
#print axioms Lungo.C13.sort_nondecreasing_index
#print axioms Lungo.C13.sort_consecutive
#print axioms Lungo.C13.sort_stable
#print axioms Lungo.C13.ties_in_insertion_order
#print axioms Lungo.C13.sort_keeps_sorted_sublists
#print axioms Lungo.C13.sort_unique
#print axioms Lungo.C13.sortBySpec_spec
#print axioms Lungo.C13.columns_int32
#print axioms Lungo.C13.distinct_ascending
#print axioms Lungo.C13.distinct_sound
#print axioms Lungo.C13.distinct_complete
#print axioms Lungo.C13.collect_elements_partial
#print axioms Lungo.C13.distinct_is_collect
#print axioms Lungo.C13.window_def
#print axioms Lungo.C13.sortBy_cases
#print axioms Lungo.C13.sortSDocs_is_sortDocs
#print axioms Lungo.C13.filter_sort_comm
#print axioms Lungo.C13.filter_sortBy_comm
#print axioms Lungo.C13.negative_skip_rejected
#print axioms Lungo.C13.find_window
#print axioms Lungo.C13.find_window_total
#print axioms Lungo.C13.find_bad_sort
#print axioms Lungo.C13.find_with_match_errors
#print axioms Lungo.C13.scanLimit_def
#print axioms Lungo.C13.limit_zero_is_all
#print axioms Lungo.C13.find_api
#print axioms Lungo.C13.count_is_window_length
#print axioms Lungo.C13.distinct_api
#print axioms Lungo.C13.one_doc_write_targets_head
#print axioms Lungo.C13.write_targets_selection
