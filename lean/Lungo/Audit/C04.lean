/-
  Axiom audit for C04: compiled separately (`lake env lean Lungo/Audit/C04.lean`), never imported.
  Every theorem of Lungo/Props/C04.lean is listed.
-/
import Lungo.Props.C04

#print axioms Lungo.Conc.C04.base_is_current
#print axioms Lungo.Conc.C04.serializable
#print axioms Lungo.Conc.C04.no_lost_update
#print axioms Lungo.Conc.C04.write_history_local
#print axioms Lungo.Conc.C04.write_history
#print axioms Lungo.Conc.C04.write_history_fails_shared
#print axioms Lungo.Conc.C04.real_time
#print axioms Lungo.Conc.C04.returned_in_log
#print axioms Lungo.Conc.C04.read_prefix
#print axioms Lungo.Conc.C04.log_append_only
