/-
  Lungo.Audit.C12 — axiom audit of the C12 property theorems.
  Compiled separately (`lake env lean Lungo/Audit/C12.lean`); not imported anywhere.
  Every line must report at most [propext, Classical.choice, Quot.sound].
-/
import Lungo.Props.C12
open Lungo.C12

#print axioms cmp_refl
#print axioms cmp_swap
#print axioms cmp_rank
#print axioms cmp_rank_gt
#print axioms cmp_num_exact
#print axioms cmp_num_exact_wf
#print axioms cmp_num_exact_needs_i64Ok
#print axioms cmp_laws
#print axioms cmp_trans
#print axioms cmp_lt_trans
#print axioms cmp_trans_wf
#print axioms cmp_lt_trans_wf
#print axioms cmp_trans_needs_i64Ok
#print axioms cmp_congr
#print axioms cmp_congr_right
#print axioms cmp_congr_wf
#print axioms cmp_eq_trans
#print axioms cmp_congr_needs_i64Ok
#print axioms okCmp_lawful
#print axioms Lungo.C12.instTransCmpOkVOkCmp
#print axioms Lungo.C12.instOrientedCmpOkVOkCmp
