/-
  Lungo.Audit.C11 — axiom audit of the C11 property theorems.
  Compiled separately (`lake env lean Lungo/Audit/C11.lean`); not imported anywhere.
  Every line must report at most [propext, Classical.choice, Quot.sound].
-/
import Lungo.Props.C11
open Lungo.C11

#print axioms Lungo.C11.add_type_table
#print axioms Lungo.C11.mul_type_table
#print axioms Lungo.C11.add_int32_exact
#print axioms Lungo.C11.mul_int32_exact
#print axioms Lungo.C11.add_int64_exact
#print axioms Lungo.C11.mul_int64_exact
#print axioms Lungo.C11.add_int64_overflow
#print axioms Lungo.C11.mul_int64_overflow
#print axioms Lungo.C11.add_result_wf
#print axioms Lungo.C11.mul_result_wf
#print axioms Lungo.C11.splitPath_nonempty
#print axioms Lungo.C11.put_never_panics
#print axioms Lungo.C11.Put_never_panics
#print axioms Lungo.C11.put_doc_returns_doc
#print axioms Lungo.C11.get_put_same
#print axioms Lungo.C11.put_other_path_stable
#print axioms Lungo.C11.put_keeps_field_order
#print axioms Lungo.C11.put_result_shape
#print axioms Lungo.C11.put_idempotent
#print axioms Lungo.C11.Put_idempotent
#print axioms Lungo.C11.unset_then_get_missing
#print axioms Lungo.C11.unset_idempotent
#print axioms Lungo.C11.set_idempotent
#print axioms Lungo.C11.unset_idempotent_op
#print axioms Lungo.C11.min_idempotent
#print axioms Lungo.C11.max_idempotent
#print axioms Lungo.C11.addToSet_idempotent
#print axioms Lungo.C11.pull_idempotent
#print axioms Lungo.C11.pullAll_idempotent
#print axioms Lungo.C11.apply_idempotent_partial
#print axioms Lungo.C11.apply_error_is_total_rejection
#print axioms Lungo.C11.match_never_panics
#print axioms Lungo.C11.apply_never_panics
#print axioms Lungo.C11.updatePaths_key_mem
#print axioms Lungo.C11.updatePaths_rename_target_mem
#print axioms Lungo.C11.firstDiff_some_iff
#print axioms Lungo.C11.positionalClash_index_iff
#print axioms Lungo.C11.positionalClash_iff
#print axioms Lungo.C11.positionalClash_symm
#print axioms Lungo.C11.pathsConflict_iff
#print axioms Lungo.C11.conflict_rejected
#print axioms Lungo.C11.accepted_conflict_free
#print axioms Lungo.C11.accepted_paths_pairwise
#print axioms Lungo.C11.selected_iff
#print axioms Lungo.C11.selectedIdx_mem
#print axioms Lungo.C11.selectedIdx_ascending
#print axioms Lungo.C11.array_filter_own
#print axioms Lungo.C11.array_filter_own_rec
#print axioms Lungo.C11.unbound_identifier_rejected
#print axioms Lungo.C11.foreign_filter_irrelevant
#print axioms Lungo.C11.foreign_filter_irrelevant_insert
#print axioms Lungo.C11.foreign_filter_irrelevant_step
#print axioms Lungo.C11.record_conflict_free
#print axioms Lungo.C11.changes_hold_partial
#print axioms Lungo.C11.pop_change_holds
#print axioms Lungo.C11.unset_change_holds
