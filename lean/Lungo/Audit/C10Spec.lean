/-
  Audit of Props/C10Spec.lean: every property theorem may depend on propext, Classical.choice, Quot.sound only.
-/
import Lungo.Props.C10Spec
open Lungo.C10
#print axioms offered_eq_leafs_noFanOut
#print axioms offered_eq_leafs_fanOut
#print axioms nested_is_fanOut
#print axioms eq_agrees
#print axioms literal_agrees
#print axioms cmp_agrees
#print axioms ne_agrees
#print axioms in_agrees
#print axioms nin_agrees
#print axioms exists_arg_is_truthiness
#print axioms exists_agrees
#print axioms type_agrees
#print axioms type_null_skips_missing
#print axioms size_agrees_partial
#print axioms all_agrees
#print axioms mod_agrees
#print axioms bits_agrees
#print axioms operator_agrees
#print axioms not_agrees
#print axioms elemMatch_agrees
#print axioms and_or_agree
#print axioms nor_agrees
#print axioms match_agrees_core_partial
#print axioms match_total_on_wellformed
