/- Axiom audit for C05 (compiled separately; not imported by the library). -/
import Lungo.Props.C05
open Lungo.C05
#print axioms crash_old_or_new
#print axioms kill_old_or_new
#print axioms durable_after_return
#print axioms clean_run_ok
#print axioms fault_reports
#print axioms fault_reports_single
#print axioms rerun_after_fault
#print axioms rerun_after_crash
#print axioms visible_le_durable
#print axioms store_failure_recovers
#print axioms exS_holds
#print axioms neg_no_fsync
#print axioms neg_rename_before_fsync
#print axioms neg_no_dir_fsync
#print axioms neg_no_remove
#print axioms Lungo.FS.crashImage_crash
#print axioms interpUpTo_eq
#print axioms bound_eq
#print axioms master
#print axioms cut_base
#print axioms run_post
#print axioms step_inv
#print axioms search_ce_sound
#print axioms search_ce_image
#print axioms no_rename_keeps_old
#print axioms fsInit_holds
#print axioms search_no_false_alarm
#print axioms search_expected_safe
