/- Axiom audit for C03 (compiled separately; not imported by the library). -/
import Lungo.Props.C03
open Lungo.C03
#print axioms snapshot_immutable
#print axioms snapshot_records
#print axioms snapshot_kept
#print axioms good_step
#print axioms commit_atomic
#print axioms visibility
#print axioms commit_atomic_store
