/- Axiom audit for C03 (compiled separately; not imported by the library). -/
import Lungo.Props.C03
open Lungo.C03
#print axioms snapshot_immutable
#print axioms snapshot_records
#print axioms snapshot_kept
#print axioms good_step
#print axioms commit_atomic
#print axioms visibility
#print axioms commit_atomic_store
#print axioms visibility_run
#print axioms commit_publishes
#print axioms run_append
#print axioms all_or_nothing
#print axioms nothing_without_commit
#print axioms fresh_good
#print axioms reachable_snapshot_immutable
#print axioms reachable_all_or_nothing
