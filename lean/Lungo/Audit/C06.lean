/- Audit of C06: every property theorem may depend on at most propext, Classical.choice, Quot.sound. -/
import Lungo.Props.C06
open Lungo.C06
#print axioms codec_roundtrip
#print axioms codec_roundtrip_value
#print axioms codec_roundtrip_fails_bin2_empty
#print axioms codec_roundtrip_fails_regex_opts
#print axioms file_roundtrip
#print axioms reload_identity
#print axioms reload_identity_equiv
#print axioms buildCatalog_db_noDot
#print axioms reload_identity_needs_noDot
#print axioms reload_identity_fails_dotted_db
#print axioms handle_collision
#print axioms sampleCat_WF
#print axioms Equiv.refl
#print axioms splitDot_noDot
#print axioms fromFileNamespaces_noDot
