/-
  Lungo.Audit.C20 — axiom audit of the C20 property theorems.
  Compiled separately (`lake env lean Lungo/Audit/C20.lean`); not imported anywhere.
  Every line must report at most [propext, Classical.choice, Quot.sound].
-/
import Lungo.Props.C20
open Lungo.C20

#print axioms Lungo.C20.schema_hypothesis_met
#print axioms Lungo.C20.put_never_panics
#print axioms Lungo.C20.Put_never_panics
#print axioms Lungo.C20.Put_string_never_panics
#print axioms Lungo.C20.match_never_panics
#print axioms Lungo.C20.apply_never_panics
#print axioms Lungo.C20.resolve_never_panics
#print axioms Lungo.C20.projectSlice_never_panics
#print axioms Lungo.C20.projectElemMatch_never_panics
#print axioms Lungo.C20.projProcess_never_panics
#print axioms Lungo.C20.putAll_never_panics
#print axioms Lungo.C20.project_never_panics
#print axioms Lungo.C20.columns_total
#print axioms Lungo.C20.sort_total
#print axioms Lungo.C20.distinct_total
#print axioms Lungo.C20.index_add_never_panics
#print axioms Lungo.C20.index_remove_never_panics
#print axioms Lungo.C20.index_build_never_panics
#print axioms Lungo.C20.newIndex_never_panics
#print axioms Lungo.C20.addToIndexes_never_panics
#print axioms Lungo.C20.removeFromIndexes_never_panics
#print axioms Lungo.C20.filterDocs_never_panics
#print axioms Lungo.C20.selectDocs_never_panics
#print axioms Lungo.C20.coll_insert_never_panics
#print axioms Lungo.C20.coll_replace_never_panics
#print axioms Lungo.C20.coll_update_never_panics
#print axioms Lungo.C20.coll_upsert_never_panics
#print axioms Lungo.C20.coll_delete_never_panics
#print axioms Lungo.C20.coll_createIndex_never_panics
#print axioms Lungo.C20.coll_dropIndex_never_panics
#print axioms Lungo.C20.extract_never_panics
#print axioms Lungo.C20.extractSeq_never_panics
#print axioms Lungo.C20.txn_create_never_panics
#print axioms Lungo.C20.txn_find_never_panics
#print axioms Lungo.C20.insertOne_never_panics
#print axioms Lungo.C20.txn_insert_never_panics
#print axioms Lungo.C20.replaceOp_never_panics
#print axioms Lungo.C20.updateOp_never_panics
#print axioms Lungo.C20.deleteOp_never_panics
#print axioms Lungo.C20.txn_replace_never_panics
#print axioms Lungo.C20.txn_update_never_panics
#print axioms Lungo.C20.txn_delete_never_panics
#print axioms Lungo.C20.txn_bulk_never_panics
#print axioms Lungo.C20.txn_drop_never_panics
#print axioms Lungo.C20.txn_createIndex_never_panics
#print axioms Lungo.C20.txn_dropIndex_never_panics
#print axioms Lungo.C20.txn_dropIndexByKey_never_panics
#print axioms Lungo.C20.txn_listIndexes_never_panics
#print axioms Lungo.C20.txn_count_never_panics
#print axioms Lungo.C20.txn_expire_never_panics
#print axioms Lungo.C20.runCall_never_panics
#print axioms Lungo.C20.step_never_panics
#print axioms Lungo.C20.session_step_never_panics
#print axioms Lungo.C20.session_reply_never_panics
#print axioms Lungo.C20.call_returns_result_or_error
#print axioms Lungo.C20.failed_call_is_noop
#print axioms Lungo.C20.failed_call_is_noop_run
#print axioms Lungo.C20.next_call_served
#print axioms Lungo.C20.session_failed_call_is_noop
#print axioms Lungo.C20.session_next_call_served
#print axioms Lungo.C20.push_position_no_overflow
#print axioms Lungo.C20.push_slice_no_overflow
#print axioms Lungo.C20.push_window_in_range
#print axioms Lungo.C20.put_index_rejected
#print axioms Lungo.C20.put_padding_rejected
#print axioms Lungo.C20.put_index_guard
#print axioms Lungo.C20.resolve_recursion_decreases
#print axioms Lungo.C20.resolve_fuel_sufficient
