/- Axiom audit for C02 (compiled separately; not imported by the library). -/
import Lungo.Props.C02
open Lungo.C02
#print axioms owned_sound
#print axioms owned_sound_strict
#print axioms op_error_preserves
#print axioms op_preserves_old_roots
#print axioms insert_loop
#print axioms bulk_loop
#print axioms items_checked
#print axioms item_effect
#print axioms insertMany_effect
#print axioms bulk_effect
#print axioms neg_no_clone
#print axioms neg_shared_set
#print axioms neg_assign_before_check
#print axioms neg_shared_item_clone
#print axioms Lungo.Expected.expected_owned
#print axioms Lungo.Expected.expected_args
#print axioms Lungo.Expected.bulk_args_not_cloned
#print axioms Lungo.Expected.collFootprint_ok
#print axioms Lungo.Expected.collApply_fresh
#print axioms failed_call_invisible
#print axioms failed_call_views
#print axioms failed_calls_run
