/- Axiom audit for C02 (compiled separately; not imported by the library). -/
import Lungo.Props.C02
open Lungo.C02
#print axioms owned_sound
#print axioms owned_sound_strict
#print axioms op_error_preserves
#print axioms op_preserves_old_roots
