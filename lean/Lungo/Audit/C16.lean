/-
  Axiom audit for C16: compiled separately (`lake env lean Lungo/Audit/C16.lean`), never imported.
  Every theorem of Lungo/Props/C16.lean is listed.
-/
import Lungo.Props.C16

#print axioms Lungo.Conc.C16.token_conservation
#print axioms Lungo.Conc.C16.release_never_panics
#print axioms Lungo.Conc.C16.release_slot_empty
#print axioms Lungo.Conc.C16.single_writer
#print axioms Lungo.Conc.C16.quiescent_free
#print axioms Lungo.Conc.C16.starting_cleared
#print axioms Lungo.Conc.C16.mutex_holder_enabled
#print axioms Lungo.Conc.C16.old_order_shared_session_deadlock
#print axioms Lungo.Conc.C16.old_order_mutex_holder_enabled_fails
#print axioms Lungo.Conc.C16.fixed_order_same_calls_progress
#print axioms Lungo.Conc.C16.closed_stays_closed
#print axioms Lungo.Conc.C16.closed_acquire_never_blocks
#print axioms Lungo.Conc.C16.closed_prompt
#print axioms Lungo.Conc.C16.closed_begin_returns_closed
#print axioms Lungo.Conc.C16.no_deadlock
#print axioms Lungo.Conc.C16.old_order_no_deadlock_fails
