/- Axiom audit for C17 (compiled separately; not imported by the library). -/
import Lungo.Props.C17
import Lungo.Ties.ApiFlow
open Lungo.C17
#print axioms separation
#print axioms caller_writes_invisible
#print axioms args_unchanged
#print axioms separation_erase
#print axioms expected_flow_safe
#print axioms raw_result_leaks
#print axioms raw_entry_leaks
#print axioms raw_entry_modifies_args
#print axioms inv_call
#print axioms inv_step
#print axioms agree_call
#print axioms agree_step
#print axioms Lungo.tie_ApiFlow_apiFlow
#print axioms inv_init
#print axioms writeOne_length
#print axioms applyWrites_length
#print axioms writeOne_rd
#print axioms applyWrites_rd
#print axioms rd_append_left
#print axioms mem_range'
#print axioms inv_runFrom
#print axioms observe_write
#print axioms rd_append_right_eq
#print axioms rd_append_cases
#print axioms set_agree
#print axioms applyWrites_agree
#print axioms agree_observe
#print axioms agree_runFrom
