/-
  Lungo.Audit.C01 — axiom audit of the C01 property theorems.
  Compiled separately (`lake env lean Lungo/Audit/C01.lean`); not imported anywhere.
  Every line must report at most [propext, Classical.choice, Quot.sound].
-/
import Lungo.Props.C01
open Lungo.C01

#print axioms Lungo.C01.abs_init
#print axioms Lungo.C01.abs_get
#print axioms Lungo.C01.select_refines
#print axioms Lungo.C01.uniqueness_refines
#print axioms Lungo.C01.admits_eq_wouldCollide
#print axioms Lungo.C01.refines_find
#print axioms Lungo.C01.refines_findOne
#print axioms Lungo.C01.refines_count
#print axioms Lungo.C01.refines_estCount
#print axioms Lungo.C01.refines_distinct
#print axioms Lungo.C01.refines_listIndexes
#print axioms Lungo.C01.refines_listCollections
#print axioms Lungo.C01.refines_listDatabases
#print axioms Lungo.C01.refines_insertOne
#print axioms Lungo.C01.refines_insertMany
#print axioms Lungo.C01.refines_deleteOne
#print axioms Lungo.C01.refines_deleteMany
#print axioms Lungo.C01.refines_findOneAndDelete
#print axioms Lungo.C01.refines_createCollection
#print axioms Lungo.C01.refines_dropCollection
#print axioms Lungo.C01.refines_dropDatabase
#print axioms Lungo.C01.refines_dropIndex
#print axioms Lungo.C01.refines_dropAllIndexes
#print axioms Lungo.C01.refines_dropIndexByKey
#print axioms Lungo.C01.api_refines_run_from
#print axioms Lungo.C01.api_refines_run
#print axioms Lungo.C01.refines_createIndex
#print axioms Lungo.C01.refines_updateOne
#print axioms Lungo.C01.refines_updateMany
#print axioms Lungo.C01.refines_findOneAndUpdate
#print axioms Lungo.C01.refines_replaceOne
#print axioms Lungo.C01.refines_findOneAndReplace
#print axioms Lungo.C01.refines_bulkWrite
#print axioms Lungo.C01.refines_expire
#print axioms Lungo.C01.handles_distinct
#print axioms Lungo.C01.handles_distinct_step
#print axioms Lungo.C01.api_refines
#print axioms Lungo.C01.okDB_step
