/-
  Lungo.Audit.C07 — axiom audit of the C07 property theorems.
  Compiled separately (`lake env lean Lungo/Audit/C07.lean`); not imported anywhere.
  Every line must report at most [propext, Classical.choice, Quot.sound].
-/
import Lungo.Props.C07
open Lungo.C07

#print axioms Lungo.C07.tupleEq_refl
#print axioms Lungo.C07.tupleEq_symm
#print axioms Lungo.C07.tupleEq_trans
#print axioms Lungo.C07.tuples_ok
#print axioms Lungo.C07.uniqueOk_of_unique
#print axioms Lungo.C07.unique_of_uniqueOk
#print axioms Lungo.C07.id_unique
#print axioms Lungo.C07.unique_new
#print axioms Lungo.C07.uniqueOk_insert
#print axioms Lungo.C07.unique_insert
#print axioms Lungo.C07.uniqueOk_replace
#print axioms Lungo.C07.unique_replace
#print axioms Lungo.C07.uniqueOk_update
#print axioms Lungo.C07.unique_update
#print axioms Lungo.C07.uniqueOk_upsert
#print axioms Lungo.C07.unique_upsert
#print axioms Lungo.C07.unique_delete
#print axioms Lungo.C07.uniqueOk_delete
#print axioms Lungo.C07.unique_createIndex
#print axioms Lungo.C07.uniqueOk_createIndex
#print axioms Lungo.C07.unique_dropIndex
#print axioms Lungo.C07.unique_step
#print axioms Lungo.C07.uniqueOk_run
#print axioms Lungo.C07.unique_run
#print axioms Lungo.C07.unique_txn_bulk
#print axioms Lungo.C07.unique_txn_insert
#print axioms Lungo.C07.reject_sound
#print axioms Lungo.C07.no_spurious_dup
#print axioms Lungo.C07.insert_accepted
#print axioms Lungo.C07.reject_complete
#print axioms Lungo.C07.update_swap_ok
#print axioms unique_runCall
#print axioms unique_sstep
#print axioms unique_sinit
