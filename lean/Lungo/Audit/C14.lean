/-
  Lungo.Audit.C14 — axiom audit of the C14 property theorems.
  Compiled separately (`lake env lean Lungo/Audit/C14.lean`); not imported anywhere.
  Every line must report at most [propext, Classical.choice, Quot.sound].
-/
import Lungo.Props.C14
open Lungo.C14

#print axioms Lungo.C14.project_check_order
#print axioms Lungo.C14.mix_is_error
#print axioms Lungo.C14.mix_is_never_ok
#print axioms Lungo.C14.mix_elemMatch_is_error
#print axioms Lungo.C14.id_exclusion_is_not_mixing
#print axioms Lungo.C14.slice_window_count
#print axioms Lungo.C14.slice_count_formulas
#print axioms Lungo.C14.slice_window_pair
#print axioms Lungo.C14.slice_pair_formulas
#print axioms Lungo.C14.slice_pair_negative_limit
#print axioms Lungo.C14.slice_is_contiguous_sublist
#print axioms Lungo.C14.slice_nonarray
#print axioms Lungo.C14.slice_no_overflow
#print axioms Lungo.C14.slice_argument_is_int64
#print axioms Lungo.C14.slice_project_toplevel
#print axioms Lungo.C14.elemMatch_eligibility
#print axioms Lungo.C14.elemMatch_first
#print axioms Lungo.C14.elemMatch_none
#print axioms Lungo.C14.elemMatch_error
#print axioms Lungo.C14.elemMatch_overlay
#print axioms Lungo.C14.elemMatch_project_toplevel
#print axioms Lungo.C14.exclusion_result
#print axioms Lungo.C14.unset_toplevel
#print axioms Lungo.C14.exclusion_toplevel
#print axioms Lungo.C14.exclusion_toplevel_values
#print axioms Lungo.C14.inclusion_result_toplevel
#print axioms Lungo.C14.newKeys_is_dedup
#print axioms Lungo.C14.stored_value_toplevel
#print axioms Lungo.C14.inclusion_toplevel_values
#print axioms Lungo.C14.inclusion_values_are_stored
#print axioms Lungo.C14.subdocument_unfold
#print axioms Lungo.C14.put_stored_value_keeps_projection
#print axioms Lungo.C14.project_deterministic_order
