/-
  Lungo.Audit.C15 — axiom audit of the C15 property theorems.
  Compiled separately (`lake env lean Lungo/Audit/C15.lean`); not imported anywhere.
  Every line must report at most [propext, Classical.choice, Quot.sound].
-/
import Lungo.Props.C15
open Lungo.C15

#print axioms Lungo.C15.entries_sound
#print axioms Lungo.C15.entries_complete
#print axioms Lungo.C15.entries_once
#print axioms Lungo.C15.nonmember_absent
#print axioms Lungo.C15.coherent_rebuild
#print axioms Lungo.C15.coherent_new
#print axioms Lungo.C15.coherent_insert
#print axioms Lungo.C15.coherent_delete
#print axioms Lungo.C15.coherent_replace
#print axioms Lungo.C15.coherent_update
#print axioms Lungo.C15.coherent_upsert
#print axioms Lungo.C15.coherent_createIndex
#print axioms Lungo.C15.coherent_dropIndex
#print axioms Lungo.C15.delete_never_fails
#print axioms Lungo.C15.create_same_is_noop
#print axioms Lungo.C15.create_conflict_fails
#print axioms Lungo.C15.create_same_key_fails
#print axioms Lungo.C15.drop_spares_id
#print axioms Lungo.C15.drop_id_fails
#print axioms Lungo.C15.drop_by_name
#print axioms Lungo.C15.good_false_iff
#print axioms Lungo.C15.inv_init
#print axioms Lungo.C15.inv_step
#print axioms Lungo.C15.inv_run
#print axioms Lungo.C15.inv_run_from
#print axioms Lungo.C15.coherent_reachable
#print axioms Lungo.C15.id_index_present
#print axioms Lungo.C15.inv_txn_create
#print axioms Lungo.C15.inv_txn_insert
#print axioms Lungo.C15.inv_txn_replace
#print axioms Lungo.C15.inv_txn_update
#print axioms Lungo.C15.inv_txn_delete
#print axioms Lungo.C15.inv_txn_bulk
#print axioms Lungo.C15.inv_txn_drop
#print axioms Lungo.C15.inv_txn_createIndex
#print axioms Lungo.C15.inv_txn_dropIndex
#print axioms Lungo.C15.inv_txn_dropIndexByKey
#print axioms Lungo.C15.inv_txn_expire
#print axioms inv_runCall
#print axioms sgood_false_iff
#print axioms inv_sinit
#print axioms inv_sstep
#print axioms index_list_exact
#print axioms index_list_sorted
#print axioms index_scan_sorted
#print axioms names_distinct
#print axioms lookup_iff_mem
