import Lungo.Props.C10
open Lungo.C10
#print axioms nor_is_not_or
#print axioms ne_is_not_eq
#print axioms nin_is_not_in
#print axioms not_is_negation
#print axioms and_is_conj
#print axioms or_is_disj
#print axioms doc_is_and
#print axioms in_is_disj_eq
#print axioms all_is_conj_eq
#print axioms ordering_ne_lt
#print axioms ordering_ne_gt
#print axioms gte_is_gt_or_eq
#print axioms lte_is_lt_or_eq
#print axioms match_total
