import Lungo.Props.C18
#print axioms Lungo.C18.upload_chunks
#print axioms Lungo.C18.upload_partition_independent
#print axioms Lungo.C18.download_simulates
#print axioms Lungo.C18.upload_then_download
#print axioms Lungo.C18.abort_leaves_nothing
#print axioms Lungo.C18.delete_leaves_nothing
#print axioms Lungo.C18.resume_equivalent
#print axioms Lungo.C18.seek_invalid_whence
#print axioms Lungo.C18.delete_tracked_leaves_nothing
