import Lungo.Props.C09
open Lungo.StreamTS

#print axioms committed_ids
#print axioms oplog_suffix
#print axioms recv_enabled
#print axioms no_lost_wakeup
#print axioms no_lost_wakeup_event
#print axioms no_lost_wakeup_gap
#print axioms wake_by_ctx
#print axioms wake_by_engine_close
#print axioms engine_close_visit
#print axioms no_send_on_closed
#print axioms delivered_exact
#print axioms lost_position_explicit_partial
#print axioms lost_lookup_fails
#print axioms lost_error_truthful
#print axioms delivered_exact_ids
#print axioms no_skip
#print axioms delivered_in_order_once
#print axioms resume_next
#print axioms resume_first
#print axioms dropped_iff_last_delivered
#print axioms invalidate_on_drop
#print axioms nothing_after_drop
#print axioms invalidated_closed
#print axioms invalidated_stable
#print axioms nothing_after_close
#print axioms lost_position_explicit_fails_for_nil_last
#print axioms start_time_before_oplog_skips_silently
#print axioms single_consumer_needed
#print axioms mem_expected
