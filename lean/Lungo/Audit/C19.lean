import Lungo.Props.C19
open Lungo.C19
#print axioms get?_of_mem
#print axioms expire_spec
#print axioms expired_iff
#print axioms expire_iff
#print axioms non_date_untouched
#print axioms newer_date_untouched
#print axioms no_ttl_untouched
#print axioms expire_logs_deletes
#print axioms map_sum_zero
#print axioms expire_noop_unchanged
#print axioms ttl_single_field
#print axioms columns_paths
#print axioms newIndex_key_plain
#print axioms newColl_ttl_plain
#print axioms createIndex_keeps_ttl_plain
