/-
  Lungo.Proofs.NoPanic — the model of Match / Apply never reports a Go panic (`Err.panic`),
  provided the `$jsonSchema` evaluator parameter does not. Used by C11 (and C20).
-/
import Lungo.Model.Apply
import Lungo.Proofs.AccessLaws
namespace Lungo

/-- "this result is not a panic". -/
def NP {α} (r : Res α) : Prop := ∀ site, r ≠ .error (.panic site)

theorem NP_ok {α} (a : α) : NP (.ok a : Res α) := by intro s h; cases h
theorem NP_err {α} : NP (.error .err : Res α) := by intro s h; cases h
theorem NP_notMatched {α} : NP (.error .notMatched : Res α) := by intro s h; cases h
theorem NP_unmodelled {α} (w : String) : NP (.error (.unmodelled w) : Res α) := by intro s h; cases h

theorem NP_of_error {α β} {r : Res α} (h : NP r) {e : Err} (he : r = .error e) : NP (.error e : Res β) := by
  intro s h'; cases h'; exact h s he

theorem NP_notMatched' : NP notMatched := NP_notMatched

theorem negate_np {r : Res Unit} (h : NP r) : NP (negate r) := by
  intro s h'
  unfold negate at h'
  split at h'
  · cases h'
  · cases h'
  · rename_i e _
    cases h'
    exact h s rfl

theorem unwindLoop_np (op : V → Res Unit) (hop : ∀ f, NP (op f)) (xs : List V) (r : Res Unit)
    (h : unwindLoop op xs = some r) : NP r := by
  induction xs with
  | nil => simp [unwindLoop] at h
  | cons f rest ih =>
    unfold unwindLoop at h
    split at h
    · exact ih h
    · rename_i e hne he
      cases h
      exact NP_of_error (hop f) he
    · cases h; exact NP_ok _

theorem matchUnwind_np (d : Doc) (path : String) (merge ym : Bool) (op : V → Res Unit)
    (hop : ∀ f, NP (op f)) : NP (matchUnwind d path merge ym op) := by
  unfold matchUnwind
  generalize All d (splitPath path) true merge = r
  obtain ⟨value, multi⟩ := r
  simp only
  split
  · rename_i r hr
    split at hr
    · exact unwindLoop_np op hop _ _ hr
    · cases hr
  · split
    · exact hop _
    · exact NP_notMatched

/-- closes `NP (...)` goals made of nested matches / ifs whose leaves are `.ok`, `.error .err`,
    `.error .notMatched`. -/
macro "np_leaves" : tactic =>
  `(tactic| (intro site h; (repeat' (first | (cases h; done) | split at h | (simp only [notMatched] at h; done) | simp only [notMatched] at h)) <;> try contradiction))

theorem matchComp_np (d : Doc) (op path : String) (v : V) : NP (matchComp d op path v) := by
  unfold matchComp
  apply matchUnwind_np
  intro f
  np_leaves

theorem matchIn_np (d : Doc) (path : String) (v : V) : NP (matchIn d path v) := by
  unfold matchIn
  apply matchUnwind_np
  intro f
  np_leaves

theorem matchExists_np (d : Doc) (path : String) (v : V) : NP (matchExists d path v) := by
  unfold matchExists
  np_leaves

theorem resolveType_np (v : V) : NP (resolveType v) := by
  unfold resolveType
  np_leaves

theorem resolveTypes_np (vs : List V) : NP (resolveTypes vs) := by
  induction vs with
  | nil => exact NP_ok _
  | cons o r ih =>
    unfold resolveTypes
    split
    · rename_i e he; exact NP_of_error (resolveType_np o) he
    · split
      · rename_i e he; exact NP_of_error ih he
      · exact NP_ok _

theorem matchType_np (d : Doc) (path : String) (v : V) : NP (matchType d path v) := by
  unfold matchType
  simp only
  split
  · rename_i e he
    intro s h; cases h
    split at he
    · split at he <;> cases he
    · cases he
  · split
    · rename_i e he; exact NP_of_error (resolveTypes_np _) he
    · apply matchUnwind_np
      intro f
      np_leaves

theorem allLoop_np (d : Doc) (path : String) (vs : List V) : NP (allLoop d path vs) := by
  induction vs with
  | nil => exact NP_ok _
  | cons item r ih =>
    unfold allLoop
    split
    · rename_i e he; exact NP_of_error (matchComp_np d "$eq" path item) he
    · exact ih

theorem matchAll_np (d : Doc) (path : String) (v : V) : NP (matchAll d path v) := by
  unfold matchAll
  split
  · split
    · exact NP_notMatched
    · exact allLoop_np _ _ _
  · exact NP_err

theorem intArg_np (v : V) : NP (intArg v) := by
  unfold intArg
  np_leaves

theorem matchSize_np (d : Doc) (path : String) (v : V) : NP (matchSize d path v) := by
  unfold matchSize
  split
  · rename_i e he; exact NP_of_error (intArg_np v) he
  · np_leaves

theorem modOperand_np (v : V) : NP (modOperand v) := by
  unfold modOperand
  np_leaves

theorem matchMod_np (d : Doc) (path : String) (v : V) : NP (matchMod d path v) := by
  unfold matchMod
  split
  · split
    · rename_i e he; exact NP_of_error (modOperand_np _) he
    · split
      · rename_i e he; exact NP_of_error (modOperand_np _) he
      · split
        · exact NP_err
        · apply matchUnwind_np
          intro f
          np_leaves
  · exact NP_err

theorem bitPosition_np (v : V) : NP (bitPosition v) := by
  unfold bitPosition
  np_leaves

theorem bitPositions_np (vs : List V) : NP (bitPositions vs) := by
  induction vs with
  | nil => exact NP_ok _
  | cons o r ih =>
    unfold bitPositions
    split
    · rename_i e he; exact NP_of_error (bitPosition_np o) he
    · split
      · rename_i e he; exact NP_of_error ih he
      · exact NP_ok _

theorem parseBitMask_np (v : V) : NP (parseBitMask v) := by
  unfold parseBitMask
  split
  all_goals first | exact bitPositions_np _ | np_leaves

theorem matchBits_np (d : Doc) (op path : String) (v : V) : NP (matchBits d op path v) := by
  unfold matchBits
  split
  · rename_i e he; exact NP_of_error (parseBitMask_np v) he
  · apply matchUnwind_np
    intro f
    np_leaves

theorem leafOp_np (d : Doc) (op path : String) (v : V) (r : Res Unit)
    (h : leafOp d op path v = some r) : NP r := by
  unfold leafOp at h
  split at h <;> cases h
  all_goals first
    | exact matchComp_np _ _ _ _
    | exact negate_np (matchComp_np _ _ _ _)
    | exact matchIn_np _ _ _
    | exact negate_np (matchIn_np _ _ _)
    | exact matchExists_np _ _ _
    | exact matchType_np _ _ _
    | exact matchAll_np _ _ _
    | exact matchSize_np _ _ _
    | exact matchBits_np _ _ _ _
    | exact matchMod_np _ _ _

theorem elemLoop_np (f : V → Res Unit) (hf : ∀ x, NP (f x)) (xs : List V) : NP (elemLoop f xs) := by
  induction xs with
  | nil => exact NP_notMatched
  | cons item r ih =>
    unfold elemLoop
    split
    · exact ih
    · rename_i e hne he; exact NP_of_error (hf item) he
    · exact NP_ok _

/-! ### the mutually recursive matcher -/

set_option linter.unusedSimpArgs false

theorem NP_bind_unit {r : Res Unit} {k : Res Unit} (hr : NP r) (hk : NP k) :
    NP (match r with | .error e => .error e | .ok _ => k) := by
  intro s h
  split at h
  · cases h; exact hr s rfl
  · exact hk s h

theorem match_np_all (sch : SchemaEval) (hs : ∀ a b, NP (sch a b)) :
    (∀ d op path v, NP (mOp sch d op path v)) ∧
    (∀ d query pfx root, NP (mProcess sch d query pfx root)) ∧
    (∀ d pfx key value root, NP (mExpr sch d pfx key value root)) ∧
    (∀ d path exps, NP (mOps sch d path exps)) ∧
    (∀ d items, NP (mOrLoop sch d items)) ∧
    (∀ d items, NP (mAndLoop sch d items)) ∧
    (∀ d path query, NP (mNotLoop sch d path query)) := by
  apply mOp.mutual_induct sch
    (motive1 := fun d op path v => NP (mOp sch d op path v))
    (motive2 := fun d query pfx root => NP (mProcess sch d query pfx root))
    (motive3 := fun d pfx key value root => NP (mExpr sch d pfx key value root))
    (motive4 := fun d path exps => NP (mOps sch d path exps))
    (motive5 := fun d items => NP (mOrLoop sch d items))
    (motive6 := fun d items => NP (mAndLoop sch d items))
    (motive7 := fun d path query => NP (mNotLoop sch d path query))
  all_goals intros
  all_goals
    first
    | (unfold mOp; simp_all (config := {}) [NP_err, NP_ok, NP_notMatched']; done)
    | (unfold mProcess; simp_all (config := {}) [NP_err, NP_ok, NP_notMatched']; done)
    | (unfold mExpr; simp_all (config := {}) [NP_err, NP_ok, NP_notMatched']; done)
    | (unfold mOps; simp_all (config := {}) [NP_err, NP_ok, NP_notMatched']; done)
    | (unfold mOrLoop; simp_all (config := {}) [NP_err, NP_ok, NP_notMatched']; done)
    | (unfold mAndLoop; simp_all (config := {}) [NP_err, NP_ok, NP_notMatched']; done)
    | (unfold mNotLoop; simp_all (config := {}) [NP_err, NP_ok, NP_notMatched']; done)
    | skip
  · -- leaf operator
    rename_i d op path v r hl
    unfold mOp; simp only [hl]; exact leafOp_np _ _ _ _ _ hl
  · -- $elemMatch over an array
    rename_i d op path hn he query hq multi arr hl hall ih
    unfold mOp; simp only [hl, hn, he, hq, hall, if_true, if_false, Bool.false_eq_true]
    apply elemLoop_np
    intro x
    split
    · exact NP_notMatched
    · exact ih x
  · -- $nor
    rename_i d pfx key value hk h1 h2 h3 ih
    unfold mExpr; simp only [hk, h1, h2, h3, if_true, if_false, Bool.false_eq_true]
    apply negate_np
    split
    · split
      · exact NP_err
      · rename_i array _; exact ih
    · exact NP_err
  · -- field condition with an operator document
    rename_i d pfx key root hk path k0 v0 exps h0 ih
    unfold mExpr; simp only [hk, h0, if_true, if_false, Bool.false_eq_true]
    exact ih
  · rename_i d pfx key root hk k0 v0 exps h0
    unfold mExpr; simp only [hk, h0, if_false, Bool.false_eq_true]
    exact matchComp_np _ _ _ _
  · rename_i d pfx key value root hk hv
    unfold mExpr; simp only [hk, if_false, Bool.false_eq_true]
    exact matchComp_np _ _ _ _

/-- `match_never_panics`: mongokit.Match reports no panic when the `$jsonSchema` evaluator doesn't. -/
theorem Match_np (sch : SchemaEval) (hs : ∀ a b, NP (sch a b)) (d q : Doc) : NP (Match sch d q) := by
  intro s h
  unfold Match at h
  split at h
  · cases h
  · cases h
  · rename_i e _ he
    cases h
    exact (match_np_all sch hs).2.1 d q "" true s he

/-! ### the update operators -/

theorem record_np (s : AState) (path : String) (v : V) : NP (record s path v) := by
  unfold record; np_leaves

theorem Put_np (d : Doc) (p : Path) (x : V) (pre : Bool) (hp : p ≠ []) : NP (Put d p x pre) := by
  intro site h
  cases Put_error_err d p x pre _ hp h

theorem putRec_np (s : AState) (path : String) (v : V) : NP (putRec s path v) := by
  unfold putRec
  intro site h
  split at h
  · rename_i e he; cases h; exact Put_np _ _ _ _ (splitPath_ne_nil path) _ he
  · exact record_np _ _ _ _ h

theorem addOrErr_np (r : Option V) : NP (addOrErr r) := by
  unfold addOrErr; np_leaves

theorem pushSort_cols_np (s : List (String × V)) : NP (pushSort.cols s) := by
  induction s with
  | nil => exact NP_ok _
  | cons kv r ih =>
    obtain ⟨k, v⟩ := kv
    unfold pushSort.cols
    split
    · rename_i e he; exact NP_of_error (intArg_np v) he
    · split
      · exact NP_err
      · split
        · rename_i e he; exact NP_of_error ih he
        · exact NP_ok _

theorem pushSort_np (arr : List V) (spec : V) : NP (pushSort arr spec) := by
  unfold pushSort
  simp only
  split
  all_goals first | (np_leaves; done) | skip
  split
  · rename_i e he; exact NP_of_error (pushSort_cols_np _) he
  · np_leaves

theorem pullMatches_np (sch : SchemaEval) (hs : ∀ a b, NP (sch a b)) (el cond : V) :
    NP (pullMatches sch el cond) := by
  unfold pullMatches
  split
  · simp only
    split
    · exact Match_np sch hs _ _
    · split
      · exact Match_np sch hs _ _
      · exact NP_ok _
  · exact NP_ok _

theorem pullFilter_np (sch : SchemaEval) (hs : ∀ a b, NP (sch a b)) (cond : V) (xs : List V) :
    NP (pullFilter sch cond xs) := by
  induction xs with
  | nil => exact NP_ok _
  | cons item r ih =>
    unfold pullFilter
    split
    · rename_i e he; exact NP_of_error (pullMatches_np sch hs _ _) he
    · split
      · rename_i e he; exact NP_of_error ih he
      · split <;> exact NP_ok _

theorem parsePushMods_np (d : Doc) (m : PushMods) : NP (parsePushMods d m) := by
  induction d generalizing m with
  | nil => exact NP_ok _
  | cons kv r ih =>
    obtain ⟨k, v⟩ := kv
    unfold parsePushMods
    split
    · split
      · exact ih _
      · exact NP_err
    · split
      · exact ih _
      · split
        · exact ih _
        · split
          · exact ih _
          · exact NP_err

theorem parseAddToSetMods_np (d : Doc) (vals : List V) : NP (parseAddToSetMods d vals) := by
  induction d generalizing vals with
  | nil => exact NP_ok _
  | cons kv r ih =>
    obtain ⟨k, v⟩ := kv
    unfold parseAddToSetMods
    split
    · exact NP_err
    · split
      · exact ih _
      · exact NP_err

theorem recs_np (path : String) (s : AState) (i : Nat) (vals : List V) :
    NP (applyOp.recs path s i vals) := by
  induction vals generalizing s i with
  | nil => exact NP_ok _
  | cons val r ih =>
    unfold applyOp.recs
    split
    · rename_i e he; exact NP_of_error (record_np _ _ _) he
    · exact ih _ _

section
variable (sch : SchemaEval) (hs : ∀ a b, NP (sch a b))

theorem record_panic (s : AState) (p : String) (v : V) (x : String) :
    (record s p v = .error (.panic x)) = False := eq_false (record_np s p v x)
theorem putRec_panic (s : AState) (p : String) (v : V) (x : String) :
    (putRec s p v = .error (.panic x)) = False := eq_false (putRec_np s p v x)
theorem Put_panic (d : Doc) (p : String) (v : V) (pre : Bool) (x : String) :
    (Put d (splitPath p) v pre = .error (.panic x)) = False :=
  eq_false (Put_np d _ v pre (splitPath_ne_nil p) x)
theorem addOrErr_panic (r : Option V) (x : String) :
    (addOrErr r = .error (.panic x)) = False := eq_false (addOrErr_np r x)
theorem pushIntModifier_panic (v : V) (x : String) :
    (pushIntModifier v = .error (.panic x)) = False := eq_false (intArg_np v x)
theorem pushSort_panic (a : List V) (v : V) (x : String) :
    (pushSort a v = .error (.panic x)) = False := eq_false (pushSort_np a v x)
theorem parsePushMods_panic (d : Doc) (m : PushMods) (x : String) :
    (parsePushMods d m = .error (.panic x)) = False := eq_false (parsePushMods_np d m x)
theorem parseAddToSetMods_panic (d : Doc) (m : List V) (x : String) :
    (parseAddToSetMods d m = .error (.panic x)) = False := eq_false (parseAddToSetMods_np d m x)
theorem recs_panic (path : String) (s : AState) (i : Nat) (vals : List V) (x : String) :
    (applyOp.recs path s i vals = .error (.panic x)) = False := eq_false (recs_np path s i vals x)
include hs in
theorem pullFilter_panic (cond : V) (xs : List V) (x : String) :
    (pullFilter sch cond xs = .error (.panic x)) = False := eq_false (pullFilter_np sch hs cond xs x)
end

syntax "np_at " ident : tactic
macro_rules
  | `(tactic| np_at $h:ident) => `(tactic|
      repeat' (first
        | (cases $h:ident; done)
        | contradiction
        | split at $h:ident
        | (simp only [record_panic, putRec_panic, Put_panic, addOrErr_panic, pushIntModifier_panic,
             pushSort_panic, parsePushMods_panic, parseAddToSetMods_panic, recs_panic] at $h:ident; done)))

theorem applyOp_np (c : ACtx) (hs : ∀ a b, NP (c.sch a b)) (s : AState) (op path : String) (v : V) :
    NP (applyOp c s op path v) := by
  intro site h
  unfold applyOp at h
  simp only [] at h
  have hpf := pullFilter_panic c.sch hs
  split at h
  all_goals np_at h
  all_goals (cases h; rename_i heq; np_at heq)
  all_goals first
    | (rw [hpf] at heq; exact heq)
    | (cases heq; rename_i heq2; np_at heq2)

/-! ### resolve and Apply -/

theorem anyFilter_np (sch : SchemaEval) (hs : ∀ a b, NP (sch a b)) (id : String) (item : V) (fs : List Doc) :
    NP (anyFilter sch id item fs) := by
  induction fs with
  | nil => exact NP_ok _
  | cons f r ih =>
    unfold anyFilter
    split
    · rename_i e he; exact NP_of_error (Match_np sch hs _ _) he
    · exact NP_ok _
    · exact ih

theorem loopIdx_np (f : Nat → V → Res (Option (List String))) (hf : ∀ i x, NP (f i x)) (i : Nat) (xs : List V) :
    NP (loopIdx f i xs) := by
  induction xs generalizing i with
  | nil => exact NP_ok _
  | cons item r ih =>
    unfold loopIdx
    split
    · rename_i e he; exact NP_of_error (hf _ _) he
    · exact ih _
    · split
      · rename_i e he; exact NP_of_error (ih _) he
      · exact NP_ok _

theorem resolve_np (sch : SchemaEval) (hs : ∀ a b, NP (sch a b)) (fuel : Nat) (path : String) (doc : Doc)
    (afs : List Doc) : NP (resolve sch fuel path doc afs) := by
  induction fuel generalizing path with
  | zero => unfold resolve; exact NP_err
  | succ n ih =>
    unfold resolve
    split
    · exact NP_ok _
    · exact NP_err
    · split
      · split
        · exact NP_err
        · split
          · exact NP_err
          · simp only
            split
            · apply loopIdx_np
              intro i x
              split
              · rename_i e he; exact NP_of_error (ih _) he
              · exact NP_ok _
            · split
              · exact NP_err
              · apply loopIdx_np
                intro i x
                split
                · rename_i e he; exact NP_of_error (anyFilter_np sch hs _ _ _) he
                · exact NP_ok _
                · split
                  · rename_i e he; exact NP_of_error (ih _) he
                  · exact NP_ok _
      · exact NP_err

theorem Apply_each_np (c : ACtx) (hs : ∀ a b, NP (c.sch a b)) (op : String) (value : V) (s : AState)
    (ps : List String) : NP (Apply.conds.each c op value s ps) := by
  induction ps generalizing s with
  | nil => exact NP_ok _
  | cons p r ih =>
    unfold Apply.conds.each
    split
    · rename_i e he; exact NP_of_error (applyOp_np c hs _ _ _ _) he
    · exact ih _

theorem Apply_conds_np (c : ACtx) (hs : ∀ a b, NP (c.sch a b)) (afs : List Doc) (s : AState) (op : String)
    (upd : List (String × V)) : NP (Apply.conds c afs s op upd) := by
  induction upd generalizing s with
  | nil => exact NP_ok _
  | cons kv r ih =>
    obtain ⟨key, value⟩ := kv
    unfold Apply.conds
    split
    · rename_i e he; exact NP_of_error (resolve_np c.sch hs _ _ _ _) he
    · split
      · rename_i e he; exact NP_of_error (Apply_each_np c hs _ _ _ _) he
      · exact ih _

theorem Apply_ops_np (c : ACtx) (hs : ∀ a b, NP (c.sch a b)) (afs : List Doc) (s : AState)
    (upd : List (String × V)) : NP (Apply.ops c afs s upd) := by
  induction upd generalizing s with
  | nil => exact NP_ok _
  | cons kv r ih =>
    obtain ⟨key, value⟩ := kv
    unfold Apply.ops
    split
    · split
      · exact NP_err
      · split
        · split
          · rename_i e he; exact NP_of_error (Apply_conds_np c hs _ _ _ _) he
          · exact ih _
        · exact NP_err
    · exact NP_err

/-- `apply_never_panics` -/
theorem Apply_np (c : ACtx) (hs : ∀ a b, NP (c.sch a b)) (d u : Doc) (afs : List Doc) :
    NP (Apply c d u afs) := by
  unfold Apply
  split
  · exact NP_err
  · split
    · exact NP_err
    · split
      · rename_i e he; exact NP_of_error (Apply_ops_np c hs _ _ _) he
      · exact NP_ok _

end Lungo
