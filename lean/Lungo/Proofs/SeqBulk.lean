/-
  Lungo.Proofs.SeqBulk — C01: bulkWrite. The operations in order, each with the semantics of the
  single calls (`insertOne_abs`, `replaceOp_abs`, `updateOp_abs`, `deleteOp_abs`); ordered stops at
  the first failing one, unordered continues; the reply's counts are sums over the successful
  operations, upserted ids and errors are keyed by operation index.
-/
import Lungo.Proofs.SeqReplace
namespace Lungo.SeqRef
open Lungo Lungo.Spec

variable {sch : SchemaEval}

/-- one operation of `Transaction.Bulk` -/
def opStep (ac : ACtx) (cat : Catalog) (h : Handle) (op : Operation) (nu : Nu) : Res (Catalog × TResult × Nu) :=
  match op.opcode with
  | .insert => match insertOne ac.sch cat h op.document nu with
    | .error e => .error e
    | .ok (c, d, n) => .ok (c, { modified := [d] }, n)
  | .replace => replaceOp ac cat h op.filter op.document op.sort op.upsert nu
  | .update => updateOp ac cat h op.filter op.document op.sort op.upsert op.skip op.limit op.arrayFilters nu
  | .delete => deleteOp ac.sch cat h op.filter op.sort op.skip op.limit nu

theorem bulk_go_cons (ac : ACtx) (h : Handle) (ordered : Bool) (cat : Catalog) (nu : Nu) (acc : List TResult)
    (ch : Nat) (op : Operation) (r : List Operation) :
    Txn.bulk.go ac h ordered cat nu acc ch (op :: r) =
      match opStep ac cat h op nu with
      | .error e =>
        if ordered then (cat, nu, acc ++ [{ error := some e }], ch)
        else Txn.bulk.go ac h ordered cat nu (acc ++ [{ error := some e }]) ch r
      | .ok (cat', tr, nu') =>
        Txn.bulk.go ac h ordered cat' nu' (acc ++ [tr])
          (ch + (tr.modified.length + (if tr.upserted.isSome then 1 else if op.opcode == .delete then tr.matched.length else 0))) r := by
  rw [Txn.bulk.go]
  rfl

theorem deleteOp_oids {cat cat' : Catalog} {h : Handle} {q : Doc} {sort : Option Doc} {skip limit : Int}
    {nu nu' : Nu} {r : TResult} (e : deleteOp sch cat h q sort skip limit nu = .ok (cat', r, nu')) :
    nu'.oids = nu.oids := by
  unfold deleteOp at e
  simp only at e
  split at e
  · cases e
  · rename_i coll list _
    simp only [Except.ok.injEq, Prod.mk.injEq] at e
    obtain ⟨_, _, rfl⟩ := e
    exact fold_append_oids
      (fun (cn : Catalog × Nu) (sd : SDoc) => appendOplog cn.1 cn.2 h "delete" (some sd.doc) none)
      (fun cn a => ⟨h, "delete", some a.doc, none, rfl⟩) list (cat.set h coll, nu)

/-- what one bulk operation needs to know about its arguments, on the Spec's state -/
def BulkOneOk (ac : ACtx) (db : SeqDB) (h : Handle) (oids : List V) : BulkModel → Prop
  | .insertOne d => DocOk d ∧ ∀ o ∈ oids, o.i64Ok = true
  | .replaceOne q r up => ReplaceOk ac db h q r up oids
  | .updateOne q u up fs => UpdateOk ac db h q u up fs oids
  | .updateMany q u up fs => UpdateOk ac db h q u up fs oids
  | .deleteOne q => QueryOk ac.sch db h q
  | .deleteMany q => QueryOk ac.sch db h q

/-- one bulk operation = the Spec's `bulkOne` -/
theorem bulkOne_abs {ac : ACtx} {cat : Catalog} {nu : Nu} (g : Good ac.sch true cat nu.nextId)
    (ok : OkDB (abs cat)) {h : Handle} (hne : h ≠ oplogHandle) (m : BulkModel)
    (hw : BulkOneOk ac (abs cat) h nu.oids m) :
    (opStep ac cat h m.toOp nu).map (fun r => (abs r.1, r.2.1, r.2.2.oids)) =
      bulkOne ac (abs cat) h nu.oids m := by
  cases m with
  | insertOne d =>
    simp only [opStep, BulkModel.toOp, bulkOne]
    rw [← insertOne_abs g.1 hne ok hw.1 hw.2]
    cases insertOne ac.sch cat h d nu with
    | error e => rfl
    | ok r => rfl
  | replaceOne q r up =>
    simp only [opStep, BulkModel.toOp, bulkOne]
    exact replaceOp_abs g ok hne q r none up hw
  | updateOne q u up fs =>
    simp only [opStep, BulkModel.toOp, bulkOne]
    exact updateOp_abs g ok hne q u none up 0 1 fs hw
  | updateMany q u up fs =>
    simp only [opStep, BulkModel.toOp, bulkOne]
    exact updateOp_abs g ok hne q u none up 0 0 fs hw
  | deleteOne q =>
    simp only [opStep, BulkModel.toOp, bulkOne]
    rw [← deleteOp_abs g ok hne q none 0 1 nu hw]
    cases hd : deleteOp ac.sch cat h q none 0 1 nu with
    | error e => rfl
    | ok r =>
      obtain ⟨cat', res, nu'⟩ := r
      simp only [Except.map, deleteOp_oids hd]
  | deleteMany q =>
    simp only [opStep, BulkModel.toOp, bulkOne]
    rw [← deleteOp_abs g ok hne q none 0 0 nu hw]
    cases hd : deleteOp ac.sch cat h q none 0 0 nu with
    | error e => rfl
    | ok r =>
      obtain ⟨cat', res, nu'⟩ := r
      simp only [Except.map, deleteOp_oids hd]

theorem opStep_good {ac : ACtx} {cat cat' : Catalog} {h : Handle} {op : Operation} {nu nu' : Nu} {tr : TResult}
    (g : Good ac.sch true cat nu.nextId) (hne : h ≠ oplogHandle)
    (e : opStep ac cat h op nu = .ok (cat', tr, nu')) : Good ac.sch true cat' nu'.nextId := by
  unfold opStep at e
  split at e
  · split at e
    · cases e
    · rename_i c d n hi
      simp only [Except.ok.injEq, Prod.mk.injEq] at e
      obtain ⟨rfl, _, rfl⟩ := e
      exact (Good.insertOne g hne hi).1
  · exact (Good.replaceOp g hne e).1
  · exact (Good.updateOp g hne e).1
  · exact (Good.deleteOp g (g.ensureNs hne) e).1

theorem changesOf_eq (m : BulkModel) (tr : TResult) :
    changesOf m tr =
      tr.modified.length + (if tr.upserted.isSome then 1 else if m.toOp.opcode == .delete then tr.matched.length else 0) := by
  cases m <;> rfl

/-- along a bulk, judged on the Spec's states: every operation is well-formed where it is executed -/
def BulkOk (ac : ACtx) (h : Handle) (ordered : Bool) : SeqDB → List V → List BulkModel → Prop
  | _, _, [] => True
  | db, oids, m :: r =>
    OkDB db ∧ BulkOneOk ac db h oids m ∧
      (match bulkOne ac db h oids m with
       | .error _ => ordered = false → BulkOk ac h ordered db oids r
       | .ok (db', _, oids') => BulkOk ac h ordered db' oids' r)

/-- the loop of `Transaction.Bulk` = the Spec's `bulkAll` -/
theorem bulk_go_abs {ac : ACtx} {h : Handle} (ordered : Bool) (hne : h ≠ oplogHandle) :
    ∀ (ms : List BulkModel) (cat : Catalog) (nu : Nu) (acc : List TResult) (ch : Nat),
      Good ac.sch true cat nu.nextId → BulkOk ac h ordered (abs cat) nu.oids ms →
      bulkAll ac h ordered (abs cat) nu.oids acc ch ms =
        (abs (Txn.bulk.go ac h ordered cat nu acc ch (ms.map BulkModel.toOp)).1,
         (Txn.bulk.go ac h ordered cat nu acc ch (ms.map BulkModel.toOp)).2.2.1,
         (Txn.bulk.go ac h ordered cat nu acc ch (ms.map BulkModel.toOp)).2.2.2)
  | [], cat, nu, acc, ch, _, _ => by simp [Txn.bulk.go, bulkAll]
  | m :: r, cat, nu, acc, ch, g, hb => by
    obtain ⟨ok, hw, hrest⟩ := hb
    have hone := bulkOne_abs g ok hne m hw
    rw [List.map_cons, bulk_go_cons, bulkAll]
    rw [← hone] at hrest ⊢
    cases hs : opStep ac cat h m.toOp nu with
    | error e =>
      rw [hs] at hrest
      simp only [Except.map] at hrest ⊢
      cases ordered with
      | true => simp
      | false =>
        simp only [Bool.false_eq_true, ↓reduceIte]
        exact bulk_go_abs false hne r cat nu _ ch g (hrest rfl)
    | ok res =>
      obtain ⟨cat', tr, nu'⟩ := res
      rw [hs] at hrest
      simp only [Except.map] at hrest ⊢
      rw [changesOf_eq]
      exact bulk_go_abs ordered hne r cat' nu' _ _ (opStep_good g hne hs) hrest

/-! ### the reply: the implementation's left fold = the Spec's sums -/

/-- the step of the fold in `runCall (.bulkWrite …)` -/
def mstep (acc : Reply) (x : Nat × TResult × Operation) : Reply :=
  match acc with
  | .bulk ins mat mod del ups uids errs =>
    match x.2.1.error with
    | some e => .bulk ins mat mod del ups uids (errs ++ [(x.1, e)])
    | none =>
      match x.2.2.opcode with
      | .insert => .bulk (ins + x.2.1.modified.length) mat mod del ups uids errs
      | .delete => .bulk ins mat mod (del + x.2.1.matched.length) ups uids errs
      | _ =>
        match x.2.1.upserted with
        | some d => .bulk ins (mat + x.2.1.matched.length) (mod + x.2.1.modified.length) del (ups + 1) (uids ++ [(x.1, Get d "_id")]) errs
        | none => .bulk ins (mat + x.2.1.matched.length) (mod + x.2.1.modified.length) del ups uids errs
  | other => other

theorem foldl_add_init : ∀ (l : List Nat) (n : Nat), l.foldl (· + ·) n = n + l.foldl (· + ·) 0
  | [], n => by simp
  | a :: r, n => by
    simp only [List.foldl_cons]
    rw [foldl_add_init r (n + a), foldl_add_init r (0 + a)]
    omega

theorem sumBy_cons {α} (f : α → Nat) (x : α) (l : List α) : sumBy f (x :: l) = f x + sumBy f l := by
  simp only [sumBy, List.map_cons, List.foldl_cons]
  rw [foldl_add_init]
  omega

theorem sumBy_nil {α} (f : α → Nat) : sumBy f ([] : List α) = 0 := rfl

abbrev Row := Nat × TResult × BulkModel

def rowGood (x : Row) : Bool := x.2.1.error.isNone
def rowWrite (x : Row) : Bool := !BulkModel.isInsert x.2.2 && !BulkModel.isDelete x.2.2

/-- the Spec's reply over the rows (operation index, result, operation) -/
def tallyRows (rows : List Row) : Reply :=
  let good := rows.filter fun (_, r, _) => r.error.isNone
  let writes := good.filter fun (_, _, m) => !BulkModel.isInsert m && !BulkModel.isDelete m
  .bulk
    (sumBy (fun (_, r, _) => r.modified.length) (good.filter fun (_, _, m) => BulkModel.isInsert m))
    (sumBy (fun (_, r, _) => r.matched.length) writes)
    (sumBy (fun (_, r, _) => r.modified.length) writes)
    (sumBy (fun (_, r, _) => r.matched.length) (good.filter fun (_, _, m) => BulkModel.isDelete m))
    (writes.filter fun (_, r, _) => r.upserted.isSome).length
    (writes.filterMap fun (i, r, _) => r.upserted.map fun d => (i, Get d "_id"))
    (rows.filterMap fun (i, r, _) => r.error.map fun e => (i, e))

theorem bulkReply_eq (ms : List BulkModel) (rs : List TResult) :
    bulkReply ms rs = tallyRows ((List.range rs.length).zip (rs.zip ms)) := rfl

/-- a reply with the counts of `b` added to those of `a` (lists appended) -/
def addReply : Reply → Reply → Reply
  | .bulk a b c d e u er, .bulk a' b' c' d' e' u' er' =>
    .bulk (a + a') (b + b') (c + c') (d + d') (e + e') (u ++ u') (er ++ er')
  | x, _ => x

theorem tally_cons (x : Row) (rows : List Row) :
    tallyRows (x :: rows) = addReply (tallyRows [x]) (tallyRows rows) := by
  obtain ⟨i, r, m⟩ := x
  cases he : r.error with
  | some e =>
    simp [tallyRows, addReply, he, List.filter_cons, List.filterMap_cons, sumBy_nil]
  | none =>
    cases hu : r.upserted with
    | some d =>
      cases m <;>
        simp [tallyRows, addReply, he, hu, List.filter_cons, List.filterMap_cons, sumBy_nil, sumBy_cons,
          BulkModel.isInsert, BulkModel.isDelete] <;> omega
    | none =>
      cases m <;>
        simp [tallyRows, addReply, he, hu, List.filter_cons, List.filterMap_cons, sumBy_nil, sumBy_cons,
          BulkModel.isInsert, BulkModel.isDelete]

theorem mstep_row (a b c d e : Nat) (u : List (Nat × V)) (er : List (Nat × Err)) (x : Row) :
    mstep (.bulk a b c d e u er) (x.1, x.2.1, x.2.2.toOp) =
      addReply (.bulk a b c d e u er) (tallyRows [x]) := by
  obtain ⟨i, r, m⟩ := x
  cases he : r.error with
  | some e' =>
    simp [mstep, tallyRows, addReply, he, List.filter_cons, List.filterMap_cons, sumBy_nil]
  | none =>
    cases hu : r.upserted with
    | some d' =>
      cases m <;>
        simp [mstep, tallyRows, addReply, he, hu, List.filter_cons, List.filterMap_cons, sumBy_nil, sumBy_cons,
          BulkModel.isInsert, BulkModel.isDelete, BulkModel.toOp]
    | none =>
      cases m <;>
        simp [mstep, tallyRows, addReply, he, hu, List.filter_cons, List.filterMap_cons, sumBy_nil, sumBy_cons,
          BulkModel.isInsert, BulkModel.isDelete, BulkModel.toOp]

theorem tally_isBulk (rows : List Row) : ∃ a b c d e u er, tallyRows rows = .bulk a b c d e u er :=
  ⟨_, _, _, _, _, _, _, rfl⟩

theorem addReply_assoc (a b c d e : Nat) (u : List (Nat × V)) (er : List (Nat × Err)) (x y : Reply)
    (hx : ∃ a b c d e u er, x = .bulk a b c d e u er) (hy : ∃ a b c d e u er, y = .bulk a b c d e u er) :
    addReply (addReply (.bulk a b c d e u er) x) y = addReply (.bulk a b c d e u er) (addReply x y) := by
  obtain ⟨a1, b1, c1, d1, e1, u1, er1, rfl⟩ := hx
  obtain ⟨a2, b2, c2, d2, e2, u2, er2, rfl⟩ := hy
  simp [addReply, Nat.add_assoc, List.append_assoc]

theorem fold_tally : ∀ (rows : List Row) (a b c d e : Nat) (u : List (Nat × V)) (er : List (Nat × Err)),
    rows.foldl (fun acc x => mstep acc (x.1, x.2.1, x.2.2.toOp)) (.bulk a b c d e u er) =
      addReply (.bulk a b c d e u er) (tallyRows rows)
  | [], a, b, c, d, e, u, er => by
    simp [tallyRows, addReply, sumBy_nil]
  | x :: rows, a, b, c, d, e, u, er => by
    rw [List.foldl_cons, mstep_row]
    obtain ⟨a1, b1, c1, d1, e1, u1, er1, h1⟩ := tally_isBulk [x]
    rw [h1]
    simp only [addReply]
    rw [fold_tally rows, tally_cons x rows, h1]
    obtain ⟨a2, b2, c2, d2, e2, u2, er2, h2⟩ := tally_isBulk rows
    rw [h2]
    simp [addReply, Nat.add_assoc, List.append_assoc]

/-- the reply of `runCall (.bulkWrite …)` is the Spec's `bulkReply` -/
theorem bulkReply_fold (ms : List BulkModel) (rs : List TResult) :
    ((List.range rs.length).zip (rs.zip (ms.map BulkModel.toOp))).foldl mstep (.bulk 0 0 0 0 0 [] []) =
      bulkReply ms rs := by
  have hz : (List.range rs.length).zip (rs.zip (ms.map BulkModel.toOp)) =
      ((List.range rs.length).zip (rs.zip ms)).map (fun x => (x.1, x.2.1, x.2.2.toOp)) := by
    rw [List.zip_map_right, List.zip_map_right]
    rfl
  rw [hz, List.foldl_map, fold_tally, bulkReply_eq]
  obtain ⟨a2, b2, c2, d2, e2, u2, er2, h2⟩ := tally_isBulk ((List.range rs.length).zip (rs.zip ms))
  rw [h2]
  simp [addReply]

/-! ### `Transaction.Bulk` and the call -/

/-- along a bulk, from the state in which the first operation runs (the collection is created first) -/
def BulkCallOk (ac : ACtx) (db : SeqDB) (h : Handle) (ordered : Bool) (oids : List V) (ms : List BulkModel) : Prop :=
  BulkOk ac h ordered (if (db.get? h).isSome then db else db.put h SColl.new) oids ms

theorem any_bad_find (models : List BulkModel) :
    (models.find? (fun m => match m with
        | .replaceOne _ r _ => (validateReplacement r).toBool == false
        | _ => false)).isSome = models.any badReplacement := by
  have hf : (fun m : BulkModel => match m with
        | .replaceOne _ r _ => (validateReplacement r).toBool == false
        | _ => false) = badReplacement := by
    funext m; cases m <;> rfl
  rw [hf]
  cases hfind : models.find? badReplacement with
  | none =>
    have := List.find?_eq_none.mp hfind
    symm
    simp only [Option.isSome_none]
    apply List.any_eq_false.mpr
    intro x hx
    simpa using this x hx
  | some m =>
    have h1 := List.find?_some hfind
    have h2 := List.mem_of_find?_eq_some hfind
    symm
    simp only [Option.isSome_some]
    exact List.any_eq_true.mpr ⟨m, h2, h1⟩

theorem refines_bulkWrite (s : Sys) (h : Handle) (models : List BulkModel) (ordered : Bool) (oids : List V)
    (g : Good sch true s.catalog s.nextId)
    (hw : BulkCallOk (acOf sch) (abs s.catalog) h ordered oids models) :
    Refines sch s (.bulkWrite h models ordered) oids := by
  unfold Refines Sys.step
  simp only [Spec.step, runCall]
  have hany := any_bad_find models
  cases hfind : models.find? (fun m => match m with
        | .replaceOne _ r _ => (validateReplacement r).toBool == false
        | _ => false) with
  | some m =>
    rw [hfind] at hany
    simp only [Option.isSome_some] at hany
    simp only [← hany, ↓reduceIte]
    rfl
  | none =>
    rw [hfind] at hany
    simp only [Option.isSome_none] at hany
    simp only [← hany, Bool.false_eq_true, ↓reduceIte, Txn.bulk]
    cases hwr : writable h true with
    | error e => rfl
    | ok _ =>
      have hne := writable_ne_oplog hwr
      simp only
      unfold BulkCallOk at hw
      rw [← base_abs s.catalog hne] at hw
      have gb := g.base (h := h) hne
      have hgo := bulk_go_abs (ac := acOf sch) ordered hne models _ (s.nu oids) [] 0 gb hw
      rw [base_abs s.catalog hne] at hgo
      simp only [Sys.nu] at hgo ⊢
      rw [hgo]
      simp only [Except.map]
      congr 2
      · cases hc : decide ((Txn.bulk.go (acOf sch) h ordered
            (if (s.catalog.get? h).isSome = true then s.catalog else s.catalog.set h (newColl true))
            { nextId := s.nextId, oids := oids } [] 0 (models.map BulkModel.toOp)).2.2.2 > 0) <;>
          simp_all [Sys.commit, keepIf]
      · exact (bulkReply_fold models _).symm

end Lungo.SeqRef
