/-
  Lungo.Proofs.AtomicWritePhases — the expected program, instruction by instruction (from the last to the first).
-/
import Lungo.Proofs.AtomicWrite
namespace Lungo.AtomicWrite
open Lungo.FS

def iFsyncDir : Instr := ⟨.fsyncDir, [], .ret, C2⟩
def iOpenDir : Instr := ⟨.openDir, [], .ret, C1⟩
def iRename : Instr := ⟨.renameTmpToPath, [], .ret, C1⟩
def iClose : Instr := ⟨.closeTmp, [], .ret, C1⟩
def iFsync : Instr := ⟨.fsyncTmp, [], .ret, C1⟩
def iWrite (b : Bytes) : Instr := ⟨.writeTmp, b, .ret, C1⟩
def iCreate : Instr := ⟨.createExclTmp, [], .ret, []⟩
def iRemove : Instr := ⟨.removeTmp, [], .retUnlessNotExist, []⟩
def tail5 : List Instr := [iFsync, iClose, iRename, iOpenDir, iFsyncDir]

theorem compile_expected (chunks : List Bytes) :
    compile chunks Expected.atomicWriteSteps [] = (iRemove :: iCreate :: (chunks.map iWrite ++ tail5), C2) := rfl

theorem runUpTo_nil (path tmp : Name) (f : Faults) (fin : List Call) (k : Nat) (m : M) (j : Nat) :
    runUpTo path tmp f fin k [] m j = cleanupUpTo path tmp f k fin m j := by
  cases k <;> rfl

theorem exec_fault_err (path tmp : Name) (c : Call) (ch : Bytes) (m : M) (n : Nat) :
    ∃ er, (execCall path tmp c ch m (some n)).2 = some er ∧ er ≠ .notExist := by
  cases c <;> simp only [execCall, withFile, unlink, createExcl, write, fsync, close, rename, openDir, fsyncDir,
    Option.isSome_some, if_true]
  · exact ⟨_, rfl, by decide⟩
  · exact ⟨_, rfl, by decide⟩
  · split
    · exact ⟨_, rfl, by decide⟩
    · split <;> exact ⟨_, rfl, by decide⟩
  · split
    · exact ⟨_, rfl, by decide⟩
    · split <;> exact ⟨_, rfl, by decide⟩
  · split
    · exact ⟨_, rfl, by decide⟩
    · split <;> exact ⟨_, rfl, by decide⟩
  · exact ⟨_, rfl, by decide⟩
  · exact ⟨_, rfl, by decide⟩
  · split <;> exact ⟨_, rfl, by decide⟩
  · split <;> exact ⟨_, rfl, by decide⟩

theorem exec_fault_stops (path tmp : Name) (c : Call) (ch : Bytes) (m : M) (n : Nat) (e : OnErr) (he : e ≠ .ignore) :
    proceeds e (execCall path tmp c ch m (some n)).2 = false := by
  obtain ⟨er, h1, h2⟩ := exec_fault_err path tmp c ch m n
  rw [h1]
  cases e <;> cases er <;> simp_all [proceeds]

section
variable {path tmp : Name} (hne : tmp ≠ path) {f : Faults} {A₀ A : Option Bytes → Prop} {new : Bytes}
include hne

/-- one instruction with error edge `ret`/`retUnlessNotExist`: success continues, a fault runs the deferred calls -/
theorem phase_step {fin : List Call} {i : Instr} {rest : List Instr} {m : M} {j0 n nm nb nb' : Nat} {gp gp' : Prop}
    (hG : Base m.fs path A) (hi : i.onErr ≠ .ignore)
    (hcl : ∀ c ∈ i.cleanup, c ∈ C2) (hshape : i.cleanup = [] ∨ ∃ pre, i.cleanup = pre ++ [.removeTmp])
    (hlen : i.cleanup.length ≤ 3)
    (hs : f j0 = none → proceeds i.onErr (execCall path tmp i.call i.chunk m none).2 = true ∧
      Tri (fun k => runUpTo path tmp f fin k rest (execCall path tmp i.call i.chunk m none).1 (j0 + 1)) n
        (fun m => Base m.fs path A) (Post path tmp f A₀ new gp (j0 + 1) nm nb))
    (hfail : ∀ x, f j0 = some x →
      Base (execCall path tmp i.call i.chunk m (some x)).1.fs path A ∧
      (0 < nb' → Base (execCall path tmp i.call i.chunk m (some x)).1.fs path A₀) ∧
      (i.cleanup = [] → gp' → (execCall path tmp i.call i.chunk m (some x)).1.fs.vdir tmp = none))
    (hnb : nb' ≤ nb + 1) (hgp : gp' → gp) (hn : 3 ≤ n) :
    Tri (fun k => runUpTo path tmp f fin k (i :: rest) m j0) (n + 1)
      (fun m => Base m.fs path A) (Post path tmp f A₀ new gp' j0 (nm + 1) nb') := by
  apply tri_step path tmp f hG
  · intro hp
    cases hft : f j0 with
    | none =>
      exact ((hs hft).2).mono_P (fun m _ h => h.shift hft hnb hgp)
    | some x =>
      rw [hft, exec_fault_stops path tmp _ _ _ _ _ hi] at hp
      cases hp
  · intro hp
    cases hft : f j0 with
    | none =>
      rw [hft, (hs hft).1] at hp
      cases hp
    | some x =>
      obtain ⟨h1, h2, h3⟩ := hfail x hft
      exact (fail_tri (f := f) (j0 := j0) hne i.cleanup { (execCall path tmp i.call i.chunk m (some x)).1 with err := true } hcl hshape hlen (by rw [hft]; simp) h1 rfl h2 h3).mono_n hn

end

/-! ### the phases -/

theorem C1_sub : ∀ c ∈ C1, c ∈ C2 := by decide
theorem C2_sub : ∀ c ∈ C2, c ∈ C2 := fun _ h => h

section
variable {path tmp : Name} (hne : tmp ≠ path) {f : Faults} {A₀ A : Option Bytes → Prop} {new : Bytes}
  (hA : ∀ x, A₀ x → A x) (hnew : A (some new))
include hne hA hnew


omit hA hnew in
theorem phase_fsyncDir (m : M) (j0 : Nat) (hb : Base m.fs path A) (he : m.err = false)
    (hg : m.fs.vdir tmp = none) (hd : Fd.dir ∈ m.fs.fds) (h : Ino)
    (hap : applyAll m.fs.ddir m.fs.pending path = some h) (hst : Stable m.fs h new) (hv : m.fs.vdir path = some h) :
    Tri (fun k => runUpTo path tmp f C2 k [iFsyncDir] m j0) 4
      (fun m => Base m.fs path A) (Post path tmp f A₀ new True j0 1 0) := by
  refine phase_step hne (n := 3) (nm := 0) (nb := 0) (gp := True) hb (by decide) C2_sub
    (Or.inr ⟨[.closeDir, .closeTmp], rfl⟩) (by decide) ?_ ?_ (by omega) (fun h => h) (by omega)
  · intro _
    have hex : execCall path tmp iFsyncDir.call iFsyncDir.chunk m none =
        (⟨{ m.fs with ddir := applyAll m.fs.ddir m.fs.pending, pending := [] }, m.tmpH, m.err⟩, none) := by
      simp [execCall, iFsyncDir, fsyncDir, hd]
    rw [hex]
    refine ⟨rfl, ?_⟩
    simp only [runUpTo_nil]
    let Q : M → Prop := fun m => Base m.fs path A ∧ Base m.fs path (· = some new) ∧ m.err = false ∧ m.fs.vdir tmp = none
    have hQ : ∀ c ∈ C2, ∀ m ft, Q m → Q (execCall path tmp c [] m ft).1 := by
      intro c hc m ft ⟨h1, h2, h3, h4⟩
      exact ⟨exec_base_cleanup hne c hc m ft h1, exec_base_cleanup hne c hc m ft h2,
        by rw [execCall_err]; exact h3, exec_gone_cleanup c hc m ft h4⟩
    have hb' : Base (fsyncDir m.fs false).1 path A := fsyncDir_base false hb
    simp only [fsyncDir, hd, if_true, Bool.false_eq_true, if_false] at hb'
    have q0 : Q ⟨{ m.fs with ddir := applyAll m.fs.ddir m.fs.pending, pending := [] }, m.tmpH, m.err⟩ := by
      refine ⟨hb', ⟨hb'.wf, ⟨?_, ?_, ?_⟩⟩, he, hg⟩
      · show ValOK _ _ (applyAll m.fs.ddir m.fs.pending path)
        rw [hap]; exact ⟨new, hst, rfl⟩
      · show ValOK _ _ (m.fs.vdir path)
        rw [hv]; exact ⟨new, hst, rfl⟩
      · intro op hm; cases hm
    intro k
    have t := cleanup_tri path tmp f Q C2 hQ _ (j0 + 1) q0 k
    refine ⟨t.1.1, fun hk => ?_, t.2.2⟩
    obtain ⟨_, q2, q3, q4⟩ := t.2.1 hk
    exact ⟨fun _ => ⟨q2.inv, q4⟩, fun _ => q3, fun j hj hlt => absurd hlt (by have := hj.1; omega), fun _ _ => q4⟩
  · intro x _
    exact ⟨exec_base_simple hne _ (by decide) _ _ _ hb, fun h => absurd h (by omega), fun h => by cases h⟩

omit hA hnew in
theorem phase_openDir (m : M) (j0 : Nat) (hb : Base m.fs path A) (he : m.err = false)
    (hg : m.fs.vdir tmp = none) (h : Ino)
    (hap : applyAll m.fs.ddir m.fs.pending path = some h) (hst : Stable m.fs h new) (hv : m.fs.vdir path = some h) :
    Tri (fun k => runUpTo path tmp f C2 k [iOpenDir, iFsyncDir] m j0) 5
      (fun m => Base m.fs path A) (Post path tmp f A₀ new True j0 2 0) := by
  refine phase_step hne (n := 4) (nm := 1) (nb := 0) (gp := True) hb (by decide) C1_sub
    (Or.inr ⟨[.closeTmp], rfl⟩) (by decide) ?_ ?_ (by omega) (fun h => h) (by omega)
  · intro _
    have hex : execCall path tmp iOpenDir.call iOpenDir.chunk m none =
        (⟨{ m.fs with fds := .dir :: m.fs.fds }, m.tmpH, m.err⟩, none) := by
      simp [execCall, iOpenDir, openDir]
    rw [hex]
    refine ⟨rfl, ?_⟩
    have hb' : Base (openDir m.fs false).1 path A := openDir_base false hb
    exact phase_fsyncDir hne _ (j0 + 1) hb' he hg List.mem_cons_self h hap hst hv
  · intro x _
    exact ⟨exec_base_simple hne _ (by decide) _ _ _ hb, fun h => absurd h (by omega), fun h => by cases h⟩

theorem phase_rename (m : M) (j0 : Nat) (hb : Base m.fs path A₀) (he : m.err = false) (h : Ino)
    (hvt : m.fs.vdir tmp = some h) (hst : Stable m.fs h new) :
    Tri (fun k => runUpTo path tmp f C2 k [iRename, iOpenDir, iFsyncDir] m j0) 6
      (fun m => Base m.fs path A) (Post path tmp f A₀ new True j0 3 1) := by
  have hbA : Base m.fs path A := hb.mono hA
  have hpt : path ≠ tmp := fun e => hne e.symm
  refine phase_step hne (n := 5) (nm := 2) (nb := 0) (gp := True) hbA (by decide) C1_sub
    (Or.inr ⟨[.closeTmp], rfl⟩) (by decide) ?_ ?_ (by omega) (fun h => h) (by omega)
  · intro _
    have hex : execCall path tmp iRename.call iRename.chunk m none =
        (⟨{ m.fs with vdir := (m.fs.vdir.set tmp none).set path (some h),
                      pending := m.fs.pending ++ [.rename tmp path h] }, m.tmpH, m.err⟩, none) := by
      simp [execCall, iRename, rename, hvt]
    have hb' : Base (rename m.fs tmp path false).1 path A :=
      rename_base hne false (fun i hi => by rw [hvt] at hi; cases hi; exact ⟨new, hst, hnew⟩) hbA
    simp only [rename, Bool.false_eq_true, if_false, hvt] at hb'
    rw [hex]
    refine ⟨rfl, ?_⟩
    refine phase_openDir hne _ (j0 + 1) hb' he ?_ h ?_ hst ?_
    · simp [Dir.set, hne]
    · show applyAll m.fs.ddir (m.fs.pending ++ [.rename tmp path h]) path = some h
      rw [applyAll_append]
      simp [applyAll, DirOp.apply, Dir.set]
    · simp [Dir.set]
  · intro x _
    have hex : (execCall path tmp iRename.call iRename.chunk m (some x)).1 = m := by
      simp [execCall, iRename, rename]
    rw [hex]
    exact ⟨hbA, fun _ => hb, fun h => by cases h⟩

theorem phase_close (m : M) (j0 : Nat) (hb : Base m.fs path A₀) (he : m.err = false) (h : Ino)
    (htmp : m.tmpH = some h) (hfd : Fd.file h ∈ m.fs.fds)
    (hvt : m.fs.vdir tmp = some h) (hst : Stable m.fs h new) :
    Tri (fun k => runUpTo path tmp f C2 k [iClose, iRename, iOpenDir, iFsyncDir] m j0) 7
      (fun m => Base m.fs path A) (Post path tmp f A₀ new True j0 4 2) := by
  have hbA : Base m.fs path A := hb.mono hA
  refine phase_step hne (n := 6) (nm := 3) (nb := 1) (gp := True) hbA (by decide) C1_sub
    (Or.inr ⟨[.closeTmp], rfl⟩) (by decide) ?_ ?_ (by omega) (fun h => h) (by omega)
  · intro _
    have hex : execCall path tmp iClose.call iClose.chunk m none =
        (⟨{ m.fs with fds := m.fs.fds.erase (.file h) }, m.tmpH, m.err⟩, none) := by
      simp [execCall, iClose, withFile, htmp, close, hfd]
    rw [hex]
    refine ⟨rfl, ?_⟩
    have hb' : Base (close m.fs (.file h) false).1 path A₀ := close_base _ false hb
    simp only [close, hfd, if_true] at hb'
    exact phase_rename hne hA hnew _ (j0 + 1) hb' he h hvt hst
  · intro x _
    exact ⟨exec_base_simple hne _ (by decide) _ _ _ hbA, fun _ => exec_base_simple hne _ (by decide) _ _ _ hb,
      fun h => by cases h⟩

theorem phase_writes (cs : List Bytes) : ∀ (m : M) (j0 : Nat) (_hb : Base m.fs path A₀) (_he : m.err = false) (h : Ino)
    (_htmp : m.tmpH = some h) (_hfd : Fd.file h ∈ m.fs.fds) (_hvt : m.fs.vdir tmp = some h)
    (_hpr : Private m.fs path h) (_hdur : (m.fs.ino h).dur = []) (_hc : (m.fs.ino h).pend ++ cs.flatten = new),
    Tri (fun k => runUpTo path tmp f C2 k (cs.map iWrite ++ tail5) m j0) (cs.length + 8)
      (fun m => Base m.fs path A) (Post path tmp f A₀ new True j0 (cs.length + 5) (cs.length + 3)) := by
  induction cs with
  | nil =>
    intro m j0 hb he h htmp hfd hvt hpr hdur hc
    have hbA : Base m.fs path A := hb.mono hA
    refine phase_step hne (i := iFsync) (n := 7) (nm := 4) (nb := 2) (gp := True) hbA (by decide) C1_sub
      (Or.inr ⟨[.closeTmp], rfl⟩) (by decide) ?_ ?_ (by simp) (fun h => h) (by omega)
    · intro _
      have hex : execCall path tmp iFsync.call iFsync.chunk m none =
          (⟨{ m.fs with ino := setIno m.fs.ino h ⟨(m.fs.ino h).dur ++ (m.fs.ino h).pend, []⟩ }, m.tmpH, m.err⟩, none) := by
        simp [execCall, iFsync, withFile, htmp, fsync, hfd]
      rw [hex]
      refine ⟨rfl, ?_⟩
      have hb' : Base (fsync m.fs h false).1 path A₀ := fsync_base false hb
      simp only [fsync, hfd, if_true, Bool.false_eq_true, if_false] at hb'
      refine phase_close hne hA hnew _ (j0 + 1) hb' he h htmp hfd hvt ?_
      simp only [List.flatten_nil, List.append_nil] at hc
      simp [Stable, setIno, hdur, hc]
    · intro x _
      exact ⟨exec_base_simple hne _ (by decide) _ _ _ hbA, fun _ => exec_base_simple hne _ (by decide) _ _ _ hb,
        fun h => by cases h⟩
  | cons b cs ih =>
    intro m j0 hb he h htmp hfd hvt hpr hdur hc
    have hbA : Base m.fs path A := hb.mono hA
    refine phase_step hne (i := iWrite b) (n := cs.length + 8) (nm := cs.length + 5) (nb := cs.length + 3) (gp := True)
      hbA (by simp [iWrite]) C1_sub (Or.inr ⟨[.closeTmp], rfl⟩) (by simp [iWrite, C1]) ?_ ?_ (by simp) (fun h => h) (by omega)
    · intro _
      have hex : execCall path tmp (iWrite b).call (iWrite b).chunk m none =
          (⟨{ m.fs with ino := setIno m.fs.ino h ⟨(m.fs.ino h).dur, (m.fs.ino h).pend ++ b⟩ }, m.tmpH, m.err⟩, none) := by
        simp [execCall, iWrite, withFile, htmp, write, hfd]
      rw [hex]
      refine ⟨rfl, ?_⟩
      have hb' : Base (write m.fs h b none).1 path A₀ := write_base b none hpr hb
      simp only [write, hfd, if_true] at hb'
      refine ih _ (j0 + 1) hb' he h htmp hfd hvt ⟨hpr.d, hpr.v, hpr.pend⟩ ?_ ?_
      · simp [setIno, hdur]
      · simp only [setIno, if_true, List.append_assoc]
        simpa using hc
    · intro x _
      have e : (execCall path tmp (iWrite b).call (iWrite b).chunk m (some x)).1.fs = (write m.fs h b (some x)).1 := by
        simp [execCall, iWrite, withFile, htmp]
      rw [e]
      exact ⟨write_base b _ hpr hbA, fun _ => write_base b _ hpr hb, fun h => by cases h⟩

theorem phase_create (cs : List Bytes) (m : M) (j0 : Nat) (hb : Base m.fs path A₀) (he : m.err = false)
    (hg : m.fs.vdir tmp = none) (hc : cs.flatten = new) :
    Tri (fun k => runUpTo path tmp f C2 k (iCreate :: (cs.map iWrite ++ tail5)) m j0) (cs.length + 9)
      (fun m => Base m.fs path A) (Post path tmp f A₀ new True j0 (cs.length + 6) (cs.length + 4)) := by
  have hbA : Base m.fs path A := hb.mono hA
  have hpt : path ≠ tmp := fun e => hne e.symm
  refine phase_step hne (i := iCreate) (n := cs.length + 8) (nm := cs.length + 5) (nb := cs.length + 3) (gp := True)
    hbA (by decide) (by intro c hc; cases hc) (Or.inl rfl) (by decide) ?_ ?_ (by omega) (fun h => h) (by omega)
  · intro _
    have hex : execCall path tmp iCreate.call iCreate.chunk m none =
        (⟨{ m.fs with ino := setIno m.fs.ino m.fs.next ⟨[], []⟩, next := m.fs.next + 1,
                      vdir := m.fs.vdir.set tmp (some m.fs.next),
                      pending := m.fs.pending ++ [.link tmp m.fs.next], fds := .file m.fs.next :: m.fs.fds },
           some m.fs.next, m.err⟩, none) := by
      simp [execCall, iCreate, createExcl, hg]
    rw [hex]
    refine ⟨rfl, ?_⟩
    have hb' : Base (createExcl m.fs tmp false).1 path A₀ := createExcl_base hne false hb
    simp only [createExcl, Bool.false_eq_true, if_false, hg] at hb'
    refine phase_writes hne hA hnew cs _ (j0 + 1) hb' he m.fs.next rfl List.mem_cons_self ?_ ⟨?_, ?_, ?_⟩ ?_ ?_
    · simp [Dir.set]
    · intro e; exact absurd (hb.wf.d path _ e) (Nat.lt_irrefl _)
    · show (m.fs.vdir.set tmp (some m.fs.next)) path ≠ some m.fs.next
      simp only [Dir.set, if_neg hpt]
      intro e; exact absurd (hb.wf.v path _ e) (Nat.lt_irrefl _)
    · intro op hm e
      rcases List.mem_append.mp hm with hm | hm
      · exact absurd (hb.wf.pend op hm _ (effect_inoRef e)) (Nat.lt_irrefl _)
      · simp only [List.mem_singleton] at hm; subst hm
        simp [DirOp.effect, hpt] at e
    · simp [setIno]
    · simp [setIno, hc]
  · intro x _
    have hex : (execCall path tmp iCreate.call iCreate.chunk m (some x)).1 = m := by
      simp [execCall, iCreate, createExcl]
    rw [hex]
    exact ⟨hbA, fun _ => hb, fun _ _ => hg⟩

theorem phase_remove (cs : List Bytes) (m : M) (j0 : Nat) (hb : Base m.fs path A₀) (he : m.err = false)
    (hc : cs.flatten = new) :
    Tri (fun k => runUpTo path tmp f C2 k (iRemove :: iCreate :: (cs.map iWrite ++ tail5)) m j0) (cs.length + 10)
      (fun m => Base m.fs path A) (Post path tmp f A₀ new (f j0 = none) j0 (cs.length + 7) (cs.length + 5)) := by
  have hbA : Base m.fs path A := hb.mono hA
  refine phase_step hne (i := iRemove) (n := cs.length + 9) (nm := cs.length + 6) (nb := cs.length + 4) (gp := True)
    hbA (by decide) (by intro c hc; cases hc) (Or.inl rfl) (by decide) ?_ ?_ (by omega) (fun _ => trivial) (by omega)
  · intro _
    have hb' : Base (unlink m.fs tmp false).1 path A₀ := unlink_base hne false hb
    cases hv : m.fs.vdir tmp with
    | none =>
      have hex : execCall path tmp iRemove.call iRemove.chunk m none = (m, some .notExist) := by
        simp [execCall, iRemove, unlink, hv]
      rw [hex]
      exact ⟨rfl, phase_create hne hA hnew cs m (j0 + 1) hb he hv hc⟩
    | some i =>
      have hex : execCall path tmp iRemove.call iRemove.chunk m none =
          (⟨{ m.fs with vdir := m.fs.vdir.set tmp none, pending := m.fs.pending ++ [.unlink tmp] }, m.tmpH, m.err⟩, none) := by
        simp [execCall, iRemove, unlink, hv]
      simp only [unlink, Bool.false_eq_true, if_false, hv] at hb'
      rw [hex]
      exact ⟨rfl, phase_create hne hA hnew cs _ (j0 + 1) hb' he (by simp [Dir.set]) hc⟩
  · intro x hx
    have hex : (execCall path tmp iRemove.call iRemove.chunk m (some x)).1 = m := by
      simp [execCall, iRemove, unlink]
    rw [hex]
    exact ⟨hbA, fun _ => hb, fun _ hn => by rw [hx] at hn; cases hn⟩

end
end Lungo.AtomicWrite
