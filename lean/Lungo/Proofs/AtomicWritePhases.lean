/-
  Lungo.Proofs.AtomicWritePhases — the expected program, instruction by instruction (from the last to the first).
-/
import Lungo.Proofs.AtomicWrite
namespace Lungo.AtomicWrite
open Lungo.FS

def iFsyncDir : Instr := ⟨.fsyncDir, [], .ret, C2⟩
def iOpenDir : Instr := ⟨.openDir, [], .ret, C1⟩
def iRename : Instr := ⟨.renameTmpToPath, [], .ret, C1⟩
def iClose : Instr := ⟨.closeTmp, [], .ret, C1⟩
def iFsync : Instr := ⟨.fsyncTmp, [], .ret, C1⟩
def iWrite (b : Bytes) : Instr := ⟨.writeTmp, b, .ret, C1⟩
def iCreate : Instr := ⟨.createExclTmp, [], .ret, []⟩
def iRemove : Instr := ⟨.removeTmp, [], .retUnlessNotExist, []⟩
def tail5 : List Instr := [iFsync, iClose, iRename, iOpenDir, iFsyncDir]

theorem compile_expected (chunks : List Bytes) :
    compile chunks Expected.atomicWriteSteps [] = (iRemove :: iCreate :: (chunks.map iWrite ++ tail5), C2) := rfl

theorem runUpTo_nil (path tmp : Name) (f : Faults) (fin : List Call) (k : Nat) (m : M) (j : Nat) :
    runUpTo path tmp f fin k [] m j = cleanupUpTo path tmp f k fin m j := by
  cases k <;> rfl

theorem exec_fault_err (path tmp : Name) (c : Call) (ch : Bytes) (m : M) (n : Nat) :
    ∃ er, (execCall path tmp c ch m (some n)).2 = some er ∧ er ≠ .notExist := by
  cases c <;> simp only [execCall, withFile, unlink, createExcl, write, fsync, close, rename, openDir, fsyncDir,
    Option.isSome_some, if_true]
  · exact ⟨_, rfl, by decide⟩
  · exact ⟨_, rfl, by decide⟩
  · split
    · exact ⟨_, rfl, by decide⟩
    · split <;> exact ⟨_, rfl, by decide⟩
  · split
    · exact ⟨_, rfl, by decide⟩
    · split <;> exact ⟨_, rfl, by decide⟩
  · split
    · exact ⟨_, rfl, by decide⟩
    · split <;> exact ⟨_, rfl, by decide⟩
  · exact ⟨_, rfl, by decide⟩
  · exact ⟨_, rfl, by decide⟩
  · split <;> exact ⟨_, rfl, by decide⟩
  · split <;> exact ⟨_, rfl, by decide⟩

theorem exec_fault_stops (path tmp : Name) (c : Call) (ch : Bytes) (m : M) (n : Nat) (e : OnErr) (he : e ≠ .ignore) :
    proceeds e (execCall path tmp c ch m (some n)).2 = false := by
  obtain ⟨er, h1, h2⟩ := exec_fault_err path tmp c ch m n
  rw [h1]
  cases e <;> cases er <;> simp_all [proceeds]

section
variable {path tmp : Name} (hne : tmp ≠ path) {f : Faults} {A₀ A : Option Bytes → Prop} {new : Bytes}
include hne

/-- one instruction with error edge `ret`/`retUnlessNotExist`: success continues, a fault runs the deferred calls -/
theorem phase_step {fin : List Call} {i : Instr} {rest : List Instr} {m : M} {j0 n nm nb nb' : Nat} {gp gp' : Prop}
    (hG : Base m.fs path A) (hi : i.onErr ≠ .ignore)
    (hcl : ∀ c ∈ i.cleanup, c ∈ C2) (hshape : i.cleanup = [] ∨ ∃ pre, i.cleanup = pre ++ [.removeTmp])
    (hlen : i.cleanup.length ≤ 3)
    (hs : f j0 = none → proceeds i.onErr (execCall path tmp i.call i.chunk m none).2 = true ∧
      Tri (fun k => runUpTo path tmp f fin k rest (execCall path tmp i.call i.chunk m none).1 (j0 + 1)) n
        (fun m => Base m.fs path A) (Post path tmp f A₀ new gp (j0 + 1) nm nb))
    (hfail : ∀ x, f j0 = some x →
      Base (execCall path tmp i.call i.chunk m (some x)).1.fs path A ∧
      (0 < nb' → Base (execCall path tmp i.call i.chunk m (some x)).1.fs path A₀) ∧
      (i.cleanup = [] → gp' → (execCall path tmp i.call i.chunk m (some x)).1.fs.vdir tmp = none))
    (hnb : nb' ≤ nb + 1) (hgp : gp' → gp) (hn : 3 ≤ n) :
    Tri (fun k => runUpTo path tmp f fin k (i :: rest) m j0) (n + 1)
      (fun m => Base m.fs path A) (Post path tmp f A₀ new gp' j0 (nm + 1) nb') := by
  apply tri_step path tmp f hG
  · intro hp
    cases hft : f j0 with
    | none =>
      exact ((hs hft).2).mono_P (fun m _ h => h.shift hft hnb hgp)
    | some x =>
      rw [hft, exec_fault_stops path tmp _ _ _ _ _ hi] at hp
      cases hp
  · intro hp
    cases hft : f j0 with
    | none =>
      rw [hft, (hs hft).1] at hp
      cases hp
    | some x =>
      obtain ⟨h1, h2, h3⟩ := hfail x hft
      exact (fail_tri (f := f) (j0 := j0) hne i.cleanup { (execCall path tmp i.call i.chunk m (some x)).1 with err := true } hcl hshape hlen (by rw [hft]; simp) h1 rfl h2 h3).mono_n hn

end

/-! ### the phases -/

theorem C1_sub : ∀ c ∈ C1, c ∈ C2 := by decide
theorem C2_sub : ∀ c ∈ C2, c ∈ C2 := fun _ h => h

section
variable {path tmp : Name} (hne : tmp ≠ path) {f : Faults} {A₀ A : Option Bytes → Prop} {new : Bytes}
  (hA : ∀ x, A₀ x → A x) (hnew : A (some new))
include hne hA hnew


omit hA hnew in
theorem phase_fsyncDir (m : M) (j0 : Nat) (hb : Base m.fs path A) (he : m.err = false)
    (hg : m.fs.vdir tmp = none) (hd : Fd.dir ∈ m.fs.fds) (h : Ino)
    (hap : applyAll m.fs.ddir m.fs.pending path = some h) (hst : Stable m.fs h new) (hv : m.fs.vdir path = some h) :
    Tri (fun k => runUpTo path tmp f C2 k [iFsyncDir] m j0) 4
      (fun m => Base m.fs path A) (Post path tmp f A₀ new True j0 1 0) := by
  refine phase_step hne (n := 3) (nm := 0) (nb := 0) (gp := True) hb (by decide) C2_sub
    (Or.inr ⟨[.closeDir, .closeTmp], rfl⟩) (by decide) ?_ ?_ (by omega) (fun h => h) (by omega)
  · intro _
    have hex : execCall path tmp iFsyncDir.call iFsyncDir.chunk m none =
        (⟨{ m.fs with ddir := applyAll m.fs.ddir m.fs.pending, pending := [] }, m.tmpH, m.err⟩, none) := by
      simp [execCall, iFsyncDir, fsyncDir, hd]
    rw [hex]
    refine ⟨rfl, ?_⟩
    simp only [runUpTo_nil]
    let Q : M → Prop := fun m => Base m.fs path A ∧ Base m.fs path (· = some new) ∧ m.err = false ∧ m.fs.vdir tmp = none
    have hQ : ∀ c ∈ C2, ∀ m ft, Q m → Q (execCall path tmp c [] m ft).1 := by
      intro c hc m ft ⟨h1, h2, h3, h4⟩
      exact ⟨exec_base_cleanup hne c hc m ft h1, exec_base_cleanup hne c hc m ft h2,
        by rw [execCall_err]; exact h3, exec_gone_cleanup c hc m ft h4⟩
    have hb' : Base (fsyncDir m.fs false).1 path A := fsyncDir_base false hb
    simp only [fsyncDir, hd, if_true, Bool.false_eq_true, if_false] at hb'
    have q0 : Q ⟨{ m.fs with ddir := applyAll m.fs.ddir m.fs.pending, pending := [] }, m.tmpH, m.err⟩ := by
      refine ⟨hb', ⟨hb'.wf, ⟨?_, ?_, ?_⟩⟩, he, hg⟩
      · show ValOK _ _ (applyAll m.fs.ddir m.fs.pending path)
        rw [hap]; exact ⟨new, hst, rfl⟩
      · show ValOK _ _ (m.fs.vdir path)
        rw [hv]; exact ⟨new, hst, rfl⟩
      · intro op hm; cases hm
    intro k
    have t := cleanup_tri path tmp f Q C2 hQ _ (j0 + 1) q0 k
    refine ⟨t.1.1, fun hk => ?_, t.2.2⟩
    obtain ⟨_, q2, q3, q4⟩ := t.2.1 hk
    exact ⟨fun _ => ⟨q2.inv, q4⟩, fun _ => q3, fun j hj hlt => absurd hlt (by have := hj.1; omega), fun _ _ => q4⟩
  · intro x _
    exact ⟨exec_base_simple hne _ (by decide) _ _ _ hb, fun h => absurd h (by omega), fun h => by cases h⟩

end
end Lungo.AtomicWrite
