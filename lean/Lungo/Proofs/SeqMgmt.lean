/-
  Lungo.Proofs.SeqMgmt — C01: createCollection, dropCollection, dropDatabase, dropIndex,
  dropAllIndexes, dropIndexByKey, createIndex.
-/
import Lungo.Proofs.SeqDelete
namespace Lungo.SeqRef
open Lungo Lungo.Spec

variable {sch : SchemaEval}

/-! ### createCollection -/

theorem refines_createCollection (s : Sys) (h : Handle) (oids : List V) :
    Refines sch s (.createCollection h) oids := by
  unfold Refines Sys.step
  simp only [Spec.step, runCall, Txn.create]
  cases hwr : writable h true with
  | error e => rfl
  | ok _ =>
    have hne := writable_ne_oplog hwr
    simp only [abs_get?_isSome s.catalog hne]
    cases hg : (s.catalog.get? h).isSome with
    | true => simp [Except.map, Sys.commit]
    | false => simp [Except.map, Sys.commit, abs_set s.catalog _ hne, absC_new]

/-! ### drop (collection / database) -/

/-- a fold of oplog appends only sets the bit `logged` -/
theorem abs_fold_append {α : Type} (F : Catalog × Nu → α → Catalog × Nu)
    (hF : ∀ cn a, ∃ h op doc ch, F cn a = appendOplog cn.1 cn.2 h op doc ch) :
    ∀ (l : List α) (cn : Catalog × Nu), (∃ c, (oplogHandle, c) ∈ cn.1.namespaces) →
      abs (l.foldl F cn).1 = (if l.isEmpty then abs cn.1 else (abs cn.1).log) ∧
      ∃ c, (oplogHandle, c) ∈ (l.foldl F cn).1.namespaces
  | [], cn, ho => ⟨rfl, ho⟩
  | a :: r, cn, ho => by
    simp only [List.foldl_cons, List.isEmpty_cons, Bool.false_eq_true, ↓reduceIte]
    obtain ⟨h, op, doc, ch, e⟩ := hF cn a
    obtain ⟨h1, h2⟩ := abs_appendOplog ho cn.2 h op doc ch
    rw [← e] at h1 h2
    obtain ⟨h3, h4⟩ := abs_fold_append F hF r (F cn a) h2
    refine ⟨?_, h4⟩
    rw [h3, h1]
    split <;> rfl

def hitBy (h : Handle) (ns : Handle) : Bool := ns == h || (h.coll == "" && ns.db == h.db)

theorem filter_abs (cat : Catalog) (p : Handle → Bool) :
    (abs cat).colls.filter (fun x => p x.1) = (cat.namespaces.filter (fun x => p x.1)).map absNs := by
  simp only [abs, List.filter_map]
  rfl

/-- `Transaction.Drop` on the abstraction -/
theorem txnDrop_abs (s : Sys) (h : Handle) (oids : List V) (hi : SysInv sch s) :
    (Txn.drop { catalog := s.catalog } h (s.nu oids)).map (fun r => abs (s.commit r.1 r.2).catalog) =
      match writable h false with
      | .error e => .error e
      | .ok _ =>
        if ((abs s.catalog).colls.filter fun x => hitBy h x.1).isEmpty then .ok (abs s.catalog)
        else .ok { colls := (abs s.catalog).colls.filter fun x => !hitBy h x.1, logged := true } := by
  unfold Txn.drop
  cases hwr : writable h false with
  | error e => rfl
  | ok _ =>
    have hne := writable_ne_oplog hwr
    have hdb := writable_db hwr
    have hfa := filter_abs s.catalog (fun n => !hitBy h n)
    simp only [filter_abs, hfa, List.isEmpty_map]
    have hfun : (fun (x : Handle × Coll) => x.1 == h || (h.coll == "" && x.1.db == h.db)) = fun x => hitBy h x.1 := rfl
    have hfun2 : (fun (x : Handle × Coll) => !(x.1 == h || (h.coll == "" && x.1.db == h.db))) = fun x => !hitBy h x.1 := rfl
    simp only [hfun, hfun2]
    cases hemp : (s.catalog.namespaces.filter fun x => hitBy h x.1).isEmpty with
    | true => simp [Except.map, Sys.commit]
    | false =>
      simp only [Bool.false_eq_true, ↓reduceIte, Except.map, Sys.commit]
      obtain ⟨oc, hoc⟩ := hi.oplog
      have hkeep : hitBy h oplogHandle = false := by
        have h1 : (oplogHandle == h) = false := by
          simp only [beq_eq_false_iff_ne, ne_eq]; exact fun e => hne e.symm
        have h2 : (oplogHandle.db == h.db) = false := by
          simp only [beq_eq_false_iff_ne, ne_eq]; exact fun e => hdb e.symm
        simp [hitBy, h1, h2]
      have ho0 : ∃ c, (oplogHandle, c) ∈
          ({ s.catalog with namespaces := s.catalog.namespaces.filter fun x => !hitBy h x.1 } : Catalog).namespaces :=
        ⟨oc, List.mem_filter.mpr ⟨hoc, by simp [hkeep]⟩⟩
      obtain ⟨f1, f2⟩ := abs_fold_append
        (fun (cn : Catalog × Nu) (ns : Handle) => appendOplog cn.1 cn.2 ns "drop" none none)
        (fun cn a => ⟨a, "drop", none, none, rfl⟩)
        ((s.catalog.namespaces.filter fun x => hitBy h x.1).map (·.1))
        ({ s.catalog with namespaces := s.catalog.namespaces.filter fun x => !hitBy h x.1 }, s.nu oids) ho0
      simp only [List.isEmpty_map, hemp, Bool.false_eq_true, ↓reduceIte] at f1
      have hbase : (abs { s.catalog with namespaces := s.catalog.namespaces.filter fun x => !hitBy h x.1 }).log =
          { colls := (s.catalog.namespaces.filter fun x => !hitBy h x.1).map absNs, logged := true } := by
        simp [abs, SeqDB.log]
      congr 1
      split
      · rw [(abs_appendOplog f2 _ h "dropDatabase" none none).1, f1, hbase]; rfl
      · rw [f1, hbase]

theorem validate_true_facts {h : Handle} (hv : h.validate true = .ok ()) :
    h.coll ≠ "" ∧ h.validate false = .ok () := by
  unfold Handle.validate at hv ⊢
  split at hv
  · cases hv
  · split at hv
    · cases hv
    · split at hv
      · cases hv
      · rename_i h1 h2 h3
        refine ⟨?_, ?_⟩
        · intro e
          apply h3
          simp [e]
        · simp [h1, h2]

theorem hitBy_coll {h : Handle} (hc : h.coll ≠ "") (ns : Handle) : hitBy h ns = (ns == h) := by
  unfold hitBy
  have : (h.coll == "") = false := by simpa using hc
  simp [this]

/-- `Collection.Drop` needs a collection name (validated before the transaction begins) -/
theorem refines_dropCollection (s : Sys) (h : Handle) (oids : List V) (hi : SysInv sch s) :
    Refines sch s (.dropCollection h) oids := by
  unfold Refines Sys.step
  simp only [Spec.step, runCall]
  cases hv : h.validate true with
  | error e => simp only [writable, hv]; rfl
  | ok u =>
    have hv' : h.validate true = .ok () := hv
    obtain ⟨hc, hvf⟩ := validate_true_facts hv'
    have hww : writable h true = writable h false := by simp only [writable, hv', hvf]
    rw [hww]
    have := txnDrop_abs s h oids hi
    simp only [hitBy_coll hc] at this
    simp only
    cases hd : Txn.drop { catalog := s.catalog } h (s.nu oids) with
    | error e =>
      rw [hd] at this
      cases hwr : writable h false with
      | error e' => rw [hwr] at this; simp only [Except.map] at this ⊢; cases this; rfl
      | ok _ =>
        rw [hwr] at this
        simp only [Except.map] at this
        split at this <;> cases this
    | ok r =>
      rw [hd] at this
      cases hwr : writable h false with
      | error e' => rw [hwr] at this; simp [Except.map] at this
      | ok _ =>
        rw [hwr] at this
        simp only [Except.map] at this ⊢
        split at this
        · rename_i he
          simp only [Except.ok.injEq] at this
          simp [he, this]
        · rename_i he
          simp only [Except.ok.injEq] at this
          simp [he, this]

theorem hitBy_db (name : String) (ns : Handle) : hitBy ⟨name, ""⟩ ns = (ns.db == name) := by
  unfold hitBy
  simp only [beq_self_eq_true, Bool.true_and]
  cases hb : ns.db == name with
  | true => simp
  | false =>
    simp only [Bool.or_false, beq_eq_false_iff_ne, ne_eq]
    intro e
    rw [e] at hb
    simp at hb

theorem refines_dropDatabase (s : Sys) (name : String) (oids : List V) (hi : SysInv sch s) :
    Refines sch s (.dropDatabase name) oids := by
  unfold Refines Sys.step
  have := txnDrop_abs s ⟨name, ""⟩ oids hi
  simp only [Spec.step, runCall]
  simp only [hitBy_db] at this
  cases hd : Txn.drop { catalog := s.catalog } ⟨name, ""⟩ (s.nu oids) with
  | error e =>
    rw [hd] at this
    cases hwr : writable ⟨name, ""⟩ false with
    | error e' => rw [hwr] at this; simp only [Except.map] at this ⊢; cases this; rfl
    | ok _ =>
      rw [hwr] at this
      simp only [Except.map] at this
      split at this <;> cases this
  | ok r =>
    rw [hd] at this
    cases hwr : writable ⟨name, ""⟩ false with
    | error e' => rw [hwr] at this; simp [Except.map] at this
    | ok _ =>
      rw [hwr] at this
      simp only [Except.map] at this ⊢
      split at this
      · rename_i he
        simp only [Except.ok.injEq] at this
        simp [he, this]
      · rename_i he
        simp only [Except.ok.injEq] at this
        simp [he, this]

/-! ### dropIndex / dropAllIndexes / dropIndexByKey -/

theorem shape_any (idx : List (String × Index)) (name : String) :
    (shape idx).any (·.1 == name) = idx.any (·.1 == name) := by
  simp only [shape, List.any_map]; rfl

theorem shape_filter (idx : List (String × Index)) (p : String → Bool) :
    (shape idx).filter (fun x => p x.1) = shape (idx.filter (fun x => p x.1)) := by
  simp only [shape, List.filter_map]; rfl

/-- `Collection.DropIndex` by a non-empty name = the Spec's `dropIndex` -/
theorem dropIndex_abs (c : Coll) {name : String} (hn : name ≠ "") :
    (c.dropIndex name).map (fun r => absC r.1) = (absC c).dropIndex name := by
  have hn' : (name != "") = true := by simpa using hn
  unfold Coll.dropIndex SColl.dropIndex
  simp only [hn', ↓reduceIte, absC, shape_any]
  split
  · rfl
  · split
    · rfl
    · simp only [Except.map]
      have := shape_filter c.indexes (fun n => n != name)
      rw [this]

/-- `Transaction.DropIndex` ("" = all) on the abstraction = the Spec's `dropIn` -/
theorem txnDropIndex_abs (s : Sys) (h : Handle) (name : String) (nu : Nu) :
    (Txn.dropIndex { catalog := s.catalog } h name).map (fun t => abs (s.commit t nu).catalog) =
      dropIndexCall (abs s.catalog) h name := by
  unfold Txn.dropIndex dropIndexCall
  cases hwr : writable h true with
  | error e => rfl
  | ok _ =>
    have hne := writable_ne_oplog hwr
    simp only [abs_get? s.catalog hne]
    cases hg : s.catalog.get? h with
    | none => rfl
    | some c =>
      simp only [Option.map_some, dropIn]
      by_cases hn : name = ""
      · subst hn
        have h1 := shape_filter c.indexes (fun n => n != "_id_")
        have h2 := shape_filter c.indexes (fun n => n == "_id_")
        have hemp' : ((absC c).defs.filter (fun x => x.1 != "_id_")).isEmpty =
            (c.indexes.filter fun x => x.1 != "_id_").isEmpty := by
          simp only [absC]; rw [h1]; simp [shape]
        simp only [Coll.dropIndex, bne_self_eq_false, Bool.false_eq_true, ↓reduceIte, beq_self_eq_true,
          dropAllIn, List.isEmpty_map, hemp']
        cases hemp : (c.indexes.filter fun x => x.1 != "_id_").isEmpty with
        | true => simp [Except.map, Sys.commit]
        | false =>
          simp only [Bool.false_eq_true, ↓reduceIte, Except.map, Sys.commit]
          rw [abs_set s.catalog _ hne]
          simp only [absC, SColl.dropAllIndexes]
          rw [h2]
      · have hb : (name == "") = false := by simpa using hn
        simp only [hb, Bool.false_eq_true, ↓reduceIte]
        rw [← dropIndex_abs c hn]
        cases hd : c.dropIndex name with
        | error e => rfl
        | ok r =>
          obtain ⟨coll, dropped⟩ := r
          obtain ⟨_, _, p, _, _, h1, _⟩ := dropIndex_spec hd
          obtain ⟨_, _, hdr⟩ := h1 hn
          subst hdr
          simp [Except.map, Sys.commit, abs_set s.catalog coll hne]

theorem refines_dropIndex (s : Sys) (h : Handle) (name : String) (oids : List V) :
    Refines sch s (.dropIndex h name) oids := by
  unfold Refines Sys.step
  simp only [Spec.step, runCall, ← txnDropIndex_abs s h name (s.nu oids)]
  cases Txn.dropIndex { catalog := s.catalog } h name <;> rfl

theorem refines_dropAllIndexes (s : Sys) (h : Handle) (oids : List V) :
    Refines sch s (.dropAllIndexes h) oids := by
  unfold Refines Sys.step
  simp only [Spec.step, runCall, ← txnDropIndex_abs s h "" (s.nu oids)]
  cases Txn.dropIndex { catalog := s.catalog } h "" <;> rfl

theorem find_shape (idx : List (String × Index)) (key : Doc) :
    (shape idx).find? (fun x => V.cmp (.doc x.2.key) (.doc key) == .eq) =
      (idx.find? (fun x => V.cmp (.doc x.2.config.key) (.doc key) == .eq)).map (fun x => (x.1, x.2.config)) := by
  simp only [shape, List.find?_map]
  rfl

theorem refines_dropIndexByKey (s : Sys) (h : Handle) (key : Doc) (oids : List V) :
    Refines sch s (.dropIndexByKey h key) oids := by
  unfold Refines Sys.step
  simp only [Spec.step, runCall, Txn.dropIndexByKey]
  cases hwr : writable h true with
  | error e => rfl
  | ok _ =>
    have hne := writable_ne_oplog hwr
    simp only [abs_get? s.catalog hne]
    cases hg : s.catalog.get? h with
    | none => rfl
    | some c =>
      simp only [Option.map_some]
      have hfs := find_shape c.indexes key
      simp only [absC]
      have hfun2 : (fun (x : String × Index) => match x with | (_, i) => V.cmp (.doc i.config.key) (.doc key) == .eq) =
          fun x => V.cmp (.doc x.2.config.key) (.doc key) == .eq := by funext x; rfl
      rw [hfun2, hfs]
      cases hf : c.indexes.find? (fun x => V.cmp (.doc x.2.config.key) (.doc key) == .eq) with
      | none => rfl
      | some p =>
        obtain ⟨name, i⟩ := p
        simp only [Option.map_some]
        rw [← txnDropIndex_abs s h name (s.nu oids)]
        cases Txn.dropIndex { catalog := s.catalog } h name with
        | error e => rfl
        | ok t => rfl

end Lungo.SeqRef
