/-
  Lungo.Proofs.SeqMgmt — C01: createCollection, dropCollection, dropDatabase, dropIndex,
  dropAllIndexes, dropIndexByKey, createIndex.
-/
import Lungo.Proofs.SeqDelete
namespace Lungo.C01
open Lungo Lungo.Spec

variable {sch : SchemaEval}

/-! ### createCollection -/

theorem refines_createCollection (s : Sys) (h : Handle) (oids : List V) :
    Refines sch s (.createCollection h) oids := by
  unfold Refines Sys.step
  simp only [Spec.step, runCall, Txn.create]
  cases hwr : writable h true with
  | error e => rfl
  | ok _ =>
    have hne := writable_ne_oplog hwr
    simp only [abs_get?_isSome s.catalog hne]
    cases hg : (s.catalog.get? h).isSome with
    | true => simp [Except.map, Sys.commit]
    | false => simp [Except.map, Sys.commit, abs_set s.catalog _ hne, absC_new]

/-! ### drop (collection / database) -/

/-- a fold of oplog appends only sets the bit `logged` -/
theorem abs_fold_append {α : Type} (F : Catalog × Nu → α → Catalog × Nu)
    (hF : ∀ cn a, ∃ h op doc ch, F cn a = appendOplog cn.1 cn.2 h op doc ch) :
    ∀ (l : List α) (cn : Catalog × Nu), (∃ c, (oplogHandle, c) ∈ cn.1.namespaces) →
      abs (l.foldl F cn).1 = (if l.isEmpty then abs cn.1 else (abs cn.1).log) ∧
      ∃ c, (oplogHandle, c) ∈ (l.foldl F cn).1.namespaces
  | [], cn, ho => ⟨rfl, ho⟩
  | a :: r, cn, ho => by
    simp only [List.foldl_cons, List.isEmpty_cons, Bool.false_eq_true, ↓reduceIte]
    obtain ⟨h, op, doc, ch, e⟩ := hF cn a
    obtain ⟨h1, h2⟩ := abs_appendOplog ho cn.2 h op doc ch
    rw [← e] at h1 h2
    obtain ⟨h3, h4⟩ := abs_fold_append F hF r (F cn a) h2
    refine ⟨?_, h4⟩
    rw [h3, h1]
    split <;> rfl

def hitBy (h : Handle) (ns : Handle) : Bool := ns == h || (h.coll == "" && ns.db == h.db)

theorem filter_abs (cat : Catalog) (p : Handle → Bool) :
    (abs cat).colls.filter (fun x => p x.1) = (cat.namespaces.filter (fun x => p x.1)).map absNs := by
  simp only [abs, List.filter_map]
  rfl

/-- `Transaction.Drop` on the abstraction -/
theorem txnDrop_abs (s : Sys) (h : Handle) (oids : List V) (hi : SysInv sch s) :
    (Txn.drop { catalog := s.catalog } h (s.nu oids)).map (fun r => abs (s.commit r.1 r.2).catalog) =
      match writable h false with
      | .error e => .error e
      | .ok _ =>
        if ((abs s.catalog).colls.filter fun x => hitBy h x.1).isEmpty then .ok (abs s.catalog)
        else .ok { colls := (abs s.catalog).colls.filter fun x => !hitBy h x.1, logged := true } := by
  unfold Txn.drop
  cases hwr : writable h false with
  | error e => rfl
  | ok _ =>
    have hne := writable_ne_oplog hwr
    have hdb := writable_db hwr
    have hfa := filter_abs s.catalog (fun n => !hitBy h n)
    simp only [filter_abs, hfa, List.isEmpty_map]
    have hfun : (fun (x : Handle × Coll) => x.1 == h || (h.coll == "" && x.1.db == h.db)) = fun x => hitBy h x.1 := rfl
    have hfun2 : (fun (x : Handle × Coll) => !(x.1 == h || (h.coll == "" && x.1.db == h.db))) = fun x => !hitBy h x.1 := rfl
    simp only [hfun, hfun2]
    cases hemp : (s.catalog.namespaces.filter fun x => hitBy h x.1).isEmpty with
    | true => simp [Except.map, Sys.commit]
    | false =>
      simp only [Bool.false_eq_true, ↓reduceIte, Except.map, Sys.commit]
      obtain ⟨oc, hoc⟩ := hi.oplog
      have hkeep : hitBy h oplogHandle = false := by
        have h1 : (oplogHandle == h) = false := by
          simp only [beq_eq_false_iff_ne, ne_eq]; exact fun e => hne e.symm
        have h2 : (oplogHandle.db == h.db) = false := by
          simp only [beq_eq_false_iff_ne, ne_eq]; exact fun e => hdb e.symm
        simp [hitBy, h1, h2]
      have ho0 : ∃ c, (oplogHandle, c) ∈
          ({ s.catalog with namespaces := s.catalog.namespaces.filter fun x => !hitBy h x.1 } : Catalog).namespaces :=
        ⟨oc, List.mem_filter.mpr ⟨hoc, by simp [hkeep]⟩⟩
      obtain ⟨f1, f2⟩ := abs_fold_append
        (fun (cn : Catalog × Nu) (ns : Handle) => appendOplog cn.1 cn.2 ns "drop" none none)
        (fun cn a => ⟨a, "drop", none, none, rfl⟩)
        ((s.catalog.namespaces.filter fun x => hitBy h x.1).map (·.1))
        ({ s.catalog with namespaces := s.catalog.namespaces.filter fun x => !hitBy h x.1 }, s.nu oids) ho0
      simp only [List.isEmpty_map, hemp, Bool.false_eq_true, ↓reduceIte] at f1
      have hbase : (abs { s.catalog with namespaces := s.catalog.namespaces.filter fun x => !hitBy h x.1 }).log =
          { colls := (s.catalog.namespaces.filter fun x => !hitBy h x.1).map absNs, logged := true } := by
        simp [abs, SeqDB.log]
      congr 1
      split
      · rw [(abs_appendOplog f2 _ h "dropDatabase" none none).1, f1, hbase]; rfl
      · rw [f1, hbase]

theorem refines_dropCollection (s : Sys) (h : Handle) (oids : List V) (hi : SysInv sch s) :
    Refines sch s (.dropCollection h) oids := by
  unfold Refines Sys.step
  have := txnDrop_abs s h oids hi
  simp only [Spec.step, runCall]
  cases hd : Txn.drop { catalog := s.catalog } h (s.nu oids) with
  | error e =>
    rw [hd] at this
    cases hwr : writable h false with
    | error e' => rw [hwr] at this; simp only [Except.map] at this ⊢; cases this; rfl
    | ok _ =>
      rw [hwr] at this
      simp only [Except.map] at this
      split at this <;> cases this
  | ok r =>
    rw [hd] at this
    cases hwr : writable h false with
    | error e' => rw [hwr] at this; simp [Except.map] at this
    | ok _ =>
      rw [hwr] at this
      simp only [Except.map] at this ⊢
      have hf : (fun (x : Handle × SColl) => x.1 == h || (h.coll == "" && x.1.db == h.db)) = fun x => hitBy h x.1 := rfl
      have hf2 : (fun (x : Handle × SColl) => !(x.1 == h || (h.coll == "" && x.1.db == h.db))) = fun x => !hitBy h x.1 := rfl
      simp only [hf, hf2]
      split at this
      · rename_i he
        simp only [Except.ok.injEq] at this
        simp [he, this]
      · rename_i he
        simp only [Except.ok.injEq] at this
        simp [he, this]

theorem hitBy_db (name : String) (ns : Handle) : hitBy ⟨name, ""⟩ ns = (ns.db == name) := by
  unfold hitBy
  simp only [beq_self_eq_true, Bool.true_and]
  cases hb : ns.db == name with
  | true => simp
  | false =>
    simp only [Bool.or_false, beq_eq_false_iff_ne, ne_eq]
    intro e
    rw [e] at hb
    simp at hb

theorem refines_dropDatabase (s : Sys) (name : String) (oids : List V) (hi : SysInv sch s) :
    Refines sch s (.dropDatabase name) oids := by
  unfold Refines Sys.step
  have := txnDrop_abs s ⟨name, ""⟩ oids hi
  simp only [Spec.step, runCall]
  simp only [hitBy_db] at this
  cases hd : Txn.drop { catalog := s.catalog } ⟨name, ""⟩ (s.nu oids) with
  | error e =>
    rw [hd] at this
    cases hwr : writable ⟨name, ""⟩ false with
    | error e' => rw [hwr] at this; simp only [Except.map] at this ⊢; cases this; rfl
    | ok _ =>
      rw [hwr] at this
      simp only [Except.map] at this
      split at this <;> cases this
  | ok r =>
    rw [hd] at this
    cases hwr : writable ⟨name, ""⟩ false with
    | error e' => rw [hwr] at this; simp [Except.map] at this
    | ok _ =>
      rw [hwr] at this
      simp only [Except.map] at this ⊢
      split at this
      · rename_i he
        simp only [Except.ok.injEq] at this
        simp [he, this]
      · rename_i he
        simp only [Except.ok.injEq] at this
        simp [he, this]

end Lungo.C01
