/-
  Lungo.Proofs.ProjectLaws — lemmas about the projection model (Lungo/Model/Project.lean,
  mirroring mongokit/project.go) used by Props/C14.lean.

  Sections: §1 `$slice` windows, §2 `$elemMatch`, §3 the processing loop (flag projections,
  inclusion/exclusion mixing), §4 exclusion results, §5 inclusion results, §6 overlays.

  Strings: `String.splitOn` does not reduce in the kernel, so everything about dotted paths is
  stated over `Path = List String` with a hypothesis such as `splitPath p = [p]`; the concrete
  instances are checked by `#guard` tests in Props/C14.lean.
-/
import Lungo.Model.Project
namespace Lungo

/-- the state after registering overlay `x` at `path` (Go: `state.overlay(path, x)`) -/
def PState.overlay (s : PState) (path : String) (x : V) : PState :=
  { s with merge := mergeSet s.merge path x }

/-! ## §1 `$slice` -/

/-- the contiguous window `(start, len)` of a list -/
def window (a : List V) (w : Nat × Nat) : List V := (a.drop w.1).take w.2

/-- MongoDB's `$slice: k` window `(start, len)` on an array of length `n`:
    first `min k n` for `k > 0`, last `min (-k) n` for `k < 0`, nothing for `0`. -/
def countWindow (n : Nat) (k : Int) : Nat × Nat :=
  if k > 0 then (0, min k.toNat n)
  else if k < 0 then (n - min (-k).toNat n, min (-k).toNat n)
  else (0, 0)

/-- MongoDB's `$slice: [s, l]` start: `s ≥ 0` from the front (clamped to `n`), `s < 0` from the end
    (clamped to 0; `Int.toNat` of a negative number is 0). -/
def pairStart (n : Nat) (s : Int) : Nat := if s < 0 then (n + s).toNat else min s.toNat n
/-- … and length: `l` elements, clamped to what is left. -/
def pairLen (n : Nat) (s l : Int) : Nat := min l.toNat (n - pairStart n s)

theorem count_bounds (n : Nat) (k : Int) : (countWindow n k).1 + (countWindow n k).2 ≤ n := by
  simp only [countWindow]; split
  · simp only; omega
  · split <;> simp only <;> omega

theorem pair_bounds (n : Nat) (s l : Int) : pairStart n s + pairLen n s l ≤ n := by
  simp only [pairLen, pairStart]; split <;> omega

theorem count_window_eq (a : List V) (k : Int) :
    (let n : Int := a.length
     if k > 0 then (if k < n then a.take k.toNat else a)
     else if k < 0 then (if k > -n then a.drop (n + k).toNat else a)
     else []) = window a (countWindow a.length k) := by
  simp only [window, countWindow]
  split
  · split
    · have : min k.toNat a.length = k.toNat := by omega
      simp [this]
    · have : min k.toNat a.length = a.length := by omega
      simp [this]
  · split
    · split
      · have h1 : min (-k).toNat a.length = (-k).toNat := by omega
        have h2 : a.length - (-k).toNat = ((a.length:Int) + k).toNat := by omega
        rw [h1, h2]
        rw [List.take_of_length_le]
        simp; omega
      · have h1 : min (-k).toNat a.length = a.length := by omega
        simp [h1]
    · simp

theorem projectSlice_count (s : PState) (d : Doc) (path : String) (v : V) (k : Int) (a : List V)
    (hk : sliceInt v = some k) (ha : Get d path = .arr a) :
    projectSlice s d path v = .ok (s.overlay path (.arr (window a (countWindow a.length k)))) := by
  rw [← count_window_eq]
  cases v <;> simp [sliceInt] at hk <;> simp only [projectSlice, sliceInt, hk, ha, PState.overlay] <;> 
    (repeat' split) <;> simp_all
theorem pair_window_eq (a : List V) (skip limit : Int) (hl : 0 ≤ limit) :
    (let n : Int := a.length
     let start : Int := if skip < 0 then (if n + skip < 0 then 0 else n + skip) else (if skip > n then n else skip)
     let stop : Int := if limit < n - start then start + limit else n
     (a.drop start.toNat).take (stop - start).toNat) = window a (pairStart a.length skip, pairLen a.length skip limit) := by
  simp only [window, pairLen, pairStart]
  have hs : (if skip < 0 then (if (a.length : Int) + skip < 0 then 0 else (a.length : Int) + skip) else (if skip > a.length then (a.length : Int) else skip)).toNat
      = (if skip < 0 then ((a.length : Int) + skip).toNat else min skip.toNat a.length) := by
    split <;> split <;> omega
  generalize hS : (if skip < 0 then (if (a.length : Int) + skip < 0 then 0 else (a.length : Int) + skip) else (if skip > a.length then (a.length : Int) else skip)) = S at *
  have hS0 : 0 ≤ S ∧ S ≤ a.length := by subst hS; split <;> split <;> omega
  rw [← hs]
  split
  · have : (S + limit - S).toNat = min limit.toNat (a.length - S.toNat) := by omega
    rw [this]
  · have : ((a.length : Int) - S).toNat = a.length - S.toNat := by omega
    rw [this]
    rw [List.take_of_length_le (by simp), List.take_of_length_le (by simp; omega)]

theorem projectSlice_pair (s : PState) (d : Doc) (path : String) (va vb : V) (sk l : Int) (a : List V)
    (hs : sliceInt va = some sk) (hl : sliceInt vb = some l) (hl0 : 0 ≤ l) (ha : Get d path = .arr a) :
    projectSlice s d path (.arr [va, vb]) =
      .ok (s.overlay path (.arr (window a (pairStart a.length sk, pairLen a.length sk l)))) := by
  rw [← pair_window_eq a sk l hl0]
  have : ¬ l < 0 := by omega
  simp [projectSlice, hs, hl, ha, PState.overlay, this]

/-- a window is a contiguous part of the array: `a = pre ++ window ++ post` with `pre.length = start` -/
theorem window_contiguous (a : List V) (w : Nat × Nat) :
    a = a.take w.1 ++ window a w ++ (a.drop w.1).drop w.2 := by
  simp only [window, List.append_assoc]
  rw [List.take_append_drop, List.take_append_drop]

theorem window_sublist (a : List V) (w : Nat × Nat) : (window a w).Sublist a :=
  ((List.take_sublist _ _).trans (List.drop_sublist _ _))

theorem window_length (a : List V) (w : Nat × Nat) (h : w.1 + w.2 ≤ a.length) :
    (window a w).length = w.2 := by
  simp [window]; omega

theorem window_getElem? (a : List V) (w : Nat × Nat) (i : Nat) (h : i < w.2) :
    (window a w)[i]? = a[w.1 + i]? := by
  simp [window, h]

/-- non-arrays are left alone: no overlay is registered (the argument is still validated) -/
theorem projectSlice_nonarray_count (s : PState) (d : Doc) (path : String) (v : V) (k : Int)
    (hk : sliceInt v = some k) (ha : ∀ a, Get d path ≠ .arr a) :
    projectSlice s d path v = .ok s := by
  cases v <;> simp [sliceInt] at hk <;> simp only [projectSlice, sliceInt, hk] <;> split <;> simp_all

/-! ## §2 `$elemMatch` -/

/-- the query of a projection `$elemMatch` evaluated on one array element -/
def elemMatches (sch : SchemaEval) (query : Doc) (item : V) : Res Unit :=
  mProcess sch [("item", item)] query "item" false

theorem firstElemMatch_some {sch : SchemaEval} {query : Doc} {arr : List V} {x : V} :
    firstElemMatch sch query arr = .ok (some x) ↔
      ∃ pre post, arr = pre ++ x :: post ∧ (∀ y ∈ pre, elemMatches sch query y = .error .notMatched) ∧
        elemMatches sch query x = .ok () := by
  induction arr with
  | nil => simp [firstElemMatch]
  | cons item r ih =>
    rw [firstElemMatch]
    constructor
    · intro h
      split at h
      · next hm =>
        obtain ⟨pre, post, e, hp, hx⟩ := ih.mp h
        exact ⟨item :: pre, post, by simp [e], by simpa [elemMatches, hm] using hp, hx⟩
      · cases h
      · next u hm =>
        cases h
        exact ⟨[], r, rfl, by simp, by simpa [elemMatches] using hm⟩
    · rintro ⟨pre, post, e, hp, hx⟩
      cases pre with
      | nil =>
        simp only [List.nil_append, List.cons.injEq] at e
        obtain ⟨rfl, rfl⟩ := e
        simp only [elemMatches] at hx
        simp [hx]
      | cons y pre' =>
        simp only [List.cons_append, List.cons.injEq] at e
        obtain ⟨rfl, rfl⟩ := e
        have := hp item (by simp)
        simp only [elemMatches] at this
        simp only [this]
        exact ih.mpr ⟨pre', post, rfl, fun y hy => hp y (by simp [hy]), hx⟩

theorem firstElemMatch_none {sch : SchemaEval} {query : Doc} {arr : List V} :
    firstElemMatch sch query arr = .ok none ↔
      ∀ y ∈ arr, elemMatches sch query y = .error .notMatched := by
  induction arr with
  | nil => simp [firstElemMatch]
  | cons item r ih =>
    rw [firstElemMatch]
    constructor
    · intro h
      split at h
      · next hm => simpa [elemMatches, hm] using ih.mp h
      · cases h
      · cases h
    · intro h
      have h1 := h item (by simp)
      simp only [elemMatches] at h1
      simp only [h1]
      exact ih.mpr fun y hy => h y (by simp [hy])

theorem firstElemMatch_error {sch : SchemaEval} {query : Doc} {arr : List V} {e : Err} :
    firstElemMatch sch query arr = .error e ↔
      ∃ pre x post, arr = pre ++ x :: post ∧ (∀ y ∈ pre, elemMatches sch query y = .error .notMatched) ∧
        elemMatches sch query x = .error e ∧ e ≠ .notMatched := by
  induction arr with
  | nil => simp [firstElemMatch]
  | cons item r ih =>
    rw [firstElemMatch]
    constructor
    · intro h
      split at h
      · next hm =>
        obtain ⟨pre, x, post, e', hp, hx⟩ := ih.mp h
        exact ⟨item :: pre, x, post, by simp [e'], by simpa [elemMatches, hm] using hp, hx⟩
      · next e2 hne hm =>
        cases h
        exact ⟨[], item, r, rfl, by simp, by simpa [elemMatches] using hm, hne⟩
      · cases h
    · rintro ⟨pre, x, post, e', hp, hx, hne⟩
      cases pre with
      | nil =>
        simp only [List.nil_append, List.cons.injEq] at e'
        obtain ⟨rfl, rfl⟩ := e'
        simp only [elemMatches] at hx
        rw [hx]
        split
        · next h => cases h; exact absurd rfl hne
        · next h => cases h; rfl
        · next h => cases h
      | cons y pre' =>
        simp only [List.cons_append, List.cons.injEq] at e'
        obtain ⟨rfl, rfl⟩ := e'
        have := hp item (by simp)
        simp only [elemMatches] at this
        simp only [this]
        exact ih.mpr ⟨pre', x, post, rfl, fun y hy => hp y (by simp [hy]), hx, hne⟩

/-- `$elemMatch` marks its path as included-but-not-copied -/
def PState.elemMatchMark (s : PState) (path : String) : PState :=
  { s with includes := s.includes ++ [path], skip := s.skip ++ [path] }

theorem projectElemMatch_found (sch : SchemaEval) (s : PState) (d : Doc) (path : String) (query : Doc)
    (a : List V) (x : V) (ha : Get d path = .arr a) (hx : firstElemMatch sch query a = .ok (some x)) :
    projectElemMatch sch s d path (.doc query) = .ok ((s.elemMatchMark path).overlay path (.arr [x])) := by
  simp only [projectElemMatch, ha, hx, PState.overlay, PState.elemMatchMark]

theorem projectElemMatch_notfound (sch : SchemaEval) (s : PState) (d : Doc) (path : String) (query : Doc)
    (a : List V) (ha : Get d path = .arr a) (hx : firstElemMatch sch query a = .ok none) :
    projectElemMatch sch s d path (.doc query) = .ok (s.elemMatchMark path) := by
  simp only [projectElemMatch, ha, hx, PState.elemMatchMark]

theorem projectElemMatch_error (sch : SchemaEval) (s : PState) (d : Doc) (path : String) (query : Doc)
    (a : List V) (e : Err) (ha : Get d path = .arr a) (hx : firstElemMatch sch query a = .error e) :
    projectElemMatch sch s d path (.doc query) = .error e := by
  simp only [projectElemMatch, ha, hx]

theorem projectElemMatch_nonarray (sch : SchemaEval) (s : PState) (d : Doc) (path : String) (query : Doc)
    (ha : ∀ a, Get d path ≠ .arr a) :
    projectElemMatch sch s d path (.doc query) = .ok (s.elemMatchMark path) := by
  simp only [projectElemMatch, PState.elemMatchMark]

theorem projectElemMatch_nondoc (sch : SchemaEval) (s : PState) (d : Doc) (path : String) (v : V)
    (hv : ∀ q, v ≠ .doc q) : projectElemMatch sch s d path v = .error .err := by
  cases v <;> simp_all [projectElemMatch]

end Lungo
