/-
  Lungo.Proofs.ProjectLaws — lemmas about the projection model (Lungo/Model/Project.lean,
  mirroring mongokit/project.go) used by Props/C14.lean.

  Sections: §1 `$slice` windows, §2 `$elemMatch`, §3 the processing loop (flag projections,
  inclusion/exclusion mixing), §4 exclusion results, §5 inclusion results, §6 overlays, §7 single operator entries end to end,
  §8 integer ranges of the `$slice` arithmetic.

  Strings: `String.splitOn` does not reduce in the kernel, so everything about dotted paths is
  stated over `Path = List String` with a hypothesis such as `splitPath p = [p]`; the concrete
  instances are checked by `#guard` tests in Props/C14.lean.
-/
import Lungo.Model.Project
import Lungo.Proofs.CompareLaws
namespace Lungo

/-- the state after registering overlay `x` at `path` (Go: `state.overlay(path, x)`) -/
def PState.overlay (s : PState) (path : String) (x : V) : PState :=
  { s with merge := mergeSet s.merge path x }

/-! ## §1 `$slice` -/

/-- the contiguous window `(start, len)` of a list -/
def window (a : List V) (w : Nat × Nat) : List V := (a.drop w.1).take w.2

/-- MongoDB's `$slice: k` window `(start, len)` on an array of length `n`:
    first `min k n` for `k > 0`, last `min (-k) n` for `k < 0`, nothing for `0`. -/
def countWindow (n : Nat) (k : Int) : Nat × Nat :=
  if k > 0 then (0, min k.toNat n)
  else if k < 0 then (n - min (-k).toNat n, min (-k).toNat n)
  else (0, 0)

/-- MongoDB's `$slice: [s, l]` start: `s ≥ 0` from the front (clamped to `n`), `s < 0` from the end
    (clamped to 0; `Int.toNat` of a negative number is 0). -/
def pairStart (n : Nat) (s : Int) : Nat := if s < 0 then (n + s).toNat else min s.toNat n
/-- … and length: `l` elements, clamped to what is left. -/
def pairLen (n : Nat) (s l : Int) : Nat := min l.toNat (n - pairStart n s)

theorem count_bounds (n : Nat) (k : Int) : (countWindow n k).1 + (countWindow n k).2 ≤ n := by
  simp only [countWindow]; split
  · simp only; omega
  · split <;> simp only <;> omega

theorem pair_bounds (n : Nat) (s l : Int) : pairStart n s + pairLen n s l ≤ n := by
  simp only [pairLen, pairStart]; split <;> omega

theorem count_window_eq (a : List V) (k : Int) :
    (let n : Int := a.length
     if k > 0 then (if k < n then a.take k.toNat else a)
     else if k < 0 then (if k > -n then a.drop (n + k).toNat else a)
     else []) = window a (countWindow a.length k) := by
  simp only [window, countWindow]
  split
  · split
    · have : min k.toNat a.length = k.toNat := by omega
      simp [this]
    · have : min k.toNat a.length = a.length := by omega
      simp [this]
  · split
    · split
      · have h1 : min (-k).toNat a.length = (-k).toNat := by omega
        have h2 : a.length - (-k).toNat = ((a.length:Int) + k).toNat := by omega
        rw [h1, h2]
        rw [List.take_of_length_le]
        simp; omega
      · have h1 : min (-k).toNat a.length = a.length := by omega
        simp [h1]
    · simp

theorem projectSlice_count (s : PState) (d : Doc) (path : String) (v : V) (k : Int) (a : List V)
    (hk : sliceInt v = some k) (ha : Get d path = .arr a) :
    projectSlice s d path v = .ok (s.overlay path (.arr (window a (countWindow a.length k)))) := by
  rw [← count_window_eq]
  cases v <;> simp [sliceInt] at hk <;> simp only [projectSlice, sliceInt, hk, ha, PState.overlay] <;> 
    (repeat' split) <;> simp_all
theorem pair_window_eq (a : List V) (skip limit : Int) (hl : 0 ≤ limit) :
    (let n : Int := a.length
     let start : Int := if skip < 0 then (if n + skip < 0 then 0 else n + skip) else (if skip > n then n else skip)
     let stop : Int := if limit < n - start then start + limit else n
     (a.drop start.toNat).take (stop - start).toNat) = window a (pairStart a.length skip, pairLen a.length skip limit) := by
  simp only [window, pairLen, pairStart]
  have hs : (if skip < 0 then (if (a.length : Int) + skip < 0 then 0 else (a.length : Int) + skip) else (if skip > a.length then (a.length : Int) else skip)).toNat
      = (if skip < 0 then ((a.length : Int) + skip).toNat else min skip.toNat a.length) := by
    split <;> split <;> omega
  generalize hS : (if skip < 0 then (if (a.length : Int) + skip < 0 then 0 else (a.length : Int) + skip) else (if skip > a.length then (a.length : Int) else skip)) = S at *
  have hS0 : 0 ≤ S ∧ S ≤ a.length := by subst hS; split <;> split <;> omega
  rw [← hs]
  split
  · have : (S + limit - S).toNat = min limit.toNat (a.length - S.toNat) := by omega
    rw [this]
  · have : ((a.length : Int) - S).toNat = a.length - S.toNat := by omega
    rw [this]
    rw [List.take_of_length_le (by simp), List.take_of_length_le (by simp; omega)]

theorem projectSlice_pair (s : PState) (d : Doc) (path : String) (va vb : V) (sk l : Int) (a : List V)
    (hs : sliceInt va = some sk) (hl : sliceInt vb = some l) (hl0 : 0 ≤ l) (ha : Get d path = .arr a) :
    projectSlice s d path (.arr [va, vb]) =
      .ok (s.overlay path (.arr (window a (pairStart a.length sk, pairLen a.length sk l)))) := by
  rw [← pair_window_eq a sk l hl0]
  have : ¬ l < 0 := by omega
  simp [projectSlice, hs, hl, ha, PState.overlay, this]

/-- a window is a contiguous part of the array: `a = pre ++ window ++ post` with `pre.length = start` -/
theorem window_contiguous (a : List V) (w : Nat × Nat) :
    a = a.take w.1 ++ window a w ++ (a.drop w.1).drop w.2 := by
  simp only [window, List.append_assoc]
  rw [List.take_append_drop, List.take_append_drop]

theorem window_sublist (a : List V) (w : Nat × Nat) : (window a w).Sublist a :=
  ((List.take_sublist _ _).trans (List.drop_sublist _ _))

theorem window_length (a : List V) (w : Nat × Nat) (h : w.1 + w.2 ≤ a.length) :
    (window a w).length = w.2 := by
  simp [window]; omega

theorem window_getElem? (a : List V) (w : Nat × Nat) (i : Nat) (h : i < w.2) :
    (window a w)[i]? = a[w.1 + i]? := by
  simp [window, h]

/-- non-arrays are left alone: no overlay is registered (the argument is still validated) -/
theorem projectSlice_nonarray_count (s : PState) (d : Doc) (path : String) (v : V) (k : Int)
    (hk : sliceInt v = some k) (ha : ∀ a, Get d path ≠ .arr a) :
    projectSlice s d path v = .ok s := by
  cases v <;> simp [sliceInt] at hk <;> simp only [projectSlice, sliceInt, hk] <;> split <;> simp_all

/-! ## §2 `$elemMatch` -/

/-- a query made of field conditions only (no operator key) applies to embedded documents only:
    other elements are not eligible and are skipped without evaluating the query -/
def elemEligible (query : Doc) (item : V) : Bool :=
  !((query.all fun (k, _) => !isOpKey k) && !item.isDoc)

/-- the query of a projection `$elemMatch` on one array element: "not matched" for an element that
    is not eligible, else the query evaluated on the virtual document `{item: x}` -/
def elemMatches (sch : SchemaEval) (query : Doc) (item : V) : Res Unit :=
  if elemEligible query item then mProcess sch [("item", item)] query "item" false
  else .error .notMatched

theorem firstElemMatch_cons (sch : SchemaEval) (query : Doc) (item : V) (r : List V) :
    firstElemMatch sch query (item :: r) =
      match elemMatches sch query item with
      | .error .notMatched => firstElemMatch sch query r
      | .error e => .error e
      | .ok _ => .ok (some item) := by
  rw [firstElemMatch]
  simp only [elemMatches, elemEligible]
  split
  · next h => simp [h]
  · next h =>
    have h' : ((query.all fun x => !isOpKey x.fst) && !item.isDoc) = false := by simpa using h
    simp only [h', Bool.not_false, ↓reduceIte]
    split <;> simp_all

theorem firstElemMatch_some {sch : SchemaEval} {query : Doc} {arr : List V} {x : V} :
    firstElemMatch sch query arr = .ok (some x) ↔
      ∃ pre post, arr = pre ++ x :: post ∧ (∀ y ∈ pre, elemMatches sch query y = .error .notMatched) ∧
        elemMatches sch query x = .ok () := by
  induction arr with
  | nil => simp [firstElemMatch]
  | cons item r ih =>
    rw [firstElemMatch_cons]
    constructor
    · intro h
      split at h
      · next hm =>
        obtain ⟨pre, post, e, hp, hx⟩ := ih.mp h
        exact ⟨item :: pre, post, by simp [e], by simpa [hm] using hp, hx⟩
      · cases h
      · next u hm =>
        cases h
        exact ⟨[], r, rfl, by simp, hm⟩
    · rintro ⟨pre, post, e, hp, hx⟩
      cases pre with
      | nil =>
        simp only [List.nil_append, List.cons.injEq] at e
        obtain ⟨rfl, rfl⟩ := e
        simp [hx]
      | cons y pre' =>
        simp only [List.cons_append, List.cons.injEq] at e
        obtain ⟨rfl, rfl⟩ := e
        have := hp item (by simp)
        simp only [this]
        exact ih.mpr ⟨pre', post, rfl, fun y hy => hp y (by simp [hy]), hx⟩

theorem firstElemMatch_none {sch : SchemaEval} {query : Doc} {arr : List V} :
    firstElemMatch sch query arr = .ok none ↔
      ∀ y ∈ arr, elemMatches sch query y = .error .notMatched := by
  induction arr with
  | nil => simp [firstElemMatch]
  | cons item r ih =>
    rw [firstElemMatch_cons]
    constructor
    · intro h
      split at h
      · next hm => simpa [hm] using ih.mp h
      · cases h
      · cases h
    · intro h
      have h1 := h item (by simp)
      simp only [h1]
      exact ih.mpr fun y hy => h y (by simp [hy])

theorem firstElemMatch_error {sch : SchemaEval} {query : Doc} {arr : List V} {e : Err} :
    firstElemMatch sch query arr = .error e ↔
      ∃ pre x post, arr = pre ++ x :: post ∧ (∀ y ∈ pre, elemMatches sch query y = .error .notMatched) ∧
        elemMatches sch query x = .error e ∧ e ≠ .notMatched := by
  induction arr with
  | nil => simp [firstElemMatch]
  | cons item r ih =>
    rw [firstElemMatch_cons]
    constructor
    · intro h
      split at h
      · next hm =>
        obtain ⟨pre, x, post, e', hp, hx⟩ := ih.mp h
        exact ⟨item :: pre, x, post, by simp [e'], by simpa [hm] using hp, hx⟩
      · next e2 hne hm =>
        cases h
        exact ⟨[], item, r, rfl, by simp, hm, hne⟩
      · cases h
    · rintro ⟨pre, x, post, e', hp, hx, hne⟩
      cases pre with
      | nil =>
        simp only [List.nil_append, List.cons.injEq] at e'
        obtain ⟨rfl, rfl⟩ := e'
        rw [hx]
        split
        · next h => cases h; exact absurd rfl hne
        · next h => cases h; rfl
        · next h => cases h
      | cons y pre' =>
        simp only [List.cons_append, List.cons.injEq] at e'
        obtain ⟨rfl, rfl⟩ := e'
        have := hp item (by simp)
        simp only [this]
        exact ih.mpr ⟨pre', x, post, rfl, fun y hy => hp y (by simp [hy]), hx, hne⟩

/-- "matches" unfolded: the element is eligible and the query accepts it -/
theorem elemMatches_ok_iff (sch : SchemaEval) (query : Doc) (x : V) :
    elemMatches sch query x = .ok () ↔
      elemEligible query x = true ∧ mProcess sch [("item", x)] query "item" false = .ok () := by
  simp only [elemMatches]
  split
  · next h => simp [h]
  · next h => simp [h]

/-- "does not match" unfolded: not eligible, or the query rejects it -/
theorem elemMatches_notMatched_iff (sch : SchemaEval) (query : Doc) (x : V) :
    elemMatches sch query x = .error .notMatched ↔
      elemEligible query x = false ∨ mProcess sch [("item", x)] query "item" false = .error .notMatched := by
  simp only [elemMatches]
  split
  · next h => simp [h]
  · next h => simp [h]

/-- `$elemMatch` marks its path as included-but-not-copied -/
def PState.elemMatchMark (s : PState) (path : String) : PState :=
  { s with includes := s.includes ++ [path], skip := s.skip ++ [path] }

theorem projectElemMatch_found (sch : SchemaEval) (s : PState) (d : Doc) (path : String) (query : Doc)
    (a : List V) (x : V) (ha : Get d path = .arr a) (hx : firstElemMatch sch query a = .ok (some x)) :
    projectElemMatch sch s d path (.doc query) = .ok ((s.elemMatchMark path).overlay path (.arr [x])) := by
  simp only [projectElemMatch, ha, hx, PState.overlay, PState.elemMatchMark]

theorem projectElemMatch_notfound (sch : SchemaEval) (s : PState) (d : Doc) (path : String) (query : Doc)
    (a : List V) (ha : Get d path = .arr a) (hx : firstElemMatch sch query a = .ok none) :
    projectElemMatch sch s d path (.doc query) = .ok (s.elemMatchMark path) := by
  simp only [projectElemMatch, ha, hx, PState.elemMatchMark]

theorem projectElemMatch_error (sch : SchemaEval) (s : PState) (d : Doc) (path : String) (query : Doc)
    (a : List V) (e : Err) (ha : Get d path = .arr a) (hx : firstElemMatch sch query a = .error e) :
    projectElemMatch sch s d path (.doc query) = .error e := by
  simp only [projectElemMatch, ha, hx]

theorem projectElemMatch_nonarray (sch : SchemaEval) (s : PState) (d : Doc) (path : String) (query : Doc)
    (ha : ∀ a, Get d path ≠ .arr a) :
    projectElemMatch sch s d path (.doc query) = .ok (s.elemMatchMark path) := by
  simp only [projectElemMatch, PState.elemMatchMark]

theorem projectElemMatch_nondoc (sch : SchemaEval) (s : PState) (d : Doc) (path : String) (v : V)
    (hv : ∀ q, v ≠ .doc q) : projectElemMatch sch s d path v = .error .err := by
  cases v <;> simp_all [projectElemMatch]

/-! ## §3 the processing loop -/

/-- the meaning of a projection flag: a boolean, or a number (of any numeric type) equal to 1 / 0 -/
def flagOf (v : V) : Option Bool :=
  match v with
  | .bool b => some b
  | _ => if V.cmp v (.i64 1) == .eq then some true
         else if V.cmp v (.i64 0) == .eq then some false else none

/-- registering a flag -/
def flagStep (s : PState) (path : String) (b : Bool) : PState :=
  if b then { s with includes := s.includes ++ [path] }
  else if path == "_id" then { s with hideID := true }
  else { s with excludes := s.excludes ++ [path] }

theorem projectCondition_eq (s : PState) (path : String) (v : V) :
    projectCondition s path v = match flagOf v with
      | some b => .ok (flagStep s path b)
      | none => .error .err := by
  cases v with
  | bool b => cases b <;> simp only [projectCondition, flagOf, flagStep] <;> simp <;> split <;> rfl
  | _ =>
    simp only [projectCondition, flagOf]
    generalize V.cmp _ (V.i64 1) = c1
    generalize V.cmp _ (V.i64 0) = c0
    cases c1 <;> cases c0 <;> simp [flagStep] <;> split <;> rfl

theorem flagOf_doc (fs : List (String × V)) : flagOf (.doc fs) = none := by
  have h1 : V.cmp (.doc fs) (.i64 1) = .gt := V.cmp_of_rank_gt (by simp [V.cls, Class.rank])
  have h0 : V.cmp (.doc fs) (.i64 0) = .gt := V.cmp_of_rank_gt (by simp [V.cls, Class.rank])
  simp [flagOf, h1, h0]

/-- one entry of the projection document (the loop body of `Process` in the projection context) -/
def projEntry (sch : SchemaEval) (s : PState) (d : Doc) (key : String) (value : V) : Res PState :=
  if isOpKey key then .error .err
  else match value with
    | .doc ((k0, v0) :: exps) =>
      if isOpKey k0 then projOps sch s d key ((k0, v0) :: exps)
      else projectCondition s key value
    | _ => projectCondition s key value

theorem projProcess_nil (sch : SchemaEval) (s : PState) (d : Doc) : projProcess sch s d [] = .ok s := rfl

theorem projProcess_cons (sch : SchemaEval) (s : PState) (d : Doc) (key : String) (value : V)
    (r : List (String × V)) :
    projProcess sch s d ((key, value) :: r) =
      match projEntry sch s d key value with
      | .error e => .error e
      | .ok s' => projProcess sch s' d r := rfl

/-- a flag entry is handled by `projectCondition` -/
theorem projEntry_flag (sch : SchemaEval) (s : PState) (d : Doc) (key : String) (value : V) (b : Bool)
    (hk : isOpKey key = false) (hf : flagOf value = some b) :
    projEntry sch s d key value = .ok (flagStep s key b) := by
  have : projEntry sch s d key value = projectCondition s key value := by
    simp only [projEntry, hk, Bool.false_eq_true, ↓reduceIte]
    split
    · next k0 v0 exps => rw [flagOf_doc] at hf; cases hf
    · rfl
  rw [this, projectCondition_eq, hf]

/-- the state only grows: earlier registrations stay, in place -/
structure PState.le (s s' : PState) : Prop where
  inc : s.includes <+: s'.includes
  exc : s.excludes <+: s'.excludes
  hide : s.hideID = true → s'.hideID = true

theorem PState.le_refl (s : PState) : s.le s := ⟨List.prefix_refl _, List.prefix_refl _, id⟩
theorem PState.le_trans {a b c : PState} (h1 : a.le b) (h2 : b.le c) : a.le c :=
  ⟨h1.inc.trans h2.inc, h1.exc.trans h2.exc, fun h => h2.hide (h1.hide h)⟩

theorem flagStep_le (s : PState) (path : String) (b : Bool) : s.le (flagStep s path b) := by
  simp only [flagStep]
  split
  · exact ⟨List.prefix_append _ _, List.prefix_refl _, id⟩
  · split
    · exact ⟨List.prefix_refl _, List.prefix_refl _, fun _ => rfl⟩
    · exact ⟨List.prefix_refl _, List.prefix_append _ _, id⟩

theorem projectCondition_le {s s' : PState} {path : String} {v : V}
    (h : projectCondition s path v = .ok s') : s.le s' := by
  rw [projectCondition_eq] at h
  split at h
  · cases h; exact flagStep_le _ _ _
  · cases h

theorem projectSlice_le {s s' : PState} {d : Doc} {path : String} {v : V}
    (h : projectSlice s d path v = .ok s') : s.le s' := by
  simp only [projectSlice] at h
  split at h
  · cases h
  · split at h
    · (repeat' split at h) <;> cases h <;> exact ⟨List.prefix_refl _, List.prefix_refl _, id⟩
    · cases h; exact PState.le_refl _

theorem projectElemMatch_le {sch : SchemaEval} {s s' : PState} {d : Doc} {path : String} {v : V}
    (h : projectElemMatch sch s d path v = .ok s') : s.le s' ∧ path ∈ s'.includes := by
  simp only [projectElemMatch] at h
  (repeat' split at h) <;> cases h <;>
    exact ⟨⟨List.prefix_append _ _, List.prefix_refl _, id⟩, by simp⟩

theorem projOp_le {sch : SchemaEval} {s s' : PState} {d : Doc} {op path : String} {v : V}
    (h : projOp sch s d op path v = .ok s') : s.le s' := by
  simp only [projOp] at h
  split at h
  · exact projectCondition_le h
  · split at h
    · exact projectSlice_le h
    · split at h
      · exact (projectElemMatch_le h).1
      · cases h

theorem projOps_le {sch : SchemaEval} {d : Doc} {path : String} (ops : List (String × V)) :
    ∀ {s s' : PState}, projOps sch s d path ops = .ok s' → s.le s' := by
  induction ops with
  | nil => intro s s' h; simp only [projOps] at h; cases h; exact PState.le_refl _
  | cons kv r ih =>
    obtain ⟨k, v⟩ := kv
    intro s s' h
    simp only [projOps] at h
    split at h
    · cases h
    · split at h
      · cases h
      · next s1 h1 => exact PState.le_trans (projOp_le h1) (ih h)

theorem projEntry_le {sch : SchemaEval} {s s' : PState} {d : Doc} {key : String} {value : V}
    (h : projEntry sch s d key value = .ok s') : s.le s' := by
  simp only [projEntry] at h
  split at h
  · cases h
  · split at h
    · split at h
      · exact projOps_le _ h
      · exact projectCondition_le h
    · exact projectCondition_le h

theorem projProcess_le {sch : SchemaEval} {d : Doc} (proj : List (String × V)) :
    ∀ {s s' : PState}, projProcess sch s d proj = .ok s' → s.le s' := by
  induction proj with
  | nil => intro s s' h; cases h; exact PState.le_refl _
  | cons kv r ih =>
    obtain ⟨k, v⟩ := kv
    intro s s' h
    rw [projProcess_cons] at h
    split at h
    · cases h
    · next s1 h1 => exact PState.le_trans (projEntry_le h1) (ih h)

/-- an accepted projection has no operator key at top level -/
theorem projProcess_keys {sch : SchemaEval} {d : Doc} (proj : List (String × V)) :
    ∀ {s s' : PState}, projProcess sch s d proj = .ok s' → ∀ kv ∈ proj, isOpKey kv.1 = false := by
  induction proj with
  | nil => intro _ _ _ kv hkv; simp at hkv
  | cons kv r ih =>
    obtain ⟨k, v⟩ := kv
    intro s s' h kv' hkv'
    rw [projProcess_cons] at h
    split at h
    · cases h
    · next s1 h1 =>
      rcases List.mem_cons.mp hkv' with rfl | hm
      · simp only [projEntry] at h1
        split at h1
        · cases h1
        · next hk => simpa using hk
      · exact ih h kv' hm

/-- every flag of an accepted projection is registered -/
theorem projProcess_registers {sch : SchemaEval} {d : Doc} (proj : List (String × V)) :
    ∀ {s s' : PState}, projProcess sch s d proj = .ok s' → ∀ p v b, (p, v) ∈ proj → flagOf v = some b →
      (b = true → p ∈ s'.includes) ∧ (b = false → p ≠ "_id" → p ∈ s'.excludes) ∧
      (b = false → p = "_id" → s'.hideID = true) := by
  induction proj with
  | nil => intro _ _ _ p v b hm; simp at hm
  | cons kv r ih =>
    obtain ⟨k, v0⟩ := kv
    intro s s' h p v b hm hf
    have hkeys := projProcess_keys _ h
    rw [projProcess_cons] at h
    split at h
    · cases h
    · next s1 h1 =>
      rcases List.mem_cons.mp hm with e | hm'
      · cases e
        rw [projEntry_flag sch s d k v0 b (hkeys (k, v0) (by simp)) hf] at h1
        cases h1
        have hle := projProcess_le _ h
        refine ⟨fun hb => ?_, fun hb hne => ?_, fun hb he => ?_⟩
        · subst hb; exact hle.inc.subset (by simp [flagStep])
        · subst hb
          exact hle.exc.subset (by simp [flagStep, hne])
        · subst hb; subst he; exact hle.hide (by simp [flagStep])
      · exact ih h p v b hm' hf

/-- `Project` after a successful processing loop (the part of mongokit.Project after `Process`) -/
def projectFinish (d : Doc) (st : PState) : Res Doc :=
  if !st.includes.isEmpty && !st.excludes.isEmpty then .error .err else
  let base : Res Doc :=
    if !st.includes.isEmpty then
      match Put [] ["_id"] (Get d "_id") false with
      | .error e => .error e
      | .ok (res, _) =>
        let copies := (st.includes.filter fun p => !st.skip.contains p).filterMap fun p =>
          let v := Get d p
          if v.isMissing then none else some (p, v)
        putAll res copies
    else
      .ok (st.excludes.foldl (fun acc p => (Unset acc (splitPath p)).1) d)
  match base with
  | .error e => .error e
  | .ok res =>
    match putAll res st.merge with
    | .error e => .error e
    | .ok res => .ok (if st.hideID then (Unset res ["_id"]).1 else res)

/-- the order of checks in `Project`: first the projection document is processed entry by entry
    (any operator error surfaces here), then the mixing check, then the copy/unset phase. -/
theorem Project_eq (sch : SchemaEval) (d proj : Doc) :
    Project sch d proj = match projProcess sch {} d proj with
      | .error e => .error e
      | .ok st => projectFinish d st := rfl

theorem mix_error (sch : SchemaEval) (d proj : Doc) (pi pe : String) (vi ve : V)
    (hi : (pi, vi) ∈ proj) (fi : flagOf vi = some true)
    (he : (pe, ve) ∈ proj) (fe : flagOf ve = some false) (hne : pe ≠ "_id") :
    (∀ st, projProcess sch {} d proj = .ok st → Project sch d proj = .error .err) ∧
    (∀ e, projProcess sch {} d proj = .error e → Project sch d proj = .error e) := by
  constructor
  · intro st h
    have h1 := (projProcess_registers proj h pi vi true hi fi).1 rfl
    have h2 := (projProcess_registers proj h pe ve false he fe).2.1 rfl hne
    rw [Project_eq, h]
    have e1 : st.includes.isEmpty = false := by cases hh : st.includes <;> simp_all
    have e2 : st.excludes.isEmpty = false := by cases hh : st.excludes <;> simp_all
    simp [projectFinish, e1, e2]
  · intro e h; rw [Project_eq, h]


/-! ## §4 flag-only projections; exclusion results -/

/-- the state after a projection consisting of flags only -/
def flagsState (s : PState) (flags : List (String × Bool)) : PState :=
  flags.foldl (fun s pb => flagStep s pb.1 pb.2) s

/-- the flags of a flag-only projection document -/
def flagsOf (proj : List (String × V)) : List (String × Bool) :=
  proj.map fun kv => (kv.1, (flagOf kv.2).getD false)

theorem projProcess_flags (sch : SchemaEval) (d : Doc) (proj : List (String × V))
    (hk : ∀ kv ∈ proj, isOpKey kv.1 = false ∧ (flagOf kv.2).isSome = true) :
    ∀ s, projProcess sch s d proj = .ok (flagsState s (flagsOf proj)) := by
  induction proj with
  | nil => intro s; rfl
  | cons kv r ih =>
    obtain ⟨k, v⟩ := kv
    intro s
    have h := hk (k, v) (by simp)
    obtain ⟨b, hb⟩ := Option.isSome_iff_exists.mp h.2
    rw [projProcess_cons, projEntry_flag sch s d k v b h.1 hb]
    simp only [flagsOf, List.map_cons, flagsState, List.foldl_cons, hb, Option.getD_some]
    exact ih (fun kv hkv => hk kv (by simp [hkv])) _

theorem flagsState_fields (flags : List (String × Bool)) : ∀ (s : PState),
    (flagsState s flags).includes = s.includes ++ (flags.filter (·.2)).map (·.1) ∧
    (flagsState s flags).excludes = s.excludes ++ (flags.filter (fun pb => !pb.2 && pb.1 != "_id")).map (·.1) ∧
    (flagsState s flags).hideID = (s.hideID || flags.any (fun pb => !pb.2 && pb.1 == "_id")) ∧
    (flagsState s flags).merge = s.merge ∧ (flagsState s flags).skip = s.skip := by
  induction flags with
  | nil => intro s; simp [flagsState]
  | cons pb r ih =>
    obtain ⟨p, b⟩ := pb
    intro s
    have := ih (flagStep s p b)
    simp only [flagsState, List.foldl_cons] at this ⊢
    obtain ⟨h1, h2, h3, h4, h5⟩ := this
    rw [h1, h2, h3, h4, h5]
    cases b
    · by_cases hp : p = "_id"
      · simp [flagStep, hp]
      · have : (p == "_id") = false := by simpa using hp
        simp [flagStep, hp, this]
    · simp [flagStep]

theorem putAll_nil (res : Doc) : putAll res [] = .ok res := rfl

theorem flagsOf_all_false (proj : List (String × V)) (h : ∀ kv ∈ proj, flagOf kv.2 = some false) :
    flagsOf proj = proj.map fun kv => (kv.1, false) := by
  simp only [flagsOf]
  exact List.map_congr_left fun kv hkv => by rw [h kv hkv]; rfl

/-- an exclusion-only projection: unset the excluded paths one after the other on (a copy of) the
    document; `_id: 0` additionally removes `_id` at the end -/
theorem exclusion_project (sch : SchemaEval) (d proj : Doc)
    (hk : ∀ kv ∈ proj, isOpKey kv.1 = false ∧ flagOf kv.2 = some false) :
    Project sch d proj = .ok
      (let r := ((proj.map (·.1)).filter (· != "_id")).foldl (fun acc p => (Unset acc (splitPath p)).1) d
       if proj.any (·.1 == "_id") then (Unset r ["_id"]).1 else r) := by
  have hp := projProcess_flags sch d proj (fun kv hkv => ⟨(hk kv hkv).1, by rw [(hk kv hkv).2]; rfl⟩) {}
  rw [flagsOf_all_false proj (fun kv hkv => (hk kv hkv).2)] at hp
  obtain ⟨h1, h2, h3, h4, h5⟩ := flagsState_fields (proj.map fun kv => (kv.1, false)) {}
  rw [Project_eq, hp]
  have e1 : (flagsState {} (proj.map fun kv => (kv.1, false))).includes = [] := by
    rw [h1]; simp
  have e2 : (flagsState {} (proj.map fun kv => (kv.1, false))).excludes = (proj.map (·.1)).filter (· != "_id") := by
    rw [h2]; simp [List.filter_map, Function.comp_def]
  have e3 : (flagsState {} (proj.map fun kv => (kv.1, false))).hideID = proj.any (·.1 == "_id") := by
    rw [h3]; simp [List.any_map, Function.comp_def]
  have e4 : (flagsState {} (proj.map fun kv => (kv.1, false))).merge = [] := by rw [h4]
  simp only [projectFinish, e1, e2, e3, e4, List.isEmpty_nil, Bool.not_true, Bool.false_and,
    Bool.false_eq_true, ↓reduceIte, putAll_nil]

/-- unsetting a top-level field removes the first field of that name (and nothing else) -/
theorem Unset_single (d : Doc) (k : String) (hk : k ≠ "") : (Unset d [k]).1 = d.eraseP (·.1 == k) := by
  have hk' : (k == "") = false := by simpa using hk
  simp only [Unset, put, hk', Bool.false_and, Bool.false_eq_true, ↓reduceIte, fieldIndex]
  rw [List.eraseP_eq_eraseIdx]
  cases hfi : d.findIdx? (fun kv => kv.1 == k) with
  | none => simp [V.isMissing]
  | some i =>
    obtain ⟨hlt, _, _⟩ := List.findIdx?_eq_some_iff_getElem.mp hfi
    simp [List.getElem?_eq_getElem hlt, V.isMissing]

/-- `_id` is not the empty string (a fact about string literals; by evaluation) -/
theorem id_ne_empty : "_id" ≠ "" := by decide

theorem eraseP_key_eq_filter (d : Doc) (k : String) (nd : (d.map (·.1)).Nodup) :
    d.eraseP (·.1 == k) = d.filter (fun kv => kv.1 != k) := by
  induction d with
  | nil => rfl
  | cons kv r ih =>
    simp only [List.map_cons, List.nodup_cons] at nd
    rw [List.eraseP_cons, List.filter_cons]
    by_cases h : kv.1 = k
    · have hn : ∀ x ∈ r, (x.1 != k) = true := by
        intro x hx
        have : x.1 ≠ k := fun e => nd.1 (by rw [h, ← e]; exact List.mem_map_of_mem hx)
        simpa using this
      simp [h, List.filter_eq_self.mpr hn]
    · have : (kv.1 == k) = false := by simpa using h
      simp [this, ih nd.2, h]

theorem foldl_eraseP_eq_filter (ps : List String) : ∀ (d : Doc), (d.map (·.1)).Nodup →
    ps.foldl (fun acc p => acc.eraseP (·.1 == p)) d = d.filter (fun kv => !ps.contains kv.1) := by
  induction ps with
  | nil => intro d _; simp only [List.foldl_nil]; exact (List.filter_eq_self.mpr (by simp)).symm
  | cons p r ih =>
    intro d nd
    simp only [List.foldl_cons]
    rw [eraseP_key_eq_filter d p nd, ih _ (nd.sublist ((List.filter_sublist).map _)), List.filter_filter]
    congr 1; funext kv
    by_cases h : kv.1 = p
    · simp [h]
    · have h' : (kv.1 == p) = false := by simpa using h
      simp [h', bne, h]
theorem foldl_unset_single (ps : List String) (h : ∀ p ∈ ps, splitPath p = [p] ∧ p ≠ "") : ∀ (d : Doc),
    ps.foldl (fun acc p => (Unset acc (splitPath p)).1) d = ps.foldl (fun acc p => acc.eraseP (·.1 == p)) d := by
  induction ps with
  | nil => intro d; rfl
  | cons p r ih =>
    intro d
    have hp := h p (by simp)
    simp only [List.foldl_cons]
    rw [hp.1, Unset_single d p hp.2]
    exact ih (fun q hq => h q (by simp [hq])) _

theorem contains_filter_ne (ks : List String) (x y : String) :
    (ks.filter (· != y)).contains x = (ks.contains x && x != y) := by
  by_cases hxy : x = y
  · subst hxy
    simp [List.mem_filter]
  · have : (x != y) = true := by simpa using hxy
    rw [this, Bool.and_true]
    by_cases hm : x ∈ ks
    · have : x ∈ ks.filter (· != y) := List.mem_filter.mpr ⟨hm, by simpa using hxy⟩
      simp [hm, this]
    · have : x ∉ ks.filter (· != y) := fun h => hm (List.mem_filter.mp h).1
      simp [hm, this]

/-- top-level exclusion on a document with distinct field names: exactly the fields not named in the
    projection remain, in their stored order, with their stored values -/
theorem exclusion_toplevel (sch : SchemaEval) (d proj : Doc)
    (hk : ∀ kv ∈ proj, isOpKey kv.1 = false ∧ flagOf kv.2 = some false)
    (hs : ∀ kv ∈ proj, splitPath kv.1 = [kv.1] ∧ kv.1 ≠ "")
    (nd : (d.map (·.1)).Nodup) :
    Project sch d proj = .ok (d.filter fun kv => !(proj.map (·.1)).contains kv.1) := by
  rw [exclusion_project sch d proj hk]
  simp only
  have hps : ∀ p ∈ (proj.map (·.1)).filter (· != "_id"), splitPath p = [p] ∧ p ≠ "" := by
    intro p hp
    obtain ⟨kv, hkv, rfl⟩ := List.mem_map.mp (List.mem_filter.mp hp).1
    exact hs kv hkv
  rw [foldl_unset_single _ hps, foldl_eraseP_eq_filter _ d nd]
  have nd' : ((d.filter fun kv => !((proj.map (·.1)).filter (· != "_id")).contains kv.1).map (·.1)).Nodup :=
    nd.sublist ((List.filter_sublist).map _)
  congr 1
  split
  · next hany =>
    rw [Unset_single _ _ id_ne_empty, eraseP_key_eq_filter _ _ nd', List.filter_filter]
    apply List.filter_congr
    intro kv _
    have hmem : (proj.map (·.1)).contains "_id" = true := by
      obtain ⟨x, hx, e⟩ := List.any_eq_true.mp hany
      exact List.contains_iff_mem.mpr (List.mem_map.mpr ⟨x, hx, by simpa using e⟩)
    rw [contains_filter_ne]
    by_cases e : kv.1 = "_id"
    · rw [e, hmem]; simp
    · have : (kv.1 != "_id") = true := by simpa using e
      rw [this]; simp
  · next hany =>
    apply List.filter_congr
    intro kv _
    have hnm : (proj.map (·.1)).contains "_id" = false := by
      cases hc : (proj.map (·.1)).contains "_id" with
      | false => rfl
      | true =>
        obtain ⟨x, hx, e⟩ := List.mem_map.mp (List.contains_iff_mem.mp hc)
        exact absurd (List.any_eq_true.mpr ⟨x, hx, by simpa using e⟩) hany
    rw [contains_filter_ne]
    by_cases e : kv.1 = "_id"
    · rw [e, hnm]; simp
    · have : (kv.1 != "_id") = true := by simpa using e
      rw [this]; simp

/-! ## §5 inclusion results (top-level paths) -/

/-- set the first field named `k` to `v`, or append the field -/
def upsert : Doc → String → V → Doc
  | [], k, v => [(k, v)]
  | (k', x) :: r, k, v => if k' == k then (k', v) :: r else (k', x) :: upsert r k v

theorem put_top (fs : Doc) (k : String) (v : V) (hk : k ≠ "") (hv : v.isMissing = false) :
    ∃ prev, put (.doc fs) [k] v false = .ok (.doc (upsert fs k v), prev) := by
  have hk' : (k == "") = false := by simpa using hk
  simp only [put, hk', Bool.false_and, Bool.false_eq_true, ↓reduceIte, fieldIndex, hv]
  induction fs with
  | nil => exact ⟨.missing, by simp [upsert]⟩
  | cons kv r ih =>
    obtain ⟨k', x⟩ := kv
    rw [List.findIdx?_cons]
    by_cases h : k' = k
    · subst h
      exact ⟨x, by simp [upsert, listSet]⟩
    · have h' : (k' == k) = false := by simpa using h
      obtain ⟨prev, ihp⟩ := ih
      simp only [h', Bool.false_eq_true, ↓reduceIte, upsert]
      cases hfi : List.findIdx? (fun kv => kv.1 == k) r with
      | none =>
        simp only [hfi] at ihp
        simp only [Option.map_none]
        refine ⟨.missing, ?_⟩
        simp only [Except.ok.injEq, Prod.mk.injEq, V.doc.injEq] at ihp ⊢
        simp [← ihp.1]
      | some i =>
        simp only [hfi] at ihp
        simp only [Option.map_some, List.getElem?_cons_succ]
        cases hg : r[i]? with
        | none => simp [hg] at ihp
        | some kvo =>
          obtain ⟨ko, old⟩ := kvo
          simp only [hg] at ihp ⊢
          refine ⟨old, ?_⟩
          simp only [Except.ok.injEq, Prod.mk.injEq, V.doc.injEq] at ihp ⊢
          simp [listSet, ← ihp.1]

theorem Put_top (res : Doc) (k : String) (v : V) (hk : k ≠ "") (hv : v.isMissing = false) :
    ∃ prev, Put res [k] v false = .ok (upsert res k v, prev) := by
  obtain ⟨prev, h⟩ := put_top res k v hk hv
  exact ⟨prev, by simp [Put, hv, h]⟩

theorem putAll_top (copies : List (String × V))
    (h : ∀ pv ∈ copies, splitPath pv.1 = [pv.1] ∧ pv.1 ≠ "" ∧ pv.2.isMissing = false) : ∀ (res : Doc),
    putAll res copies = .ok (copies.foldl (fun acc pv => upsert acc pv.1 pv.2) res) := by
  induction copies with
  | nil => intro res; rfl
  | cons pv r ih =>
    obtain ⟨p, v⟩ := pv
    intro res
    obtain ⟨h1, h2, h3⟩ := h (p, v) (by simp)
    obtain ⟨prev, hp⟩ := Put_top res p v h2 h3
    simp only [putAll, h1, hp, List.foldl_cons]
    exact ih (fun pv hpv => h pv (by simp [hpv])) _

/-- the keys appended by upserting `ps` one after the other into a document whose keys are `seen` -/
def newKeys : List String → List String → List String
  | _, [] => []
  | seen, p :: r => if seen.contains p then newKeys seen r else p :: newKeys (seen ++ [p]) r

theorem upsert_fun (g : String → V) (K : List String) (p : String) :
    upsert (K.map fun k => (k, g k)) p (g p) =
      if K.contains p then K.map (fun k => (k, g k)) else (K ++ [p]).map fun k => (k, g k) := by
  induction K with
  | nil => simp [upsert]
  | cons k r ih =>
    simp only [List.map_cons, upsert]
    by_cases h : k = p
    · subst h; simp
    · have h' : (k == p) = false := by simpa using h
      have h'' : (p == k) = false := by simpa using (fun e => h (e.symm) : ¬ p = k)
      simp only [h', Bool.false_eq_true, ↓reduceIte, ih, List.contains_cons, h'', Bool.false_or]
      split <;> simp

theorem foldl_upsert_fun (g : String → V) (ps : List String) : ∀ (K : List String),
    (ps.map fun p => (p, g p)).foldl (fun acc pv => upsert acc pv.1 pv.2) (K.map fun k => (k, g k)) =
      (K ++ newKeys K ps).map fun k => (k, g k) := by
  induction ps with
  | nil => intro K; simp [newKeys]
  | cons p r ih =>
    intro K
    simp only [List.map_cons, List.foldl_cons, upsert_fun, newKeys]
    split
    · exact ih K
    · rw [ih (K ++ [p])]; simp

theorem newKeys_fresh (ps : List String) : ∀ (K : List String), ps.Nodup → (∀ p ∈ ps, p ∉ K) →
    newKeys K ps = ps := by
  induction ps with
  | nil => intro K _ _; rfl
  | cons p r ih =>
    intro K nd hK
    simp only [List.nodup_cons] at nd
    have : K.contains p = false := by simpa using hK p (by simp)
    simp only [newKeys, this, Bool.false_eq_true, ↓reduceIte]
    rw [ih (K ++ [p]) nd.2]
    intro q hq
    simp only [List.mem_append, List.mem_singleton, not_or]
    exact ⟨hK q (by simp [hq]), fun e => nd.1 (e ▸ hq)⟩

/-- no key is produced twice, and none that was already there -/
theorem newKeys_spec (ps : List String) : ∀ (K : List String),
    (newKeys K ps).Nodup ∧ (∀ p ∈ newKeys K ps, p ∈ ps ∧ p ∉ K) ∧ (∀ p ∈ ps, p ∈ K ∨ p ∈ newKeys K ps) := by
  induction ps with
  | nil => intro K; simp [newKeys]
  | cons p r ih =>
    intro K
    simp only [newKeys]
    split
    · next hc =>
      obtain ⟨h1, h2, h3⟩ := ih K
      have hc : p ∈ K := by simpa using hc
      refine ⟨h1, fun q hq => ⟨by simp [(h2 q hq).1], (h2 q hq).2⟩, fun q hq => ?_⟩
      rcases List.mem_cons.mp hq with rfl | hq
      · exact Or.inl hc
      · exact h3 q hq
    · next hc =>
      obtain ⟨h1, h2, h3⟩ := ih (K ++ [p])
      have hc : p ∉ K := by simpa using hc
      refine ⟨List.nodup_cons.mpr ⟨fun hm => (h2 p hm).2 (by simp), h1⟩, fun q hq => ?_, fun q hq => ?_⟩
      · rcases List.mem_cons.mp hq with rfl | hq
        · exact ⟨by simp, hc⟩
        · exact ⟨by simp [(h2 q hq).1], fun hk => (h2 q hq).2 (by simp [hk])⟩
      · rcases List.mem_cons.mp hq with rfl | hq
        · exact Or.inr (by simp)
        · rcases h3 q hq with h | h
          · rcases List.mem_append.mp h with h | h
            · exact Or.inl h
            · exact Or.inr (by simp at h; simp [h])
          · exact Or.inr (by simp [h])

theorem filterMap_present (d : Doc) (ps : List String) :
    (ps.filterMap fun p => if (Get d p).isMissing then none else some (p, Get d p)) =
      (ps.filter fun p => !(Get d p).isMissing).map fun p => (p, Get d p) := by
  induction ps with
  | nil => rfl
  | cons p r ih =>
    simp only [List.filterMap_cons, List.filter_cons]
    cases h : (Get d p).isMissing <;> simp [ih]

/-- top-level inclusion (flags only; `_id: 0` allowed): `_id` first, then the included fields that are
    present, in projection order, each with the value stored at it; repeated names and an explicit
    `_id: 1` change nothing; `_id: 0` drops `_id` at the end. -/
theorem inclusion_toplevel (sch : SchemaEval) (d proj : Doc)
    (hk : ∀ kv ∈ proj, isOpKey kv.1 = false ∧ (flagOf kv.2).isSome = true)
    (hex : ∀ kv ∈ proj, flagOf kv.2 = some false → kv.1 = "_id")
    (hinc : ((flagsOf proj).filter (·.2)).map (·.1) ≠ [])
    (hs : ∀ kv ∈ proj, splitPath kv.1 = [kv.1] ∧ kv.1 ≠ "")
    (hid : (Get d "_id").isMissing = false) :
    Project sch d proj = .ok
      (let incs := ((flagsOf proj).filter (·.2)).map (·.1)
       let present := incs.filter fun p => !(Get d p).isMissing
       let full := ("_id" :: newKeys ["_id"] present).map fun k => (k, Get d k)
       if (flagsOf proj).any (fun pb => !pb.2 && pb.1 == "_id") then full.tail else full) := by
  have hp := projProcess_flags sch d proj hk {}
  obtain ⟨h1, h2, h3, h4, h5⟩ := flagsState_fields (flagsOf proj) {}
  have e2 : (flagsState {} (flagsOf proj)).excludes = [] := by
    rw [h2]
    simp only [List.nil_append, List.map_eq_nil_iff, List.filter_eq_nil_iff]
    intro pb hpb
    obtain ⟨kv, hkv, rfl⟩ := List.mem_map.mp hpb
    cases hf : flagOf kv.2 with
    | none => have := (hk kv hkv).2; simp [hf] at this
    | some b =>
      cases b
      · simp [hex kv hkv hf]
      · simp
  simp only [List.nil_append] at h1
  have e1 : (((flagsOf proj).filter (·.2)).map (·.1)).isEmpty = false := by
    cases hh : ((flagsOf proj).filter (·.2)).map (·.1) with
    | nil => exact absurd hh hinc
    | cons _ _ => rfl
  have hsplit : ∀ p ∈ ((flagsOf proj).filter (·.2)).map (·.1), splitPath p = [p] ∧ p ≠ "" := by
    intro p hp
    obtain ⟨pb, hpb, rfl⟩ := List.mem_map.mp hp
    obtain ⟨kv, hkv, rfl⟩ := List.mem_map.mp (List.mem_filter.mp hpb).1
    exact hs kv hkv
  obtain ⟨prev, hput⟩ := Put_top [] "_id" (Get d "_id") id_ne_empty hid
  rw [Project_eq, hp]
  simp only [projectFinish, e1, e2, List.isEmpty_nil, Bool.not_false, Bool.not_true, Bool.and_false,
    Bool.false_eq_true, ↓reduceIte, hput, h5, h4, h3, h1, putAll_nil]
  have hskip : ∀ l : List String, (l.filter fun p => !([] : List String).contains p) = l := by
    intro l; simp
  simp only [hskip, filterMap_present, Bool.false_or]
  rw [putAll_top]
  · have := foldl_upsert_fun (Get d) ((((flagsOf proj).filter (·.2)).map (·.1)).filter fun p => !(Get d p).isMissing) ["_id"]
    simp only [List.map_cons, List.map_nil] at this
    simp only [upsert, this, List.cons_append, List.nil_append, List.map_cons]
    split
    · rw [Unset_single _ _ id_ne_empty]; simp
    · rfl
  · intro pv hpv
    obtain ⟨p, hp', rfl⟩ := List.mem_map.mp hpv
    have hp'' := List.mem_filter.mp hp'
    exact ⟨(hsplit p hp''.1).1, (hsplit p hp''.1).2, by simpa using hp''.2⟩

/-- the value stored at a top-level path is the value of the first field of that name -/
theorem Get_top (d : Doc) (k : String) (hs : splitPath k = [k]) (hk : k ≠ "") :
    Get d k = (d.find? k).getD .missing := by
  have hk' : (k == "") = false := by simpa using hk
  simp only [Get, hs, get, hk', Bool.false_and, Bool.false_eq_true, ↓reduceIte]
  induction d with
  | nil => rfl
  | cons kv r ih =>
    obtain ⟨k', v⟩ := kv
    simp only [getField, Doc.find?]
    split
    · simp [get]
    · exact ih

/-! ## §6 overlays: registration order -/

theorem mergeSet_keys (m : List (String × V)) (p : String) (v : V) :
    (mergeSet m p v).map (·.1) =
      if (m.map (·.1)).contains p then m.map (·.1) else m.map (·.1) ++ [p] := by
  have hany : m.any (·.1 == p) = (m.map (·.1)).contains p := by
    induction m with
    | nil => rfl
    | cons kv r ih => simp only [List.any_cons, List.map_cons, List.contains_cons, ih]; rw [BEq.comm]
  simp only [mergeSet, hany]
  split
  · rw [List.map_map]
    apply List.map_congr_left
    intro kv _
    obtain ⟨k, x⟩ := kv
    simp only [Function.comp]
    split <;> rfl
  · simp

/-- after registering `(p, v)` every entry at `p` holds `v` (last value wins) … -/
theorem mergeSet_same (m : List (String × V)) (p : String) (v : V) (x : V)
    (h : (p, x) ∈ mergeSet m p v) : x = v := by
  simp only [mergeSet] at h
  split at h
  · obtain ⟨kv, _, e⟩ := List.mem_map.mp h
    obtain ⟨k, y⟩ := kv
    simp only at e
    split at e
    · exact (Prod.mk.inj e).2.symm
    · next hne => exact absurd (by simpa using (Prod.mk.inj e).1) hne
  · next hany =>
    rcases List.mem_append.mp h with h | h
    · exact absurd (List.any_eq_true.mpr ⟨(p, x), h, by simp⟩) hany
    · simpa using h

/-- … and the entries at other paths are untouched -/
theorem mergeSet_other (m : List (String × V)) (p : String) (v : V) (q : String) (x : V) (hq : q ≠ p) :
    (q, x) ∈ mergeSet m p v ↔ (q, x) ∈ m := by
  have hq' : (q == p) = false := by simpa using hq
  simp only [mergeSet]
  split
  · constructor
    · intro h
      obtain ⟨kv, hkv, e⟩ := List.mem_map.mp h
      obtain ⟨k, y⟩ := kv
      simp only at e
      split at e
      · next hk =>
        have : k = p := by simpa using hk
        exact absurd ((Prod.mk.inj e).1.symm.trans this) hq
      · rw [← e]; exact hkv
    · intro h
      exact List.mem_map.mpr ⟨(q, x), h, by simp [hq']⟩
  · simp [hq]

/-- `putAll` is a left-to-right fold -/
theorem putAll_append (res : Doc) (a b : List (String × V)) :
    putAll res (a ++ b) = match putAll res a with
      | .error e => .error e
      | .ok r => putAll r b := by
  induction a generalizing res with
  | nil => rfl
  | cons pv r ih =>
    obtain ⟨p, v⟩ := pv
    simp only [List.cons_append, putAll]
    split
    · rfl
    · exact ih _

/-! ## §7 a single operator entry, end to end -/

/-- `{p: {$slice: k}}` on its own: the document with the array at top-level `p` replaced, in place,
    by its window; all other fields untouched. (`hop` is a fact about the string literal.) -/
theorem project_slice_count_toplevel (sch : SchemaEval) (d : Doc) (p : String) (v : V) (k : Int) (a : List V)
    (hop : isOpKey "$slice" = true) (hp : isOpKey p = false) (hs : splitPath p = [p]) (hne : p ≠ "")
    (hk : sliceInt v = some k) (ha : Get d p = .arr a) :
    Project sch d [(p, .doc [("$slice", v)])] =
      .ok (upsert d p (.arr (window a (countWindow a.length k)))) := by
  have he : projEntry sch {} d p (.doc [("$slice", v)]) =
      .ok (({} : PState).overlay p (.arr (window a (countWindow a.length k)))) := by
    have h1 : ("$slice" == "") = false := by decide
    simp only [projEntry, hp, hop, Bool.false_eq_true, ↓reduceIte, projOps, Bool.not_true, projOp, h1,
      beq_self_eq_true, projectSlice_count {} d p v k a hk ha]
  rw [Project_eq, projProcess_cons, he]
  simp only [projProcess_nil, projectFinish, PState.overlay, mergeSet, List.any_nil, Bool.false_eq_true,
    ↓reduceIte, List.nil_append, List.isEmpty_nil, Bool.not_true, Bool.false_and, List.foldl_nil]
  rw [putAll_top [(p, _)] (by simp [hs, hne, V.isMissing])]
  rfl

/-- `{p: {$elemMatch: q}}` on its own (inclusion style): `_id` plus, if some element of the array at
    top-level `p` matches, the field `p` holding exactly the first matching element. -/
theorem project_elemMatch_toplevel (sch : SchemaEval) (d : Doc) (p : String) (q : Doc) (a : List V)
    (hop : isOpKey "$elemMatch" = true) (hp : isOpKey p = false) (hs : splitPath p = [p]) (hne : p ≠ "")
    (hpid : p ≠ "_id") (hid : (Get d "_id").isMissing = false) (ha : Get d p = .arr a) :
    (∀ x, firstElemMatch sch q a = .ok (some x) →
      Project sch d [(p, .doc [("$elemMatch", .doc q)])] = .ok [("_id", Get d "_id"), (p, .arr [x])]) ∧
    (firstElemMatch sch q a = .ok none →
      Project sch d [(p, .doc [("$elemMatch", .doc q)])] = .ok [("_id", Get d "_id")]) ∧
    (∀ e, firstElemMatch sch q a = .error e →
      Project sch d [(p, .doc [("$elemMatch", .doc q)])] = .error e) := by
  have h1 : ("$elemMatch" == "") = false := by decide
  have h2 : ("$elemMatch" == "$slice") = false := by decide
  have hpid' : ("_id" == p) = false := by simpa using (fun e => hpid e.symm : ¬ "_id" = p)
  obtain ⟨prev, hput⟩ := Put_top [] "_id" (Get d "_id") id_ne_empty hid
  have hent : projEntry sch {} d p (.doc [("$elemMatch", .doc q)]) =
      match projectElemMatch sch {} d p (.doc q) with
      | .error e => .error e
      | .ok s' => .ok s' := by
    simp only [projEntry, hp, hop, Bool.false_eq_true, ↓reduceIte, projOps, Bool.not_true, projOp, h1, h2,
      beq_self_eq_true]
    split <;> simp_all
  refine ⟨fun x hx => ?_, fun hx => ?_, fun e hx => ?_⟩
  · rw [Project_eq, projProcess_cons, hent, projectElemMatch_found sch {} d p q a x ha hx]
    simp only [projProcess_nil, projectFinish, PState.overlay, PState.elemMatchMark, mergeSet, List.any_nil,
      Bool.false_eq_true, ↓reduceIte, List.nil_append, List.isEmpty_nil, Bool.not_true, Bool.and_false,
      hput, List.isEmpty_cons, Bool.not_false, List.filter_cons, List.contains_cons, beq_self_eq_true,
      Bool.true_or, List.filter_nil, List.filterMap_nil, putAll_nil]
    rw [putAll_top [(p, _)] (by simp [hs, hne, V.isMissing])]
    simp [upsert, hpid']
  · rw [Project_eq, projProcess_cons, hent, projectElemMatch_notfound sch {} d p q a ha hx]
    simp only [projProcess_nil, projectFinish, PState.elemMatchMark, List.nil_append,
      Bool.false_eq_true, ↓reduceIte, List.isEmpty_nil, Bool.not_true, Bool.and_false,
      hput, List.isEmpty_cons, Bool.not_false, List.filter_cons, List.contains_cons, beq_self_eq_true,
      Bool.true_or, List.filter_nil, List.filterMap_nil, putAll_nil]
    simp [upsert]
  · rw [Project_eq, projProcess_cons, hent, projectElemMatch_error sch {} d p q a e ha hx]

/-! ## §8 the integer arguments: range, and absence of overflow in the Go arithmetic -/

/-- Go's `int(x)` of a well-formed numeric `$slice` argument is an int64 -/
theorem sliceInt_range (v : V) (k : Int) (hw : v.wf = true) (hk : sliceInt v = some k) :
    i64Min ≤ k ∧ k ≤ i64Max := by
  cases v <;> simp only [sliceInt, Option.some.injEq, reduceCtorEq] at hk
  · next n =>
    subst hk
    simp only [V.wf, inI32, Bool.and_eq_true, i32Min, i32Max] at hw
    simp only [i64Min, i64Max]
    have h1 := of_decide_eq_true hw.1
    have h2 := of_decide_eq_true hw.2
    omega
  · next n =>
    subst hk
    simpa [V.wf, inI64] using hw
  · next b =>
    subst hk
    simp only [sliceInt.f64TruncInt']
    split
    · split
      · assumption
      · simp [i64Min, i64Max]
    · simp [i64Min, i64Max]

/-- every intermediate value the Go code computes for `$slice: [skip, limit]` on an array of length
    `n` is an int64 (so the model's unbounded `Int` arithmetic is the machine arithmetic): `n + skip`
    (only computed for `skip < 0`), `n - start`, and `start + limit` (only computed when
    `limit < n - start`). -/
theorem slice_pair_no_overflow (n skip limit : Int) (hn : 0 ≤ n ∧ n ≤ i64Max)
    (hs : i64Min ≤ skip ∧ skip ≤ i64Max) (hl : 0 ≤ limit ∧ limit ≤ i64Max) :
    let start : Int := if skip < 0 then (if n + skip < 0 then 0 else n + skip) else (if skip > n then n else skip)
    (skip < 0 → i64Min ≤ n + skip ∧ n + skip ≤ i64Max) ∧
    (0 ≤ start ∧ start ≤ n) ∧ (0 ≤ n - start ∧ n - start ≤ i64Max) ∧
    (limit < n - start → 0 ≤ start + limit ∧ start + limit ≤ n) := by
  intro start
  simp only [i64Min, i64Max] at *
  have hstart : 0 ≤ start ∧ start ≤ n := by
    simp only [start]; split <;> split <;> omega
  exact ⟨fun h => by omega, hstart, by omega, fun h => by omega⟩

/-- … and for `$slice: k`: `-n`, and `n + k` (only computed when `-n < k < 0`). Note that `-k` is
    never computed (it would overflow for `k = MinInt64`). -/
theorem slice_count_no_overflow (n k : Int) (hn : 0 ≤ n ∧ n ≤ i64Max) (_hk : i64Min ≤ k ∧ k ≤ i64Max) :
    (i64Min ≤ -n ∧ -n ≤ i64Max) ∧ (k < 0 → k > -n → 0 ≤ n + k ∧ n + k ≤ n) := by
  simp only [i64Min, i64Max] at *
  exact ⟨by omega, fun h1 h2 => by omega⟩

/-! ## §10 `$elemMatch` counts as an inclusion for the mixing check -/

theorem projProcess_entry_includes {sch : SchemaEval} {d : Doc} (p : String) (v : V)
    (hent : ∀ s0 s1, projEntry sch s0 d p v = .ok s1 → p ∈ s1.includes) (proj : List (String × V)) :
    ∀ {s s' : PState}, projProcess sch s d proj = .ok s' → (p, v) ∈ proj → p ∈ s'.includes := by
  induction proj with
  | nil => intro _ _ _ hm; simp at hm
  | cons kv r ih =>
    obtain ⟨k, v0⟩ := kv
    intro s s' h hm
    rw [projProcess_cons] at h
    split at h
    · cases h
    · next s1 h1 =>
      rcases List.mem_cons.mp hm with e | hm'
      · cases e
        exact (projProcess_le _ h).inc.subset (hent s s1 h1)
      · exact ih h hm'

theorem projEntry_elemMatch_includes (sch : SchemaEval) (d : Doc) (p : String) (q : V)
    (hop : isOpKey "$elemMatch" = true) (s0 s1 : PState)
    (h : projEntry sch s0 d p (.doc [("$elemMatch", q)]) = .ok s1) : p ∈ s1.includes := by
  have h1 : ("$elemMatch" == "") = false := by decide
  have h2 : ("$elemMatch" == "$slice") = false := by decide
  simp only [projEntry, hop, ↓reduceIte, projOps, Bool.not_true, Bool.false_eq_true, projOp, h1, h2,
    beq_self_eq_true] at h
  split at h
  · cases h
  · cases hp : projectElemMatch sch s0 d p q with
    | error e => simp [hp] at h
    | ok s2 =>
      simp only [hp, Except.ok.injEq] at h
      rw [← h]; exact (projectElemMatch_le hp).2

/-- `$elemMatch` on one path together with an exclusion flag on another (non-`_id`) path is an error -/
theorem mix_elemMatch_error (sch : SchemaEval) (d proj : Doc) (pi pe : String) (q ve : V)
    (hop : isOpKey "$elemMatch" = true)
    (hi : (pi, .doc [("$elemMatch", q)]) ∈ proj)
    (he : (pe, ve) ∈ proj) (fe : flagOf ve = some false) (hne : pe ≠ "_id") :
    (∀ st, projProcess sch {} d proj = .ok st → Project sch d proj = .error .err) ∧
    (∀ e, projProcess sch {} d proj = .error e → Project sch d proj = .error e) := by
  constructor
  · intro st h
    have h1 := projProcess_entry_includes pi _ (projEntry_elemMatch_includes sch d pi q hop) proj h hi
    have h2 := (projProcess_registers proj h pe ve false he fe).2.1 rfl hne
    rw [Project_eq, h]
    have e1 : st.includes.isEmpty = false := by cases hh : st.includes <;> simp_all
    have e2 : st.excludes.isEmpty = false := by cases hh : st.excludes <;> simp_all
    simp [projectFinish, e1, e2]
  · intro e h; rw [Project_eq, h]

end Lungo
