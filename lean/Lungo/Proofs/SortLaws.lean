/-
  Lungo.Proofs.SortLaws — lemmas about the sorting / distinct model (Lungo/Model/Sort.lean,
  mirroring bsonkit/sort.go, mongokit/sort.go, bsonkit/lists.go) used by Props/C13.lean.

  §1 core `List.mergeSort` facts for comparators that are lawful only on a subset of the carrier
     (the order laws of `V.cmp` need `V.i64Ok`), obtained by sorting over the subtype;
  §2 `get` preserves `i64Ok`;  §3 `sortKey`;  §4 `order` is a total preorder on well-formed
  documents;  §5 `sortDocs`: permutation, sortedness, stability;  §6 `dedupSorted` / `Distinct`.
-/
import Lungo.Model.Sort
import Lungo.Proofs.CompareLaws
namespace Lungo
open Lungo.Ord

/-! ## §1 mergeSort with laws on a subset -/

section restricted
variable {α : Type} {P : α → Prop} {le : α → α → Bool}

/-- the list with membership proofs attached, as a list over the subtype -/
theorem mergeSort_attachWith (l : List α) (hl : ∀ a ∈ l, P a) :
    l.mergeSort le = ((l.attachWith P hl).mergeSort (fun a b => le a.1 b.1)).map Subtype.val := by
  rw [List.map_mergeSort (s := le) (fun a _ b _ => rfl)]
  simp

theorem pairwise_mergeSort_on
    (trans : ∀ a b c, P a → P b → P c → le a b → le b c → le a c)
    (total : ∀ a b, P a → P b → le a b || le b a)
    (l : List α) (hl : ∀ a ∈ l, P a) : (l.mergeSort le).Pairwise (fun a b => le a b) := by
  rw [mergeSort_attachWith l hl]
  have := List.pairwise_mergeSort (le := fun (a b : {x // P x}) => le a.1 b.1)
    (fun a b c => trans a.1 b.1 c.1 a.2 b.2 c.2) (fun a b => total a.1 b.1 a.2 b.2) (l.attachWith P hl)
  exact List.Pairwise.map _ (fun _ _ h => h) this

theorem sublist_mergeSort_on
    (trans : ∀ a b c, P a → P b → P c → le a b → le b c → le a c)
    (total : ∀ a b, P a → P b → le a b || le b a)
    (l : List α) (hl : ∀ a ∈ l, P a) {ys : List α} (hp : ys.Pairwise (fun a b => le a b)) (hs : ys.Sublist l) :
    ys.Sublist (l.mergeSort le) := by
  rw [mergeSort_attachWith l hl]
  have hs' : ys.Sublist ((l.attachWith P hl).map Subtype.val) := by simpa using hs
  obtain ⟨l', hl', rfl⟩ := List.sublist_map_iff.mp hs'
  have := List.sublist_mergeSort (le := fun (a b : {x // P x}) => le a.1 b.1)
    (fun a b c => trans a.1 b.1 c.1 a.2 b.2 c.2) (fun a b => total a.1 b.1 a.2 b.2)
    (ys := l') (xs := l.attachWith P hl) (List.pairwise_map.mp hp) hl'
  exact this.map Subtype.val
end restricted

/-! ## §2 `get` preserves `i64Ok` -/

theorem i64OkList_append {a b : List V} : i64OkList (a ++ b) = (i64OkList a && i64OkList b) := by
  induction a with
  | nil => simp [i64OkList]
  | cons x r ih => simp [i64OkList, ih, Bool.and_assoc]

theorem i64OkList_iff {a : List V} : i64OkList a = true ↔ ∀ x ∈ a, x.i64Ok = true := by
  induction a with
  | nil => simp [i64OkList]
  | cons x r ih => simp [i64OkList, ih]

mutual
theorem get_i64Ok (v : V) (path : Path) (c k : Bool) (h : v.i64Ok = true) :
    (get v path c k).1.i64Ok = true := by
  match path with
  | [] => simpa [get] using h
  | key :: rest =>
    match v with
    | .doc fs =>
      simp only [get]
      split
      · rfl
      · exact getField_i64Ok fs key rest c k (by simpa [V.i64Ok] using h)
    | .arr xs =>
      simp only [get]
      have hx : i64OkList xs = true := by simpa [V.i64Ok] using h
      split
      · rfl
      · split
        · next r hr =>
          split at hr
          · next idx _ => exact getIdx_i64Ok xs idx rest c k hx r hr
          · cases hr
        · split
          · simp only [V.i64Ok]; exact getCollect_i64Ok xs key rest c k hx
          · rfl
    | .null | .missing | .i32 _ | .i64 _ | .f64 _ | .dec _ _ | .str _ | .bin _ _ | .oid _ | .bool _
    | .date _ | .ts _ _ | .regex _ _ => simp only [get]; split <;> rfl
theorem getField_i64Ok (fs : List (String × V)) (key : String) (rest : Path) (c k : Bool)
    (h : i64OkFields fs = true) : (getField fs key rest c k).1.i64Ok = true := by
  match fs with
  | [] => simp [getField, V.i64Ok]
  | (k', v) :: r =>
    rw [getField]
    simp only [i64OkFields, Bool.and_eq_true] at h
    split
    · exact get_i64Ok v rest c k h.1
    · exact getField_i64Ok r key rest c k h.2
theorem getIdx_i64Ok (xs : List V) (idx : Nat) (rest : Path) (c k : Bool)
    (h : i64OkList xs = true) : ∀ r, getIdx xs idx rest c k = some r → r.1.i64Ok = true := by
  intro r hr
  match xs, idx with
  | [], _ => simp [getIdx] at hr
  | v :: _, 0 =>
    simp only [getIdx, Option.some.injEq] at hr
    simp only [i64OkList, Bool.and_eq_true] at h
    rw [← hr]; exact get_i64Ok v rest c k h.1
  | _ :: r', n + 1 =>
    simp only [getIdx] at hr
    simp only [i64OkList, Bool.and_eq_true] at h
    exact getIdx_i64Ok r' n rest c k h.2 r hr
theorem getCollect_i64Ok (xs : List V) (key : String) (rest : Path) (c k : Bool)
    (h : i64OkList xs = true) : i64OkList (getCollect xs key rest c k) = true := by
  match xs with
  | [] => simp [getCollect, i64OkList]
  | item :: r =>
    simp only [i64OkList, Bool.and_eq_true] at h
    have h1 := get_i64Ok item (key :: rest) c k h.1
    have h2 := getCollect_i64Ok r key rest c k h.2
    rw [getCollect]
    simp only
    split
    · split <;> simp [i64OkList, h1, h2]
    · split
      · next a ha =>
        rw [ha] at h1
        simp only [V.i64Ok] at h1
        split
        · simp [i64OkList_append, h1, h2]
        · simp [i64OkList, h2, ha, V.i64Ok, h1]
      · simp [i64OkList, h1, h2]
end

/-! ## §3 sortKey -/

theorem V.cmp_le_trans {a b c : V} (oa : a.i64Ok = true) (ob : b.i64Ok = true) (oc : c.i64Ok = true)
    (h1 : V.cmp a b ≠ .gt) (h2 : V.cmp b c ≠ .gt) : V.cmp a c ≠ .gt :=
  (V.cmp_at a b c oa ob oc).le_trans h1 h2

theorem V.cmp_ne_gt_of_lt {a b : V} (h : V.cmp a b = .lt) : V.cmp a b ≠ .gt := by rw [h]; decide

theorem V.cmp_ne_gt_of_swap_ne_lt {a b : V} (h : V.cmp b a ≠ .lt) : V.cmp a b ≠ .gt := by
  rw [V.cmp_swap b a]; intro h'; exact h (swap_eq_gt.mp h')

/-- the step of the ascending scan -/
def minStep (best item : V) : V := if V.cmp item best == .lt then item else best
/-- the step of the descending scan -/
def maxStep (best item : V) : V := if V.cmp item best == .gt then item else best

theorem sortKey_cons_asc (x : V) (rest : List V) : sortKey (.arr (x :: rest)) false = rest.foldl minStep x := by
  simp only [sortKey, Bool.false_eq_true, ↓reduceIte]; rfl
theorem sortKey_cons_desc (x : V) (rest : List V) : sortKey (.arr (x :: rest)) true = rest.foldl maxStep x := by
  simp only [sortKey, ↓reduceIte]; rfl

theorem sortKey_nil (r : Bool) : sortKey (.arr []) r = .arr [] := rfl

theorem sortKey_nonarr (v : V) (r : Bool) (h : v.isArr = false) : sortKey v r = v := by
  cases v <;> first | rfl | simp [V.isArr] at h

theorem foldl_minStep_spec (rest seen : List V) (best : V)
    (hm : best ∈ seen) (hle : ∀ y ∈ seen, V.cmp best y ≠ .gt)
    (ok : ∀ y ∈ seen ++ rest, y.i64Ok = true) :
    rest.foldl minStep best ∈ seen ++ rest ∧ ∀ y ∈ seen ++ rest, V.cmp (rest.foldl minStep best) y ≠ .gt := by
  induction rest generalizing seen best with
  | nil => simpa using ⟨hm, hle⟩
  | cons item r ih =>
    have := ih (seen ++ [item]) (minStep best item) ?_ ?_ (by simpa using ok)
    · simpa using this
    · simp only [minStep]; split <;> simp [hm]
    · intro y hy
      have okb : best.i64Ok = true := ok best (by simp [hm])
      have oki : item.i64Ok = true := ok item (by simp)
      simp only [minStep]
      split
      · next hlt =>
        have hlt : V.cmp item best = .lt := by simpa using hlt
        rcases List.mem_append.mp hy with hy | hy
        · exact V.cmp_le_trans oki okb (ok y (by simp [hy])) (V.cmp_ne_gt_of_lt hlt) (hle y hy)
        · simp only [List.mem_singleton] at hy; subst hy; rw [V.cmp_refl]; decide
      · next hlt =>
        have hlt : V.cmp item best ≠ .lt := by simpa using hlt
        rcases List.mem_append.mp hy with hy | hy
        · exact hle y hy
        · simp only [List.mem_singleton] at hy; subst hy; exact V.cmp_ne_gt_of_swap_ne_lt hlt

theorem foldl_maxStep_spec (rest seen : List V) (best : V)
    (hm : best ∈ seen) (hle : ∀ y ∈ seen, V.cmp y best ≠ .gt)
    (ok : ∀ y ∈ seen ++ rest, y.i64Ok = true) :
    rest.foldl maxStep best ∈ seen ++ rest ∧ ∀ y ∈ seen ++ rest, V.cmp y (rest.foldl maxStep best) ≠ .gt := by
  induction rest generalizing seen best with
  | nil => simpa using ⟨hm, hle⟩
  | cons item r ih =>
    have := ih (seen ++ [item]) (maxStep best item) ?_ ?_ (by simpa using ok)
    · simpa using this
    · simp only [maxStep]; split <;> simp [hm]
    · intro y hy
      have okb : best.i64Ok = true := ok best (by simp [hm])
      have oki : item.i64Ok = true := ok item (by simp)
      simp only [maxStep]
      split
      · next hgt =>
        have hgt : V.cmp item best = .gt := by simpa using hgt
        have hlt : V.cmp best item = .lt := by rw [V.cmp_swap item best, hgt]; rfl
        rcases List.mem_append.mp hy with hy | hy
        · exact V.cmp_le_trans (ok y (by simp [hy])) okb oki (hle y hy) (V.cmp_ne_gt_of_lt hlt)
        · simp only [List.mem_singleton] at hy; subst hy; rw [V.cmp_refl]; decide
      · next hgt =>
        have hgt : V.cmp item best ≠ .gt := by simpa using hgt
        rcases List.mem_append.mp hy with hy | hy
        · exact hle y hy
        · simp only [List.mem_singleton] at hy; subst hy; exact hgt

/-- the ascending key of a non-empty array is one of its elements and is minimal -/
theorem sortKey_asc_spec (x : V) (rest : List V) (ok : i64OkList (x :: rest) = true) :
    sortKey (.arr (x :: rest)) false ∈ x :: rest ∧
      ∀ y ∈ x :: rest, V.cmp (sortKey (.arr (x :: rest)) false) y ≠ .gt := by
  rw [sortKey_cons_asc]
  have := foldl_minStep_spec rest [x] x (by simp) (by simp [V.cmp_refl]) (by simpa using i64OkList_iff.mp ok)
  simpa using this

/-- the descending key of a non-empty array is one of its elements and is maximal -/
theorem sortKey_desc_spec (x : V) (rest : List V) (ok : i64OkList (x :: rest) = true) :
    sortKey (.arr (x :: rest)) true ∈ x :: rest ∧
      ∀ y ∈ x :: rest, V.cmp y (sortKey (.arr (x :: rest)) true) ≠ .gt := by
  rw [sortKey_cons_desc]
  have := foldl_maxStep_spec rest [x] x (by simp) (by simp [V.cmp_refl]) (by simpa using i64OkList_iff.mp ok)
  simpa using this

/-- membership alone needs no well-formedness -/
theorem sortKey_mem (x : V) (rest : List V) (r : Bool) : sortKey (.arr (x :: rest)) r ∈ x :: rest := by
  have h : ∀ (f : V → V → V), (∀ b i, f b i = b ∨ f b i = i) →
      ∀ (rest : List V) (x : V), rest.foldl f x ∈ x :: rest := by
    intro f hf rest
    induction rest with
    | nil => simp
    | cons i r ih =>
      intro x
      simp only [List.foldl_cons]
      have := ih (f x i)
      rcases hf x i with e | e <;> rw [e] at this ⊢ <;>
        rcases List.mem_cons.mp this with h | h <;> simp [h]
  cases r
  · rw [sortKey_cons_asc]; exact h minStep (fun b i => by simp only [minStep]; split <;> simp) rest x
  · rw [sortKey_cons_desc]; exact h maxStep (fun b i => by simp only [maxStep]; split <;> simp) rest x

theorem sortKey_i64Ok (v : V) (r : Bool) (h : v.i64Ok = true) : (sortKey v r).i64Ok = true := by
  match v with
  | .arr (x :: rest) =>
    have := sortKey_mem x rest r
    exact i64OkList_iff.mp (by simpa [V.i64Ok] using h) _ this
  | .arr [] => exact h
  | .null | .missing | .i32 _ | .i64 _ | .f64 _ | .dec _ _ | .str _ | .bin _ _ | .oid _ | .bool _
  | .date _ | .ts _ _ | .regex _ _ | .doc _ => exact h

/-! ## §4 order -/

/-- documents whose int64 payloads are all in range (every well-formed document) -/
def Doc.ok (d : Doc) : Prop := (V.doc d).i64Ok = true

/-- the sort key of a document for one column -/
def colKey (col : Column) (d : Doc) : V := sortKey (Get d col.path) col.reverse

/-- direction of a column applied to a comparison result -/
def dirOrd (rev : Bool) (o : Ordering) : Ordering := if rev then o.swap else o

theorem colKey_i64Ok (col : Column) (d : Doc) (h : d.ok) : (colKey col d).i64Ok = true :=
  sortKey_i64Ok _ _ (get_i64Ok _ _ _ _ h)

theorem order_nil (l r : Doc) : order l r [] = .eq := rfl

theorem order_cons (l r : Doc) (col : Column) (cols : List Column) :
    order l r (col :: cols) =
      (dirOrd col.reverse (V.cmp (colKey col l) (colKey col r))).then (order l r cols) := by
  simp only [order, colKey, dirOrd]
  cases V.cmp (sortKey (Get l col.path) col.reverse) (sortKey (Get r col.path) col.reverse) <;>
    cases col.reverse <;> rfl

theorem Laws.dir {aa ab ba bd ad dd db da : Ordering} (rev : Bool)
    (h : Laws aa ab ba bd ad) (h' : Laws dd db bd ba da) (hda : da = ad.swap) :
    Laws (dirOrd rev aa) (dirOrd rev ab) (dirOrd rev ba) (dirOrd rev bd) (dirOrd rev ad) := by
  cases rev
  · exact h
  · obtain ⟨r1, s1, t1, l1, c1⟩ := h
    obtain ⟨r2, s2, t2, l2, c2⟩ := h'
    simp only [dirOrd, ↓reduceIte]
    constructor
    · rw [r1]; rfl
    · rw [s1]
    · intro h1 h2
      have e1 : ba = .lt := by rw [s1]; exact h1
      have e2 : db = .lt := by
        rw [s2] at h2; rw [Ordering.swap_swap] at h2; exact h2
      rw [← hda]; exact t2 e2 e1
    · intro h1; rw [l1 (swap_eq_eq.mp h1)]
    · intro h1; rw [c1 (swap_eq_eq.mp h1)]

/-- `order · · cols` satisfies the comparator laws at every triple of well-formed documents -/
theorem order_at (cols : List Column) (a b d : Doc) (oa : a.ok) (ob : b.ok) (od : d.ok) :
    Laws (order a a cols) (order a b cols) (order b a cols) (order b d cols) (order a d cols) := by
  induction cols with
  | nil => exact ⟨rfl, rfl, (fun h _ => nomatch h), fun _ => rfl, fun _ => rfl⟩
  | cons col cols ih =>
    simp only [order_cons]
    have ka := colKey_i64Ok col a oa
    have kb := colKey_i64Ok col b ob
    have kd := colKey_i64Ok col d od
    exact (Laws.dir col.reverse (V.cmp_at _ _ _ ka kb kd) (V.cmp_at _ _ _ kd kb ka)
      (V.cmp_swap _ _)).then ih

theorem order_refl (cols : List Column) (a : Doc) : order a a cols = .eq := by
  induction cols with
  | nil => rfl
  | cons col cols ih => rw [order_cons, V.cmp_refl, ih]; cases col.reverse <;> rfl

theorem order_swap (cols : List Column) (a b : Doc) : order b a cols = (order a b cols).swap := by
  induction cols with
  | nil => rfl
  | cons col cols ih =>
    rw [order_cons, order_cons, ih, V.cmp_swap (colKey col a) (colKey col b)]
    cases V.cmp (colKey col a) (colKey col b) <;> cases col.reverse <;> simp [dirOrd, Ordering.then]

theorem order_trans (cols : List Column) (a b d : Doc) (oa : a.ok) (ob : b.ok) (od : d.ok)
    (h1 : order a b cols ≠ .gt) (h2 : order b d cols ≠ .gt) : order a d cols ≠ .gt :=
  (order_at cols a b d oa ob od).le_trans h1 h2

theorem order_lt_trans (cols : List Column) (a b d : Doc) (oa : a.ok) (ob : b.ok) (od : d.ok)
    (h1 : order a b cols = .lt) (h2 : order b d cols = .lt) : order a d cols = .lt :=
  (order_at cols a b d oa ob od).lt_trans h1 h2

theorem order_eq_trans (cols : List Column) (a b d : Doc) (oa : a.ok) (ob : b.ok) (od : d.ok)
    (h1 : order a b cols = .eq) (h2 : order b d cols = .eq) : order a d cols = .eq := by
  rw [(order_at cols a b d oa ob od).congr_l h1]; exact h2

theorem order_congr (cols : List Column) (a a' b : Doc) (oa : a.ok) (oa' : a'.ok) (ob : b.ok)
    (h : order a a' cols = .eq) : order a b cols = order a' b cols :=
  (order_at cols a a' b oa oa' ob).congr_l h

/-! ## §5 sortDocs -/

/-- the Boolean "not greater" relation handed to the sorting routine -/
def ordLe (cols : List Column) (a b : Doc) : Bool := order a b cols != .gt

theorem ordLe_iff {cols : List Column} {a b : Doc} : ordLe cols a b = true ↔ order a b cols ≠ .gt := by
  simp [ordLe]

theorem ordLe_trans (cols : List Column) (a b c : Doc) (oa : a.ok) (ob : b.ok) (oc : c.ok)
    (h1 : ordLe cols a b = true) (h2 : ordLe cols b c = true) : ordLe cols a c = true :=
  ordLe_iff.mpr (order_trans cols a b c oa ob oc (ordLe_iff.mp h1) (ordLe_iff.mp h2))

theorem ordLe_total (cols : List Column) (a b : Doc) : (ordLe cols a b || ordLe cols b a) = true := by
  simp only [ordLe, order_swap cols a b]
  cases order a b cols <;> rfl

theorem sortDocs_eq (list : List Doc) (cols : List Column) : sortDocs list cols = list.mergeSort (ordLe cols) := rfl

theorem sortDocs_perm (list : List Doc) (cols : List Column) : (sortDocs list cols).Perm list :=
  List.mergeSort_perm _ _

theorem sortDocs_pairwise (list : List Doc) (cols : List Column) (ok : ∀ d ∈ list, d.ok) :
    (sortDocs list cols).Pairwise (fun a b => order a b cols ≠ .gt) := by
  have := pairwise_mergeSort_on (P := Doc.ok) (le := ordLe cols)
    (fun a b c oa ob oc => ordLe_trans cols a b c oa ob oc) (fun a b _ _ => ordLe_total cols a b) list ok
  exact this.imp ordLe_iff.mp

theorem sortDocs_sublist (list : List Doc) (cols : List Column) (ok : ∀ d ∈ list, d.ok)
    {ys : List Doc} (hp : ys.Pairwise (fun a b => order a b cols ≠ .gt)) (hs : ys.Sublist list) :
    ys.Sublist (sortDocs list cols) :=
  sublist_mergeSort_on (P := Doc.ok) (le := ordLe cols)
    (fun a b c oa ob oc => ordLe_trans cols a b c oa ob oc) (fun a b _ _ => ordLe_total cols a b) list ok
    (hp.imp ordLe_iff.mpr) hs

/-- stability in its strongest form: the documents tied with `a` appear in the result exactly as
    they appear in the input (same documents, same relative order). -/
theorem sortDocs_ties (list : List Doc) (cols : List Column) (ok : ∀ d ∈ list, d.ok) (a : Doc) (oa : a.ok) :
    (sortDocs list cols).filter (fun b => order a b cols == .eq) =
      list.filter (fun b => order a b cols == .eq) := by
  let p : Doc → Bool := fun b => order a b cols == .eq
  have hsub : (list.filter p).Sublist (sortDocs list cols) := by
    apply sortDocs_sublist list cols ok _ List.filter_sublist
    refine List.pairwise_of_forall_mem_list fun x hx y hy => ?_
    have hx' := List.mem_filter.mp hx
    have hy' := List.mem_filter.mp hy
    have ex : order a x cols = .eq := by simpa [p] using hx'.2
    have ey : order a y cols = .eq := by simpa [p] using hy'.2
    have exa : order x a cols = .eq := by rw [order_swap cols a x, ex]; rfl
    rw [order_eq_trans cols x a y (ok x hx'.1) oa (ok y hy'.1) exa ey]; decide
  have h2 : (list.filter p).Sublist ((sortDocs list cols).filter p) := by
    have := hsub.filter p
    rwa [List.filter_filter, show (fun x => p x && p x) = p from by funext x; simp] at this
  have hlen : ((sortDocs list cols).filter p).length = (list.filter p).length :=
    ((sortDocs_perm list cols).filter p).length_eq
  exact (h2.eq_of_length hlen.symm).symm

/-! ## §6 dedupSorted and Distinct -/

theorem dedupSorted_nil : dedupSorted [] = [] := by rw [dedupSorted]
theorem dedupSorted_single (x : V) : dedupSorted [x] = [x] := by rw [dedupSorted]
theorem dedupSorted_cons_cons (x y : V) (r : List V) :
    dedupSorted (x :: y :: r) = if V.cmp x y == .eq then dedupSorted (x :: r) else x :: dedupSorted (y :: r) := by
  rw [dedupSorted]

/-- the head survives -/
theorem dedupSorted_head (x : V) (r : List V) : ∃ t, dedupSorted (x :: r) = x :: t := by
  induction r with
  | nil => exact ⟨[], dedupSorted_single x⟩
  | cons y r ih =>
    rw [dedupSorted_cons_cons]
    split
    · exact ih
    · exact ⟨_, rfl⟩

theorem dedupSorted_sublist : ∀ (n : Nat) (l : List V), l.length = n → (dedupSorted l).Sublist l := by
  intro n
  induction n using Nat.strongRecOn with
  | _ n ih =>
    intro l hl
    match l with
    | [] => rw [dedupSorted_nil]; exact List.Sublist.slnil
    | [x] => rw [dedupSorted_single]; exact List.Sublist.refl _
    | x :: y :: r =>
      rw [dedupSorted_cons_cons]
      split
      · have := ih (r.length + 1) (by simp at hl; omega) (x :: r) (by simp)
        exact this.trans ((List.sublist_cons_self y r).cons_cons x)
      · have := ih (r.length + 1) (by simp at hl; omega) (y :: r) (by simp)
        exact this.cons_cons x

/-- every input element is `cmp`-equal to some output element (no order hypotheses needed) -/
theorem dedupSorted_complete : ∀ (n : Nat) (l : List V), l.length = n →
    ∀ v ∈ l, ∃ w ∈ dedupSorted l, V.cmp v w = .eq := by
  intro n
  induction n using Nat.strongRecOn with
  | _ n ih =>
    intro l hl v hv
    match l with
    | [] => simp at hv
    | [x] =>
      rw [dedupSorted_single]
      simp only [List.mem_singleton] at hv
      exact ⟨x, by simp, by rw [hv, V.cmp_refl]⟩
    | x :: y :: r =>
      rw [dedupSorted_cons_cons]
      have ihx := ih (r.length + 1) (by simp at hl; omega) (x :: r) (by simp)
      have ihy := ih (r.length + 1) (by simp at hl; omega) (y :: r) (by simp)
      split
      · next he =>
        have he : V.cmp x y = .eq := by simpa using he
        rcases List.mem_cons.mp hv with rfl | hv
        · exact ihx _ (by simp)
        · rcases List.mem_cons.mp hv with rfl | hv
          · obtain ⟨t, ht⟩ := dedupSorted_head x r
            exact ⟨x, by rw [ht]; simp, by rw [V.cmp_swap x v, he]; rfl⟩
          · exact ihx v (by simp [hv])
      · rcases List.mem_cons.mp hv with rfl | hv
        · exact ⟨v, by simp, V.cmp_refl v⟩
        · obtain ⟨w, hw, e⟩ := ihy v hv
          exact ⟨w, by simp [hw], e⟩

theorem V.cmp_lt_of_lt_of_le {a b c : V} (oa : a.i64Ok = true) (ob : b.i64Ok = true) (oc : c.i64Ok = true)
    (h1 : V.cmp a b = .lt) (h2 : V.cmp b c ≠ .gt) : V.cmp a c = .lt := by
  have L := V.cmp_at a b c oa ob oc
  cases hbc : V.cmp b c with
  | gt => exact absurd hbc h2
  | lt => exact L.lt_trans h1 hbc
  | eq => rw [← L.congr_r hbc]; exact h1

/-- on a sorted input the output is strictly ascending (all pairs, hence adjacent ones) -/
theorem dedupSorted_strict : ∀ (n : Nat) (l : List V), l.length = n →
    (∀ v ∈ l, v.i64Ok = true) → l.Pairwise (fun a b => V.cmp a b ≠ .gt) →
    (dedupSorted l).Pairwise (fun a b => V.cmp a b = .lt) := by
  intro n
  induction n using Nat.strongRecOn with
  | _ n ih =>
    intro l hl ok hp
    match l with
    | [] => rw [dedupSorted_nil]; exact List.Pairwise.nil
    | [x] => rw [dedupSorted_single]; simp
    | x :: y :: r =>
      rw [dedupSorted_cons_cons]
      split
      · refine ih (r.length + 1) (by simp at hl; omega) (x :: r) (by simp) (fun v hv => ok v ?_) ?_
        · rcases List.mem_cons.mp hv with rfl | hv <;> simp [*]
        · exact hp.sublist ((List.sublist_cons_self y r).cons_cons x)
      · next hne =>
        have hne : V.cmp x y ≠ .eq := by simpa using hne
        have hle : V.cmp x y ≠ .gt := (List.pairwise_cons.mp hp).1 y (by simp)
        have hlt : V.cmp x y = .lt := by cases h : V.cmp x y <;> simp_all
        have hp' : (y :: r).Pairwise (fun a b => V.cmp a b ≠ .gt) := (List.pairwise_cons.mp hp).2
        have ihy := ih (r.length + 1) (by simp at hl; omega) (y :: r) (by simp)
          (fun v hv => ok v (by simp [hv])) hp'
        refine List.pairwise_cons.mpr ⟨fun z hz => ?_, ihy⟩
        have hz' : z ∈ y :: r := (dedupSorted_sublist _ _ rfl).subset hz
        have hyz : V.cmp y z ≠ .gt := by
          rcases List.mem_cons.mp hz' with rfl | hz''
          · rw [V.cmp_refl]; decide
          · exact (List.pairwise_cons.mp hp').1 z hz''
        exact V.cmp_lt_of_lt_of_le (ok x (by simp)) (ok y (by simp)) (ok z (by simp [hz'])) hlt hyz

/-- the Boolean "not greater" relation on values handed to the sorting routine by `Collect` -/
def cmpLe (a b : V) : Bool := V.cmp a b != .gt

theorem cmpLe_iff {a b : V} : cmpLe a b = true ↔ V.cmp a b ≠ .gt := by simp [cmpLe]

theorem mergeSort_cmp_pairwise (l : List V) (ok : ∀ v ∈ l, v.i64Ok = true) :
    (l.mergeSort cmpLe).Pairwise (fun a b => V.cmp a b ≠ .gt) := by
  have := pairwise_mergeSort_on (P := fun v : V => v.i64Ok = true) (le := cmpLe)
    (fun a b c oa ob oc h1 h2 => cmpLe_iff.mpr (V.cmp_le_trans oa ob oc (cmpLe_iff.mp h1) (cmpLe_iff.mp h2)))
    (fun a b _ _ => by
      simp only [cmpLe, V.cmp_swap a b]; cases V.cmp a b <;> rfl) l ok
  exact this.imp cmpLe_iff.mp

theorem All_i64Ok (d : Doc) (path : Path) (compact merge : Bool) (h : d.ok) :
    (All d path compact merge).1.i64Ok = true := by
  have h0 := get_i64Ok (.doc d) path true compact h
  simp only [All]
  split
  · exact h0
  · split
    · next array harr =>
      simp only [V.i64Ok]
      rw [harr] at h0
      simp only [V.i64Ok] at h0
      clear harr
      induction array with
      | nil => rfl
      | cons item r ih =>
        simp only [i64OkList, Bool.and_eq_true] at h0
        simp only [List.foldr_cons]
        split
        · next a =>
          rw [i64OkList_append, ih h0.2]
          simpa [V.i64Ok] using h0.1
        · simp [i64OkList, h0.1, ih h0.2]
    · exact h0

/-- one document's contribution to `Collect(list, path, compact=true, merge=true, flatten=true, ·)` -/
def contribution (d : Doc) (path : String) : List V :=
  let v := (All d (splitPath path) true true).1
  if v.isMissing then [] else match v with
    | .arr a => a
    | _ => [v]

/-- the values collected before sorting and de-duplication -/
def collected (list : List Doc) (path : String) : List V := list.flatMap (contribution · path)

theorem collect_nodistinct (list : List Doc) (path : String) :
    collect list path true true true false = collected list path := by
  simp only [collect, collected, Bool.true_and, Bool.not_false, ↓reduceIte]
  induction list with
  | nil => rfl
  | cons d r ih =>
    simp only [List.foldr_cons, List.flatMap_cons, ih, contribution]
    split
    · rfl
    · split <;> simp_all

theorem Distinct_eq (list : List Doc) (path : String) :
    Distinct list path = dedupSorted ((collected list path).mergeSort cmpLe) := by
  rw [← collect_nodistinct]
  simp only [Distinct, collect, Bool.not_true, Bool.false_eq_true, ↓reduceIte, Bool.not_false]
  rfl

theorem contribution_i64Ok (d : Doc) (path : String) (h : d.ok) : ∀ v ∈ contribution d path, v.i64Ok = true := by
  have h0 := All_i64Ok d (splitPath path) true true h
  intro v hv
  simp only [contribution] at hv
  split at hv
  · simp at hv
  · split at hv
    · next a ha => rw [ha] at h0; exact i64OkList_iff.mp (by simpa [V.i64Ok] using h0) v hv
    · simp only [List.mem_singleton] at hv; rw [hv]; exact h0

theorem collected_i64Ok (list : List Doc) (path : String) (ok : ∀ d ∈ list, d.ok) :
    ∀ v ∈ collected list path, v.i64Ok = true := by
  intro v hv
  obtain ⟨d, hd, hv⟩ := List.mem_flatMap.mp hv
  exact contribution_i64Ok d path (ok d hd) v hv

theorem Distinct_strict (list : List Doc) (path : String) (ok : ∀ d ∈ list, d.ok) :
    (Distinct list path).Pairwise (fun a b => V.cmp a b = .lt) := by
  rw [Distinct_eq]
  refine dedupSorted_strict _ _ rfl (fun v hv => ?_) (mergeSort_cmp_pairwise _ (collected_i64Ok list path ok))
  exact collected_i64Ok list path ok v (List.mem_mergeSort.mp hv)

theorem Distinct_sound (list : List Doc) (path : String) : ∀ v ∈ Distinct list path, v ∈ collected list path := by
  intro v hv
  rw [Distinct_eq] at hv
  exact List.mem_mergeSort.mp ((dedupSorted_sublist _ _ rfl).subset hv)

theorem Distinct_complete (list : List Doc) (path : String) :
    ∀ v ∈ collected list path, ∃ w ∈ Distinct list path, V.cmp v w = .eq := by
  intro v hv
  rw [Distinct_eq]
  exact dedupSorted_complete _ _ rfl v (List.mem_mergeSort.mpr hv)

/-! ## §7 paths that cross no array: `All` is `Get` -/


/-- `path` never meets an array strictly before its end when followed from `v`
    (it "descends through embedded documents only"). -/
def noArrayBefore (v : V) (path : Path) : Prop :=
  ∀ pre suf, path = pre ++ suf → suf ≠ [] → (get v pre false false).1.isArr = false

theorem getField_doc (fs : List (String × V)) (key : String) (rest : Path) (c k : Bool) (hk : (key == "" && rest.isEmpty) = false) :
    getField fs key rest c k = get (.doc fs) (key :: rest) c k := by
  simp [get, hk]

theorem get_noArray (path : Path) : ∀ (v : V) (c k : Bool), "" ∉ path → noArrayBefore v path →
    get v path c k = ((get v path false false).1, false) := by
  induction path with
  | nil => intro v c k _ _; simp [get]
  | cons key rest ih =>
    intro v c k hne h
    have hkey : (key == "") = false := by
      have : key ≠ "" := fun e => hne (by simp [e])
      simpa using this
    have hne' : "" ∉ rest := fun e => hne (by simp [e])
    have hv : v.isArr = false := by simpa [get] using h [] (key :: rest) rfl (by simp)
    match v with
    | .arr _ => simp [V.isArr] at hv
    | .doc fs =>
      simp only [get]
      split
      · rfl
      · next hk =>
        have hk : (key == "" && rest.isEmpty) = false := by simpa using hk
        -- walk the fields
        have hf : ∀ (gs : List (String × V)),
            (∀ pre suf, rest = pre ++ suf → suf ≠ [] → (getField gs key pre false false).1.isArr = false) →
            getField gs key rest c k = ((getField gs key rest false false).1, false) := by
          intro gs
          induction gs with
          | nil => intro _; simp [getField]
          | cons kv r ihr =>
            obtain ⟨k', v'⟩ := kv
            intro hg
            simp only [getField] at hg ⊢
            split
            · next hkk =>
              simp only [hkk, ↓reduceIte] at hg
              exact ih v' c k hne' hg
            · next hkk =>
              simp only [hkk] at hg
              exact ihr hg
        apply hf fs
        intro pre suf e hs
        have := h (key :: pre) suf (by simp [e]) hs
        simp only [get] at this
        split at this
        · next hk' => simp [hkey] at hk'
        · exact this
    | .null | .missing | .i32 _ | .i64 _ | .f64 _ | .dec _ _ | .str _ | .bin _ _ | .oid _ | .bool _
    | .date _ | .ts _ _ | .regex _ _ => simp only [get]; split <;> rfl


theorem All_noArray (d : Doc) (path : Path) (compact merge : Bool) (hne : "" ∉ path)
    (h : noArrayBefore (.doc d) path) : All d path compact merge = (getP d path, false) := by
  simp only [All, getP, get_noArray path (.doc d) true compact hne h]
  simp

/-- the contribution of one document to `Distinct`, for a path that crosses no array inside it:
    nothing if the path is missing, the elements if the value is an array, else the value itself -/
def plainContribution (v : V) : List V :=
  match v with
  | .missing => []
  | .arr a => a
  | v => [v]

theorem contribution_noArray (d : Doc) (path : String) (hne : "" ∉ splitPath path)
    (h : noArrayBefore (.doc d) (splitPath path)) :
    contribution d path = plainContribution (Get d path) := by
  simp only [contribution, All_noArray d _ true true hne h, Get, getP]
  cases (get (V.doc d) (splitPath path) false false).fst <;> simp [V.isMissing, plainContribution]

theorem collected_noArray (list : List Doc) (path : String) (hne : "" ∉ splitPath path)
    (h : ∀ d ∈ list, noArrayBefore (.doc d) (splitPath path)) :
    collected list path = list.flatMap (fun d => plainContribution (Get d path)) := by
  simp only [collected]
  induction list with
  | nil => rfl
  | cons d r ih =>
    simp only [List.flatMap_cons]
    rw [contribution_noArray d path hne (h d (by simp)), ih (fun d hd => h d (by simp [hd]))]


/-! ## §8 missing as null; single columns -/

theorem V.cmp_missing_null : V.cmp .missing .null = .eq := by decide
theorem V.cmp_missing_left (x : V) : V.cmp .missing x = V.cmp .null x := by
  cases x <;> simp [V.cmp, V.cls, Class.rank]
theorem V.cmp_missing_right (x : V) : V.cmp x .missing = V.cmp x .null := by
  rw [V.cmp_swap .missing x, V.cmp_swap .null x, V.cmp_missing_left]

/-- "missing as null" on sort keys -/
def nullify (v : V) : V := match v with | .missing => .null | v => v

theorem sortKey_nullify_cmp (v x : V) (r : Bool) :
    V.cmp (sortKey (nullify v) r) x = V.cmp (sortKey v r) x := by
  cases v <;> simp only [nullify]
  simp only [sortKey]; exact (V.cmp_missing_left x).symm

/-- a document lacking a sort field sorts exactly like one holding `null` there -/
theorem order_missing_as_null (l l' r : Doc) (cols : List Column)
    (h : ∀ c ∈ cols, Get l' c.path = nullify (Get l c.path)) : order l r cols = order l' r cols := by
  induction cols with
  | nil => rfl
  | cons col cols ih =>
    rw [order_cons, order_cons, ih (fun c hc => h c (by simp [hc]))]
    simp only [colKey, h col (by simp), sortKey_nullify_cmp]

theorem order_single_asc (l r : Doc) (p : String) :
    order l r [⟨p, false⟩] = V.cmp (sortKey (Get l p) false) (sortKey (Get r p) false) := by
  simp only [order]; cases V.cmp (sortKey (Get l p) false) (sortKey (Get r p) false) <;> rfl

theorem order_single_desc (l r : Doc) (p : String) :
    order l r [⟨p, true⟩] = (V.cmp (sortKey (Get l p) true) (sortKey (Get r p) true)).swap := by
  simp only [order]; cases V.cmp (sortKey (Get l p) true) (sortKey (Get r p) true) <;> rfl

/-! ## §9 uniqueness: permutation + sorted + ties in input order determine the result -/

/-- two permutations of each other that are both sorted and keep every tie class in the same order
    are equal (no transitivity needed: heads of sorted permutations tie) -/
theorem sorted_stable_unique (cols : List Column) : ∀ (l1 l2 : List Doc), l1.Perm l2 →
    l1.Pairwise (fun a b => order a b cols ≠ .gt) → l2.Pairwise (fun a b => order a b cols ≠ .gt) →
    (∀ a ∈ l1, l1.filter (fun b => order a b cols == .eq) = l2.filter (fun b => order a b cols == .eq)) →
    l1 = l2 := by
  intro l1
  induction l1 with
  | nil => intro l2 hp _ _ _; exact (List.Perm.nil_eq hp)
  | cons x t1 ih =>
    intro l2 hp s1 s2 hf
    match l2 with
    | [] => exact absurd hp.length_eq (by simp)
    | y :: t2 =>
      have hxy : order x y cols ≠ .gt := by
        have hy : y ∈ x :: t1 := hp.symm.subset (by simp)
        rcases List.mem_cons.mp hy with rfl | hy
        · rw [order_refl]; decide
        · exact (List.pairwise_cons.mp s1).1 y hy
      have hyx : order y x cols ≠ .gt := by
        have hx : x ∈ y :: t2 := hp.subset (by simp)
        rcases List.mem_cons.mp hx with rfl | hx
        · rw [order_refl]; decide
        · exact (List.pairwise_cons.mp s2).1 x hx
      have hxy_eq : order x y cols = .eq := by
        rw [order_swap cols x y] at hyx
        cases h : order x y cols <;> simp_all
      have hhead := hf x (by simp)
      simp only [List.filter_cons, order_refl, beq_self_eq_true, ↓reduceIte, hxy_eq] at hhead
      have exy : x = y := (List.cons.inj hhead).1
      subst exy
      have ht : t1 = t2 := by
        refine ih t2 ((List.perm_cons x).mp hp) (List.pairwise_cons.mp s1).2 (List.pairwise_cons.mp s2).2 ?_
        intro a ha
        have := hf a (by simp [ha])
        simp only [List.filter_cons] at this
        split at this
        · exact (List.cons.inj this).2
        · exact this
      rw [ht]

/-- `sortDocs` is THE stable sort: any list that is a permutation of the input, non-decreasing and
    keeps ties in input order equals it. -/
theorem sortDocs_unique (list : List Doc) (cols : List Column) (ok : ∀ d ∈ list, d.ok) (l' : List Doc)
    (hp : l'.Perm list) (hs : l'.Pairwise (fun a b => order a b cols ≠ .gt))
    (ht : ∀ a ∈ list, l'.filter (fun b => order a b cols == .eq) = list.filter (fun b => order a b cols == .eq)) :
    l' = sortDocs list cols := by
  refine sorted_stable_unique cols l' (sortDocs list cols) (hp.trans (sortDocs_perm list cols).symm) hs
    (sortDocs_pairwise list cols ok) ?_
  intro a ha
  have ha' : a ∈ list := hp.subset ha
  rw [ht a ha', sortDocs_ties list cols ok a (ok a ha')]

/-! ## §10 the same facts for any comparator that is a total preorder on a subset -/

section generic
variable {α : Type}

/-- `c` is reflexive and swap-antisymmetric everywhere, transitive on `P` -/
structure PreorderOn (c : α → α → Ordering) (P : α → Prop) : Prop where
  refl : ∀ a, c a a = .eq
  swap : ∀ a b, c b a = (c a b).swap
  trans : ∀ a b d, P a → P b → P d → c a b ≠ .gt → c b d ≠ .gt → c a d ≠ .gt
  eq_trans : ∀ a b d, P a → P b → P d → c a b = .eq → c b d = .eq → c a d = .eq

/-- the "not greater" test handed to the sorting routine -/
def leOf (c : α → α → Ordering) (a b : α) : Bool := c a b != .gt

/-- stable sort by a three-way comparison -/
def stableSort (c : α → α → Ordering) (l : List α) : List α := l.mergeSort (leOf c)

variable {c : α → α → Ordering} {P : α → Prop}

theorem leOf_iff {a b : α} : leOf c a b = true ↔ c a b ≠ .gt := by simp [leOf]

theorem leOf_total (h : PreorderOn c P) (a b : α) : (leOf c a b || leOf c b a) = true := by
  simp only [leOf, h.swap a b]; cases c a b <;> rfl

theorem stableSort_perm (l : List α) : (stableSort c l).Perm l := List.mergeSort_perm _ _

theorem stableSort_pairwise (h : PreorderOn c P) (l : List α) (ok : ∀ a ∈ l, P a) :
    (stableSort c l).Pairwise (fun a b => c a b ≠ .gt) := by
  have := pairwise_mergeSort_on (P := P) (le := leOf c)
    (fun a b d oa ob od h1 h2 => leOf_iff.mpr (h.trans a b d oa ob od (leOf_iff.mp h1) (leOf_iff.mp h2)))
    (fun a b _ _ => leOf_total h a b) l ok
  exact this.imp leOf_iff.mp

theorem stableSort_sublist (h : PreorderOn c P) (l : List α) (ok : ∀ a ∈ l, P a) {ys : List α}
    (hp : ys.Pairwise (fun a b => c a b ≠ .gt)) (hs : ys.Sublist l) : ys.Sublist (stableSort c l) :=
  sublist_mergeSort_on (P := P) (le := leOf c)
    (fun a b d oa ob od h1 h2 => leOf_iff.mpr (h.trans a b d oa ob od (leOf_iff.mp h1) (leOf_iff.mp h2)))
    (fun a b _ _ => leOf_total h a b) l ok (hp.imp leOf_iff.mpr) hs

theorem stableSort_ties (h : PreorderOn c P) (l : List α) (ok : ∀ a ∈ l, P a) (a : α) (oa : P a) :
    (stableSort c l).filter (fun b => c a b == .eq) = l.filter (fun b => c a b == .eq) := by
  let p : α → Bool := fun b => c a b == .eq
  have hsub : (l.filter p).Sublist (stableSort c l) := by
    apply stableSort_sublist h l ok _ List.filter_sublist
    refine List.pairwise_of_forall_mem_list fun x hx y hy => ?_
    have hx' := List.mem_filter.mp hx
    have hy' := List.mem_filter.mp hy
    have ex : c a x = .eq := by simpa [p] using hx'.2
    have ey : c a y = .eq := by simpa [p] using hy'.2
    have exa : c x a = .eq := by rw [h.swap a x, ex]; rfl
    rw [h.eq_trans x a y (ok x hx'.1) oa (ok y hy'.1) exa ey]; decide
  have h2 : (l.filter p).Sublist ((stableSort c l).filter p) := by
    have := hsub.filter p
    rwa [List.filter_filter, show (fun x => p x && p x) = p from by funext x; simp] at this
  have hlen : ((stableSort c l).filter p).length = (l.filter p).length :=
    ((stableSort_perm l).filter p).length_eq
  exact (h2.eq_of_length hlen.symm).symm

theorem sorted_ties_unique (h : PreorderOn c P) : ∀ (l1 l2 : List α), l1.Perm l2 →
    l1.Pairwise (fun a b => c a b ≠ .gt) → l2.Pairwise (fun a b => c a b ≠ .gt) →
    (∀ a ∈ l1, l1.filter (fun b => c a b == .eq) = l2.filter (fun b => c a b == .eq)) → l1 = l2 := by
  intro l1
  induction l1 with
  | nil => intro l2 hp _ _ _; exact (List.Perm.nil_eq hp)
  | cons x t1 ih =>
    intro l2 hp s1 s2 hf
    match l2 with
    | [] => exact absurd hp.length_eq (by simp)
    | y :: t2 =>
      have hxy : c x y ≠ .gt := by
        have hy : y ∈ x :: t1 := hp.symm.subset (by simp)
        rcases List.mem_cons.mp hy with rfl | hy
        · rw [h.refl]; decide
        · exact (List.pairwise_cons.mp s1).1 y hy
      have hyx : c y x ≠ .gt := by
        have hx : x ∈ y :: t2 := hp.subset (by simp)
        rcases List.mem_cons.mp hx with rfl | hx
        · rw [h.refl]; decide
        · exact (List.pairwise_cons.mp s2).1 x hx
      have hxy_eq : c x y = .eq := by
        rw [h.swap x y] at hyx
        cases hc : c x y <;> simp_all
      have hhead := hf x (by simp)
      simp only [List.filter_cons, h.refl, beq_self_eq_true, ↓reduceIte, hxy_eq] at hhead
      have exy : x = y := (List.cons.inj hhead).1
      subst exy
      have ht : t1 = t2 := by
        refine ih t2 ((List.perm_cons x).mp hp) (List.pairwise_cons.mp s1).2 (List.pairwise_cons.mp s2).2 ?_
        intro a ha
        have := hf a (by simp [ha])
        simp only [List.filter_cons] at this
        split at this
        · exact (List.cons.inj this).2
        · exact this
      rw [ht]

theorem stableSort_unique (h : PreorderOn c P) (l : List α) (ok : ∀ a ∈ l, P a) (l' : List α)
    (hp : l'.Perm l) (hs : l'.Pairwise (fun a b => c a b ≠ .gt))
    (ht : ∀ a ∈ l, l'.filter (fun b => c a b == .eq) = l.filter (fun b => c a b == .eq)) :
    l' = stableSort c l := by
  refine sorted_ties_unique h l' (stableSort c l) (hp.trans (stableSort_perm l).symm) hs
    (stableSort_pairwise h l ok) ?_
  intro a ha
  have ha' : a ∈ l := hp.subset ha
  rw [ht a ha', stableSort_ties h l ok a (ok a ha')]

/-- filtering commutes with a stable sort -/
theorem filter_stableSort (h : PreorderOn c P) (l : List α) (ok : ∀ a ∈ l, P a) (p : α → Bool) :
    (stableSort c l).filter p = stableSort c (l.filter p) := by
  have ok' : ∀ a ∈ l.filter p, P a := fun a ha => ok a (List.mem_filter.mp ha).1
  refine stableSort_unique h (l.filter p) ok' _ ((stableSort_perm l).filter p)
    ((stableSort_pairwise h l ok).sublist List.filter_sublist) ?_
  intro a ha
  have ha' := List.mem_filter.mp ha
  rw [List.filter_filter, show (fun x => (c a x == .eq) && p x) = (fun x => p x && (c a x == .eq)) from by
        funext x; exact Bool.and_comm _ _,
    ← List.filter_filter, stableSort_ties h l ok a (ok a ha'.1), List.filter_filter, List.filter_filter]
  congr 1; funext x; exact Bool.and_comm _ _
end generic


end Lungo
