/-
  Lemmas about Spec.chunksOf, the model's `cut` loop and `mkDocs`.
-/
import Lungo.Spec.Chunks
import Lungo.Model.GridFS
namespace Lungo.GridFS
open Lungo.Spec

theorem chunksAux_fuel {α : Type} (c : Nat) (hc : 0 < c) :
    ∀ (f g : Nat) (l : List α), l.length ≤ f → l.length ≤ g → chunksAux c f l = chunksAux c g l := by
  intro f
  induction f with
  | zero =>
    intro g l hf hg
    have : l = [] := List.eq_nil_of_length_eq_zero (by omega)
    subst this
    cases g <;> simp [chunksAux]
  | succ f ih =>
    intro g l hf hg
    cases g with
    | zero =>
      have : l = [] := List.eq_nil_of_length_eq_zero (by omega)
      subst this
      simp [chunksAux]
    | succ g =>
      simp only [chunksAux]
      split
      · rfl
      · rename_i hne
        have h1 : (l.drop c).length ≤ f := by simp [List.length_drop]; omega
        have h2 : (l.drop c).length ≤ g := by simp [List.length_drop]; omega
        rw [ih g (l.drop c) h1 h2]

theorem chunksOf_nil {α : Type} (c : Nat) : chunksOf c ([] : List α) = [] := by
  simp [chunksOf, chunksAux]

theorem chunksOf_of_ne_nil {α : Type} (c : Nat) (hc : 0 < c) (l : List α) (h : l ≠ []) :
    chunksOf c l = l.take c :: chunksOf c (l.drop c) := by
  have hl : 0 < l.length := List.length_pos_iff.mpr h
  unfold chunksOf
  obtain ⟨n, hn⟩ : ∃ n, l.length = n + 1 := ⟨l.length - 1, by omega⟩
  rw [hn]
  simp only [chunksAux]
  rw [if_neg (by omega)]
  congr 1
  apply chunksAux_fuel c hc
  · simp [List.length_drop]; omega
  · exact Nat.le_refl _

theorem flatten_chunksOf {α : Type} (c : Nat) (hc : 0 < c) :
    ∀ (n : Nat) (l : List α), l.length ≤ n → (chunksOf c l).flatten = l := by
  intro n
  induction n with
  | zero =>
    intro l h
    have : l = [] := List.eq_nil_of_length_eq_zero (by omega)
    subst this; simp [chunksOf_nil]
  | succ n ih =>
    intro l h
    by_cases hl : l = []
    · subst hl; simp [chunksOf_nil]
    · rw [chunksOf_of_ne_nil c hc l hl]
      have hp : 0 < l.length := List.length_pos_iff.mpr hl
      have : (l.drop c).length ≤ n := by simp [List.length_drop]; omega
      simp [ih _ this]

/-- full pieces in front of a chunking are a chunking -/
theorem chunksOf_append_full (c : Nat) (hc : 0 < c) {α : Type} :
    ∀ (D : List (List α)) (b : List α), (∀ d ∈ D, d.length = c) →
      D ++ chunksOf c b = chunksOf c (D.flatten ++ b) := by
  intro D
  induction D with
  | nil => intro b _; simp
  | cons d D ih =>
    intro b h
    have hd : d.length = c := h d (by simp)
    have hne : d ++ (D.flatten ++ b) ≠ [] := by
      intro h0
      have : (d ++ (D.flatten ++ b)).length = 0 := by rw [h0]; rfl
      rw [List.length_append] at this; omega
    simp only [List.flatten_cons, List.append_assoc, List.cons_append]
    rw [chunksOf_of_ne_nil c hc _ hne]
    have h1 : (d ++ (D.flatten ++ b)).take c = d := by
      rw [← hd]; simp
    have h2 : (d ++ (D.flatten ++ b)).drop c = D.flatten ++ b := by
      rw [← hd]; simp
    rw [h1, h2, ih b (fun x hx => h x (by simp [hx]))]

/-- dropping j pieces = chunking the content after j·c bytes -/
theorem drop_chunksOf {α : Type} (c : Nat) (hc : 0 < c) :
    ∀ (j : Nat) (l : List α), (chunksOf c l).drop j = chunksOf c (l.drop (j * c)) := by
  intro j
  induction j with
  | zero => intro l; simp
  | succ j ih =>
    intro l
    by_cases hl : l = []
    · subst hl; simp [chunksOf_nil]
    · rw [chunksOf_of_ne_nil c hc l hl, List.drop_succ_cons, ih]
      rw [List.drop_drop]
      congr 2
      rw [Nat.succ_mul]; omega

theorem chunksOf_ne_nil_mem {α : Type} (c : Nat) (hc : 0 < c) :
    ∀ (n : Nat) (l : List α), l.length ≤ n → ∀ d ∈ chunksOf c l, 0 < d.length ∧ d.length ≤ c := by
  intro n
  induction n with
  | zero =>
    intro l h d hd
    have : l = [] := List.eq_nil_of_length_eq_zero (by omega)
    subst this; simp [chunksOf_nil] at hd
  | succ n ih =>
    intro l h d hd
    by_cases hl : l = []
    · subst hl; simp [chunksOf_nil] at hd
    · rw [chunksOf_of_ne_nil c hc l hl] at hd
      have hp : 0 < l.length := List.length_pos_iff.mpr hl
      rcases List.mem_cons.mp hd with h1 | h1
      · subst h1; simp [List.length_take]; omega
      · exact ih (l.drop c) (by simp [List.length_drop]; omega) d h1

/-- number of pieces, division-free: n·c ≥ L and (n−1)·c < L -/
theorem length_chunksOf_bounds {α : Type} (c : Nat) (hc : 0 < c) :
    ∀ (n : Nat) (l : List α), l.length ≤ n →
      l.length ≤ (chunksOf c l).length * c ∧ (chunksOf c l).length * c < l.length + c := by
  intro n
  induction n with
  | zero =>
    intro l h
    have : l = [] := List.eq_nil_of_length_eq_zero (by omega)
    subst this; simp [chunksOf_nil]; exact hc
  | succ n ih =>
    intro l h
    by_cases hl : l = []
    · subst hl; simp [chunksOf_nil]; exact hc
    · rw [chunksOf_of_ne_nil c hc l hl]
      have hp : 0 < l.length := List.length_pos_iff.mpr hl
      by_cases hle : l.length ≤ c
      · rw [List.drop_of_length_le hle, chunksOf_nil]
        simp only [List.length_cons, List.length_nil]
        omega
      · have := ih (l.drop c) (by simp [List.length_drop]; omega)
        simp only [List.length_cons, List.length_drop] at this ⊢
        rw [Nat.succ_mul]
        omega

theorem length_chunksOf {α : Type} (c : Nat) (hc : 0 < c) (l : List α) :
    (chunksOf c l).length = (l.length + c - 1) / c := by
  have h := length_chunksOf_bounds c hc l.length l (Nat.le_refl _)
  symm
  apply Nat.div_eq_of_lt_le
  · omega
  · rw [Nat.succ_mul]; omega

/-- piece i is content[i·c, min((i+1)·c, L)) -/
theorem getElem?_chunksOf {α : Type} (c : Nat) (hc : 0 < c) (l : List α) (i : Nat)
    (hi : i < (chunksOf c l).length) : (chunksOf c l)[i]? = some ((l.drop (i * c)).take c) := by
  have h := drop_chunksOf c hc i l
  have hne : l.drop (i * c) ≠ [] := by
    intro h0
    rw [h0, chunksOf_nil] at h
    have := congrArg List.length h
    simp at this; omega
  rw [chunksOf_of_ne_nil c hc _ hne] at h
  have : ((chunksOf c l).drop i)[0]? = some ((l.drop (i * c)).take c) := by rw [h]; rfl
  simpa using this

/-! ### cut -/

theorem take_min_length {α : Type} (l : List α) (c : Nat) : l.take (min l.length c) = l.take c := by
  by_cases h : c ≤ l.length
  · rw [Nat.min_eq_right h]
  · have h' : l.length ≤ c := by omega
    rw [Nat.min_eq_left h', List.take_of_length_le (Nat.le_refl _), List.take_of_length_le h']

theorem drop_min_length {α : Type} (l : List α) (c : Nat) : l.drop (min l.length c) = l.drop c := by
  by_cases h : c ≤ l.length
  · rw [Nat.min_eq_right h]
  · have h' : l.length ≤ c := by omega
    rw [Nat.min_eq_left h', List.drop_of_length_le (Nat.le_refl _), List.drop_of_length_le h']

/-- upload(true) cuts the whole buffer into the spec chunking -/
theorem cut_true (c : Nat) (hc : 0 < c) :
    ∀ (fuel : Nat) (buf : Bytes), buf.length < fuel → cut c true fuel buf = (chunksOf c buf, []) := by
  intro fuel
  induction fuel with
  | zero => intro buf h; omega
  | succ fuel ih =>
    intro buf h
    simp only [cut]
    by_cases h0 : buf = []
    · subst h0; simp [chunksOf_nil]
    · rw [if_neg (by simpa using h0), if_neg (by simp)]
      have hp : 0 < buf.length := List.length_pos_iff.mpr h0
      have hl : (buf.drop c).length < fuel := by simp [List.length_drop]; omega
      rw [ih _ hl, chunksOf_of_ne_nil c hc buf h0]

/-- upload(false) cuts full chunks only and keeps less than one chunk -/
theorem cut_false (c : Nat) (hc : 0 < c) :
    ∀ (fuel : Nat) (buf : Bytes), buf.length < fuel →
      (cut c false fuel buf).1.flatten ++ (cut c false fuel buf).2 = buf ∧
      (∀ d ∈ (cut c false fuel buf).1, d.length = c) ∧ (cut c false fuel buf).2.length < c := by
  intro fuel
  induction fuel with
  | zero => intro buf h; omega
  | succ fuel ih =>
    intro buf h
    simp only [cut]
    by_cases h0 : buf = []
    · subst h0; simp; exact hc
    · rw [if_neg (by simpa using h0)]
      by_cases hlt : buf.length < c
      · rw [if_pos (by refine ⟨?_, by simp⟩; rw [List.length_take]; omega)]
        simp; exact hlt
      · rw [if_neg (by intro hh; have := hh.1; rw [List.length_take] at this; omega)]
        have hl : (buf.drop c).length < fuel := by simp [List.length_drop]; omega
        obtain ⟨h1, h2, h3⟩ := ih _ hl
        refine ⟨?_, ?_, h3⟩
        · simp only [List.flatten_cons, List.append_assoc]
          rw [h1, List.take_append_drop]
        · intro d hd
          rcases List.mem_cons.mp hd with e | e
          · subst e; simp [List.length_take]; omega
          · exact h2 d e

/-! ### mkDocs -/

theorem mkDocs_append (file : Nat) : ∀ (A B : List Bytes) (k : Nat),
    mkDocs file k (A ++ B) = mkDocs file k A ++ mkDocs file (k + A.length) B := by
  intro A
  induction A with
  | nil => intro B k; simp [mkDocs]
  | cons a A ih =>
    intro B k
    simp only [List.cons_append, mkDocs, List.length_cons]
    rw [ih]
    congr 3
    omega

theorem length_mkDocs (file : Nat) : ∀ (A : List Bytes) (k : Nat), (mkDocs file k A).length = A.length := by
  intro A
  induction A with
  | nil => intro k; simp [mkDocs]
  | cons a A ih => intro k; simp [mkDocs, ih]

theorem mem_mkDocs (file : Nat) : ∀ (A : List Bytes) (k : Nat) (d : ChunkDoc),
    d ∈ mkDocs file k A → d.file = file ∧ k ≤ d.n ∧ d.n < k + A.length ∧ d.data ∈ A := by
  intro A
  induction A with
  | nil => intro k d h; simp [mkDocs] at h
  | cons a A ih =>
    intro k d h
    simp only [mkDocs, List.mem_cons] at h
    rcases h with e | e
    · subst e; simp
    · obtain ⟨h1, h2, h3, h4⟩ := ih (k + 1) d e
      refine ⟨h1, by omega, by simp only [List.length_cons]; omega, by simp [h4]⟩

theorem drop_mkDocs (file : Nat) : ∀ (j : Nat) (A : List Bytes) (k : Nat),
    (mkDocs file k A).drop j = mkDocs file (k + j) (A.drop j) := by
  intro j
  induction j with
  | zero => intro A k; simp
  | succ j ih =>
    intro A k
    cases A with
    | nil => simp [mkDocs]
    | cons a A =>
      simp only [mkDocs, List.drop_succ_cons]
      rw [ih]; congr 1; omega

theorem getElem?_mkDocs (file : Nat) (A : List Bytes) (k i : Nat) :
    (mkDocs file k A)[i]? = (A[i]?).map fun d => ⟨file, k + i, d⟩ := by
  have h := drop_mkDocs file i A k
  have h2 : (mkDocs file k A)[i]? = ((mkDocs file k A).drop i)[0]? := by simp
  rw [h2, h]
  cases hA : A.drop i with
  | nil =>
    have : A.length ≤ i := List.drop_eq_nil_iff.mp hA
    simp [mkDocs, List.getElem?_eq_none this]
  | cons a rest =>
    have : A[i]? = some a := by
      have : (A.drop i)[0]? = some a := by rw [hA]; rfl
      simpa using this
    simp [mkDocs, this]

end Lungo.GridFS
