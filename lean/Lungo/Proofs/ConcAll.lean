/-
  Lungo.Proofs.ConcAll — assembly: `Inv1 ∧ Inv2` hold in every reachable state.
-/
import Lungo.Proofs.ConcInv
import Lungo.Proofs.ConcFrame
import Lungo.Proofs.ConcOwn
import Lungo.Proofs.ConcOwn2
import Lungo.Proofs.ConcOwn3
namespace Lungo.Conc

theorem inv2_step {s s' : State} {a : ActorId} {c : Choice} (h1 : Inv1 s) (h : Inv2 s)
    (hs : step s a c = some s') : Inv2 s' := by
  obtain ⟨lw, rg, bd, sv, ov⟩ := h
  have hle := step_le_n hs
  rcases step_cases hs with ⟨hp, h'⟩ | h' | h' | h' | ⟨hp, h'⟩ | h' | h' | h' | h'
  · exact ⟨lwf_idle h1 lw hp h', rng_idle hle rg hp h', bnd_idle lw bd hp h', sinv_idle h1 sv hp h',
      oinv_idle h1 lw bd sv ov hp h'⟩
  · exact ⟨lwf_begin h1 lw h', rng_begin hle rg h', bnd_begin lw bd h', sinv_begin h1 sv h',
      oinv_begin h1 lw bd sv ov h'⟩
  · exact ⟨lwf_commit h1 lw h', rng_commit hle rg h', bnd_commit lw bd h', sinv_commit h1 sv h',
      oinv_commit h1 lw bd sv ov h'⟩
  · exact ⟨lwf_abort h1 lw h', rng_abort hle rg h', bnd_abort lw bd h', sinv_abort h1 sv h',
      oinv_abort h1 lw bd sv ov h'⟩
  · exact ⟨lwf_after h1 lw hp h', rng_after hle rg hp h', bnd_after lw bd hp h', sinv_after h1 sv hp h',
      oinv_after h1 lw bd sv ov hp h'⟩
  · exact ⟨lwf_use h1 lw h', rng_use hle rg h', bnd_use lw bd h', sinv_use h1 sv h',
      oinv_use h1 lw bd sv ov h'⟩
  · exact ⟨lwf_sess h1 lw h', rng_sess hle rg h', bnd_sess lw bd h', sinv_sess h1 sv h',
      oinv_sess h1 lw bd sv ov h'⟩
  · exact ⟨lwf_close h1 lw h', rng_close hle rg h', bnd_close lw bd h', sinv_close h1 sv h',
      oinv_close h1 lw bd sv ov h'⟩
  · exact ⟨lwf_exp h1 lw h', rng_exp hle rg h', bnd_exp lw bd h', sinv_exp h1 sv h',
      oinv_exp h1 lw bd sv ov h'⟩

theorem inv_reachable {n : Nat} {s : State} (h : Reachable n s) : Inv1 s ∧ Inv2 s := by
  induction h with
  | init => exact ⟨inv1_init n, inv2_init n⟩
  | step _ hs ih => exact ⟨inv1_step ih.1 hs, inv2_step ih.1 ih.2 hs⟩

theorem reachable_n {n : Nat} {s : State} (h : Reachable n s) : s.n = n := by
  induction h with
  | init => rfl
  | step _ hs ih => rw [step_n hs]; exact ih

end Lungo.Conc
