/-
  Lungo.Proofs.Order — generic lemmas about comparators `c : α → α → Ordering`.

  `Lawful c`      : the four comparator laws (reflexive, swap-antisymmetric, `<`-transitive, and
                    equal elements are interchangeable on the left).
  `Laws aa ab ba bd ad`
                  : the same laws *at one triple* `(a, b, d)`, phrased on the five orderings
                    `c a a`, `c a b`, `c b a`, `c b d`, `c a d`.  This pointwise form is what the
                    structural induction over the nested inductive `V` needs: every law of a
                    lexicographic comparator at `(a :: as, b :: bs, d :: ds)` only uses the laws of
                    the components at `(a, b, d)` and `(as, bs, ds)` — in the same argument order.
  `Laws.then`     : lexicographic composition (`Ordering.then`) preserves the laws.
  `LawsAt.of_rank`: "rank first, then a within-rank comparator" preserves the laws.
  `compareOn`     : pull-back of a comparator along a function.
-/
namespace Lungo.Ord

/-- The comparator laws at one triple, on the five relevant comparison results. -/
structure Laws (aa ab ba bd ad : Ordering) : Prop where
  refl : aa = .eq
  swap : ba = ab.swap
  lt_trans : ab = .lt → bd = .lt → ad = .lt
  congr_l : ab = .eq → ad = bd
  congr_r : bd = .eq → ab = ad

/-- `≤`-transitivity at a triple, from the pointwise laws. -/
theorem Laws.le_trans {aa ab ba bd ad : Ordering} (L : Laws aa ab ba bd ad)
    (h1 : ab ≠ .gt) (h2 : bd ≠ .gt) : ad ≠ .gt := by
  cases hab : ab with
  | gt => exact absurd hab h1
  | eq => rw [L.congr_l hab]; exact h2
  | lt =>
    cases hbd : bd with
    | gt => exact absurd hbd h2
    | lt => rw [L.lt_trans hab hbd]; decide
    | eq => rw [← L.congr_r hbd, hab]; decide

/-- The laws of `c` at the triple `(a, b, d)`. -/
abbrev LawsAt {α : Type _} (c : α → α → Ordering) (a b d : α) : Prop :=
  Laws (c a a) (c a b) (c b a) (c b d) (c a d)

/-- A lawful comparator: a total preorder presented as a three-way comparison. -/
structure Lawful {α : Type _} (c : α → α → Ordering) : Prop where
  refl : ∀ a, c a a = .eq
  swap : ∀ a b, c b a = (c a b).swap
  lt_trans : ∀ a b d, c a b = .lt → c b d = .lt → c a d = .lt
  eq_congr : ∀ a a' b, c a a' = .eq → c a b = c a' b

theorem swap_eq_eq {o : Ordering} : o.swap = .eq ↔ o = .eq := by cases o <;> decide
theorem swap_eq_lt {o : Ordering} : o.swap = .lt ↔ o = .gt := by cases o <;> decide
theorem swap_eq_gt {o : Ordering} : o.swap = .gt ↔ o = .lt := by cases o <;> decide

section lawful
variable {α : Type _} {c : α → α → Ordering}

/-- Equal elements are interchangeable on the right as well. -/
theorem Lawful.eq_congr_r (h : Lawful c) (a b b' : α) (e : c b b' = .eq) : c a b = c a b' := by
  have h1 := h.swap b a
  have h2 := h.swap b' a
  have h3 := h.eq_congr b b' a e
  rw [h1, h2, h3]

theorem Lawful.at (h : Lawful c) (a b d : α) : LawsAt c a b d :=
  ⟨h.refl a, h.swap a b, h.lt_trans a b d, h.eq_congr a b d, h.eq_congr_r a b d⟩

theorem Lawful.of_at (h : ∀ a b d, LawsAt c a b d) : Lawful c :=
  ⟨fun a => (h a a a).refl, fun a b => (h a b a).swap, fun a b d => (h a b d).lt_trans,
   fun a a' b => (h a a' b).congr_l⟩

theorem Lawful.eq_symm (h : Lawful c) {a b : α} (e : c a b = .eq) : c b a = .eq := by
  rw [h.swap a b, e]; rfl

theorem Lawful.gt_iff (h : Lawful c) {a b : α} : c a b = .gt ↔ c b a = .lt := by
  rw [h.swap a b]; exact swap_eq_lt.symm

/-- `≤`-transitivity (the `Std.TransCmp` form). -/
theorem Lawful.le_trans (h : Lawful c) {a b d : α} (h1 : c a b ≠ .gt) (h2 : c b d ≠ .gt) :
    c a d ≠ .gt := by
  cases hab : c a b with
  | gt => exact absurd hab h1
  | eq => rw [h.eq_congr a b d hab]; exact h2
  | lt =>
    cases hbd : c b d with
    | gt => exact absurd hbd h2
    | lt => rw [h.lt_trans a b d hab hbd]; decide
    | eq => rw [← h.eq_congr_r a b d hbd, hab]; decide

theorem Lawful.eq_trans (h : Lawful c) {a b d : α} (h1 : c a b = .eq) (h2 : c b d = .eq) :
    c a d = .eq := by
  rw [h.eq_congr a b d h1]; exact h2

theorem Lawful.orientedCmp (h : Lawful c) : Std.OrientedCmp c :=
  ⟨fun {a b} => h.swap b a⟩

theorem Lawful.transCmp (h : Lawful c) : Std.TransCmp c :=
  { h.orientedCmp with
    isLE_trans := fun {a b d} h1 h2 => by
      rw [Ordering.isLE_iff_ne_gt] at *
      exact h.le_trans h1 h2 }

end lawful

/-- Pull-back of a comparator along `f`. -/
def compareOn {α β : Type _} (f : α → β) (c : β → β → Ordering) : α → α → Ordering :=
  fun x y => c (f x) (f y)

theorem Lawful.compareOn {α β : Type _} {c : β → β → Ordering} (h : Lawful c) (f : α → β) :
    Lawful (compareOn f c) :=
  ⟨fun a => h.refl (f a), fun a b => h.swap (f a) (f b),
   fun a b d => h.lt_trans (f a) (f b) (f d), fun a a' b => h.eq_congr (f a) (f a') (f b)⟩

/-- Lexicographic composition preserves the laws (pointwise form). -/
theorem Laws.then {aa ab ba bd ad aa' ab' ba' bd' ad' : Ordering}
    (h1 : Laws aa ab ba bd ad) (h2 : Laws aa' ab' ba' bd' ad') :
    Laws (aa.then aa') (ab.then ab') (ba.then ba') (bd.then bd') (ad.then ad') := by
  obtain ⟨r1, s1, t1, l1, c1⟩ := h1
  obtain ⟨r2, s2, t2, l2, c2⟩ := h2
  subst r1 s1 r2 s2
  constructor
  · rfl
  · cases ab <;> rfl
  · cases ab <;> cases bd <;> cases ad <;> grind [Ordering.then]
  · cases ab <;> cases bd <;> cases ad <;> grind [Ordering.then]
  · cases ab <;> cases bd <;> cases ad <;> grind [Ordering.then]

/-- Lexicographic composition of two lawful comparators on the same carrier. -/
def lex {α : Type _} (c1 c2 : α → α → Ordering) : α → α → Ordering :=
  fun x y => (c1 x y).then (c2 x y)

theorem Lawful.lex {α : Type _} {c1 c2 : α → α → Ordering} (h1 : Lawful c1) (h2 : Lawful c2) :
    Lawful (lex c1 c2) :=
  Lawful.of_at fun a b d => (h1.at a b d).then (h2.at a b d)

/-- "Rank first": if `c` is decided by a numeric rank whenever the ranks differ, the laws at a
    triple follow from the laws at triples of equal rank. -/
theorem LawsAt.of_rank {α : Type _} (r : α → Nat) (c : α → α → Ordering)
    (hlt : ∀ x y, r x < r y → c x y = .lt) (hgt : ∀ x y, r y < r x → c x y = .gt)
    (a b d : α)
    (hrefl : c a a = .eq)
    (h2 : r a = r b → c b a = (c a b).swap)
    (h3 : r a = r b → r b = r d → LawsAt c a b d) : LawsAt c a b d := by
  refine ⟨hrefl, ?_, ?_, ?_, ?_⟩
  · rcases Nat.lt_trichotomy (r a) (r b) with h | h | h
    · rw [hlt a b h, hgt b a h]; rfl
    · exact h2 h
    · rw [hgt a b h, hlt b a h]; rfl
  · intro hab hbd
    rcases Nat.lt_trichotomy (r a) (r b) with h | h | h
    · rcases Nat.lt_trichotomy (r b) (r d) with h' | h' | h'
      · exact hlt a d (Nat.lt_trans h h')
      · exact hlt a d (h' ▸ h)
      · rw [hgt b d h'] at hbd; cases hbd
    · rcases Nat.lt_trichotomy (r b) (r d) with h' | h' | h'
      · exact hlt a d (h ▸ h')
      · exact (h3 h h').lt_trans hab hbd
      · rw [hgt b d h'] at hbd; cases hbd
    · rw [hgt a b h] at hab; cases hab
  · intro hab
    rcases Nat.lt_trichotomy (r a) (r b) with h | h | h
    · rw [hlt a b h] at hab; cases hab
    · rcases Nat.lt_trichotomy (r b) (r d) with h' | h' | h'
      · rw [hlt b d h', hlt a d (h ▸ h')]
      · exact (h3 h h').congr_l hab
      · rw [hgt b d h', hgt a d (h ▸ h')]
    · rw [hgt a b h] at hab; cases hab
  · intro hbd
    rcases Nat.lt_trichotomy (r b) (r d) with h' | h' | h'
    · rw [hlt b d h'] at hbd; cases hbd
    · rcases Nat.lt_trichotomy (r a) (r b) with h | h | h
      · rw [hlt a b h, hlt a d (h' ▸ h)]
      · exact (h3 h h').congr_r hbd
      · rw [hgt a b h, hgt a d (h' ▸ h)]
    · rw [hgt b d h'] at hbd; cases hbd

end Lungo.Ord
