/-
  Lungo.Proofs.OplogSteps — C08: the remaining transaction methods (drop, indexes, create, expire)
  and every driver call `Sys.step` extend the oplog by appended events only (`Ext`); the oplog
  invariant `OplogInv` (event ids are 1..clock in order).
-/
import Lungo.Proofs.OplogLaws
namespace Lungo

theorem writable_db {h : Handle} {b : Bool} (hw : writable h b = .ok ()) : h.db ≠ "local" := by
  unfold writable at hw
  split at hw
  · cases hw
  · split at hw
    · cases hw
    · rename_i hl
      simpa using hl

theorem find?_filter_keep {α} (p q : α → Bool) (l : List α) (h : ∀ a, p a = true → q a = true) :
    (l.filter q).find? p = l.find? p := by
  induction l with
  | nil => rfl
  | cons a r ih =>
    by_cases hq : q a = true
    · simp only [List.filter_cons, hq, ↓reduceIte, List.find?_cons, ih]
    · have hp : p a = false := by
        cases hpa : p a
        · rfl
        · exact absurd (h a hpa) hq
      simp only [List.filter_cons, hq, Bool.false_eq_true, ↓reduceIte, List.find?_cons, hp, ih]

/-- removing namespaces other than the oplog leaves the oplog alone -/
theorem Ext.filter (cat : Catalog) (keep : Handle × Coll → Bool) (hk : ∀ a, a.1 = oplogHandle → keep a = true) :
    Ext cat { cat with namespaces := cat.namespaces.filter keep } [] := by
  refine ⟨?_, rfl, ?_⟩
  · unfold Catalog.oplog Catalog.get?
    simp only
    rw [find?_filter_keep _ _ _ (fun a ha => hk a (by simpa using ha))]
    simp [evDocs]
  · intro hp hc hm ho
    exact hp hc (List.mem_filter.mp hm).1 ho

theorem Txn.drop_step {t t' : Txn} {h : Handle} {nu nu' : Nu} (hr : t.drop h nu = .ok (t', nu')) : TStep t t' := by
  unfold Txn.drop at hr
  split at hr
  · cases hr
  · rename_i hw
    have hno := writable_not_oplog hw
    have hdb := writable_db hw
    simp only at hr
    split at hr
    · simp only [Except.ok.injEq, Prod.mk.injEq] at hr; exact .inl hr.1.symm
    · simp only [Except.ok.injEq, Prod.mk.injEq] at hr
      obtain ⟨rfl, _⟩ := hr
      refine .inr ⟨rfl, ?_⟩
      have hkeep : ∀ a : Handle × Coll, a.1 = oplogHandle →
          (!(a.1 == h || (h.coll == "" && a.1.db == h.db))) = true := by
        rintro ⟨ns, c⟩ hns
        simp only at hns
        subst hns
        have e1 : (oplogHandle == h) = false := by simpa using Ne.symm hno
        have e2 : (oplogHandle.db == h.db) = false := by
          have : oplogHandle.db = "local" := rfl
          rw [this]; simpa using Ne.symm hdb
        simp [e1, e2]
      have hf := foldl_appendOplog ((t.catalog.namespaces.filter
          fun x => match x with | (ns, _) => (ns == h || (h.coll == "" && ns.db == h.db))).map (·.1))
        (fun ns => (⟨ns, "drop", none, none⟩ : EvSpec))
        ({ t.catalog with namespaces := (t.catalog.namespaces.filter
          fun x => match x with | (ns, _) => !(ns == h || (h.coll == "" && ns.db == h.db))) }, nu)
      simp only at hf
      rw [hf]
      split
      · refine ⟨_, Ext.trans (Ext.trans (Ext.filter t.catalog _ ?_) (Ext.appendEvs (_, nu) _)) (Ext.append ..)⟩
        exact hkeep
      · refine ⟨_, Ext.trans (Ext.filter t.catalog _ ?_) (Ext.appendEvs (_, nu) _)⟩
        exact hkeep

theorem Txn.create_step {t t' : Txn} {h : Handle} (hr : t.create h = .ok t') : TStep t t' := by
  unfold Txn.create at hr
  split at hr
  · cases hr
  · rename_i hw
    split at hr
    · simp only [Except.ok.injEq] at hr; exact .inl hr.symm
    · simp only [Except.ok.injEq] at hr
      subst hr
      exact .inr ⟨rfl, _, Ext.set _ _ _ (writable_not_oplog hw)⟩

theorem Txn.createIndex_step {sch : SchemaEval} {t t' : Txn} {h : Handle} {name name' : String} {cfg : IndexConfig}
    (hr : t.createIndex sch h name cfg = .ok (t', name')) : TStep t t' := by
  unfold Txn.createIndex at hr
  split at hr
  · cases hr
  · rename_i hw
    split at hr
    · cases hr
    · simp only [Except.ok.injEq, Prod.mk.injEq] at hr
      obtain ⟨rfl, _⟩ := hr
      exact .inr ⟨rfl, _, Ext.set _ _ _ (writable_not_oplog hw)⟩

theorem Txn.dropIndex_step {t t' : Txn} {h : Handle} {name : String} (hr : t.dropIndex h name = .ok t') : TStep t t' := by
  unfold Txn.dropIndex at hr
  split at hr
  · cases hr
  · rename_i hw
    split at hr
    · cases hr
    · split at hr
      · cases hr
      · split at hr
        · simp only [Except.ok.injEq] at hr; exact .inl hr.symm
        · simp only [Except.ok.injEq] at hr
          subst hr
          exact .inr ⟨rfl, _, Ext.set _ _ _ (writable_not_oplog hw)⟩

theorem Txn.dropIndexByKey_step {t t' : Txn} {h : Handle} {key : Doc} (hr : t.dropIndexByKey h key = .ok t') : TStep t t' := by
  unfold Txn.dropIndexByKey at hr
  split at hr
  · cases hr
  · split at hr
    · cases hr
    · split at hr
      · cases hr
      · exact Txn.dropIndex_step hr

/-- the loop of Expire, given that no TTL-indexed namespace of the snapshot is the oplog -/
theorem expire_go_ext (sch : SchemaEval) (nowMs : Int) (l : List (Handle × Coll))
    (hl : ∀ hc ∈ l, hc.1 = oplogHandle → hc.2.indexes.filter (fun (_, i) => i.config.expiry > 0) = []) :
    ∀ (cat : Catalog) (nu : Nu) (deleted : Nat) (cat' : Catalog) (nu' : Nu) (deleted' : Nat),
      Txn.expire.go sch nowMs cat nu deleted l = .ok (cat', nu', deleted') → ∃ es, Ext cat cat' es := by
  induction l with
  | nil =>
    intro cat nu deleted cat' nu' deleted' hr
    simp only [Txn.expire.go, Except.ok.injEq, Prod.mk.injEq] at hr
    exact ⟨[], hr.1 ▸ Ext.refl cat⟩
  | cons hc r ih =>
    intro cat nu deleted cat' nu' deleted' hr
    obtain ⟨h, c⟩ := hc
    rw [Txn.expire.go] at hr
    simp only at hr
    have ih' := ih (fun x hx => hl x (List.mem_cons_of_mem _ hx))
    by_cases hempty : (c.indexes.filter fun (_, i) => i.config.expiry > 0) = []
    · simp only [hempty, List.isEmpty_nil, ↓reduceIte] at hr
      exact ih' _ _ _ _ _ _ hr
    · have hne : (c.indexes.filter fun (_, i) => i.config.expiry > 0).isEmpty = false := by
        cases hq : (c.indexes.filter fun (_, i) => i.config.expiry > 0) with
        | nil => exact absurd hq hempty
        | cons _ _ => rfl
      have hno : h ≠ oplogHandle := fun e => hempty (hl (h, c) (List.mem_cons_self ..) e)
      simp only [hne, Bool.false_eq_true, ↓reduceIte] at hr
      split at hr
      · cases hr
      · rename_i cat1 res nu1 hdel
        obtain ⟨es1, he1⟩ := deleteOp_ext hno hdel
        obtain ⟨es, he⟩ := ih' _ _ _ _ _ _ hr
        exact ⟨_, Ext.trans he1 he⟩

theorem Txn.expire_step {sch : SchemaEval} {t t' : Txn} {nowMs : Int} {nu nu' : Nu} {n : Nat}
    (hp : OplogPlain t.catalog) (hr : t.expire sch nowMs nu = .ok (t', n, nu')) : TStep t t' := by
  unfold Txn.expire at hr
  split at hr
  · cases hr
  · rename_i cat nu1 deleted hgo
    split at hr
    · simp only [Except.ok.injEq, Prod.mk.injEq] at hr
      obtain ⟨rfl, _, _⟩ := hr
      exact .inr ⟨rfl, expire_go_ext sch nowMs _ hp _ _ _ _ _ _ hgo⟩
    · simp only [Except.ok.injEq, Prod.mk.injEq] at hr
      exact .inl hr.1.symm

theorem Sys.commit_ext (s : Sys) (t : Txn) (nu : Nu) (h : TStep { catalog := s.catalog } t) :
    ∃ es, Ext s.catalog (s.commit t nu).catalog es := by
  unfold Sys.commit
  rcases h with rfl | ⟨hd, es, he⟩
  · exact ⟨[], Ext.refl _⟩
  · simp only [hd, ↓reduceIte]
    exact ⟨es, he⟩

/-- a call whose transaction is not dirty leaves the committed catalog unchanged -/
theorem Sys.commit_clean (s : Sys) (t : Txn) (nu : Nu) (h : t.dirty = false) : (s.commit t nu).catalog = s.catalog := by
  simp [Sys.commit, h]

/-- every successful driver call, run on any transaction, returns the transaction itself or a dirty
    one whose catalog extends the oplog by appended events only -/
theorem runCall_step (sch : SchemaEval) (t0 t : Txn) (nu nu' : Nu) (c : Call) (r : Reply)
    (hp : OplogPlain t0.catalog) (hr : runCall sch t0 nu c = .ok (t, nu', r)) : TStep t0 t := by
  cases c with
  | insertOne h doc =>
    simp only [runCall] at hr
    split at hr
    · cases hr
    · rename_i t res nu1 hm
      split at hr
      · cases hr
      · split at hr
        · simp only [Except.ok.injEq, Prod.mk.injEq] at hr
          exact hr.1 ▸ Txn.insert_step hm
        · cases hr
  | insertMany h docs ordered =>
    simp only [runCall] at hr
    split at hr
    · cases hr
    · rename_i t res nu1 hm
      simp only [Except.ok.injEq, Prod.mk.injEq] at hr
      exact hr.1 ▸ Txn.insert_step hm
  | find h q o =>
    simp only [runCall] at hr
    split at hr
    · cases hr
    · split at hr
      · cases hr
      · simp only [Except.ok.injEq, Prod.mk.injEq] at hr
        exact hr.1 ▸ .inl rfl
  | findOne h q o =>
    simp only [runCall] at hr
    split at hr
    · cases hr
    · simp only [Except.ok.injEq, Prod.mk.injEq] at hr
      exact hr.1 ▸ .inl rfl
    · split at hr
      · cases hr
      · simp only [Except.ok.injEq, Prod.mk.injEq] at hr
        exact hr.1 ▸ .inl rfl
  | count h q skip limit =>
    simp only [runCall] at hr
    split at hr
    · cases hr
    · simp only [Except.ok.injEq, Prod.mk.injEq] at hr
      exact hr.1 ▸ .inl rfl
  | estCount h =>
    simp only [runCall] at hr
    split at hr
    · cases hr
    · simp only [Except.ok.injEq, Prod.mk.injEq] at hr
      exact hr.1 ▸ .inl rfl
  | distinct h field q =>
    simp only [runCall] at hr
    split at hr
    · cases hr
    · simp only [Except.ok.injEq, Prod.mk.injEq] at hr
      exact hr.1 ▸ .inl rfl
  | updateOne h q u upsert fs =>
    simp only [runCall] at hr
    split at hr
    · cases hr
    · rename_i t res nu1 hm
      simp only [Except.ok.injEq, Prod.mk.injEq] at hr
      exact hr.1 ▸ Txn.update_step hm
  | updateMany h q u upsert fs =>
    simp only [runCall] at hr
    split at hr
    · cases hr
    · rename_i t res nu1 hm
      simp only [Except.ok.injEq, Prod.mk.injEq] at hr
      exact hr.1 ▸ Txn.update_step hm
  | replaceOne h q repl upsert =>
    simp only [runCall] at hr
    split at hr
    · cases hr
    · split at hr
      · cases hr
      · rename_i t res nu1 hm
        simp only [Except.ok.injEq, Prod.mk.injEq] at hr
        exact hr.1 ▸ Txn.replace_step hm
  | deleteOne h q =>
    simp only [runCall] at hr
    split at hr
    · cases hr
    · rename_i t res nu1 hm
      simp only [Except.ok.injEq, Prod.mk.injEq] at hr
      exact hr.1 ▸ Txn.delete_step hm
  | deleteMany h q =>
    simp only [runCall] at hr
    split at hr
    · cases hr
    · rename_i t res nu1 hm
      simp only [Except.ok.injEq, Prod.mk.injEq] at hr
      exact hr.1 ▸ Txn.delete_step hm
  | findOneAndDelete h q sort proj =>
    simp only [runCall] at hr
    split at hr
    · cases hr
    · rename_i t res nu1 hm
      split at hr
      · cases hr
      · simp only [Except.ok.injEq, Prod.mk.injEq] at hr
        exact hr.1 ▸ Txn.delete_step hm
  | findOneAndReplace h q repl sort proj upsert after =>
    simp only [runCall] at hr
    split at hr
    · cases hr
    · split at hr
      · cases hr
      · rename_i t res nu1 hm
        split at hr
        · cases hr
        · simp only [Except.ok.injEq, Prod.mk.injEq] at hr
          exact hr.1 ▸ Txn.replace_step hm
  | findOneAndUpdate h q u sort proj upsert after fs =>
    simp only [runCall] at hr
    split at hr
    · cases hr
    · rename_i t res nu1 hm
      split at hr
      · cases hr
      · simp only [Except.ok.injEq, Prod.mk.injEq] at hr
        exact hr.1 ▸ Txn.update_step hm
  | bulkWrite h models ordered =>
    simp only [runCall] at hr
    split at hr
    · cases hr
    · split at hr
      · cases hr
      · rename_i t res nu1 hm
        simp only [Except.ok.injEq, Prod.mk.injEq] at hr
        exact hr.1 ▸ Txn.bulk_step hm
  | createIndex h name config =>
    simp only [runCall] at hr
    split at hr
    · cases hr
    · rename_i t name' hm
      simp only [Except.ok.injEq, Prod.mk.injEq] at hr
      exact hr.1 ▸ Txn.createIndex_step hm
  | dropIndex h name =>
    simp only [runCall] at hr
    split at hr
    · cases hr
    · rename_i t hm
      simp only [Except.ok.injEq, Prod.mk.injEq] at hr
      exact hr.1 ▸ Txn.dropIndex_step hm
  | dropAllIndexes h =>
    simp only [runCall] at hr
    split at hr
    · cases hr
    · rename_i t hm
      simp only [Except.ok.injEq, Prod.mk.injEq] at hr
      exact hr.1 ▸ Txn.dropIndex_step hm
  | dropIndexByKey h key =>
    simp only [runCall] at hr
    split at hr
    · cases hr
    · rename_i t hm
      simp only [Except.ok.injEq, Prod.mk.injEq] at hr
      exact hr.1 ▸ Txn.dropIndexByKey_step hm
  | listIndexes h =>
    simp only [runCall] at hr
    split at hr
    · cases hr
    · simp only [Except.ok.injEq, Prod.mk.injEq] at hr
      exact hr.1 ▸ .inl rfl
  | createCollection h =>
    simp only [runCall] at hr
    split at hr
    · cases hr
    · rename_i t hm
      simp only [Except.ok.injEq, Prod.mk.injEq] at hr
      exact hr.1 ▸ Txn.create_step hm
  | dropCollection h =>
    simp only [runCall] at hr
    split at hr
    · cases hr
    · split at hr
      · cases hr
      · rename_i t nu1 hm
        simp only [Except.ok.injEq, Prod.mk.injEq] at hr
        exact hr.1 ▸ Txn.drop_step hm
  | dropDatabase db =>
    simp only [runCall] at hr
    split at hr
    · cases hr
    · rename_i t nu1 hm
      simp only [Except.ok.injEq, Prod.mk.injEq] at hr
      exact hr.1 ▸ Txn.drop_step hm
  | listCollections db q =>
    simp only [runCall] at hr
    split at hr
    · cases hr
    · split at hr
      · cases hr
      · simp only [Except.ok.injEq, Prod.mk.injEq] at hr
        exact hr.1 ▸ .inl rfl
  | listDatabases q =>
    simp only [runCall] at hr
    split at hr
    · cases hr
    · simp only [Except.ok.injEq, Prod.mk.injEq] at hr
      exact hr.1 ▸ .inl rfl
  | expire nowMs =>
    simp only [runCall] at hr
    split at hr
    · cases hr
    · rename_i t n nu1 hm
      simp only [Except.ok.injEq, Prod.mk.injEq] at hr
      exact hr.1 ▸ Txn.expire_step hp hm

/-- every successful driver call extends the oplog by appended events only -/
theorem Sys.step_ext (sch : SchemaEval) (s s' : Sys) (c : Call) (oids : List V) (r : Reply)
    (hp : OplogPlain s.catalog) (hr : Sys.step sch s c oids = .ok (s', r)) : ∃ es, Ext s.catalog s'.catalog es := by
  unfold Sys.step at hr
  split at hr
  · cases hr
  · rename_i t nu1 r1 hrun
    simp only [Except.ok.injEq, Prod.mk.injEq] at hr
    exact hr.1 ▸ Sys.commit_ext s t nu1 (runCall_step sch _ t _ nu1 c r1 hp hrun)

/-! ## The oplog invariant -/

theorem eventTs_oplogEvent (k : Nat) (h : Handle) (op : String) (doc : Option Doc) (ch : Option (List (String × V))) :
    eventTs (oplogEvent k h op doc ch) = some (0, k) := by
  simp [eventTs, oplogEvent, getP, tsPath, get, getField]

theorem evDocs_ts (k : Nat) (es : List EvSpec) :
    (evDocs k es).map eventTs = (List.range' (k + 1) es.length).map fun j => some (0, j) := by
  induction es generalizing k with
  | nil => rfl
  | cons e r ih =>
    simp only [evDocs, List.map_cons, eventTs_oplogEvent, ih, List.length_cons, List.range'_succ]

/-- event ids are exactly `(0,1), (0,2), …, (0,clock)` in log order, and the oplog carries no TTL index -/
structure OplogInv (cat : Catalog) : Prop where
  ids : cat.oplog.map (fun sd => eventTs sd.doc) = (List.range' 1 cat.clock).map fun k => some (0, k)
  plain : OplogPlain cat

theorem OplogInv.init : OplogInv newCatalog := by
  refine ⟨by decide, ?_⟩
  intro hc hm _
  simp only [newCatalog, List.mem_singleton] at hm
  subst hm
  rfl

theorem OplogInv.ext {cat cat' : Catalog} {es : List EvSpec} (hi : OplogInv cat) (he : Ext cat cat' es) : OplogInv cat' := by
  refine ⟨?_, he.plain hi.plain⟩
  have h1 : cat'.oplog.map (fun sd => eventTs sd.doc) = (cat'.oplog.map (·.doc)).map eventTs := by
    rw [List.map_map]; rfl
  have h2 : cat.oplog.map (fun sd => eventTs sd.doc) = (cat.oplog.map (·.doc)).map eventTs := by
    rw [List.map_map]; rfl
  rw [h1, he.oplog, List.map_append, ← h2, hi.ids, evDocs_ts, he.clock, ← List.map_append]
  congr 1
  have := @List.range'_append 1 cat.clock es.length 1
  simp only [Nat.one_mul] at this
  rw [Nat.add_comm 1 cat.clock] at this
  exact this

/-- states reachable from the empty engine by successful driver calls -/
inductive Reachable (sch : SchemaEval) : Sys → Prop where
  | init : Reachable sch Sys.init
  | step {s s' : Sys} {c : Call} {oids : List V} {r : Reply} :
      Reachable sch s → Sys.step sch s c oids = .ok (s', r) → Reachable sch s'

theorem Reachable.inv {sch : SchemaEval} {s : Sys} (h : Reachable sch s) : OplogInv s.catalog := by
  induction h with
  | init => exact OplogInv.init
  | step _ hs ih =>
    obtain ⟨es, he⟩ := Sys.step_ext sch _ _ _ _ _ ih.plain hs
    exact ih.ext he

end Lungo
