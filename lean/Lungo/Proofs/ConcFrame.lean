/-
  Lungo.Proofs.ConcFrame — frame facts of `step`: what a step of actor `a` leaves unchanged.
-/
import Lungo.Proofs.ConcInvDefs
namespace Lungo.Conc

macro "frame_tac" hs:ident fn:ident : tactic => `(tactic| (
  unfold $fn at $hs:ident
  conc_split $hs
  all_goals simp_all [State.put, State.putS, State.finish, State.write, upd_apply]))

theorem step_loc_other {s s' : State} {a b : ActorId} {c : Choice} (hs : step s a c = some s')
    (hb : b ≠ a) : s'.loc b = s.loc b := by
  rcases step_cases hs with ⟨_, h⟩ | h | h | h | ⟨_, h⟩ | h | h | h | h
  · frame_tac h stepIdle
  · frame_tac h stepBegin
  · frame_tac h stepCommit
  · frame_tac h stepAbort
  · frame_tac h stepAfter
  · frame_tac h stepUse
  · frame_tac h stepSess
  · frame_tac h stepClose
  · frame_tac h stepExp

theorem step_n {s s' : State} {a : ActorId} {c : Choice} (hs : step s a c = some s') : s'.n = s.n := by
  rcases step_cases hs with ⟨_, h⟩ | h | h | h | ⟨_, h⟩ | h | h | h | h
  · frame_tac h stepIdle
  · frame_tac h stepBegin
  · frame_tac h stepCommit
  · frame_tac h stepAbort
  · frame_tac h stepAfter
  · frame_tac h stepUse
  · frame_tac h stepSess
  · frame_tac h stepClose
  · frame_tac h stepExp

end Lungo.Conc
