/-
  Lungo.Proofs.FindLaws — the collection-level half of C13: `filterDocs` (mongokit.Filter /
  bsonkit.Select), `sortSDocs`, `selectDocs` (the common prefix of Find/Update/Replace/Delete in
  mongokit/collection.go) and the driver calls built on them (Model/Api.lean).

  §1 sorting stored documents (instance of SortLaws §10), §2 the filter scan with a limit and
  errors, §3 `selectDocs`, §4 filtering commutes with sorting; the find window, §5 count / distinct /
  find at the API, §6 one-document writes.
-/
import Lungo.Model.Api
import Lungo.Proofs.SortLaws
namespace Lungo
open Lungo.Ord

/-! ## §1 sorting stored documents -/

/-- `order` on stored documents (identity is ignored by the comparison) -/
def sorder (cols : List Column) (a b : SDoc) : Ordering := order a.doc b.doc cols

theorem sorder_preorder (cols : List Column) : PreorderOn (sorder cols) (fun sd : SDoc => sd.doc.ok) :=
  ⟨fun a => order_refl cols a.doc, fun a b => order_swap cols a.doc b.doc,
   fun a b d oa ob od => order_trans cols a.doc b.doc d.doc oa ob od,
   fun a b d oa ob od => order_eq_trans cols a.doc b.doc d.doc oa ob od⟩

theorem sortSDocs_eq (list : List SDoc) (cols : List Column) :
    sortSDocs list cols = stableSort (sorder cols) list := rfl

/-! ## §2 the filter scan -/

/-- the verdict of the filter on one stored document, as a Boolean (errors count as "no") -/
def matchesB (sch : SchemaEval) (q : Doc) (sd : SDoc) : Bool :=
  match Match sch sd.doc q with
  | .ok true => true
  | _ => false

/-- the filter raises no error on any document of the list -/
def noMatchError (sch : SchemaEval) (q : Doc) (l : List SDoc) : Prop :=
  ∀ sd ∈ l, ∀ e, Match sch sd.doc q ≠ .error e

/-- one pass over the list: the matching documents before the first error, and that error -/
def scan (sch : SchemaEval) (q : Doc) : List SDoc → List SDoc × Option Err
  | [] => ([], none)
  | sd :: r =>
    match Match sch sd.doc q with
    | .error e => ([], some e)
    | .ok b => (if b then sd :: (scan sch q r).1 else (scan sch q r).1, (scan sch q r).2)

/-- `take'`: a limit of 0 means "no limit" -/
def takeLim {α} (lim : Nat) (l : List α) : List α := if lim = 0 then l else l.take lim

/-- `filterDocs` with a limit: the scan stops after the `lim`-th match; an error is reported only
    if the scan reaches it. -/
theorem filterDocs_scan (sch : SchemaEval) (q : Doc) : ∀ (list : List SDoc) (lim : Nat),
    filterDocs sch q lim list =
      if lim ≠ 0 ∧ lim ≤ (scan sch q list).1.length then .ok ((scan sch q list).1.take lim)
      else match (scan sch q list).2 with
        | none => .ok (scan sch q list).1
        | some e => .error e := by
  intro list
  induction list with
  | nil => intro lim; simp [filterDocs, scan]
  | cons sd r ih =>
    intro lim
    cases hm : Match sch sd.doc q with
    | error e => simp [filterDocs, scan, hm]
    | ok b =>
      cases b with
      | false => simpa [filterDocs, scan, hm] using ih lim
      | true =>
        simp only [filterDocs, scan, hm, ↓reduceIte, List.length_cons]
        by_cases h1 : lim = 1
        · subst h1; simp
        · have : (lim == 1) = false := by simpa using h1
          simp only [this, Bool.false_eq_true, ↓reduceIte, ih (lim - 1)]
          by_cases h0 : lim = 0
          · subst h0; cases hs : (scan sch q r).2 <;> simp
          · obtain ⟨n, rfl⟩ : ∃ n, lim = n + 1 := ⟨lim - 1, by omega⟩
            have hn : n ≠ 0 := by omega
            simp only [Nat.add_sub_cancel]
            by_cases hle : n ≤ (scan sch q r).1.length
            · simp [hn, hle]
            · have hle' : ¬ (n + 1 ≤ (scan sch q r).1.length + 1) := by omega
              simp only [hn, hle, hle', ne_eq, not_false_eq_true, and_false, ↓reduceIte]
              cases hs : (scan sch q r).2 <;> simp

/-- is the verdict an error? -/
def matchErr (sch : SchemaEval) (q : Doc) (sd : SDoc) : Option Err :=
  match Match sch sd.doc q with
  | .error e => some e
  | .ok _ => none

/-- the scan in closed form: the matches among the documents before the first erroring one, and the
    error of that one -/
theorem scan_eq (sch : SchemaEval) (q : Doc) (l : List SDoc) :
    scan sch q l = ((l.takeWhile fun sd => (matchErr sch q sd).isNone).filter (matchesB sch q),
                    l.findSome? (matchErr sch q)) := by
  induction l with
  | nil => rfl
  | cons sd r ih =>
    simp only [scan, List.takeWhile_cons, List.findSome?_cons, matchErr]
    cases hm : Match sch sd.doc q with
    | error e => simp
    | ok b =>
      simp only [Option.isNone_none, ↓reduceIte, List.filter_cons, matchesB, hm, ih]
      cases b <;> simp [matchErr]

theorem scan_noerr (sch : SchemaEval) (q : Doc) (l : List SDoc) (h : noMatchError sch q l) :
    scan sch q l = (l.filter (matchesB sch q), none) := by
  induction l with
  | nil => rfl
  | cons sd r ih =>
    have ih' := ih (fun x hx => h x (by simp [hx]))
    cases hm : Match sch sd.doc q with
    | error e => exact absurd hm (h sd (by simp) e)
    | ok b => cases b <;> simp [scan, ih', matchesB, hm]

theorem filterDocs_noerr (sch : SchemaEval) (q : Doc) (l : List SDoc) (lim : Nat) (h : noMatchError sch q l) :
    filterDocs sch q lim l = .ok (takeLim lim (l.filter (matchesB sch q))) := by
  rw [filterDocs_scan, scan_noerr sch q l h]
  simp only [takeLim]
  by_cases h0 : lim = 0
  · simp [h0]
  · by_cases hle : lim ≤ (l.filter (matchesB sch q)).length
    · simp [h0, hle]
    · simp only [h0, hle, ne_eq, not_false_eq_true, and_false, ↓reduceIte]
      rw [List.take_of_length_le (by omega)]

/-! ## §3 selectDocs -/

/-- the list the filter scans: the collection's documents in insertion order, or stably sorted -/
def sortedList (c : Coll) (sort : Option Doc) : Res (List SDoc) :=
  match sort with
  | some s => if s.isEmpty then .ok c.docs else
    match columns s with
    | .error e => .error e
    | .ok cols => .ok (sortSDocs c.docs cols)
  | none => .ok c.docs

/-- the limit handed to the filter: `limit + skip` matches are needed; a limit ≤ 0 means no limit -/
def scanLimit (skip limit : Int) : Nat := if limit > 0 then (limit + skip).toNat else 0

theorem selectDocs_eq (sch : SchemaEval) (c : Coll) (q : Doc) (sort : Option Doc) (skip limit : Int) :
    selectDocs sch c q sort skip limit =
      if skip < 0 then .error .err else
      match sortedList c sort with
      | .error e => .error e
      | .ok list =>
        match filterDocs sch q (scanLimit skip limit) list with
        | .error e => .error e
        | .ok l => .ok (l.drop skip.toNat) := by
  simp only [selectDocs, sortedList, scanLimit]
  split
  · rfl
  · cases sort with
    | none => rfl
    | some s =>
      simp only
      cases s.isEmpty with
      | true => rfl
      | false => cases columns s <;> rfl

/-- a window of a list: skip, then at most `limit` (all if `limit ≤ 0`) -/
def windowOf {α} (skip limit : Int) (l : List α) : List α :=
  if limit > 0 then (l.drop skip.toNat).take limit.toNat else l.drop skip.toNat

theorem drop_takeLim {α} (skip limit : Int) (hs : 0 ≤ skip) (l : List α) :
    (takeLim (scanLimit skip limit) l).drop skip.toNat = windowOf skip limit l := by
  simp only [takeLim, scanLimit, windowOf]
  by_cases hl : limit > 0
  · have : (limit + skip).toNat ≠ 0 := by omega
    simp only [hl, ↓reduceIte, this, List.drop_take]
    congr 1; omega
  · simp [hl]

/-- the result of `selectDocs` in general -/
theorem selectDocs_scan (sch : SchemaEval) (c : Coll) (q : Doc) (sort : Option Doc) (skip limit : Int)
    (hs : 0 ≤ skip) (L : List SDoc) (hL : sortedList c sort = .ok L) :
    selectDocs sch c q sort skip limit =
      if scanLimit skip limit ≠ 0 ∧ scanLimit skip limit ≤ (scan sch q L).1.length then
        .ok (windowOf skip limit (scan sch q L).1)
      else match (scan sch q L).2 with
        | none => .ok (windowOf skip limit (scan sch q L).1)
        | some e => .error e := by
  have hs' : ¬ skip < 0 := by omega
  rw [selectDocs_eq]
  simp only [hs', ↓reduceIte, hL, filterDocs_scan]
  by_cases hc : scanLimit skip limit ≠ 0 ∧ scanLimit skip limit ≤ (scan sch q L).1.length
  · have : (scan sch q L).1.take (scanLimit skip limit) = takeLim (scanLimit skip limit) (scan sch q L).1 := by
      simp [takeLim, hc.1]
    rw [if_pos hc, if_pos hc]
    simp only [this, drop_takeLim skip limit hs]
  · rw [if_neg hc, if_neg hc]
    cases he : (scan sch q L).2 with
    | some e => rfl
    | none =>
      simp only
      have : (scan sch q L).1 = takeLim (scanLimit skip limit) (scan sch q L).1 := by
        simp only [takeLim]
        split
        · rfl
        · next h0 =>
          have : ¬ scanLimit skip limit ≤ (scan sch q L).1.length := fun h => hc ⟨h0, h⟩
          rw [List.take_of_length_le (by omega)]
      rw [this, drop_takeLim skip limit hs, ← this]

theorem selectDocs_noerr (sch : SchemaEval) (c : Coll) (q : Doc) (sort : Option Doc) (skip limit : Int)
    (hs : 0 ≤ skip) (L : List SDoc) (hL : sortedList c sort = .ok L) (hne : noMatchError sch q L) :
    selectDocs sch c q sort skip limit = .ok (windowOf skip limit (L.filter (matchesB sch q))) := by
  rw [selectDocs_scan sch c q sort skip limit hs L hL, scan_noerr sch q L hne]
  simp

/-! ## §4 filtering commutes with sorting -/

/-- `sortedList` over an arbitrary list of stored documents -/
def sortBy (sort : Option Doc) (docs : List SDoc) : Res (List SDoc) :=
  match sort with
  | some s => if s.isEmpty then .ok docs else
    match columns s with
    | .error e => .error e
    | .ok cols => .ok (sortSDocs docs cols)
  | none => .ok docs

theorem sortedList_eq (c : Coll) (sort : Option Doc) : sortedList c sort = sortBy sort c.docs := rfl

theorem filter_sortSDocs (docs : List SDoc) (cols : List Column) (ok : ∀ sd ∈ docs, sd.doc.ok)
    (p : SDoc → Bool) : (sortSDocs docs cols).filter p = sortSDocs (docs.filter p) cols := by
  rw [sortSDocs_eq, sortSDocs_eq]
  exact filter_stableSort (sorder_preorder cols) docs ok p

theorem sortBy_perm (sort : Option Doc) (docs L : List SDoc) (h : sortBy sort docs = .ok L) : L.Perm docs := by
  simp only [sortBy] at h
  cases sort with
  | none => simp only [Except.ok.injEq] at h; rw [h]
  | some s =>
    simp only at h
    split at h
    · simp only [Except.ok.injEq] at h; rw [h]
    · split at h
      · cases h
      · simp only [Except.ok.injEq] at h; rw [← h, sortSDocs_eq]; exact stableSort_perm _

theorem sortBy_filter (sort : Option Doc) (docs L : List SDoc) (ok : ∀ sd ∈ docs, sd.doc.ok)
    (p : SDoc → Bool) (h : sortBy sort docs = .ok L) : sortBy sort (docs.filter p) = .ok (L.filter p) := by
  simp only [sortBy] at h ⊢
  cases sort with
  | none => simp only [Except.ok.injEq] at h; rw [h]
  | some s =>
    simp only at h ⊢
    split at h
    · next he => simp only [Except.ok.injEq] at h; simp [he, h]
    · next he =>
      simp only [he, Bool.false_eq_true, ↓reduceIte]
      split at h
      · cases h
      · next cols hc =>
        simp only [Except.ok.injEq] at h
        rw [← h, filter_sortSDocs docs cols ok p]

theorem noMatchError_perm (sch : SchemaEval) (q : Doc) {l l' : List SDoc} (hp : l'.Perm l)
    (h : noMatchError sch q l) : noMatchError sch q l' :=
  fun sd hsd => h sd (hp.subset hsd)

/-- find = window of the sorted list of the matching documents -/
theorem selectDocs_window (sch : SchemaEval) (c : Coll) (q : Doc) (sort : Option Doc) (skip limit : Int)
    (ok : ∀ sd ∈ c.docs, sd.doc.ok) (hne : noMatchError sch q c.docs) (l : List SDoc)
    (h : selectDocs sch c q sort skip limit = .ok l) :
    0 ≤ skip ∧ ∃ S, sortBy sort (c.docs.filter (matchesB sch q)) = .ok S ∧ l = windowOf skip limit S := by
  have hs : 0 ≤ skip := by
    by_cases hlt : skip < 0
    · simp [selectDocs, hlt] at h
    · omega
  refine ⟨hs, ?_⟩
  cases hL : sortedList c sort with
  | error e =>
    rw [selectDocs_eq, hL] at h
    have : ¬ skip < 0 := by omega
    simp [this] at h
  | ok L =>
    rw [sortedList_eq] at hL
    have hne' := noMatchError_perm sch q (sortBy_perm sort c.docs L hL) hne
    rw [selectDocs_noerr sch c q sort skip limit hs L (by rw [sortedList_eq]; exact hL) hne'] at h
    simp only [Except.ok.injEq] at h
    exact ⟨L.filter (matchesB sch q), sortBy_filter sort c.docs L ok _ hL, h.symm⟩

/-! ## §5 the driver calls built on find -/

theorem Txn_find_eq (sch : SchemaEval) (t : Txn) (h : Handle) (c : Coll) (q : Doc) (sort : Option Doc)
    (skip limit : Int) (hv : h.validate true = .ok ()) (hg : t.catalog.get? h = some c) :
    t.find sch h q sort skip limit =
      match selectDocs sch c q sort skip limit with
      | .error e => .error e
      | .ok l => .ok (l.map (·.doc)) := by
  simp only [Txn.find, hv, hg, Coll.find]
  cases selectDocs sch c q sort skip limit <;> rfl

theorem runCall_count (sch : SchemaEval) (t0 : Txn) (nu : Nu) (h : Handle) (c : Coll) (q : Doc)
    (skip limit : Int) (hv : h.validate true = .ok ()) (hg : t0.catalog.get? h = some c) :
    runCall sch t0 nu (.count h q skip limit) =
      match selectDocs sch c q none skip limit with
      | .error e => .error e
      | .ok l => .ok (t0, nu, .num l.length) := by
  simp only [runCall, Txn_find_eq sch t0 h c q none skip limit hv hg]
  cases selectDocs sch c q none skip limit <;> simp

theorem runCall_distinct (sch : SchemaEval) (t0 : Txn) (nu : Nu) (h : Handle) (c : Coll) (q : Doc)
    (field : String) (hv : h.validate true = .ok ()) (hg : t0.catalog.get? h = some c) :
    runCall sch t0 nu (.distinct h field q) =
      match selectDocs sch c q none 0 0 with
      | .error e => .error e
      | .ok l => .ok (t0, nu, .vals (Distinct (l.map (·.doc)) field)) := by
  simp only [runCall, Txn_find_eq sch t0 h c q none 0 0 hv hg]
  cases selectDocs sch c q none 0 0 <;> simp

theorem windowOf_zero_zero {α} (l : List α) : windowOf 0 0 l = l := by simp [windowOf]
theorem windowOf_zero_one {α} (l : List α) : windowOf 0 1 l = l.take 1 := by simp [windowOf]

/-! ## §6 one-document writes act on the head of the sorted matches -/

theorem delete_matched (sch : SchemaEval) (c c' : Coll) (q : Doc) (sort : Option Doc) (skip limit : Int)
    (list : List SDoc) (h : Coll.delete sch c q sort skip limit = .ok (c', list)) :
    selectDocs sch c q sort skip limit = .ok list := by
  simp only [Coll.delete] at h
  cases hs : selectDocs sch c q sort skip limit with
  | error e => simp [hs] at h
  | ok l =>
    simp only [hs] at h
    split at h
    · cases h
    · simp only [Except.ok.injEq, Prod.mk.injEq] at h; rw [h.2]

theorem replace_matched (sch : SchemaEval) (c : Coll) (q repl : Doc) (sort : Option Doc) (nu nu' : Nu)
    (r : CResult) (h : Coll.replace sch c q repl sort nu = .ok (r, nu')) :
    ∃ l, selectDocs sch c q sort 0 1 = .ok l ∧ r.matched = l.take 1 := by
  unfold Coll.replace at h
  cases hs : selectDocs sch c q sort 0 1 with
  | error e => simp [hs] at h
  | ok l =>
    refine ⟨l, rfl, ?_⟩
    cases l with
    | nil =>
      simp only [hs, Except.ok.injEq, Prod.mk.injEq] at h
      rw [← h.1]; rfl
    | cons old rest =>
      simp only [hs] at h
      iterate 6 (all_goals (try (first | (cases h; done) | split at h | simp only at h)))
      all_goals (simp only [Except.ok.injEq, Prod.mk.injEq] at h; rw [← h.1]; rfl)

theorem update_matched (ac : ACtx) (c : Coll) (q u : Doc) (sort : Option Doc) (skip limit : Int)
    (fs : List Doc) (nu nu' : Nu) (r : CResult)
    (h : Coll.update ac c q u sort skip limit fs nu = .ok (r, nu')) :
    selectDocs ac.sch c q sort skip limit = .ok r.matched := by
  unfold Coll.update at h
  cases hs : selectDocs ac.sch c q sort skip limit with
  | error e => simp [hs] at h
  | ok l =>
    cases l with
    | nil =>
      simp only [hs, Except.ok.injEq, Prod.mk.injEq] at h
      rw [← h.1]
    | cons x rest =>
      simp only [hs] at h
      iterate 8 (all_goals (try (first | (cases h; done) | split at h | simp only at h)))
      all_goals (simp only [Except.ok.injEq, Prod.mk.injEq] at h; rw [← h.1])

/-- projecting away the identities: the sorted stored documents carry the sorted documents -/
theorem sortSDocs_map_doc (list : List SDoc) (cols : List Column) :
    (sortSDocs list cols).map (·.doc) = sortDocs (list.map (·.doc)) cols := by
  simp only [sortSDocs, sortDocs]
  exact List.map_mergeSort (fun a _ b _ => rfl)

theorem runCall_find (sch : SchemaEval) (t0 : Txn) (nu : Nu) (h : Handle) (c : Coll) (q : Doc)
    (o : FindOpts) (hp : o.proj = none) (hv : h.validate true = .ok ()) (hg : t0.catalog.get? h = some c) :
    runCall sch t0 nu (.find h q o) =
      match selectDocs sch c q o.sort o.skip o.limit with
      | .error e => .error e
      | .ok l => .ok (t0, nu, .docs (l.map (·.doc))) := by
  simp only [runCall, Txn_find_eq sch t0 h c q o.sort o.skip o.limit hv hg, hp, projList]
  cases selectDocs sch c q o.sort o.skip o.limit <;> simp

end Lungo
