/-
  Download-side simulation: DownloadStream over a well-formed chunk list vs. Spec.Reader.
-/
import Lungo.Proofs.GridFSChunks
import Lungo.Spec.Reader
namespace Lungo.GridFS
open Lungo.Spec

def flatData (l : List ChunkDoc) : Bytes := (l.map (·.data)).flatten

/-- the documents left in the cursor are the expected ones: numbered consecutively from `k`,
    non-empty, and full unless last (`total` = number of chunks of the file) -/
def ValidFrom (total c : Nat) : Nat → List ChunkDoc → Prop
  | _, [] => True
  | k, d :: ds => d.n = k ∧ 0 < d.data.length ∧ (k + 1 < total → d.data.length = c) ∧ ValidFrom total c (k + 1) ds

/-- a positioned stream whose buffer and cursor still hold exactly `rem` -/
structure Live (c : Nat) (s : DownloadStream) (rem : Bytes) : Prop where
  cs : s.file.chunkSize = c
  ex : ∃ k rest, s.chunk = some k ∧ s.cursor = some rest ∧ ValidFrom s.chunks c (k + 1) rest ∧
        s.buffer ++ flatData rest = rem

theorem validFrom_nonempty (total c : Nat) : ∀ (rest : List ChunkDoc) (k : Nat),
    ValidFrom total c k rest → flatData rest = [] → rest = [] := by
  intro rest
  cases rest with
  | nil => intros; rfl
  | cons d ds =>
    intro k hv hf
    obtain ⟨_, hpos, _⟩ := hv
    have h1 : flatData (d :: ds) = d.data ++ flatData ds := by simp [flatData]
    have : (d.data ++ flatData ds).length = 0 := by rw [← h1, hf]; rfl
    rw [List.length_append] at this
    omega

theorem next_eof {c : Nat} {s : DownloadStream} (h : Live c s []) : s.next = (s, some .eof) := by
  obtain ⟨k, rest, _, hcur, hv, hb⟩ := h.ex
  have hf : flatData rest = [] := (List.append_eq_nil_iff.mp hb).2
  have := validFrom_nonempty _ _ rest _ hv hf
  subst this
  simp [DownloadStream.next, hcur]

theorem next_ok {c : Nat} {s : DownloadStream} {rem : Bytes} (h : Live c s rem) (hb : s.buffer = []) (hrem : rem ≠ []) :
    s.next.2 = none ∧ Live c s.next.1 rem ∧ s.next.1.buffer ≠ [] ∧ s.next.1.cursorLen + 1 = s.cursorLen ∧
    s.next.1.position = s.position ∧ s.next.1.file = s.file ∧ s.next.1.chunks = s.chunks ∧
    s.next.1.closed = s.closed := by
  obtain ⟨k, rest, hch, hcur, hv, hbr⟩ := h.ex
  rw [hb, List.nil_append] at hbr
  cases rest with
  | nil => exfalso; apply hrem; rw [← hbr]; rfl
  | cons d ds =>
    obtain ⟨hn, hpos, hsz, hv'⟩ := hv
    have hne : d.data ≠ [] := by intro e; rw [e] at hpos; simp at hpos
    have hsize : ¬ (d.n + 1 < s.chunks ∧ d.data.length ≠ s.file.chunkSize) := by
      intro ⟨h1, h2⟩
      apply h2; rw [h.cs]; exact hsz (by omega)
    simp only [DownloadStream.next, hcur, hch]
    rw [if_neg (by simp [hn]), if_neg hsize]
    refine ⟨rfl, ⟨h.cs, d.n, ds, rfl, rfl, by rw [hn]; exact hv', ?_⟩, hne, ?_, rfl, rfl, rfl, rfl⟩
    · simpa [flatData] using hbr
    · simp [DownloadStream.cursorLen, hcur]

/-- the loop of Read on a live stream returns the next `want` bytes (fewer only at the end) -/
theorem readLoop_ok {c : Nat} : ∀ (fuel : Nat) (s : DownloadStream) (want read : Nat) (rem : Bytes),
    Live c s rem → want + s.cursorLen < fuel → (read = 0 → rem ≠ []) →
    (readLoop fuel s want read).2.1 = rem.take want ∧
    (readLoop fuel s want read).2.2 = none ∧
    (readLoop fuel s want read).1.position = s.position + min want rem.length ∧
    (readLoop fuel s want read).1.file = s.file ∧
    (readLoop fuel s want read).1.chunks = s.chunks ∧
    (readLoop fuel s want read).1.closed = s.closed ∧
    Live c (readLoop fuel s want read).1 (rem.drop want) := by
  intro fuel
  induction fuel with
  | zero => intro s want read rem _ h; omega
  | succ fuel ih =>
    intro s want read rem hl hf hr
    simp only [readLoop]
    by_cases hw : want = 0
    · subst hw; simp; exact hl
    · rw [if_neg hw]
      -- the state after the optional fetch
      have key : ∀ (s1 : DownloadStream), Live c s1 rem → s1.buffer ≠ [] → want + s1.cursorLen < fuel + 1 →
          s1.position = s.position → s1.file = s.file → s1.chunks = s.chunks → s1.closed = s.closed →
          (let r := readLoop fuel (s1.take (min want s1.buffer.length)) (want - min want s1.buffer.length) (read + min want s1.buffer.length)
           (r.1, s1.buffer.take (min want s1.buffer.length) ++ r.2.1, r.2.2)).2.1 = rem.take want ∧
          (let r := readLoop fuel (s1.take (min want s1.buffer.length)) (want - min want s1.buffer.length) (read + min want s1.buffer.length)
           (r.1, s1.buffer.take (min want s1.buffer.length) ++ r.2.1, r.2.2)).2.2 = none ∧
          (let r := readLoop fuel (s1.take (min want s1.buffer.length)) (want - min want s1.buffer.length) (read + min want s1.buffer.length)
           (r.1, s1.buffer.take (min want s1.buffer.length) ++ r.2.1, r.2.2)).1.position = s.position + min want rem.length ∧
          (let r := readLoop fuel (s1.take (min want s1.buffer.length)) (want - min want s1.buffer.length) (read + min want s1.buffer.length)
           (r.1, s1.buffer.take (min want s1.buffer.length) ++ r.2.1, r.2.2)).1.file = s.file ∧
          (let r := readLoop fuel (s1.take (min want s1.buffer.length)) (want - min want s1.buffer.length) (read + min want s1.buffer.length)
           (r.1, s1.buffer.take (min want s1.buffer.length) ++ r.2.1, r.2.2)).1.chunks = s.chunks ∧
          (let r := readLoop fuel (s1.take (min want s1.buffer.length)) (want - min want s1.buffer.length) (read + min want s1.buffer.length)
           (r.1, s1.buffer.take (min want s1.buffer.length) ++ r.2.1, r.2.2)).1.closed = s.closed ∧
          Live c (let r := readLoop fuel (s1.take (min want s1.buffer.length)) (want - min want s1.buffer.length) (read + min want s1.buffer.length)
           (r.1, s1.buffer.take (min want s1.buffer.length) ++ r.2.1, r.2.2)).1 (rem.drop want) := by
        intro s1 hl1 hne hf1 hp hfi hc hcl
        obtain ⟨k, rest, hch, hcur, hv, hbr⟩ := hl1.ex
        have hblen : 0 < s1.buffer.length := List.length_pos_iff.mpr hne
        have hk : 0 < min want s1.buffer.length := by omega
        have hkb : min want s1.buffer.length ≤ s1.buffer.length := Nat.min_le_right _ _
        have hkw : min want s1.buffer.length ≤ want := Nat.min_le_left _ _
        have hrem_len : rem.length = s1.buffer.length + (flatData rest).length := by
          rw [← hbr, List.length_append]
        have hlive : Live c (s1.take (min want s1.buffer.length)) (rem.drop (min want s1.buffer.length)) := by
          refine ⟨hl1.cs, k, rest, hch, hcur, hv, ?_⟩
          show s1.buffer.drop _ ++ flatData rest = _
          rw [← hbr, List.drop_append_of_le_length hkb]
        have hcl' : (s1.take (min want s1.buffer.length)).cursorLen = s1.cursorLen := rfl
        obtain ⟨r1, r2, r3, r4, r5, r6, r7⟩ := ih (s1.take (min want s1.buffer.length)) (want - min want s1.buffer.length)
          (read + min want s1.buffer.length) (rem.drop (min want s1.buffer.length)) hlive
          (by rw [hcl']; omega) (by intro h; omega)
        simp only
        refine ⟨?_, r2, ?_, by rw [r4]; exact hfi, by rw [r5]; exact hc, by rw [r6]; exact hcl, ?_⟩
        · rw [r1]
          have : s1.buffer.take (min want s1.buffer.length) = rem.take (min want s1.buffer.length) := by
            rw [← hbr, List.take_append_of_le_length hkb]
          rw [this, ← List.take_add]
          congr 1; omega
        · rw [r3]
          show s1.position + min want s1.buffer.length + _ = _
          rw [hp, List.length_drop]; omega
        · rw [List.drop_drop] at r7
          have : min want s1.buffer.length + (want - min want s1.buffer.length) = want := by omega
          rw [this] at r7; exact r7
      by_cases hb : s.buffer.length = 0
      · rw [if_pos hb]
        have hbn : s.buffer = [] := List.eq_nil_of_length_eq_zero hb
        by_cases hrem : rem = []
        · subst hrem
          rw [next_eof hl]
          have hr0 : read ≠ 0 := fun h => hr h rfl
          simp [hr0]; exact hl
        · obtain ⟨n1, n2, n3, n4, n5, n6, n7, n8⟩ := next_ok hl hbn hrem
          rw [n1]
          exact key s.next.1 n2 n3 (by omega) n5 n6 n7 n8
      · rw [if_neg hb]
        exact key s hl (by intro e; rw [e] at hb; simp at hb) (by omega) rfl rfl rfl rfl

/-! ### seek -/

theorem flatData_mkDocs (id : Nat) : ∀ (D : List Bytes) (k : Nat), flatData (mkDocs id k D) = D.flatten := by
  intro D
  induction D with
  | nil => intro k; simp [flatData, mkDocs]
  | cons a D ih =>
    intro k
    have := ih (k + 1)
    simp only [flatData] at this
    simp [flatData, mkDocs, this]

theorem validFrom_mkDocs (id c : Nat) (hc : 0 < c) : ∀ (n : Nat) (l : Bytes) (k total : Nat), l.length ≤ n →
    total = k + (chunksOf c l).length → ValidFrom total c k (mkDocs id k (chunksOf c l)) := by
  intro n
  induction n with
  | zero =>
    intro l k total h _
    have : l = [] := List.eq_nil_of_length_eq_zero (by omega)
    subst this; simp [chunksOf_nil, mkDocs, ValidFrom]
  | succ n ih =>
    intro l k total h ht
    by_cases hl : l = []
    · subst hl; simp [chunksOf_nil, mkDocs, ValidFrom]
    · have hp : 0 < l.length := List.length_pos_iff.mpr hl
      rw [chunksOf_of_ne_nil c hc l hl] at ht ⊢
      simp only [mkDocs, ValidFrom]
      refine ⟨trivial, by simp [List.length_take]; omega, ?_, ?_⟩
      · intro hk
        simp only [List.length_cons] at ht
        have hne : chunksOf c (l.drop c) ≠ [] := by
          intro e; rw [e] at ht; simp at ht; omega
        have : l.drop c ≠ [] := by
          intro e; apply hne; rw [e, chunksOf_nil]
        have : 0 < (l.drop c).length := List.length_pos_iff.mpr this
        simp [List.length_drop] at this
        simp [List.length_take]; omega
      · apply ih (l.drop c) (k + 1) total (by simp [List.length_drop]; omega)
        simp only [List.length_cons] at ht; omega

/-- the store holds a well-formed file: the record and the spec chunking -/
structure WF (st : Store) (id c : Nat) (content : Bytes) : Prop where
  hc : 0 < c
  file : st.findFile id = some ⟨id, content.length, c⟩
  chunks : st.chunksOfFile id = mkDocs id 0 (chunksOf c content)

theorem take_drop_glue {α : Type} (X : List α) (c o : Nat) (h : o ≤ (X.take c).length) :
    (X.take c).drop o ++ X.drop c = X.drop o := by
  have : X.drop o = (X.take c ++ X.drop c).drop o := by rw [List.take_append_drop]
  rw [this, List.drop_append_of_le_length h]

theorem seekTo_lt {st : Store} {id c : Nat} {content : Bytes} (wf : WF st id c content) (s : DownloadStream)
    (hf : s.file = ⟨id, content.length, c⟩) (ht : s.chunks = (chunksOf c content).length)
    (pos : Nat) (hpos : pos < content.length) :
    (s.seekTo st pos).2 = none ∧ Live c (s.seekTo st pos).1 (content.drop pos) ∧
    (s.seekTo st pos).1.file = s.file ∧ (s.seekTo st pos).1.chunks = s.chunks ∧
    (s.seekTo st pos).1.closed = s.closed := by
  have hc := wf.hc
  have hdm : c * (pos / c) + pos % c = pos := Nat.div_add_mod pos c
  have hml : pos % c < c := Nat.mod_lt _ hc
  have hmul : pos / c * c = c * (pos / c) := Nat.mul_comm _ _
  have hle : pos / c * c ≤ pos := by omega
  have hXne : content.drop (pos / c * c) ≠ [] := by
    intro e
    have : (content.drop (pos / c * c)).length = 0 := by rw [e]; rfl
    rw [List.length_drop] at this; omega
  have hdrop : (st.chunksOfFile id).drop (pos / c) =
      ⟨id, pos / c, (content.drop (pos / c * c)).take c⟩ ::
        mkDocs id (pos / c + 1) (chunksOf c ((content.drop (pos / c * c)).drop c)) := by
    rw [wf.chunks, drop_mkDocs, drop_chunksOf c hc, chunksOf_of_ne_nil c hc _ hXne]
    simp [mkDocs]
  have hXlen : (content.drop (pos / c * c)).length = content.length - pos / c * c := List.length_drop ..
  have hdl : ((content.drop (pos / c * c)).take c).length = min c (content.length - pos / c * c) := by
    rw [List.length_take, hXlen]
  have hoff : pos - pos / c * c ≤ ((content.drop (pos / c * c)).take c).length := by
    rw [hdl]; omega
  -- validity of the whole tail
  have hvalid : ValidFrom s.chunks c (pos / c) (mkDocs id (pos / c) (chunksOf c (content.drop (pos / c * c)))) := by
    apply validFrom_mkDocs id c hc _ _ _ _ (Nat.le_refl _)
    rw [ht, ← drop_chunksOf c hc, List.length_drop]
    have hb := length_chunksOf_bounds c hc content.length content (Nat.le_refl _)
    have : pos / c < (chunksOf c content).length := by
      apply Nat.lt_of_mul_lt_mul_right (a := c)
      omega
    omega
  rw [chunksOf_of_ne_nil c hc _ hXne] at hvalid
  obtain ⟨_, _, hsz, hv'⟩ := hvalid
  unfold DownloadStream.seekTo
  simp only [hf]
  rw [if_neg (by omega)]
  rw [hdrop]
  simp only
  rw [if_neg (by simp), if_neg (by intro ⟨h1, h2⟩; exact h2 (hsz h1)), if_neg (by omega)]
  refine ⟨rfl, ⟨by simp, pos / c, _, rfl, rfl, hv', ?_⟩, by simp, rfl, rfl⟩
  show ((content.drop (pos / c * c)).take c).drop (pos - pos / c * c) ++ flatData _ = _
  rw [flatData_mkDocs, flatten_chunksOf c hc _ _ (Nat.le_refl _), take_drop_glue _ _ _ hoff, List.drop_drop]
  congr 1; omega

theorem seekTo_ge (st : Store) (s : DownloadStream) (pos : Nat) (hpos : pos ≥ s.file.length) :
    s.seekTo st pos = ({ s with cursor := none, chunk := none, buffer := [] }, none) := by
  unfold DownloadStream.seekTo
  simp only
  rw [if_pos hpos]

theorem seekTo_position (st : Store) (s : DownloadStream) (pos : Nat) :
    (s.seekTo st pos).1.position = s.position := by
  unfold DownloadStream.seekTo
  simp only
  repeat' split
  all_goals rfl

/-! ### the simulation -/

/-- pointwise relation of two lists of equal length -/
def Forall2 {α β : Type} (R : α → β → Prop) : List α → List β → Prop
  | [], [] => True
  | a :: as, b :: bs => R a b ∧ Forall2 R as bs
  | _, _ => False

/-- which download-stream errors correspond to which reader errors -/
def errOK : Option Err → Option RErr → Bool
  | none, none => true
  | some .eof, some .eof => true
  | some .negPos, some .negPos => true
  | _, _ => false

/-- same bytes, same returned count/position, same position afterwards, corresponding error -/
def OutMatch (o : ROut) (o' : SOut) : Prop :=
  o.bytes = o'.bytes ∧ o.ret = o'.ret ∧ o.pos = o'.pos ∧ errOK o.err o'.err = true

/-- the simulation relation between a download stream and the in-memory reader -/
structure Sim (id c : Nat) (content : Bytes) (ds : DownloadStream) (r : Reader) : Prop where
  closed : ds.closed = false
  file : ds.file = ⟨id, content.length, c⟩
  total : ds.chunks = (chunksOf c content).length
  rc : r.content = content
  pos : ds.position = r.pos
  live : r.pos < content.length → Live c ds (content.drop r.pos)

/-- scripts inside io.Seeker's contract: whence ∈ {SeekStart, SeekCurrent, SeekEnd} -/
def ROp.valid : ROp → Prop
  | .seek _ w => w = 0 ∨ w = 1 ∨ w = 2
  | _ => True

section
variable {st : Store} {id c : Nat} {content : Bytes}

theorem sim_read (_wf : WF st id c content) {ds : DownloadStream} {r : Reader} (h : Sim id c content ds r) (n : Nat) :
    Sim id c content (ds.read n).1 (r.read n).1 ∧ (ds.read n).2.1 = (r.read n).2.1 ∧
    errOK (ds.read n).2.2 (r.read n).2.2 = true := by
  obtain ⟨rcont, rpos⟩ := r
  have hrc : rcont = content := h.rc
  subst hrc
  unfold DownloadStream.read Reader.read
  rw [h.closed]
  simp only [Bool.false_eq_true, if_false, h.file, h.pos]
  by_cases hp : rpos ≥ rcont.length
  · rw [if_pos hp, if_pos hp]
    exact ⟨h, rfl, rfl⟩
  · rw [if_neg hp, if_neg hp]
    have hlt : rpos < rcont.length := by omega
    have hl := h.live hlt
    have hne : rcont.drop rpos ≠ [] := by
      intro e
      have : (rcont.drop rpos).length = 0 := by rw [e]; rfl
      rw [List.length_drop] at this; omega
    obtain ⟨r1, r2, r3, r4, r5, r6, r7⟩ := readLoop_ok (n + ds.cursorLen + 1) ds n 0 (rcont.drop rpos) hl
      (by omega) (fun _ => hne)
    refine ⟨?_, r1, by rw [r2]; rfl⟩
    have hlen : ((rcont.drop rpos).take n).length = min n (rcont.drop rpos).length := List.length_take ..
    exact {
      closed := by rw [r6]; exact h.closed
      file := by rw [r4]; exact h.file
      total := by rw [r5]; exact h.total
      rc := h.rc
      pos := by rw [r3, h.pos, hlen]
      live := by
        intro hq
        simp only [hlen, List.length_drop] at hq
        have hn : n ≤ rcont.length - rpos := by omega
        rw [List.drop_drop] at r7
        simp only [hlen, List.length_drop]
        rw [Nat.min_eq_left hn]
        exact r7 }

theorem sim_seekNat (wf : WF st id c content) {ds : DownloadStream} (hcl : ds.closed = false)
    (hf : ds.file = ⟨id, content.length, c⟩) (ht : ds.chunks = (chunksOf c content).length) (p : Nat) :
    (ds.seekTo st p).2 = none ∧
    Sim id c content { (ds.seekTo st p).1 with position := p } ⟨content, p⟩ := by
  by_cases hp : p < content.length
  · obtain ⟨s1, s2, s3, s4, s5⟩ := seekTo_lt wf ds hf ht p hp
    refine ⟨s1, ?_⟩
    exact {
      closed := by show (ds.seekTo st p).1.closed = false; rw [s5]; exact hcl
      file := by show (ds.seekTo st p).1.file = _; rw [s3]; exact hf
      total := by show (ds.seekTo st p).1.chunks = _; rw [s4]; exact ht
      rc := rfl
      pos := rfl
      live := by
        intro _
        obtain ⟨k, rest, a, b, c', d⟩ := s2.ex
        exact ⟨s2.cs, k, rest, a, b, c', d⟩ }
  · have hge : p ≥ ds.file.length := by rw [hf]; show p ≥ content.length; omega
    rw [seekTo_ge st ds p hge]
    refine ⟨rfl, ?_⟩
    exact {
      closed := hcl, file := hf, total := ht, rc := rfl, pos := rfl
      live := by intro hq; exact absurd hq hp }

theorem sim_seekPos (wf : WF st id c content) {ds : DownloadStream} {r : Reader} (h : Sim id c content ds r) (p : Int) :
    Sim id c content (ds.seekPos st p).1 (r.seekPos p).1 ∧ (ds.seekPos st p).2.1 = (r.seekPos p).2.1 ∧
    errOK (ds.seekPos st p).2.2 (r.seekPos p).2.2 = true := by
  obtain ⟨rcont, rpos⟩ := r
  have hrc : rcont = content := h.rc
  subst hrc
  unfold DownloadStream.seekPos Reader.seekPos
  by_cases hn : p < 0
  · rw [if_pos hn, if_pos hn]; exact ⟨h, rfl, rfl⟩
  · rw [if_neg hn, if_neg hn]
    obtain ⟨e1, e2⟩ := sim_seekNat wf h.closed h.file h.total p.toNat
    generalize hx : ds.seekTo st p.toNat = x at e1 e2
    obtain ⟨s1, e⟩ := x
    simp only at e1 e2
    subst e1
    exact ⟨e2, rfl, rfl⟩

theorem sim_seek (wf : WF st id c content) {ds : DownloadStream} {r : Reader} (h : Sim id c content ds r)
    (o w : Int) (hw : w = 0 ∨ w = 1 ∨ w = 2) :
    Sim id c content (ds.seek st o w).1 (r.seek o w).1 ∧ (ds.seek st o w).2.1 = (r.seek o w).2.1 ∧
    errOK (ds.seek st o w).2.2 (r.seek o w).2.2 = true := by
  unfold DownloadStream.seek Reader.seek
  rw [h.closed, if_pos hw]
  simp only [Bool.false_eq_true, if_false, h.file, h.rc, h.pos]
  rcases hw with rfl | rfl | rfl
  · simpa using sim_seekPos wf h o
  · simpa using sim_seekPos wf h (wrap64 (r.pos + o))
  · simpa using sim_seekPos wf h (wrap64 (content.length + o))

/-- one script step preserves the simulation and produces matching outputs -/
theorem sim_step (wf : WF st id c content) {ds : DownloadStream} {r : Reader} (h : Sim id c content ds r)
    (op : ROp) (hv : op.valid) :
    Sim id c content (ds.step st op).1 (r.step op).1 ∧ OutMatch (ds.step st op).2 (r.step op).2 := by
  cases op with
  | read n =>
    obtain ⟨a, b, c'⟩ := sim_read wf h n
    refine ⟨a, ?_, ?_, ?_, c'⟩
    · exact b
    · show (ds.read n).2.1.length = (r.read n).2.1.length; rw [b]
    · exact a.pos
  | seek o w =>
    obtain ⟨a, b, c'⟩ := sim_seek wf h o w hv
    exact ⟨a, rfl, b, a.pos, c'⟩
  | skip n =>
    obtain ⟨a, b, c'⟩ := sim_seek wf h n 1 (Or.inr (Or.inl rfl))
    exact ⟨a, rfl, b, a.pos, c'⟩

/-- every script produces matching outputs -/
theorem sim_run (wf : WF st id c content) : ∀ (script : List ROp) (ds : DownloadStream) (r : Reader),
    Sim id c content ds r → (∀ op ∈ script, op.valid) →
    Forall2 OutMatch (ds.run st script) (r.run script) := by
  intro script
  induction script with
  | nil => intro ds r _ _; exact trivial
  | cons op ops ih =>
    intro ds r h hv
    obtain ⟨a, b⟩ := sim_step wf h op (hv op (by simp))
    simp only [DownloadStream.run, Reader.run]
    exact ⟨b, ih _ _ a (fun x hx => hv x (by simp [hx]))⟩

theorem chunkCount_eq (c : Nat) (hc : 0 < c) (L : Nat) :
    L / c + (if L % c ≠ 0 then 1 else 0) = (L + c - 1) / c := by
  have hdm : c * (L / c) + L % c = L := Nat.div_add_mod L c
  have hml : L % c < c := Nat.mod_lt _ hc
  symm
  apply Nat.div_eq_of_lt_le
  · rw [Nat.add_mul, Nat.mul_comm (L / c) c]
    split <;> omega
  · rw [Nat.succ_mul, Nat.add_mul, Nat.mul_comm (L / c) c]
    split <;> omega

/-- OpenDownloadStream on a well-formed file succeeds and starts the simulation at position 0 -/
theorem sim_open (wf : WF st id c content) :
    ∃ ds, DownloadStream.open st id = .ok ds ∧ Sim id c content ds ⟨content, 0⟩ := by
  have hc := wf.hc
  unfold DownloadStream.open
  rw [wf.file]
  simp only
  rw [if_neg (by omega)]
  have hcnt : content.length / c + (if content.length % c ≠ 0 then 1 else 0) = (chunksOf c content).length := by
    rw [chunkCount_eq c hc, length_chunksOf c hc]
  obtain ⟨e1, e2⟩ := sim_seekNat wf (ds := { file := ⟨id, content.length, c⟩, chunks := content.length / c + (if content.length % c ≠ 0 then 1 else 0) })
    rfl rfl hcnt 0
  generalize hx : DownloadStream.seekTo st { file := ⟨id, content.length, c⟩, chunks := content.length / c + (if content.length % c ≠ 0 then 1 else 0) } 0 = x at e1 e2
  obtain ⟨s1, e⟩ := x
  simp only at e1 e2
  subst e1
  refine ⟨s1, rfl, ?_⟩
  have hp : s1.position = 0 := by
    have := seekTo_position st { file := ⟨id, content.length, c⟩, chunks := content.length / c + (if content.length % c ≠ 0 then 1 else 0) } 0
    rw [hx] at this
    exact this
  have : ({ s1 with position := 0 } : DownloadStream) = s1 := by
    cases s1; simp only at hp; subst hp; rfl
  rw [this] at e2
  exact e2

end
end Lungo.GridFS
