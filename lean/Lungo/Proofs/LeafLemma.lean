/-
  Lungo.Proofs.LeafLemma — THE lemma behind C10's agreement part: on the core domain the values
  lungo's access functions (`get` / `All` / `matchUnwind`) offer to an operator are the leaves
  `Spec.leafs` of the reference semantics — exactly when the path does not fan out, and up to
  `missing` and the array-valued candidates themselves when it does.
-/
import Lungo.Spec.Query
import Lungo.Proofs.MatchLaws
namespace Lungo
open Lungo.Spec

/-! ### access functions vs. lookups -/

theorem getField_lookup (fs : List (String × V)) (k : String) (rest : Path) (c b : Bool) :
    getField fs k rest c b = match fs.lookup k with
      | some w => Lungo.get w rest c b
      | none => (.missing, false) := by
  induction fs with
  | nil => rw [getField]; rfl
  | cons kv r ih =>
    obtain ⟨k', v⟩ := kv
    rw [getField, List.lookup]
    by_cases h : k' = k
    · subst h; simp
    · have h1 : (k' == k) = false := by simpa using h
      have h2 : (k == k') = false := by simpa using fun e => h e.symm
      simp [h1, h2, ih]

theorem getIdx_getElem (xs : List V) (i : Nat) (rest : Path) (c b : Bool) :
    getIdx xs i rest c b = (xs[i]?).map fun x => Lungo.get x rest c b := by
  induction xs generalizing i with
  | nil => rw [getIdx]; rfl
  | cons x r ih =>
    cases i with
    | zero => rw [getIdx]; rfl
    | succ n => rw [getIdx, ih]; simp

theorem get_nil (v : V) (c b : Bool) : Lungo.get v [] c b = (v, false) := by rw [Lungo.get]

theorem get_doc (fs : List (String × V)) (k : String) (rest : Path) (c b : Bool) (hk : k ≠ "") :
    Lungo.get (.doc fs) (k :: rest) c b = match fs.lookup k with
      | some w => Lungo.get w rest c b
      | none => (.missing, false) := by
  rw [Lungo.get]
  have hk' : (k == "" && rest.isEmpty) = false := by simp [hk]
  simp only [hk', Bool.false_eq_true, ↓reduceIte, getField_lookup]

theorem get_arr (xs : List V) (k : String) (rest : Path) (b : Bool) (hk : k ≠ "")
    (hi : parseIndex k = numeral k) :
    Lungo.get (.arr xs) (k :: rest) true b = match elemAt xs k with
      | some x => Lungo.get x rest true b
      | none => (.arr (getCollect xs k rest true b), true) := by
  rw [Lungo.get]
  have hk' : (k == "" && rest.isEmpty) = false := by simp [hk]
  simp only [hk', Bool.false_eq_true, ↓reduceIte, hi, elemAt]
  cases hn : numeral k with
  | none => simp
  | some i =>
    simp only [getIdx_getElem]
    cases hx : xs[i]? <;> simp

theorem get_scalar (v : V) (k : String) (rest : Path) (c b : Bool)
    (hd : v.isDoc = false) (ha : v.isArr = false) :
    Lungo.get v (k :: rest) c b = (.missing, false) := by
  cases v <;> first
    | (simp [V.isDoc] at hd; done)
    | (simp [V.isArr] at ha; done)
    | (rw [Lungo.get.eq_def]; by_cases h : (k == "" && rest.isEmpty) = true <;> simp [h])

theorem get_other (v : V) (k : String) (rest : Path) (c b : Bool) :
    Lungo.get v (k :: rest) c b = match v with
      | .doc fs => Lungo.get (.doc fs) (k :: rest) c b
      | .arr xs => Lungo.get (.arr xs) (k :: rest) c b
      | _ => (.missing, false) := by
  cases v <;> first
    | rfl
    | (rw [Lungo.get.eq_def]; by_cases h : (k == "" && rest.isEmpty) = true <;> simp [h])

/-! ### well-formedness is inherited by what a path reaches -/

theorem nna_lookup {fs : List (String × V)} {k : String} {w : V}
    (h : nnaFields fs = true) (hl : fs.lookup k = some w) : noNestedArrays w = true := by
  induction fs with
  | nil => simp [List.lookup] at hl
  | cons kv r ih =>
    obtain ⟨k', v⟩ := kv
    rw [nnaFields] at h
    simp only [Bool.and_eq_true] at h
    rw [List.lookup] at hl
    by_cases hk : (k == k') = true
    · simp [hk] at hl; subst hl; exact h.1
    · simp [hk] at hl; exact ih h.2 hl

theorem nna_elem {xs : List V} {x : V} (h : nnaElems xs = true) (hx : x ∈ xs) :
    x.isArr = false ∧ noNestedArrays x = true := by
  induction xs with
  | nil => simp at hx
  | cons y r ih =>
    rw [nnaElems] at h
    simp only [Bool.and_eq_true, Bool.not_eq_true'] at h
    rcases List.mem_cons.mp hx with rfl | hx'
    · exact ⟨h.1.1, h.1.2⟩
    · exact ih h.2 hx'

theorem nna_getElem {xs : List V} {i : Nat} {x : V} (h : nnaElems xs = true) (hx : xs[i]? = some x) :
    x.isArr = false ∧ noNestedArrays x = true :=
  nna_elem h (List.mem_of_getElem? hx)

theorem nna_not_missing {v : V} (h : noNestedArrays v = true) : v.isMissing = false := by
  cases v <;> simp_all [noNestedArrays, V.isMissing]

theorem elemAt_some {xs : List V} {k : String} {x : V} (h : elemAt xs k = some x) : x ∈ xs := by
  unfold elemAt at h
  cases hn : numeral k with
  | none => simp [hn] at h
  | some i => simp only [hn] at h; exact List.mem_of_getElem? h

/-- every candidate is again a value without nested arrays (in particular never `missing`) -/
theorem cand_nna (p : Path) : ∀ (v : V) (f : Bool), noNestedArrays v = true →
    ∀ c ∈ candF v p f, noNestedArrays c.1 = true := by
  induction p with
  | nil => intro v f hv c hc; simp [candF] at hc; subst hc; exact hv
  | cons k rest ih =>
    intro v f hv c hc
    cases v with
    | doc fs =>
      rw [noNestedArrays] at hv
      simp only [candF] at hc
      cases hl : fs.lookup k with
      | none => simp [hl] at hc
      | some w => simp only [hl] at hc; exact ih w f (nna_lookup hv hl) c hc
    | arr xs =>
      rw [noNestedArrays] at hv
      simp only [candF] at hc
      cases he : elemAt xs k with
      | some x => simp only [he] at hc; exact ih x f (nna_elem hv (elemAt_some he)).2 c hc
      | none =>
        simp only [he, List.mem_flatMap] at hc
        obtain ⟨x, hx, hc⟩ := hc
        cases x with
        | doc gs =>
          have hgs : nnaFields gs = true := by simpa [noNestedArrays] using (nna_elem hv hx).2
          simp only at hc
          cases hl : gs.lookup k with
          | none => simp [hl] at hc
          | some w => simp only [hl] at hc; exact ih w true (nna_lookup hgs hl) c hc
        | _ => simp at hc
    | _ => simp [candF] at hc

/-! ### `get` with collect, characterised by candidates -/

/-- the value `get` returns when the path does not fan out: the only candidate, or `missing` -/
def single (cs : List (V × Bool)) : V :=
  match cs with
  | [] => .missing
  | c :: _ => c.1

/-- segments non-empty, and lungo's index reading of a segment is the canonical-numeral reading -/
def segsOK (p : Path) : Bool := p.all segOK

theorem segOK_ne {k : String} (h : segOK k = true) : k ≠ "" := by
  unfold segOK at h; simp at h; exact h.1

theorem segOK_idx {k : String} (h : segOK k = true) : parseIndex k = numeral k := by
  unfold segOK at h; simp at h; exact h.2

/-- MAIN STRUCTURAL LEMMA. For a value without nested arrays and a path of good segments:
    * no fan-out: `get` returns the single candidate (or `missing`), `nested = false`, and there is
      at most one candidate;
    * fan-out: `get … compact=true` returns the list of ALL candidates in order (array-valued
      candidates still unflattened, elements lacking the field dropped), `nested = true`. -/
theorem get_cand (p : Path) : ∀ (v : V) (f : Bool), noNestedArrays v = true → segsOK p = true →
    (fans v p = false →
        (∀ b, Lungo.get v p true b = (single (candF v p f), false)) ∧ (candF v p f).length ≤ 1) ∧
    (fans v p = true →
        Lungo.get v p true true = (.arr ((candF v p f).map (·.1)), true)) := by
  induction p with
  | nil =>
    intro v f _ _
    constructor
    · intro _; simp [get_nil, candF, single]
    · intro h; simp [fans] at h
  | cons k rest ih =>
    intro v f hv hp
    have hk : segOK k = true := by simp [segsOK] at hp; exact hp.1
    have hrest : segsOK rest = true := by simp [segsOK] at hp ⊢; exact hp.2
    have hne := segOK_ne hk
    have hidx := segOK_idx hk
    cases v with
    | doc fs =>
      rw [noNestedArrays] at hv
      simp only [get_doc _ _ _ _ _ hne, candF, fans]
      cases hl : fs.lookup k with
      | none => simp [single]
      | some w => exact ih w f (nna_lookup hv hl) hrest
    | arr xs =>
      rw [noNestedArrays] at hv
      simp only [get_arr _ _ _ _ hne hidx, candF, fans]
      cases he : elemAt xs k with
      | some x => exact ih x f (nna_elem hv (elemAt_some he)).2 hrest
      | none =>
        simp only [Bool.true_eq_false, false_imp_iff, true_and, forall_const]
        congr 2
        -- the collect loop = the candidates of the document elements, in order
        clear he
        induction xs with
        | nil => simp [getCollect]
        | cons x r ihx =>
          rw [nnaElems] at hv
          simp only [Bool.and_eq_true, Bool.not_eq_true'] at hv
          rw [getCollect, List.flatMap_cons, List.map_append, ← ihx hv.2]
          cases x with
          | doc gs =>
            have hgs : nnaFields gs = true := by simpa [noNestedArrays] using hv.1.2
            simp only [get_doc _ _ _ _ _ hne]
            cases hl : gs.lookup k with
            | none => simp [V.isMissing]
            | some w =>
              have hw := nna_lookup hgs hl
              have := ih w true hw hrest
              by_cases hf : fans w rest = true
              · have h2 := this.2 hf
                simp [h2, V.isMissing]
              · have hf' : fans w rest = false := by simpa using hf
                obtain ⟨h1, hlen⟩ := this.1 hf'
                simp only [h1 true]
                cases hc : candF w rest true with
                | nil => simp [single, V.isMissing]
                | cons c cs =>
                  have hcs : cs = [] := by
                    rw [hc] at hlen; simp at hlen; exact hlen
                  subst hcs
                  -- the candidate is a value of the document: not missing
                  have hcm : c.1.isMissing = false :=
                    nna_not_missing (cand_nna rest w true hw c (by simp [hc]))
                  cases hc1 : c.1 <;> simp_all [single, V.isMissing]
          | arr ys => simp [V.isArr] at hv
          | _ => rw [get_other]; simp [V.isMissing]
    | _ =>
      simp only [get_other _ k rest]
      simp [candF, fans, single]

/-! ### `All` and the values offered by `matchUnwind` -/

/-- what `All … merge=true` makes of a candidate: an array-valued candidate is replaced by its elements -/
def flat (c : V) : List V :=
  match c with
  | .arr a => a
  | _ => [c]

theorem All_noFan (d : Doc) (p : Path) (c m : Bool) (hd : noNestedArrays (.doc d) = true)
    (hp : segsOK p = true) (hf : fans (.doc d) p = false) :
    All d p c m = (single (cand (.doc d) p), false) ∧ (cand (.doc d) p).length ≤ 1 := by
  obtain ⟨h1, h2⟩ := (get_cand p (.doc d) false hd hp).1 hf
  refine ⟨?_, h2⟩
  unfold All
  rw [h1 c]
  simp [cand]

theorem All_fan (d : Doc) (p : Path) (hd : noNestedArrays (.doc d) = true)
    (hp : segsOK p = true) (hf : fans (.doc d) p = true) :
    All d p true false = (.arr ((cand (.doc d) p).map (·.1)), true) ∧
    All d p true true = (.arr ((cand (.doc d) p).flatMap fun c => flat c.1), true) := by
  have h := (get_cand p (.doc d) false hd hp).2 hf
  unfold All
  rw [h]
  refine ⟨by simp [cand], ?_⟩
  simp only [Bool.not_true, Bool.or_self, Bool.false_eq_true, ↓reduceIte, cand]
  congr 2
  generalize candF (.doc d) p false = cs
  induction cs with
  | nil => rfl
  | cons c r ih =>
    simp only [List.map_cons, List.foldr_cons, List.flatMap_cons, ih]
    cases hc : c.1 <;> simp [flat]

/-- All's `nested` flag is the spec's `fans` -/
theorem All_nested_eq_fans (d : Doc) (p : Path) (hd : noNestedArrays (.doc d) = true)
    (hp : segsOK p = true) : (All d p true true).2 = fans (.doc d) p := by
  by_cases hf : fans (.doc d) p = true
  · rw [(All_fan d p hd hp hf).2, hf]
  · have hf' : fans (.doc d) p = false := by simpa using hf
    rw [(All_noFan d p true true hd hp hf').1, hf']

theorem any_expand (pr : V → Bool) (c : V) :
    (expand c).any pr = (pr c || (flat c).any pr && c.isArr) := by
  cases c <;> simp [expand, flat, V.isArr]

/-- LEAF LEMMA (a): no fan-out — the values offered to an operator are exactly the leaves. -/
theorem leaf_noFan (d : Doc) (path : String) (pr : V → Bool)
    (hd : noNestedArrays (.doc d) = true) (hp : segsOK (splitPath path) = true)
    (hf : fans (.doc d) (splitPath path) = false) :
    unwindAny d path true false pr = (leafs d (splitPath path)).any pr := by
  obtain ⟨h1, h2⟩ := All_noFan d (splitPath path) true true hd hp hf
  unfold unwindAny leafs leafsAt
  rw [h1]
  cases hc : cand (.doc d) (splitPath path) with
  | nil => simp [single]
  | cons c cs =>
    have : cs = [] := by rw [hc] at h2; simp at h2; exact h2
    subst this
    cases hc1 : c.1 <;> simp [single, hc1, expand, Bool.or_comm]

/-- LEAF LEMMA (b): fan-out — lungo offers the non-array candidates and the elements of the
    array-valued ones, but neither those arrays themselves nor `missing` when nothing is reached;
    for a predicate that is false on `missing` and on arrays this is the same as the leaves. -/
theorem leaf_fan (d : Doc) (path : String) (pr : V → Bool)
    (hd : noNestedArrays (.doc d) = true) (hp : segsOK (splitPath path) = true)
    (hf : fans (.doc d) (splitPath path) = true)
    (hm : pr .missing = false) (ha : ∀ xs, pr (.arr xs) = false) :
    unwindAny d path true false pr = (leafs d (splitPath path)).any pr := by
  have h1 := (All_fan d (splitPath path) hd hp hf).2
  unfold unwindAny leafs leafsAt
  rw [h1]
  simp only [Bool.not_true, Bool.or_self, Bool.false_and, Bool.or_false]
  cases hc : cand (.doc d) (splitPath path) with
  | nil => simp [hm]
  | cons c cs =>
    simp only [List.any_flatMap]
    congr 1
    funext x
    cases hx : x.1 <;> simp [flat, expand, ha]

/-- LEAF LEMMA, both cases: the boolean test an operator performs over lungo's offered values is
    the test over the leaves, provided that on a fan-out path it ignores `missing` and arrays. -/
theorem leaf_any (d : Doc) (path : String) (pr : V → Bool)
    (hd : noNestedArrays (.doc d) = true) (hp : segsOK (splitPath path) = true)
    (hpr : fans (.doc d) (splitPath path) = true → pr .missing = false ∧ ∀ xs, pr (.arr xs) = false) :
    unwindAny d path true false pr = (leafs d (splitPath path)).any pr := by
  by_cases hf : fans (.doc d) (splitPath path) = true
  · exact leaf_fan d path pr hd hp hf (hpr hf).1 (hpr hf).2
  · exact leaf_noFan d path pr hd hp (by simpa using hf)

end Lungo
