/-
  Lungo.Proofs.OwnSoundStmt — soundness of `check` statement by statement, then for whole programs
  (mutual induction over the nested statement structure; loops by induction over the iteration count).
-/
import Lungo.Proofs.OwnSound
namespace Lungo.Own

variable {cx : Ctx} {t0 : TxnState} {h0 : Heap}

theorem Gam.commit {a : Abs} {st : St} (g : Gam cx t0 a st) : Gam cx t0 a.commitSuspects st :=
  Gam.congr (a := a) (b := a.commitSuspects) ⟨rfl, rfl, rfl, rfl⟩ g

section atoms
variable {a : Abs} {st : St} (i : Inv cx h0 st) (g : Gam cx t0 a st)
include i g

theorem snd_validate :
    Inv cx h0 (exec .validate st).1 ∧ Post cx t0 (check cx.strict .validate a) (exec .validate st).1 (exec .validate st).2 := by
  simp only [exec, check, Res.step, Post]
  refine ⟨Inv.setErr _ (Inv.frame (st := st) rfl rfl i), _, rfl, Gam.setErr _ (Gam.frame (st := st) rfl rfl rfl rfl g.commit)⟩

theorem snd_alias (dst : Var) (e : CExpr) :
    Inv cx h0 (exec (.alias dst e) st).1 ∧
    Post cx t0 (check cx.strict (.alias dst e) a) (exec (.alias dst e) st).1 (exec (.alias dst e) st).2 := by
  simp only [exec, check, Res.step, Post]
  exact ⟨i.bind, _, rfl, g.bindAlias⟩

theorem snd_newColl (dst : Var) :
    Inv cx h0 (exec (.newColl dst) st).1 ∧
    Post cx t0 (check cx.strict (.newColl dst) a) (exec (.newColl dst) st).1 (exec (.newColl dst) st).2 := by
  simp only [exec, check, Res.step, Post]
  obtain ⟨s, w⟩ := newCollH_spec (cx := cx) st.heap i.base_le
  refine ⟨(i.heap s).bind, _, rfl, (g.heap s).bindOwned ?_⟩
  intro o ho; cases ho; exact w

theorem snd_cloneColl (dst : Var) (e : CExpr) :
    Inv cx h0 (exec (.cloneColl dst e) st).1 ∧
    Post cx t0 (check cx.strict (.cloneColl dst e) a) (exec (.cloneColl dst e) st).1 (exec (.cloneColl dst e) st).2 := by
  simp only [exec, check, Res.step]
  split
  · rename_i s idxs _
    obtain ⟨sp, w⟩ := cloneCollH_spec (cx := cx) st.heap s idxs i.base_le
    refine ⟨(i.heap sp).bind, _, rfl, (g.heap sp).bindOwned ?_⟩
    intro o ho; cases ho; exact w
  · exact ⟨i, trivial⟩

theorem snd_shallowColl (dst : Var) (e : CExpr) :
    Inv cx h0 (exec (.shallowColl dst e) st).1 ∧
    Post cx t0 (check cx.strict (.shallowColl dst e) a) (exec (.shallowColl dst e) st).1 (exec (.shallowColl dst e) st).2 := by
  simp only [exec, check, Res.step]
  split
  · rename_i s idxs _
    have sp := Step.alloc cx st.heap (.coll s idxs)
    exact ⟨(i.heap sp).bind, _, rfl, (g.heap sp).bindAlias⟩
  · exact ⟨i, trivial⟩

theorem snd_cloneCatalog (dst src : Var) :
    Inv cx h0 (exec (.cloneCatalog dst src) st).1 ∧
    Post cx t0 (check cx.strict (.cloneCatalog dst src) a) (exec (.cloneCatalog dst src) st).1
      (exec (.cloneCatalog dst src) st).2 := by
  simp only [exec, check, Res.step]
  split
  · rename_i ns _
    have sp := Step.alloc cx st.heap (.cat ns)
    refine ⟨(i.heap sp).bind, _, rfl, (g.heap sp).bindOwned ?_⟩
    intro o ho; cases ho
    exact Own.alloc _ _ i.base_le FreshObj.cat
  · exact ⟨i, trivial⟩

theorem snd_cloneDocs (dst src : Var) :
    Inv cx h0 (exec (.cloneDocs dst src) st).1 ∧
    Post cx t0 (check cx.strict (.cloneDocs dst src) a) (exec (.cloneDocs dst src) st).1
      (exec (.cloneDocs dst src) st).2 := by
  simp only [exec, check, Res.step, Post]
  have sp := Step.allocs cx st.heap ((st.docsOf src).map fun o => Obj.doc (docVal st.heap o))
  have ids := Heap.allocs_ids st.heap ((st.docsOf src).map fun o => Obj.doc (docVal st.heap o))
  generalize st.heap.allocs ((st.docsOf src).map fun o => Obj.doc (docVal st.heap o)) = r at sp ids
  have hfresh : ∀ o ∈ r.2, cx.base ≤ o := fun o ho => Nat.le_trans i.base_le (ids o ho).1
  have lk : ∀ v, (({ st with heap := r.1 } : St).bindDocs dst r.2).docsOf v =
      if v = dst then r.2 else st.docsOf v := by
    intro v
    simp only [St.docsOf, St.bindDocs, List.lookup]
    by_cases e : v = dst
    · subst e; simp
    · have : (v == dst) = false := by simpa using e
      simp [this, e]
  refine ⟨⟨i.base, i.step.trans sp, fun v o ho => ?_⟩, _, rfl,
    ⟨fun v hv o ho => ((g.heap sp).vars v hv o ho), fun v hv o ho => ?_, (g.heap sp).tcat, g.txn⟩⟩
  · rw [lk] at ho
    split at ho
    · exact .inl (hfresh o ho)
    · exact i.docs v o ho
  · rw [lk] at ho
    split at ho
    · exact hfresh o ho
    · rename_i e
      refine g.docs v ?_ o ho
      simp only [Abs.ownsDocs, List.contains_eq_mem, List.mem_cons, decide_eq_true_eq] at hv ⊢
      exact hv.resolve_left e

theorem snd_setNs (c : Var) (hx : HExpr) (v : Var) (ok : (check cx.strict (.setNs c hx v) a).ok = true) :
    Inv cx h0 (exec (.setNs c hx v) st).1 ∧
    Post cx t0 (check cx.strict (.setNs c hx v) a) (exec (.setNs c hx v) st).1 (exec (.setNs c hx v) st).2 := by
  simp only [check, Res.step] at ok
  simp only [exec, check, Res.step]
  split
  · rename_i o ns x ho _
    have w := g.cat_own ok (St.obj_some ho).1
    have sp := Step.write (cx := cx) st.heap (x := .cat (mapPut ns (st.hval hx) x)) w.writable FreshObj.cat
    split
    · exact ⟨i.heap sp, _, rfl, Gam.congr (a := a) ⟨rfl, rfl, rfl, rfl⟩ (g.heap sp)⟩
    · exact ⟨i, trivial⟩
  · exact ⟨i, _, rfl, Gam.congr (a := a) ⟨rfl, rfl, rfl, rfl⟩ g⟩
  · exact ⟨i, trivial⟩

theorem snd_setNsNew (c : Var) (hx : HExpr) (ok : (check cx.strict (.setNsNew c hx) a).ok = true) :
    Inv cx h0 (exec (.setNsNew c hx) st).1 ∧
    Post cx t0 (check cx.strict (.setNsNew c hx) a) (exec (.setNsNew c hx) st).1 (exec (.setNsNew c hx) st).2 := by
  simp only [check, Res.step] at ok
  simp only [exec, check, Res.step]
  split
  · rename_i o ns ho
    have w := g.cat_own ok (St.obj_some ho).1
    obtain ⟨s1, _⟩ := newCollH_spec (cx := cx) st.heap i.base_le
    have sp := s1.trans (Step.write (cx := cx) (newCollH st.heap).1
      (x := .cat (mapPut ns (st.hval hx) (newCollH st.heap).2)) w.writable FreshObj.cat)
    exact ⟨i.heap sp, _, rfl, g.heap sp⟩
  · exact ⟨i, trivial⟩

theorem snd_deleteNs (c : Var) (hx : HExpr) (ok : (check cx.strict (.deleteNs c hx) a).ok = true) :
    Inv cx h0 (exec (.deleteNs c hx) st).1 ∧
    Post cx t0 (check cx.strict (.deleteNs c hx) a) (exec (.deleteNs c hx) st).1 (exec (.deleteNs c hx) st).2 := by
  simp only [check, Res.step] at ok
  simp only [exec, check, Res.step]
  split
  · rename_i o ns ho
    have w := g.cat_own ok (St.obj_some ho).1
    have sp := Step.write (cx := cx) st.heap (x := .cat (mapDel ns (st.hval hx))) w.writable FreshObj.cat
    exact ⟨i.heap sp, _, rfl, g.heap sp⟩
  · exact ⟨i, trivial⟩

theorem callCollSt_sound {o s : Nat} {idxs : List (String × Nat)} (m : Method) (arg : Option Var)
    (w : Own cx st.heap o) (hg : st.heap.get o = some (.coll s idxs))
    (hargs : (cx.strict = false ∨ m.footprint.arg = false) ∨ a.argOwned arg = true) :
    Inv cx h0 (callCollSt st o s idxs m arg) ∧ Gam cx t0 a (callCollSt st o s idxs m arg) := by
  have sp : Step cx st.heap (applyMut st.heap o s idxs (st.argDocs arg) (st.popMut.1.restrict m.footprint)) := by
    refine applyMut_step st.heap _ _ w hg ?_
    intro hne p hp
    cases arg with
    | none => cases hp
    | some x =>
      have hfa : m.footprint.arg = true := by
        cases hf : m.footprint.arg with
        | true => rfl
        | false => simp [Mut.restrict, hf] at hne
      rcases hargs with (hs | hf) | hx
      · rcases i.docs x p hp with h | h
        · exact .inl h
        · exact .inr ⟨hs, h⟩
      · rw [hfa] at hf; cases hf
      · exact .inl (g.docs x hx p hp)
  simp only [callCollSt]
  generalize applyMut st.heap o s idxs (st.argDocs arg) (st.popMut.1.restrict m.footprint) = H at sp ⊢
  have i' : Inv cx h0 { st.popMut.2 with heap := H } := ⟨i.base, i.step.trans sp, i.docs⟩
  have g' : Gam cx t0 a { st.popMut.2 with heap := H } :=
    ⟨fun v hv o ho => (g.vars v hv o ho).step sp, g.docs, fun h => (g.tcat h).step sp, g.txn⟩
  split
  · exact ⟨i'.setErr _, g'.setErr _⟩
  · exact ⟨i', g'⟩

theorem snd_callColl (recv : Var) (m : Method) (arg : Option Var)
    (ok : (check cx.strict (.callColl recv m arg) a).ok = true) :
    Inv cx h0 (exec (.callColl recv m arg) st).1 ∧
    Post cx t0 (check cx.strict (.callColl recv m arg) a) (exec (.callColl recv m arg) st).1
      (exec (.callColl recv m arg) st).2 := by
  simp only [check, Res.step, Bool.and_eq_true, Bool.or_eq_true, Bool.not_eq_true'] at ok
  obtain ⟨⟨hown, _⟩, hargs⟩ := ok
  simp only [exec, check, Res.step]
  split
  · rename_i o s idxs ho
    obtain ⟨hv, hg⟩ := St.obj_some ho
    obtain ⟨i', g'⟩ := callCollSt_sound i g m arg (g.var_own hown hv) hg hargs
    refine ⟨i', _, rfl, ?_⟩
    split
    · exact Gam.congr (a := a) ⟨rfl, rfl, rfl, rfl⟩ g'
    · exact g'
  · exact ⟨i, trivial⟩

theorem snd_setCatalog (v : Var) :
    Inv cx h0 (exec (.setCatalog v) st).1 ∧
    Post cx t0 (check cx.strict (.setCatalog v) a) (exec (.setCatalog v) st).1 (exec (.setCatalog v) st).2 := by
  simp only [exec, check, Res.step]
  split
  · rename_i o ho
    split
    · refine ⟨⟨i.base, i.step, i.docs⟩, _, rfl, ⟨g.vars, g.docs, fun h => g.var_own h ho, fun h => by cases h⟩⟩
    · exact ⟨i, trivial⟩
  · exact ⟨i, trivial⟩

theorem snd_setDirty :
    Inv cx h0 (exec .setDirty st).1 ∧
    Post cx t0 (check cx.strict .setDirty a) (exec .setDirty st).1 (exec .setDirty st).2 := by
  simp only [exec, check, Res.step]
  exact ⟨⟨i.base, i.step, i.docs⟩, _, rfl, ⟨g.vars, g.docs, g.tcat, fun h => by cases h⟩⟩

theorem snd_retErr (ok : (check cx.strict .retErr a).ok = true) :
    Inv cx h0 (exec .retErr st).1 ∧
    Post cx t0 (check cx.strict .retErr a) (exec .retErr st).1 (exec .retErr st).2 := by
  simp only [check, Bool.not_eq_true'] at ok
  simp only [exec, check]
  exact ⟨i, ⟨_, rfl, g⟩, fun _ => g.txn ok⟩

theorem snd_fail (ok : (check cx.strict .fail a).ok = true) :
    Inv cx h0 (exec .fail st).1 ∧
    Post cx t0 (check cx.strict .fail a) (exec .fail st).1 (exec .fail st).2 := by
  simp only [check, Bool.not_eq_true'] at ok
  simp only [exec, check]
  exact ⟨i.setErr _, ⟨_, rfl, g.setErr _⟩, fun _ => g.txn ok⟩

theorem snd_retOk :
    Inv cx h0 (exec .retOk st).1 ∧
    Post cx t0 (check cx.strict .retOk a) (exec .retOk st).1 (exec .retOk st).2 := by
  simp only [exec, check]
  exact ⟨i.setErr _, ⟨_, rfl, g.commit.setErr _⟩, fun h => by simp [St.setErr] at h⟩

end atoms
/-! ### combining edges -/

theorem Post.left {st : St} {sg : Sig} (r1 r2 : Res) (ok : Bool) (p : Post cx t0 r1 st sg) :
    Post cx t0 { ok := ok, next := joinO r1.next r2.next, brk := joinO r1.brk r2.brk,
                 cont := joinO r1.cont r2.cont, ret := joinO r1.ret r2.ret } st sg := by
  cases sg with
  | next => exact Sat.joinL p
  | brk => exact Sat.joinL p
  | cont => exact Sat.joinL p
  | ret => exact ⟨Sat.joinL p.1, p.2⟩
  | panic => trivial

theorem Post.right {st : St} {sg : Sig} (r1 r2 : Res) (ok : Bool) (p : Post cx t0 r2 st sg) :
    Post cx t0 { ok := ok, next := joinO r1.next r2.next, brk := joinO r1.brk r2.brk,
                 cont := joinO r1.cont r2.cont, ret := joinO r1.ret r2.ret } st sg := by
  cases sg with
  | next => exact Sat.joinR p
  | brk => exact Sat.joinR p
  | cont => exact Sat.joinR p
  | ret => exact ⟨Sat.joinR p.1, p.2⟩
  | panic => trivial

/-- sequencing: the first statement left by a non-`next` edge -/
theorem Post.seqL {st : St} {sg : Sig} (r1 r2 : Res) (ok : Bool) (hne : sg ≠ .next) (p : Post cx t0 r1 st sg) :
    Post cx t0 { ok := ok, next := r2.next, brk := joinO r1.brk r2.brk,
                 cont := joinO r1.cont r2.cont, ret := joinO r1.ret r2.ret } st sg := by
  cases sg with
  | next => exact absurd rfl hne
  | brk => exact Sat.joinL p
  | cont => exact Sat.joinL p
  | ret => exact ⟨Sat.joinL p.1, p.2⟩
  | panic => trivial

theorem Post.seqR {st : St} {sg : Sig} (r1 r2 : Res) (ok : Bool) (p : Post cx t0 r2 st sg) :
    Post cx t0 { ok := ok, next := r2.next, brk := joinO r1.brk r2.brk,
                 cont := joinO r1.cont r2.cont, ret := joinO r1.ret r2.ret } st sg := by
  cases sg with
  | next => exact p
  | brk => exact Sat.joinR p
  | cont => exact Sat.joinR p
  | ret => exact ⟨Sat.joinR p.1, p.2⟩
  | panic => trivial

/-! ### the induction over programs -/

mutual
theorem sound_exec : ∀ (s : Stmt) (a : Abs) (st : St), Inv cx h0 st → Gam cx t0 a st →
    (check cx.strict s a).ok = true →
    Inv cx h0 (exec s st).1 ∧ Post cx t0 (check cx.strict s a) (exec s st).1 (exec s st).2
  | .validate, _, _, i, g, _ => snd_validate i g
  | .cloneDocs d s, _, _, i, g, _ => snd_cloneDocs i g d s
  | .cloneCatalog d s, _, _, i, g, _ => snd_cloneCatalog i g d s
  | .alias d e, _, _, i, g, _ => snd_alias i g d e
  | .newColl d, _, _, i, g, _ => snd_newColl i g d
  | .cloneColl d e, _, _, i, g, _ => snd_cloneColl i g d e
  | .shallowColl d e, _, _, i, g, _ => snd_shallowColl i g d e
  | .setNs c h v, _, _, i, g, ok => snd_setNs i g c h v ok
  | .setNsNew c h, _, _, i, g, ok => snd_setNsNew i g c h ok
  | .deleteNs c h, _, _, i, g, ok => snd_deleteNs i g c h ok
  | .callColl r m x, _, _, i, g, ok => snd_callColl i g r m x ok
  | .setCatalog v, _, _, i, g, _ => snd_setCatalog i g v
  | .setDirty, _, _, i, g, _ => snd_setDirty i g
  | .retErr, _, _, i, g, ok => snd_retErr i g ok
  | .retOk, _, _, i, g, _ => snd_retOk i g
  | .fail, _, _, i, g, ok => snd_fail i g ok
  | .brk, a, st, i, g, _ => by simp only [exec, check]; exact ⟨i, a, rfl, g⟩
  | .cont, a, st, i, g, _ => by simp only [exec, check]; exact ⟨i, a, rfl, g⟩
  | .unknown _, _, _, _, _, ok => by simp [check, Res.step] at ok
  | .ite c t e, a, st, i, g, ok => by
    simp only [check, Bool.and_eq_true] at ok
    simp only [exec, check]
    have gi := g.evalCond (cx := cx) (t0 := t0) c
    have ii := i.evalCond (cx := cx) (h0 := h0) c
    split
    · have := sound_execL t (c.refine a).1 (c.eval st).2 ii (gi.congr (Cond.refine_core c a).1) ok.1
      exact ⟨this.1, Post.left _ _ _ this.2⟩
    · have := sound_execL e (c.refine a).2 (c.eval st).2 ii (gi.congr (Cond.refine_core c a).2) ok.2
      exact ⟨this.1, Post.right _ _ _ this.2⟩
  | .loop o body, a, st, i, g, ok => by
    simp only [check, Bool.and_eq_true] at ok
    simp only [exec, check]
    obtain ⟨⟨ok2, l1⟩, l2⟩ := ok
    -- the head state is weaker than the entry state
    have ghd : ∀ st', Gam cx t0 a st' →
        Gam cx t0 ((joinO (joinO (some a) (checkL cx.strict body a).next) (checkL cx.strict body a).cont).getD a) st' := by
      intro st' g'
      have : Sat cx t0 (joinO (joinO (some a) (checkL cx.strict body a).next) (checkL cx.strict body a).cont) st' :=
        Sat.joinL (Sat.joinL ⟨a, rfl, g'⟩)
      obtain ⟨x, hx, gx⟩ := this
      rw [hx]; exact gx
    generalize (joinO (joinO (some a) (checkL cx.strict body a).next) (checkL cx.strict body a).cont).getD a = hd
      at ok2 l1 l2 ghd ⊢
    have ipop : Inv cx h0 st.popIter.2 := Inv.frame (st := st) rfl rfl i
    have gpop : Gam cx t0 hd st.popIter.2 := Gam.frame (st := st) rfl rfl rfl rfl (ghd st g)
    have := iterate_sound (cx := cx) (t0 := t0) (h0 := h0)
      (fun st => execL body (if o = true then st.popHandle else st)) hd (checkL cx.strict body hd)
      (fun st1 i1 g1 => by
        cases o with
        | true => exact sound_execL body hd st1.popHandle i1.popHandle g1.popHandle ok2
        | false => exact sound_execL body hd st1 i1 g1 ok2)
      l1 l2 st.popIter.1 st.popIter.2 ipop gpop
    refine ⟨this.1, ?_⟩
    have p := this.2
    revert p
    generalize (iterate (fun st => execL body (if o = true then st.popHandle else st)) st.popIter.1 st.popIter.2).2 = sg
    intro p
    cases sg <;> exact p
  | .helper n body, a, st, i, g, ok => by
    simp only [check] at ok
    simp only [exec, check]
    have := sound_execL body a st i g ok
    revert this
    generalize execL body st = r
    obtain ⟨st', sg⟩ := r
    intro this
    cases sg with
    | next => exact ⟨this.1, Sat.joinL this.2⟩
    | ret => exact ⟨this.1, Sat.joinR this.2.1⟩
    | brk => exact ⟨this.1, this.2⟩
    | cont => exact ⟨this.1, this.2⟩
    | panic => exact ⟨this.1, trivial⟩
theorem sound_execL : ∀ (ss : List Stmt) (a : Abs) (st : St), Inv cx h0 st → Gam cx t0 a st →
    (checkL cx.strict ss a).ok = true →
    Inv cx h0 (execL ss st).1 ∧ Post cx t0 (checkL cx.strict ss a) (execL ss st).1 (execL ss st).2
  | [], a, st, i, g, _ => by simp only [execL, checkL, Res.step]; exact ⟨i, a, rfl, g⟩
  | s :: ss, a, st, i, g, ok => by
    simp only [checkL] at ok
    simp only [execL, checkL]
    have h1 : (check cx.strict s a).ok = true := by
      split at ok
      · exact ok
      · simp only [Bool.and_eq_true] at ok; exact ok.1
    have := sound_exec s a st i g h1
    revert this
    generalize exec s st = r
    obtain ⟨st1, sg1⟩ := r
    intro this
    cases sg1 with
    | next =>
      obtain ⟨a1, ha1, g1⟩ := this.2
      simp only [ha1] at ok ⊢
      simp only [Bool.and_eq_true] at ok
      have := sound_execL ss a1 st1 this.1 g1 ok.2
      exact ⟨this.1, Post.seqR _ _ _ this.2⟩
    | brk | cont | ret | panic =>
      simp only
      split
      · exact this
      · exact ⟨this.1, Post.seqL _ _ _ (by simp) this.2⟩
end

end Lungo.Own
