/-
  Lungo.Proofs.SpecAgree — operator-by-operator agreement of the matcher model with the reference
  semantics (helper lemmas for Props/C10Spec.lean).
-/
import Lungo.Proofs.LeafLemma
import Lungo.Proofs.CompareLaws
namespace Lungo
open Lungo.Spec

/-- a truth value as a matcher result -/
def toRes (b : Bool) : Res Unit := if b then .ok () else .error .notMatched

theorem negate_toRes (b : Bool) : negate (toRes b) = toRes (!b) := by
  cases b <;> rfl

theorem matchUnwind_toRes (d : Doc) (path : String) (m y : Bool) (p : V → Bool) :
    matchUnwind d path m y (boolOp p) = toRes (unwindAny d path m y p) :=
  matchUnwind_bool d path m y p

/-- the hypotheses every operator lemma shares: the document part of the core domain and a path
    of good segments -/
structure PathDom (d : Doc) (path : String) : Prop where
  nna : noNestedArrays (.doc d) = true
  segs : segsOK (splitPath path) = true

theorem any_congr_mem {α} {l : List α} {p q : α → Bool} (h : ∀ x ∈ l, p x = q x) : l.any p = l.any q := by
  induction l with
  | nil => rfl
  | cons a r ih =>
    simp only [List.any_cons]
    rw [h a (by simp), ih (fun x hx => h x (by simp [hx]))]

theorem all_congr_mem {α} {l : List α} {p q : α → Bool} (h : ∀ x ∈ l, p x = q x) : l.all p = l.all q := by
  induction l with
  | nil => rfl
  | cons a r ih =>
    simp only [List.all_cons]
    rw [h a (by simp), ih (fun x hx => h x (by simp [hx]))]

/-! ### comparison -/

theorem scalar_cls {v : V} (h : scalarOperand v = true) : v.cls ≠ .null ∧ v.cls ≠ .array := by
  cases v <;> simp_all [scalarOperand, V.cls]

theorem matchComp_lit_bool (d : Doc) (path : String) (v : V) :
    matchComp d "" path v = matchUnwind d path true false (boolOp fun field => field.cls == v.cls && V.cmp field v == .eq) := by
  unfold matchComp boolOp
  congr 1
  funext field
  by_cases h : (field.cls == v.cls && V.cmp field v == .eq) = true <;> simp [h, notMatched]

/-- on a fan-out path a bracketed comparison with a non-null scalar ignores `missing` and arrays -/
theorem bracket_ignores {v : V} (h : scalarOperand v = true) (r : Ordering → Bool) :
    (fun l : V => l.cls == v.cls && r (V.cmp l v)) .missing = false ∧
    ∀ xs, (fun l : V => l.cls == v.cls && r (V.cmp l v)) (.arr xs) = false := by
  obtain ⟨h1, h2⟩ := scalar_cls h
  constructor
  · have : (V.missing.cls == v.cls) = false := by
      simp only [V.cls, beq_eq_false_iff_ne, ne_eq]; exact fun e => h1 e.symm
    simp [this]
  · intro xs
    have : ((V.arr xs).cls == v.cls) = false := by
      simp only [V.cls, beq_eq_false_iff_ne, ne_eq]; exact fun e => h2 e.symm
    simp [this]

theorem cmp_core {d : Doc} {path : String} (hd : PathDom d path) (v : V) (r : Ordering → Bool)
    (hc : fans (.doc d) (splitPath path) = true → scalarOperand v = true) :
    unwindAny d path true false (fun l => l.cls == v.cls && r (V.cmp l v))
      = (leafs d (splitPath path)).any (fun l => l.cls == v.cls && r (V.cmp l v)) :=
  leaf_any d path _ hd.nna hd.segs fun hf => bracket_ignores (hc hf) r

theorem ord_ne_lt (o : Ordering) : (o != .lt) = (o == .gt || o == .eq) := by cases o <;> rfl
theorem ord_ne_gt (o : Ordering) : (o != .gt) = (o == .lt || o == .eq) := by cases o <;> rfl

/-- the model's comparison operator names and the spec's relations -/
def cmpName : CmpOp → String
  | .eq => "$eq" | .gt => "$gt" | .gte => "$gte" | .lt => "$lt" | .lte => "$lte"

theorem matchComp_agrees {d : Doc} {path : String} (hd : PathDom d path) (o : CmpOp) (v : V)
    (hc : fans (.doc d) (splitPath path) = true → scalarOperand v = true) :
    matchComp d (cmpName o) path v = toRes ((leafs d (splitPath path)).any (cmpHolds o v)) := by
  have key := cmp_core hd v o.rel hc
  have hfun : (fun l : V => l.cls == v.cls && o.rel (V.cmp l v)) = cmpHolds o v := by
    funext l; rfl
  rw [hfun] at key
  rw [← key]
  cases o
  · rw [cmpName, matchComp_eq_bool, matchUnwind_toRes]; rfl
  · rw [cmpName, matchComp_gt_bool, matchUnwind_toRes]; rfl
  · rw [cmpName, matchComp_gte_bool, matchUnwind_toRes]
    congr 2; funext l; simp [cmpHolds, CmpOp.rel, ord_ne_lt]
  · rw [cmpName, matchComp_lt_bool, matchUnwind_toRes]; rfl
  · rw [cmpName, matchComp_lte_bool, matchUnwind_toRes]
    congr 2; funext l; simp [cmpHolds, CmpOp.rel, ord_ne_gt]

theorem matchLit_agrees {d : Doc} {path : String} (hd : PathDom d path) (v : V)
    (hc : fans (.doc d) (splitPath path) = true → scalarOperand v = true) :
    matchComp d "" path v = toRes ((leafs d (splitPath path)).any (cmpHolds .eq v)) := by
  have key := cmp_core hd v CmpOp.eq.rel hc
  rw [matchComp_lit_bool, matchUnwind_toRes]
  exact congrArg toRes key

/-! ### $in -/

theorem member_ignores {vs : List V} (h : vs.all scalarOperand = true) :
    memberOf vs .missing = false ∧ ∀ xs, memberOf vs (.arr xs) = false := by
  have aux : ∀ l : V, (l.cls = .null ∨ l.cls = .array) → memberOf vs l = false := by
    intro l hl
    unfold memberOf
    rw [List.any_eq_false]
    intro v hv
    have hs := scalar_cls (List.all_eq_true.mp h v hv)
    intro he
    have hcl := cmp_eq_cls' l v (by simpa using he)
    simp only [beq_iff_eq] at hcl
    rcases hl with hl | hl
    · exact hs.1 (hcl ▸ hl)
    · exact hs.2 (hcl ▸ hl)
  exact ⟨aux _ (Or.inl rfl), fun xs => aux _ (Or.inr rfl)⟩

theorem matchIn_agrees {d : Doc} {path : String} (hd : PathDom d path) (vs : List V)
    (hc : fans (.doc d) (splitPath path) = true → vs.all scalarOperand = true) :
    matchIn d path (.arr vs) = toRes ((leafs d (splitPath path)).any (memberOf vs)) := by
  rw [matchIn_bool, matchUnwind_toRes]
  exact congrArg toRes (leaf_any d path (memberOf vs) hd.nna hd.segs fun hf => member_ignores (hc hf))

/-! ### $exists -/

theorem pow10_ne_zero (e : Int) : pow10 e ≠ 0 := by
  unfold pow10
  split
  · have : (10 ^ e.toNat : Nat) ≠ 0 := Nat.pos_iff_ne_zero.mp (Nat.pow_pos (by decide))
    intro h
    exact this (by exact_mod_cast h)
  · have : (10 ^ (-e).toNat : Nat) ≠ 0 := Nat.pos_iff_ne_zero.mp (Nat.pow_pos (by decide))
    rw [Ne, Rat.mkRat_eq_zero this]
    decide

theorem rat_neg_eq_zero (q : Rat) : -q = 0 ↔ q = 0 := by
  constructor
  · intro h; have := congrArg (fun x => -x) h; simpa [Rat.neg_neg] using this
  · intro h; subst h; rfl

/-- a decoded finite Decimal128 (sign, coefficient, exponent) is zero exactly when its coefficient is -/
theorem decFin_ne_zero (neg : Bool) (c : Nat) (e : Int) :
    ((if neg = true then -((c : Rat) * pow10 e) else (c : Rat) * pow10 e) != 0) = (c != 0) := by
  have hq : ((c : Rat) * pow10 e = 0) ↔ c = 0 := by
    rw [Rat.mul_eq_zero]
    constructor
    · rintro (h | h)
      · exact_mod_cast h
      · exact absurd h (pow10_ne_zero e)
    · intro h; subst h; exact Or.inl rfl
  by_cases hc : c = 0
  · subst hc; cases neg <;> simp
  · have h1 : ¬ ((c : Rat) * pow10 e = 0) := fun h => hc (hq.mp h)
    have h2 : ¬ (-((c : Rat) * pow10 e) = 0) := fun h => h1 ((rat_neg_eq_zero _).mp h)
    have hb : (c != 0) = true := by rw [bne_iff_ne]; exact hc
    rw [hb]
    cases neg
    · simp only [Bool.false_eq_true, ↓reduceIte, bne_iff_ne]; exact h1
    · simp only [↓reduceIte, bne_iff_ne]; exact h2

/-- lungo's reading of the `$exists` argument is MongoDB's truthiness, for EVERY value (Decimal128
    included: ±0 of any exponent is falsy, NaN and the infinities are truthy) -/
theorem existsArg_truthy (v : V) : existsArg v = truthy v := by
  cases v with
  | f64 b => simp only [existsArg, truthy]; cases f64Val b <;> rfl
  | dec h l =>
    simp only [existsArg, truthy, decVal]
    cases decParts h l with
    | fin neg c e => exact (decFin_ne_zero neg c e).symm
    | _ => rfl
  | _ => rfl

theorem cand_not_missing {d : Doc} {p : Path} (hd : noNestedArrays (.doc d) = true)
    {c : V × Bool} (hc : c ∈ cand (.doc d) p) : c.1.isMissing = false :=
  nna_not_missing (cand_nna p (.doc d) false hd c hc)

theorem matchExists_agrees {d : Doc} {path : String} (hd : PathDom d path) (arg : V) :
    matchExists d path arg = toRes (truthy arg == !(cand (.doc d) (splitPath path)).isEmpty) := by
  unfold matchExists
  rw [existsArg_truthy arg]
  by_cases hf : fans (.doc d) (splitPath path) = true
  · rw [(All_fan d _ hd.nna hd.segs hf).1]
    simp only [↓reduceIte, List.isEmpty_map]
    rfl
  · have hf' : fans (.doc d) (splitPath path) = false := by simpa using hf
    obtain ⟨h1, h2⟩ := All_noFan d (splitPath path) true false hd.nna hd.segs hf'
    rw [h1]
    simp only [Bool.false_eq_true, ↓reduceIte]
    cases hcs : cand (.doc d) (splitPath path) with
    | nil => simp [single, V.isMissing, toRes, notMatched]
    | cons c cs =>
      have hm := cand_not_missing hd.nna (c := c) (by rw [hcs]; simp)
      simp [single, hm, toRes, notMatched]

/-! ### $type -/

/-- matchType's callback (which skips Missing first) is exactly the reference test `typeHolds` -/
theorem typeCb_fixed_bool (number : Bool) (ts : List Nat) :
    (fun field : V => if field.isMissing = true then notMatched
        else if (number && field.cls == .number) = true then (Except.ok () : Res Unit)
        else if ts.contains field.typ = true then .ok () else notMatched)
      = boolOp (typeHolds number ts) := by
  funext field
  unfold boolOp typeHolds
  by_cases h0 : field.isMissing = true
  · simp [h0, notMatched]
  · by_cases h1 : (number && field.cls == .number) = true
    · simp_all [notMatched]
    · by_cases h2 : ts.contains field.typ = true
      · simp_all [notMatched]
      · simp_all [notMatched]

theorem matchType_unfold (d : Doc) (path : String) (v : V) (number : Bool) (ts : List Nat)
    (hp : parseType v = some (.type number ts)) :
    matchType d path v = toRes (unwindAny d path true false (typeHolds number ts)) := by
  unfold parseType at hp
  unfold matchType
  cases v with
  | arr arr =>
    by_cases he : arr.isEmpty = true
    · simp [he] at hp
    · have he' : arr.isEmpty = false := by simpa using he
      dsimp only at hp ⊢
      simp only [he', Bool.false_eq_true, ↓reduceIte] at hp ⊢
      cases hr : resolveTypes arr with
      | error e => simp [hr] at hp
      | ok r =>
        obtain ⟨n, t⟩ := r
        simp only [hr, Option.some.injEq, Cond.type.injEq] at hp
        obtain ⟨rfl, rfl⟩ := hp
        simp only [Bool.false_eq_true, ↓reduceIte, typeCb_fixed_bool, matchUnwind_toRes]
  | _ =>
    simp only at hp ⊢
    split at hp
    · rename_i n t hr
      simp only [Option.some.injEq, Cond.type.injEq] at hp
      obtain ⟨rfl, rfl⟩ := hp
      simp only [hr, typeCb_fixed_bool, matchUnwind_toRes]
    · simp at hp

theorem matchType_agrees {d : Doc} {path : String} (hd : PathDom d path) (v : V) (number : Bool) (ts : List Nat)
    (hp : parseType v = some (.type number ts))
    (hc : fans (.doc d) (splitPath path) = true → scalarTypes ts = true) :
    matchType d path v = toRes ((leafs d (splitPath path)).any (typeHolds number ts)) := by
  rw [matchType_unfold d path v number ts hp]
  refine congrArg toRes (leaf_any d path _ hd.nna hd.segs fun hf => ?_)
  have hs := hc hf
  simp only [scalarTypes, Bool.and_eq_true, Bool.not_eq_true'] at hs
  constructor
  · simp [typeHolds, V.isMissing]
  · intro xs
    simpa [typeHolds, V.isMissing, V.cls, V.typ] using hs.2

/-! ### $mod -/

theorem leafInt_numberToInt64 (l : V) (h : isDec l = false) : leafInt l = numberToInt64 l := by
  cases l with
  | f64 b =>
    simp only [leafInt, numberToInt64, V.numVal]
    cases f64Val b with
    | fin q =>
      simp only
      by_cases h1 : q < ((i64Min : Int) : Rat)
      · have : ¬ ((i64Min : Int) : Rat) ≤ q := Rat.not_le.mpr h1
        simp [h1, this]
      · have h1' : ((i64Min : Int) : Rat) ≤ q := Rat.not_lt.mp h1
        by_cases h2 : q < ((two63 : Int) : Rat)
        · have : ¬ ((two63 : Int) : Rat) ≤ q := Rat.not_le.mpr h2
          simp [h1, h1', h2, this]
        · have : ((two63 : Int) : Rat) ≤ q := Rat.not_lt.mp h2
          simp [h1, h1', h2, this]
    | _ => rfl
  | dec a b => simp [isDec] at h
  | _ => rfl

theorem modCb_bool (dv r : Int) :
    (fun field : V => match numberToInt64 field with
        | none => notMatched
        | some n => if goMod n dv != r then notMatched else (Except.ok () : Res Unit))
      = boolOp (fun l => match numberToInt64 l with
        | some n => Int.tmod n dv == r
        | none => false) := by
  funext field
  simp only [boolOp, goMod]
  split
  · rename_i hn; simp [hn, notMatched]
  · rename_i n hn
    by_cases h : Int.tmod n dv = r <;> simp [hn, h, notMatched]

theorem matchMod_agrees {d : Doc} {path : String} (hd : PathDom d path) (v : V) (dv r : Int)
    (hp : parseMod v = some (.mod dv r))
    (hdec : (leafs d (splitPath path)).all (fun l => !isDec l) = true) :
    matchMod d path v = toRes ((leafs d (splitPath path)).any (modHolds dv r)) := by
  unfold parseMod at hp
  unfold matchMod
  split at hp
  · rename_i a b
    cases ha : modOperand a with
    | error e => simp [ha] at hp
    | ok da =>
      cases hb : modOperand b with
      | error e => simp [ha, hb] at hp
      | ok rb =>
        simp only [ha, hb] at hp ⊢
        by_cases hz : (da == 0) = true
        · simp [hz] at hp
        · simp only [hz, Bool.false_eq_true, ↓reduceIte, Option.some.injEq, Cond.mod.injEq] at hp ⊢
          obtain ⟨rfl, rfl⟩ := hp
          refine Eq.trans (congrArg (matchUnwind d path true false) (modCb_bool da rb)) ?_
          rw [matchUnwind_toRes]
          congr 1
          rw [leaf_any d path _ hd.nna hd.segs (fun _ => ⟨rfl, fun _ => rfl⟩)]
          apply any_congr_mem
          intro l hl
          have : isDec l = false := by simpa using List.all_eq_true.mp hdec l hl
          simp only [modHolds, leafInt_numberToInt64 l this]
          cases numberToInt64 l <;> rfl
  · simp at hp

/-! ### $bits -/

theorem filter_len_all {α} (p : α → Bool) (l : List α) : ((l.filter p).length == l.length) = l.all p := by
  induction l with
  | nil => rfl
  | cons a r ih =>
    have hle := List.length_filter_le p r
    by_cases h : p a = true
    · simp only [List.filter_cons, h, ↓reduceIte, List.length_cons, List.all_cons, Bool.true_and, ← ih]
      simp
    · simp only [List.filter_cons, h, Bool.false_eq_true, ↓reduceIte, List.length_cons, List.all_cons]
      simp only [Bool.not_eq_true] at h
      simp only [h, Bool.false_and, beq_eq_false_iff_ne, ne_eq]
      omega

theorem filter_len_pos {α} (p : α → Bool) (l : List α) : decide ((l.filter p).length > 0) = l.any p := by
  induction l with
  | nil => rfl
  | cons a r ih =>
    by_cases h : p a = true
    · simp [List.filter_cons, h]
    · simp only [Bool.not_eq_true] at h
      simp only [List.filter_cons, h, Bool.false_eq_true, ↓reduceIte, List.any_cons, Bool.false_or, ← ih]

theorem filter_len_compl {α} (p : α → Bool) (l : List α) :
    l.length - (l.filter p).length = (l.filter (fun x => !p x)).length := by
  induction l with
  | nil => rfl
  | cons a r ih =>
    have hle := List.length_filter_le p r
    by_cases h : p a = true
    · simp only [List.filter_cons, h, ↓reduceIte, List.length_cons, Bool.not_true, Bool.false_eq_true]
      omega
    · simp only [Bool.not_eq_true] at h
      simp only [List.filter_cons, h, Bool.false_eq_true, ↓reduceIte, List.length_cons, Bool.not_false]
      omega

def bitsName : BitsOp → String
  | .allSet => "$bitsAllSet" | .allClear => "$bitsAllClear" | .anySet => "$bitsAnySet" | .anyClear => "$bitsAnyClear"

theorem bitsCb_bool (o : BitsOp) (ps : List Nat) :
    (fun field : V => match bitAccessor field with
      | none => notMatched
      | some bitAt =>
        let set := (ps.filter bitAt).length
        let clear := ps.length - set
        let matched : Res Bool := match bitsName o with
          | "$bitsAllSet" => .ok (set == ps.length)
          | "$bitsAllClear" => .ok (clear == ps.length)
          | "$bitsAnySet" => .ok (decide (set > 0))
          | "$bitsAnyClear" => .ok (decide (clear > 0))
          | _ => .error .err
        match matched with
        | .ok true => (Except.ok () : Res Unit)
        | .ok false => notMatched
        | .error e => .error e)
      = boolOp (bitsHolds o ps) := by
  funext field
  unfold boolOp bitsHolds
  cases bitAccessor field with
  | none => simp [notMatched]
  | some bit =>
    cases o
    · simp only [bitsName, filter_len_all]
      by_cases h : ps.all bit = true <;> simp [h, notMatched]
    · simp only [bitsName, filter_len_compl, filter_len_all]
      by_cases h : (ps.all fun i => !bit i) = true <;> simp [h, notMatched]
    · simp only [bitsName, filter_len_pos]
      by_cases h : ps.any bit = true <;> simp [h, notMatched]
    · simp only [bitsName, filter_len_compl, filter_len_pos]
      by_cases h : (ps.any fun i => !bit i) = true <;> simp [h, notMatched]

theorem bits_ignores (o : BitsOp) (ps : List Nat) :
    bitsHolds o ps .missing = false ∧ ∀ xs, bitsHolds o ps (.arr xs) = false :=
  ⟨rfl, fun _ => rfl⟩

theorem matchBits_agrees {d : Doc} {path : String} (hd : PathDom d path) (o : BitsOp) (v : V) (ps : List Nat)
    (hp : parseBits o v = some (.bits o ps)) :
    matchBits d (bitsName o) path v = toRes ((leafs d (splitPath path)).any (bitsHolds o ps)) := by
  unfold parseBits at hp
  unfold matchBits
  cases hm : parseBitMask v with
  | error e => simp [hm] at hp
  | ok ps' =>
    simp only [hm, Option.some.injEq, Cond.bits.injEq, true_and] at hp
    subst hp
    simp only
    refine Eq.trans (congrArg (matchUnwind d path true false) (bitsCb_bool o ps')) ?_
    rw [matchUnwind_toRes]
    exact congrArg toRes (leaf_any d path _ hd.nna hd.segs fun _ => bits_ignores o ps')

/-! ### $size -/

theorem getCollect_nocompact (xs : List V) (k : String) (rest : Path) :
    getCollect xs k rest true false = xs.map fun x => (Lungo.get x (k :: rest) true false).1 := by
  induction xs with
  | nil => rw [getCollect]; rfl
  | cons x r ih =>
    rw [getCollect, ih]
    simp only [Bool.not_false, ↓reduceIte, Bool.and_false, Bool.false_eq_true, List.map_cons]
    split <;> (try split) <;> rfl

theorem arrOfLength_single (n : Int) (cs : List (V × Bool)) (h : cs.length ≤ 1) :
    arrOfLength n (single cs) = cs.any fun c => arrOfLength n c.1 := by
  cases cs with
  | nil => rfl
  | cons c r =>
    have : r = [] := by simpa using h
    subst this
    simp [single]

/-- below ONE fan-out, `get … compact=false` returns one item per array element: the element's
    candidate or `missing`; so "some item is an array of length n" is "some candidate is". -/
theorem size_get (n : Int) (p : Path) : ∀ (v : V) (f : Bool), noNestedArrays v = true → segsOK p = true →
    fans v p = true → fans2 v p = false →
    ∃ L, Lungo.get v p true false = (.arr L, true) ∧
      L.any (arrOfLength n) = (candF v p f).any (fun c => arrOfLength n c.1) := by
  induction p with
  | nil => intro v f _ _ h; simp [fans] at h
  | cons k rest ih =>
    intro v f hv hp hf hf2
    have hk : segOK k = true := by simp [segsOK] at hp; exact hp.1
    have hrest : segsOK rest = true := by simp [segsOK] at hp ⊢; exact hp.2
    have hne := segOK_ne hk
    have hidx := segOK_idx hk
    cases v with
    | doc fs =>
      rw [noNestedArrays] at hv
      simp only [get_doc _ _ _ _ _ hne, candF]
      simp only [fans, fans2] at hf hf2
      cases hl : fs.lookup k with
      | none => simp [hl] at hf
      | some w =>
        simp only [hl] at hf hf2 ⊢
        exact ih w f (nna_lookup hv hl) hrest hf hf2
    | arr xs =>
      rw [noNestedArrays] at hv
      simp only [get_arr _ _ _ _ hne hidx, candF]
      simp only [fans, fans2] at hf hf2
      cases he : elemAt xs k with
      | some x =>
        simp only [he] at hf hf2 ⊢
        exact ih x f (nna_elem hv (elemAt_some he)).2 hrest hf hf2
      | none =>
        simp only [he] at hf2 ⊢
        refine ⟨_, rfl, ?_⟩
        rw [getCollect_nocompact]
        clear he hf
        induction xs with
        | nil => rfl
        | cons x r ihx =>
          rw [nnaElems] at hv
          simp only [Bool.and_eq_true, Bool.not_eq_true'] at hv
          simp only [List.any_cons, Bool.or_eq_false_iff] at hf2
          simp only [List.map_cons, List.any_cons, List.flatMap_cons, List.any_append, ihx hv.2 hf2.2]
          congr 1
          cases x with
          | doc gs =>
            have hgs : nnaFields gs = true := by simpa [noNestedArrays] using hv.1.2
            simp only [get_doc _ _ _ _ _ hne]
            cases hl : gs.lookup k with
            | none => simp [arrOfLength]
            | some w =>
              have hw := nna_lookup hgs hl
              have hfw : fans w rest = false := by simpa [hl] using hf2.1
              obtain ⟨h1, hlen⟩ := (get_cand rest w true hw hrest).1 hfw
              simp only [h1 false]
              exact arrOfLength_single n _ hlen
          | arr ys => simp [V.isArr] at hv
          | _ => rw [get_other]; simp [arrOfLength]
    | _ => simp [fans] at hf

theorem sizeCb (n : Int) :
    (fun item : V => match item with
      | .arr a => (a.length : Int) == n
      | _ => false) = arrOfLength n := by
  funext item; cases item <;> rfl

theorem matchSize_agrees {d : Doc} {path : String} (hd : PathDom d path) (v : V) (n : Int)
    (hp : parseSize v = some (.size n))
    (hc : fans2 (.doc d) (splitPath path) = false) :
    matchSize d path v = toRes ((cand (.doc d) (splitPath path)).any fun c => arrOfLength n c.1) := by
  unfold parseSize at hp
  unfold matchSize
  cases hi : intArg v with
  | error e => simp [hi] at hp
  | ok m =>
    simp only [hi] at hp ⊢
    by_cases hneg : m < 0
    · simp [hneg] at hp
    · simp only [hneg, ↓reduceIte, Option.some.injEq, Cond.size.injEq] at hp ⊢
      subst hp
      by_cases hf : fans (.doc d) (splitPath path) = true
      · obtain ⟨L, hL, hany⟩ := size_get m (splitPath path) (.doc d) false hd.nna hd.segs hf hc
        have hall : All d (splitPath path) false false = (.arr L, true) := by
          unfold All; rw [hL]; rfl
        rw [hall]
        simp only [↓reduceIte]
        show (if L.any (arrOfLength m) = true then (Except.ok () : Res Unit) else notMatched) = _
        rw [hany]
        rfl
      · have hf' : fans (.doc d) (splitPath path) = false := by simpa using hf
        obtain ⟨h1, h2⟩ := All_noFan d (splitPath path) false false hd.nna hd.segs hf'
        rw [h1, ← arrOfLength_single m _ h2]
        simp only [Bool.false_eq_true, ↓reduceIte]
        cases single (cand (.doc d) (splitPath path)) <;> simp [arrOfLength, toRes, notMatched]

/-! ### $all -/

/-- the equality test of `$eq v` on an offered value -/
def eqPred (v : V) (field : V) : Bool := field.cls == v.cls && V.cmp field v == .eq

theorem matchComp_eq_toRes (d : Doc) (path : String) (v : V) :
    matchComp d "$eq" path v = toRes (unwindAny d path true false (eqPred v)) := by
  rw [matchComp_eq_bool, matchUnwind_toRes]; rfl

/-- matchAll's loop is the conjunction of the `$eq` conditions (for EVERY document) -/
theorem allLoop_toRes (d : Doc) (path : String) (vs : List V) :
    allLoop d path vs = toRes (vs.all fun v => unwindAny d path true false (eqPred v)) := by
  induction vs with
  | nil => rfl
  | cons v r ih =>
    rw [allLoop, matchComp_eq_toRes, List.all_cons]
    cases unwindAny d path true false (eqPred v) with
    | false => rfl
    | true => simpa [toRes] using ih

/-- `$all vs` = `vs ≠ []` and every `{path: {$eq: v}}`, `v ∈ vs`, holds (for EVERY document) -/
theorem matchAll_bool (d : Doc) (path : String) (vs : List V) :
    matchAll d path (.arr vs) =
      toRes (!vs.isEmpty && vs.all fun v => unwindAny d path true false (eqPred v)) := by
  unfold matchAll
  by_cases he : vs.isEmpty = true
  · simp [he, toRes, notMatched]
  · simp only [he, Bool.false_eq_true, ↓reduceIte, Bool.not_false, Bool.true_and]
    exact allLoop_toRes d path vs

/-- equal values are of the same class: the bracketed and the plain equality test coincide -/
theorem cmpHolds_eq (v l : V) : cmpHolds .eq v l = (V.cmp l v == .eq) := by
  have hr : CmpOp.eq.rel (V.cmp l v) = (V.cmp l v == .eq) := rfl
  unfold cmpHolds
  rw [hr]
  cases h : V.cmp l v == .eq with
  | false => exact Bool.and_false _
  | true => rw [cmp_eq_cls' l v (by simpa using h)]; rfl

theorem matchAll_agrees {d : Doc} {path : String} (hd : PathDom d path) (vs : List V)
    (hfan : fans (.doc d) (splitPath path) = true → vs.all scalarOperand = true) :
    matchAll d path (.arr vs) =
      toRes (!vs.isEmpty && vs.all fun v => (leafs d (splitPath path)).any fun l => V.cmp l v == .eq) := by
  rw [matchAll_bool]
  congr 2
  apply all_congr_mem
  intro v hv
  have key := cmp_core hd v CmpOp.eq.rel (fun hf => List.all_eq_true.mp (hfan hf) v hv)
  refine Eq.trans key ?_
  apply any_congr_mem
  intro l _
  exact cmpHolds_eq v l

end Lungo
