/-
  Upload-side invariants of the GridFS model: Write/upload/Close/Abort/Suspend/Resume.
-/
import Lungo.Proofs.GridFSChunks
namespace Lungo.GridFS
open Lungo.Spec

/-! ### store lemmas -/

theorem insertChunks_mkDocs (id : Nat) : ∀ (D : List Bytes) (k : Nat) (st : Store),
    (∀ d ∈ st.chunks, d.file = id → d.n < k) →
    st.insertChunks (mkDocs id k D) = ({ st with chunks := st.chunks ++ mkDocs id k D }, none) := by
  intro D
  induction D with
  | nil => intro k st _; simp [mkDocs, Store.insertChunks]
  | cons a D ih =>
    intro k st h
    simp only [mkDocs, Store.insertChunks]
    have hno : st.hasChunk id k = false := by
      simp only [Store.hasChunk, List.any_eq_false, Bool.and_eq_true, beq_iff_eq, not_and]
      intro d hd hf hn
      have := h d hd hf
      omega
    rw [hno]
    simp only [Bool.false_eq_true, if_false]
    rw [ih (k + 1)]
    · simp [List.append_assoc]
    · intro d hd hf
      simp only [List.mem_append, List.mem_singleton] at hd
      rcases hd with hd | hd
      · have := h d hd hf; omega
      · subst hd; simp

theorem ite_insertChunks (st : Store) (docs : List ChunkDoc) :
    (if docs.isEmpty then (st, none) else st.insertChunks docs) = st.insertChunks docs := by
  cases docs <;> simp [Store.insertChunks]

theorem findMarker_none_of (st : Store) (id : Nat) (h : ∀ m ∈ st.markers, m.file ≠ id) :
    st.findMarker id = none := by
  simp only [Store.findMarker, List.find?_eq_none, beq_iff_eq]
  intro m hm; exact h m hm

theorem pairwise_mkDocs (id : Nat) : ∀ (D : List Bytes) (k : Nat),
    List.Pairwise (fun a b : ChunkDoc => decide (a.n ≤ b.n) = true) (mkDocs id k D) := by
  intro D
  induction D with
  | nil => intro k; simp [mkDocs]
  | cons a D ih =>
    intro k
    simp only [mkDocs, List.pairwise_cons]
    refine ⟨?_, ih (k + 1)⟩
    intro b hb
    have := mem_mkDocs id D (k + 1) b hb
    simp; omega

/-- `Find({files_id: id}).sort({n: 1})` returns exactly the documents appended for the file -/
theorem chunksOfFile_eq (st : Store) (C0 : List ChunkDoc) (id : Nat) (D : List Bytes)
    (h : st.chunks = C0 ++ mkDocs id 0 D) (hC0 : ∀ d ∈ C0, d.file ≠ id) :
    st.chunksOfFile id = mkDocs id 0 D := by
  unfold Store.chunksOfFile
  rw [h, List.filter_append]
  have h1 : C0.filter (fun d => d.file == id) = [] := by
    rw [List.filter_eq_nil_iff]
    intro d hd; simp [hC0 d hd]
  have h2 : (mkDocs id 0 D).filter (fun d => d.file == id) = mkDocs id 0 D := by
    rw [List.filter_eq_self]
    intro d hd; simp [(mem_mkDocs id D 0 d hd).1]
  rw [h1, h2, List.nil_append]
  exact List.mergeSort_of_pairwise (pairwise_mkDocs id D 0)

/-! ### the invariant of an open upload stream

  `C0`, `F0`, `Mb` are the chunk, file and marker documents of *other* files; `P` is the content
  accepted so far (persisted chunks `D` followed by the buffer). -/

structure UpInv (C0 : List ChunkDoc) (F0 : List FileDoc) (Mb : List Marker) (id c B : Nat) (tracked : Bool)
    (st : Store) (s : UploadStream) (P : Bytes) (D : List Bytes) : Prop where
  closed : s.closed = false
  sid : s.id = id
  sc : s.chunkSize = c
  sB : s.bufCap = B
  str : s.tracked = tracked
  chunks : st.chunks = C0 ++ mkDocs id 0 D
  files : st.files = F0
  flat : D.flatten ++ s.buffer = P
  cnt : s.chunks = D.length
  len : s.length = D.flatten.length
  mark : (s.marker = none ∧ st.markers = Mb) ∨
         (tracked = true ∧ ∃ mid, s.marker = some mid ∧ st.markers = Mb ++ [⟨mid, id, .uploading, 0, c⟩] ∧
            ∀ m ∈ Mb, m.id ≠ mid)
  fresh : ∀ m ∈ st.markers, m.id < st.nextId
  trk : tracked = true → s.marker = none → D = []

/-- side conditions on the rest of the store -/
structure Env (C0 : List ChunkDoc) (Mb : List Marker) (id c B : Nat) : Prop where
  hc : 0 < c
  hcB : c ≤ B
  hC0 : ∀ d ∈ C0, d.file ≠ id
  hMb : ∀ m ∈ Mb, m.file ≠ id

section
variable {C0 : List ChunkDoc} {F0 : List FileDoc} {Mb : List Marker} {id c B : Nat} {tracked : Bool}

/-- result of the marker part of upload() -/
theorem ensureMarker_ok (env : Env C0 Mb id c B) {st : Store} {s : UploadStream} {P : Bytes} {D : List Bytes}
    (inv : UpInv C0 F0 Mb id c B tracked st s P D) :
    (s.ensureMarker st).2.2 = none ∧
    UpInv C0 F0 Mb id c B tracked (s.ensureMarker st).1 (s.ensureMarker st).2.1 P D ∧
    (tracked = true → (s.ensureMarker st).2.1.marker.isSome) ∧
    (s.ensureMarker st).2.1.buffer = s.buffer := by
  unfold UploadStream.ensureMarker
  by_cases hm : s.marker.isNone ∧ s.tracked = true
  · rw [if_pos hm]
    obtain ⟨hm1, hm2⟩ := hm
    have hnone : s.marker = none := by simpa using hm1
    have htr : tracked = true := by rw [← inv.str]; exact hm2
    have hmk : st.markers = Mb := by
      rcases inv.mark with ⟨_, h⟩ | ⟨_, mid, h, _⟩
      · exact h
      · rw [hnone] at h; cases h
    have hfind : ({ st with nextId := st.nextId + 1 } : Store).findMarker s.id = none := by
      apply findMarker_none_of
      intro m hm
      have : m ∈ Mb := by rw [← hmk]; exact hm
      rw [inv.sid]; exact env.hMb m this
    simp only [Store.insertMarker, hfind, Option.isSome_none, Bool.false_eq_true, if_false]
    refine ⟨by trivial, ?_, fun _ => by trivial, by trivial⟩
    exact {
      closed := inv.closed, sid := inv.sid, sc := inv.sc, sB := inv.sB, str := inv.str
      chunks := inv.chunks, files := inv.files, flat := inv.flat
      cnt := inv.cnt, len := inv.len
      mark := Or.inr ⟨htr, st.nextId, rfl, by simp [hmk, inv.sid, inv.sc], by
        intro m hm
        have : m ∈ st.markers := by rw [hmk]; exact hm
        have := inv.fresh m this
        omega⟩
      fresh := by
        intro m hm
        simp only [List.mem_append, List.mem_singleton] at hm
        rcases hm with hm | hm
        · have := inv.fresh m hm; simp; omega
        · subst hm; simp
      trk := by intro _ h; simp at h }
  · rw [if_neg hm]
    refine ⟨rfl, inv, ?_, rfl⟩
    intro htr
    rcases inv.mark with ⟨h, _⟩ | ⟨_, mid, h, _⟩
    · exfalso; apply hm; rw [h, inv.str, htr]; simp
    · simp [h]

/-- upload(final): when the cut pieces `r.1` are appended to the persisted chunks -/
theorem upload_ok (env : Env C0 Mb id c B) {st : Store} {s : UploadStream} {P : Bytes} {D : List Bytes}
    (inv : UpInv C0 F0 Mb id c B tracked st s P D) (final : Bool)
    (hflat : (cut c final (s.buffer.length + 1) s.buffer).1.flatten ++ (cut c final (s.buffer.length + 1) s.buffer).2 = s.buffer) :
    (s.upload st final).2.2 = none ∧
    UpInv C0 F0 Mb id c B tracked (s.upload st final).1 (s.upload st final).2.1 P
      (D ++ (cut c final (s.buffer.length + 1) s.buffer).1) ∧
    (s.upload st final).2.1.buffer = (cut c final (s.buffer.length + 1) s.buffer).2 ∧
    (tracked = true → (s.upload st final).2.1.marker.isSome) := by
  obtain ⟨h1, inv1, h3, h4⟩ := ensureMarker_ok env inv
  have hins : (s.ensureMarker st).1.insertChunks (mkDocs id D.length (cut c final (s.buffer.length + 1) s.buffer).1)
      = ({ (s.ensureMarker st).1 with chunks := (s.ensureMarker st).1.chunks ++ mkDocs id D.length (cut c final (s.buffer.length + 1) s.buffer).1 }, none) := by
    apply insertChunks_mkDocs
    intro d hd hf
    rw [inv1.chunks] at hd
    rcases List.mem_append.mp hd with hd | hd
    · exact absurd hf (env.hC0 d hd)
    · have := mem_mkDocs id D 0 d hd; omega
  unfold UploadStream.upload
  simp only [ite_insertChunks]
  simp only [inv.sc, inv.sid, inv.cnt, h1, hins]
  refine ⟨by trivial, ?_, by trivial, h3⟩
  exact {
    closed := inv1.closed, sid := inv1.sid, sc := inv1.sc, sB := inv1.sB, str := inv1.str
    chunks := by
      simp only [inv1.chunks, List.append_assoc]
      rw [mkDocs_append]; simp
    files := inv1.files
    flat := by
      simp only [List.flatten_append, List.append_assoc]
      rw [hflat]; exact inv.flat
    cnt := by simp
    len := by simp [inv.len]
    mark := inv1.mark
    fresh := inv1.fresh
    trk := by
      intro htr hnone
      have := h3 htr
      rw [hnone] at this; simp at this }

def AllFull (c : Nat) (D : List Bytes) : Prop := ∀ d ∈ D, d.length = c

/-- appending to the buffer keeps the invariant -/
theorem UpInv.push {st : Store} {s : UploadStream} {P : Bytes} {D : List Bytes}
    (inv : UpInv C0 F0 Mb id c B tracked st s P D) (x : Bytes) :
    UpInv C0 F0 Mb id c B tracked st { s with buffer := s.buffer ++ x } (P ++ x) D :=
  { closed := inv.closed, sid := inv.sid, sc := inv.sc, sB := inv.sB, str := inv.str
    chunks := inv.chunks, files := inv.files
    flat := by simp only [← List.append_assoc]; rw [inv.flat]
    cnt := inv.cnt, len := inv.len, mark := inv.mark, fresh := inv.fresh, trk := inv.trk }

/-- upload(false) on a consistent stream -/
theorem upload_false_ok (env : Env C0 Mb id c B) {st : Store} {s : UploadStream} {P : Bytes} {D : List Bytes}
    (inv : UpInv C0 F0 Mb id c B tracked st s P D) (hD : AllFull c D) :
    ∃ D', AllFull c D' ∧ (s.upload st false).2.2 = none ∧
      UpInv C0 F0 Mb id c B tracked (s.upload st false).1 (s.upload st false).2.1 P D' ∧
      (s.upload st false).2.1.buffer.length < c ∧
      (tracked = true → (s.upload st false).2.1.marker.isSome) := by
  obtain ⟨h1, h2, h3⟩ := cut_false c env.hc (s.buffer.length + 1) s.buffer (by omega)
  obtain ⟨a, b, c', d⟩ := upload_ok env inv false h1
  refine ⟨_, ?_, a, b, by rw [c']; exact h3, d⟩
  intro x hx
  rcases List.mem_append.mp hx with hx | hx
  · exact hD x hx
  · exact h2 x hx

/-- the loop of Write accepts all the data -/
theorem writeLoop_ok (env : Env C0 Mb id c B) : ∀ (fuel : Nat) (data : Bytes) (written : Nat) (st : Store)
    (s : UploadStream) (P : Bytes) (D : List Bytes),
    UpInv C0 F0 Mb id c B tracked st s P D → AllFull c D → s.buffer.length < B → data.length < fuel →
    ∃ D', AllFull c D' ∧ (writeLoop fuel st s data written).2.2.2 = none ∧
      (writeLoop fuel st s data written).2.2.1 = written + data.length ∧
      UpInv C0 F0 Mb id c B tracked (writeLoop fuel st s data written).1 (writeLoop fuel st s data written).2.1 (P ++ data) D' ∧
      (writeLoop fuel st s data written).2.1.buffer.length < B := by
  intro fuel
  induction fuel with
  | zero => intro data written st s P D _ _ _ h; omega
  | succ fuel ih =>
    intro data written st s P D inv hD hb hf
    simp only [writeLoop]
    by_cases h0 : data.length = 0
    · rw [if_pos h0]
      have : data = [] := List.eq_nil_of_length_eq_zero h0
      subst this
      exact ⟨D, hD, rfl, by simp, by simpa using inv, hb⟩
    · rw [if_neg h0]
      have hn : 0 < min (s.bufCap - s.buffer.length) data.length := by
        rw [inv.sB]; omega
      have hn2 : min (s.bufCap - s.buffer.length) data.length ≤ data.length := Nat.min_le_right _ _
      have hn3 : s.buffer.length + min (s.bufCap - s.buffer.length) data.length ≤ B := by
        rw [inv.sB]; omega
      have inv1 := inv.push (data.take (min (s.bufCap - s.buffer.length) data.length))
      have hlen1 : (s.buffer ++ data.take (min (s.bufCap - s.buffer.length) data.length)).length
          = s.buffer.length + min (s.bufCap - s.buffer.length) data.length := by
        simp [List.length_take]
      have hdrop : (data.drop (min (s.bufCap - s.buffer.length) data.length)).length < fuel := by
        simp [List.length_drop]; omega
      have hP : P ++ data.take (min (s.bufCap - s.buffer.length) data.length)
          ++ data.drop (min (s.bufCap - s.buffer.length) data.length) = P ++ data := by
        rw [List.append_assoc, List.take_append_drop]
      have hW : written + min (s.bufCap - s.buffer.length) data.length
          + (data.drop (min (s.bufCap - s.buffer.length) data.length)).length = written + data.length := by
        simp [List.length_drop]; omega
      by_cases hfull : (s.buffer ++ data.take (min (s.bufCap - s.buffer.length) data.length)).length = s.bufCap
      · rw [if_pos hfull]
        obtain ⟨D1, hD1, u1, u2, u3, _⟩ := upload_false_ok env inv1 hD
        generalize hx : UploadStream.upload st { s with buffer := s.buffer ++ data.take (min (s.bufCap - s.buffer.length) data.length) } false = x at u1 u2 u3
        obtain ⟨st2, s2, e⟩ := x
        simp only at u1 u2 u3
        subst u1
        simp only
        have := ih (data.drop (min (s.bufCap - s.buffer.length) data.length))
          (written + min (s.bufCap - s.buffer.length) data.length) st2 s2 _ D1 u2 hD1
          (by have := env.hcB; omega) hdrop
        rw [hP, hW] at this
        exact this
      · rw [if_neg hfull]
        have := ih (data.drop (min (s.bufCap - s.buffer.length) data.length))
          (written + min (s.bufCap - s.buffer.length) data.length) st _ _ D inv1 hD
          (by rw [hlen1]; rw [hlen1, inv.sB] at hfull; omega) hdrop
        rw [hP, hW] at this
        exact this

/-- Write on a consistent open stream accepts all the data and keeps the invariant -/
theorem write_ok (env : Env C0 Mb id c B) {st : Store} {s : UploadStream} {P : Bytes} {D : List Bytes}
    (inv : UpInv C0 F0 Mb id c B tracked st s P D) (hD : AllFull c D) (hb : s.buffer.length < B) (data : Bytes) :
    ∃ D', AllFull c D' ∧ (s.write st data).2.2.2 = none ∧ (s.write st data).2.2.1 = data.length ∧
      UpInv C0 F0 Mb id c B tracked (s.write st data).1 (s.write st data).2.1 (P ++ data) D' ∧
      (s.write st data).2.1.buffer.length < B := by
  unfold UploadStream.write
  rw [inv.closed]
  simp only [Bool.false_eq_true, if_false]
  have := writeLoop_ok env (data.length + 1) data 0 st s P D inv hD hb (by omega)
  simpa using this

/-- all writes of a partition -/
theorem writeAll_ok (env : Env C0 Mb id c B) : ∀ (ws : List Bytes) (st : Store) (s : UploadStream) (P : Bytes) (D : List Bytes),
    UpInv C0 F0 Mb id c B tracked st s P D → AllFull c D → s.buffer.length < B →
    ∃ D', AllFull c D' ∧ (writeAll st s ws).2.2 = none ∧
      UpInv C0 F0 Mb id c B tracked (writeAll st s ws).1 (writeAll st s ws).2.1 (P ++ ws.flatten) D' ∧
      (writeAll st s ws).2.1.buffer.length < B := by
  intro ws
  induction ws with
  | nil => intro st s P D inv hD hb; exact ⟨D, hD, rfl, by simpa [writeAll] using inv, hb⟩
  | cons w ws ih =>
    intro st s P D inv hD hb
    obtain ⟨D1, hD1, w1, _, w3, w4⟩ := write_ok env inv hD hb w
    simp only [writeAll]
    generalize hx : s.write st w = x at w1 w3 w4
    obtain ⟨st2, s2, n, e⟩ := x
    simp only at w1 w3 w4
    subst w1
    simp only
    have := ih st2 s2 _ D1 w3 hD1 w4
    simpa [List.append_assoc] using this

/-- a new upload stream on a store without documents of the file -/
theorem UpInv.init (st : Store) (hC : st.chunks = C0) (hF : st.files = F0) (hM : st.markers = Mb)
    (hfresh : ∀ m ∈ st.markers, m.id < st.nextId) :
    UpInv C0 F0 Mb id c B tracked st (UploadStream.new tracked id c B) [] [] :=
  { closed := rfl, sid := rfl, sc := rfl, sB := rfl, str := rfl
    chunks := by simp [mkDocs, hC], files := hF, flat := rfl, cnt := rfl, len := rfl
    mark := Or.inl ⟨rfl, hM⟩, fresh := hfresh, trk := fun _ _ => rfl }

/-- the flush at the beginning of Close -/
theorem close_flush (env : Env C0 Mb id c B) {st : Store} {s : UploadStream} {P : Bytes} {D : List Bytes}
    (inv : UpInv C0 F0 Mb id c B tracked st s P D) (hD : AllFull c D) :
    (if s.buffer.length > 0 ∨ (s.tracked = true ∧ s.marker.isNone) then s.upload st true else (st, s, none)).2.2 = none ∧
    UpInv C0 F0 Mb id c B tracked
      (if s.buffer.length > 0 ∨ (s.tracked = true ∧ s.marker.isNone) then s.upload st true else (st, s, none)).1
      (if s.buffer.length > 0 ∨ (s.tracked = true ∧ s.marker.isNone) then s.upload st true else (st, s, none)).2.1
      P (chunksOf c P) ∧
    (if s.buffer.length > 0 ∨ (s.tracked = true ∧ s.marker.isNone) then s.upload st true else (st, s, none)).2.1.buffer = [] ∧
    (tracked = true →
      (if s.buffer.length > 0 ∨ (s.tracked = true ∧ s.marker.isNone) then s.upload st true else (st, s, none)).2.1.marker.isSome) := by
  have hP : D ++ chunksOf c s.buffer = chunksOf c P := by
    rw [chunksOf_append_full c env.hc D s.buffer hD, inv.flat]
  by_cases h : s.buffer.length > 0 ∨ (s.tracked = true ∧ s.marker.isNone)
  · rw [if_pos h]
    have hcut := cut_true c env.hc (s.buffer.length + 1) s.buffer (by omega)
    have hflat : (cut c true (s.buffer.length + 1) s.buffer).1.flatten ++ (cut c true (s.buffer.length + 1) s.buffer).2 = s.buffer := by
      rw [hcut]; simp [flatten_chunksOf c env.hc s.buffer.length s.buffer (Nat.le_refl _)]
    obtain ⟨a, b, c', d⟩ := upload_ok env inv true hflat
    rw [hcut] at b c'
    rw [hP] at b
    exact ⟨a, b, c', d⟩
  · rw [if_neg h]
    have hb : s.buffer = [] := List.eq_nil_of_length_eq_zero (by omega)
    rw [hb, chunksOf_nil, List.append_nil] at hP
    refine ⟨rfl, by rw [← hP]; exact inv, hb, ?_⟩
    intro htr
    rcases inv.mark with ⟨hm, _⟩ | ⟨_, mid, hm, _⟩
    · exfalso; apply h; right; rw [inv.str, hm]; exact ⟨htr, rfl⟩
    · simp [hm]

theorem findFile_none_of (st : Store) (id : Nat) (h : ∀ f ∈ st.files, f.id ≠ id) : st.findFile id = none := by
  simp only [Store.findFile, List.find?_eq_none, beq_iff_eq]
  intro f hf; exact h f hf

theorem UpInv.length_eq {st : Store} {s : UploadStream} {P : Bytes} {D : List Bytes}
    (inv : UpInv C0 F0 Mb id c B tracked st s P D) (hb : s.buffer = []) : s.length = P.length := by
  rw [inv.len, ← inv.flat, hb, List.append_nil]

/-- Close on an untracked bucket: the chunks are the spec chunking, the file record is exact -/
theorem close_untracked_ok (env : Env C0 Mb id c B) {st : Store} {s : UploadStream} {P : Bytes} {D : List Bytes}
    (inv : UpInv C0 F0 Mb id c B false st s P D) (hD : AllFull c D) (hF0 : ∀ f ∈ F0, f.id ≠ id) :
    (s.close st).2.2 = none ∧ (s.close st).1.chunks = C0 ++ mkDocs id 0 (chunksOf c P) ∧
    (s.close st).1.files = F0 ++ [⟨id, P.length, c⟩] ∧ (s.close st).1.markers = Mb ∧
    (s.close st).2.1.closed = true := by
  obtain ⟨f1, f2, f3, _⟩ := close_flush env inv hD
  unfold UploadStream.close
  rw [inv.closed]
  simp only [Bool.false_eq_true, if_false]
  generalize hx : (if s.buffer.length > 0 ∨ (s.tracked = true ∧ s.marker.isNone) then s.upload st true else (st, s, none)) = x at f1 f2 f3
  obtain ⟨st2, s2, e⟩ := x
  simp only at f1 f2 f3
  subst f1
  simp only [f2.str, Bool.false_eq_true, if_false]
  have hfind : st2.findFile s2.id = none := by
    apply findFile_none_of
    rw [f2.files, f2.sid]; exact hF0
  have hmk : st2.markers = Mb := by
    rcases f2.mark with ⟨_, h⟩ | ⟨h, _⟩
    · exact h
    · cases h
  simp only [Store.insertFile, hfind, Option.isSome_none, Bool.false_eq_true, if_false]
  refine ⟨by trivial, f2.chunks, ?_, hmk, by trivial⟩
  simp [f2.files, f2.sid, f2.sc, f2.length_eq f3]

end

/-- open; Write each piece; Close on an untracked bucket -/
theorem uploadAll_untracked (st : Store) (id c B : Nat) (hc : 0 < c) (hcB : c ≤ B)
    (hC : ∀ d ∈ st.chunks, d.file ≠ id) (hF : ∀ f ∈ st.files, f.id ≠ id) (hM : ∀ m ∈ st.markers, m.file ≠ id)
    (hfresh : ∀ m ∈ st.markers, m.id < st.nextId) (ws : List Bytes) :
    (uploadAll st false id c B ws).2 = none ∧
    (uploadAll st false id c B ws).1.chunks = st.chunks ++ mkDocs id 0 (chunksOf c ws.flatten) ∧
    (uploadAll st false id c B ws).1.files = st.files ++ [⟨id, ws.flatten.length, c⟩] ∧
    (uploadAll st false id c B ws).1.markers = st.markers := by
  have env : Env st.chunks st.markers id c B := ⟨hc, hcB, hC, hM⟩
  have inv0 : UpInv st.chunks st.files st.markers id c B false st (UploadStream.new false id c B) [] [] :=
    UpInv.init st rfl rfl rfl hfresh
  obtain ⟨D, hD, w1, w2, _⟩ := writeAll_ok env ws st _ [] [] inv0 (by intro d hd; cases hd)
    (by show (0 : Nat) < B; omega)
  unfold uploadAll
  generalize hx : writeAll st (UploadStream.new false id c B) ws = x at w1 w2
  obtain ⟨st2, s2, e⟩ := x
  simp only at w1 w2
  subst w1
  simp only [List.nil_append] at w2 ⊢
  obtain ⟨c1, c2, c3, c4, _⟩ := close_untracked_ok env w2 hD hF
  exact ⟨c1, c2, c3, c4⟩

end Lungo.GridFS
