/-
  Lungo.Proofs.ReplayLaws — C08 `oplog_faithful`: reading back the events written by
  `Transaction.append`, the pointwise form of replay, and per-method faithfulness.
-/
import Lungo.Spec.Replay
import Lungo.Proofs.OplogSteps
import Lungo.Proofs.BeqLaws
import Lungo.Proofs.ExpireLaws
namespace Lungo
open Lungo.Spec

/-- what a consumer reads out of the event written for `e` -/
def specChange (e : EvSpec) : Option Change :=
  let key : V := match e.doc with
    | some d => Get d "_id"
    | none => .missing
  let full : Option Doc := match e.doc with
    | some d => if e.op == "insert" || e.op == "replace" || e.op == "update" then some d else none
    | none => none
  if e.op == "insert" then full.map (Change.insert e.h key)
  else if e.op == "replace" || e.op == "update" then full.map (Change.set e.h key)
  else if e.op == "delete" then some (.delete e.h key)
  else if e.op == "drop" then some (.drop e.h)
  else if e.op == "dropDatabase" then some (.dropDatabase e.h.db)
  else none

theorem decode_oplogEvent (k : Nat) (e : EvSpec) :
    decodeEvent (oplogEvent k e.h e.op e.doc e.changes) = specChange e := by
  obtain ⟨⟨db, coll⟩, op, doc, ch⟩ := e
  cases doc <;> cases ch <;> by_cases hc : coll = "" <;>
    by_cases ho : (op == "insert" || op == "replace" || op == "update") = true <;>
    simp [decodeEvent, specChange, oplogEvent, getP, Lungo.get, getField, strOr, hc, ho]

/-! ### replay, pointwise per namespace -/

/-- the effect of a change on the document list of namespace `h'` -/
def changeDocs (ch : Change) (h' : Handle) (l : List Doc) : List Doc :=
  match ch with
  | .insert h key doc =>
    if h' = h then (if l.any (fun d => keyOf d == key) then setAt key doc l else l ++ [doc]) else l
  | .set h key doc => if h' = h then setAt key doc l else l
  | .delete h key => if h' = h then l.filter (fun d => !(keyOf d == key)) else l
  | .drop h => if h' = h then [] else l
  | .dropDatabase db => if h'.db = db then [] else l

theorem find?_map_fst {β} (l : List (Handle × β)) (g : Handle × β → Handle × β) (hg : ∀ a, (g a).1 = a.1) (h' : Handle) :
    (l.map g).find? (fun a => a.1 == h') = (l.find? (fun a => a.1 == h')).map g := by
  induction l with
  | nil => rfl
  | cons a r ih =>
    simp only [List.map_cons, List.find?_cons, hg]
    cases (a.1 == h') <;> simp [ih]

theorem upd_docs (c : Contents) (h : Handle) (f : List Doc → List Doc) (h' : Handle) :
    (upd c h f).docs h' = if h' = h then f (c.docs h) else c.docs h' := by
  unfold upd Contents.docs
  split
  · rename_i hany
    rw [find?_map_fst _ _ (fun a => by split <;> rfl)]
    by_cases e : h' = h
    · subst e
      simp only [↓reduceIte]
      cases hf : c.find? (fun a => a.1 == h') with
      | none =>
        rw [List.find?_eq_none] at hf
        rw [List.any_eq_true] at hany
        obtain ⟨a, ha, hah⟩ := hany
        exact absurd hah (hf a ha)
      | some a =>
        have := List.find?_some hf
        simp only [Option.map_some, Option.getD_some, this, ↓reduceIte]
    · simp only [e, ↓reduceIte]
      cases hf : c.find? (fun a => a.1 == h') with
      | none => rfl
      | some a =>
        have h1 := List.find?_some hf
        have h2 : a.1 = h' := by simpa using h1
        have : a.1 ≠ h := by rw [h2]; exact e
        simp [this]
  · rename_i hany
    have hnone : c.find? (fun a => a.1 == h) = none := by
      rw [List.find?_eq_none]
      intro a ha hah
      exact hany (List.any_eq_true.mpr ⟨a, ha, hah⟩)
    rw [List.find?_append]
    by_cases e : h' = h
    · subst e
      simp [hnone]
    · have : (h == h') = false := by simpa using Ne.symm e
      simp only [e, ↓reduceIte]
      cases hf : c.find? (fun a => a.1 == h') with
      | none => simp [List.find?_cons, this]
      | some a => simp

theorem filter_docs (c : Contents) (p : Handle → Bool) (h' : Handle) :
    Contents.docs (c.filter fun hl => p hl.1) h' = if p h' then c.docs h' else [] := by
  unfold Contents.docs
  induction c with
  | nil => simp
  | cons a r ih =>
    by_cases ha : (a.1 == h') = true
    · have e : a.1 = h' := by simpa using ha
      by_cases hp : p a.1 = true
      · simp only [List.filter_cons, hp, ↓reduceIte, List.find?_cons, ha]
        simp [← e, hp]
      · simp only [List.filter_cons, hp, Bool.false_eq_true, ↓reduceIte, List.find?_cons, ha]
        rw [ih]
        rw [e] at hp
        simp [hp]
    · by_cases hp : p a.1 = true
      · simp only [List.filter_cons, hp, ↓reduceIte, List.find?_cons, ha]
        exact ih
      · simp only [List.filter_cons, hp, Bool.false_eq_true, ↓reduceIte, List.find?_cons, ha]
        exact ih

theorem applyChange_docs (c : Contents) (ch : Change) (h' : Handle) :
    (applyChange c ch).docs h' = changeDocs ch h' (c.docs h') := by
  cases ch with
  | insert h key doc => simp only [applyChange, changeDocs, upd_docs]; split <;> simp_all
  | set h key doc => simp only [applyChange, changeDocs, upd_docs]; split <;> simp_all
  | delete h key => simp only [applyChange, changeDocs, upd_docs]; split <;> simp_all
  | drop h =>
    simp only [applyChange, changeDocs]
    rw [filter_docs c (fun x => x != h)]
    by_cases e : h' = h <;> simp [e]
  | dropDatabase db =>
    simp only [applyChange, changeDocs]
    rw [filter_docs c (fun x => x.db != db)]
    by_cases e : h'.db = db <;> simp [e]

/-- replaying the events written for `es` (at any clock) acts per namespace as the fold of their changes -/
theorem replay_evDocs_docs (k : Nat) (es : List EvSpec) (c : Contents) (h' : Handle) :
    (replay (evDocs k es) c).docs h'
      = (es.filterMap specChange).foldl (fun l ch => changeDocs ch h' l) (c.docs h') := by
  induction es generalizing k c with
  | nil => rfl
  | cons e r ih =>
    simp only [evDocs, replay, List.foldl_cons] at ih ⊢
    rw [ih]
    simp only [applyEvent, decode_oplogEvent, List.filterMap_cons]
    cases specChange e with
    | none => rfl
    | some ch => simp only [List.foldl_cons, applyChange_docs]

/-- the documents of namespace `h` of a catalog -/
def docsOf (cat : Catalog) (h : Handle) : List Doc := ((cat.get? h).map fun c => c.docs.map (·.doc)).getD []

theorem contents_docs (cat : Catalog) (h : Handle) :
    (contents cat).docs h = if h = oplogHandle then [] else docsOf cat h := by
  unfold contents Contents.docs docsOf Catalog.get?
  induction cat.namespaces with
  | nil => simp
  | cons a r ih =>
    by_cases ho : a.1 = oplogHandle
    · have : (a.1 != oplogHandle) = false := by simp [ho]
      simp only [List.filter_cons, this, Bool.false_eq_true, ↓reduceIte]
      rw [ih]
      by_cases e : h = oplogHandle
      · simp [e]
      · have : (a.1 == h) = false := by rw [ho]; simpa using Ne.symm e
        simp [e, List.find?_cons, this]
    · have : (a.1 != oplogHandle) = true := by simp [ho]
      simp only [List.filter_cons, this, ↓reduceIte, List.map_cons, List.find?_cons]
      by_cases ha : (a.1 == h) = true
      · have e : a.1 = h := by simpa using ha
        have : h ≠ oplogHandle := e ▸ ho
        simp [ha, this]
      · simp only [ha]
        exact ih

/-! ### faithfulness of catalog transitions -/

/-- the change set `es` replayed on the contents of `cat` gives the contents of `cat'` -/
def Faith (cat cat' : Catalog) (es : List EvSpec) : Prop :=
  ∀ h', h' ≠ oplogHandle →
    docsOf cat' h' = (es.filterMap specChange).foldl (fun l ch => changeDocs ch h' l) (docsOf cat h')

theorem Faith.refl (cat : Catalog) : Faith cat cat [] := fun _ _ => rfl

theorem Faith.trans {a b c : Catalog} {es fs : List EvSpec} (h1 : Faith a b es) (h2 : Faith b c fs) :
    Faith a c (es ++ fs) := by
  intro h' hne
  rw [h2 h' hne, h1 h' hne, List.filterMap_append, List.foldl_append]

theorem docsOf_set (cat : Catalog) (h : Handle) (x : Coll) (h' : Handle) :
    docsOf (cat.set h x) h' = if h' = h then x.docs.map (·.doc) else docsOf cat h' := by
  unfold docsOf
  by_cases e : h' = h
  · subst e; simp [Catalog.get?_set_self]
  · simp [e, Catalog.get?_set_other _ _ _ _ e]

theorem docsOf_appendEvs (cn : Catalog × Nu) (es : List EvSpec) (h' : Handle) (hne : h' ≠ oplogHandle) :
    docsOf (appendEvs cn es).1 h' = docsOf cn.1 h' := by
  unfold docsOf
  rw [appendEvs_get_other _ _ _ hne]

theorem docsOf_appendOplog (c : Catalog) (nu : Nu) (h : Handle) (op : String) (doc : Option Doc)
    (ch : Option (List (String × V))) (h' : Handle) (hne : h' ≠ oplogHandle) :
    docsOf (appendOplog c nu h op doc ch).1 h' = docsOf c h' := by
  unfold docsOf
  rw [appendOplog_get_other _ _ _ _ _ _ _ hne]

/-- an event on namespace `h` (not a dropDatabase) does not touch other namespaces -/
theorem specChange_local (e : EvSpec) (hop : (e.op == "dropDatabase") = false) (h' : Handle) (hne : h' ≠ e.h)
    (ch : Change) (hc : specChange e = some ch) (l : List Doc) : changeDocs ch h' l = l := by
  unfold specChange at hc
  simp only at hc
  split at hc
  · obtain ⟨a, _, rfl⟩ := Option.map_eq_some_iff.mp hc; simp [changeDocs, hne]
  · split at hc
    · obtain ⟨a, _, rfl⟩ := Option.map_eq_some_iff.mp hc; simp [changeDocs, hne]
    · split at hc
      · simp only [Option.some.injEq] at hc; subst hc; simp [changeDocs, hne]
      · split at hc
        · simp only [Option.some.injEq] at hc; subst hc; simp [changeDocs, hne]
        · simp [hop] at hc

theorem fold_local (es : List EvSpec) (h h' : Handle) (hne : h' ≠ h)
    (hloc : ∀ e ∈ es, e.h = h ∧ (e.op == "dropDatabase") = false) (l : List Doc) :
    (es.filterMap specChange).foldl (fun l ch => changeDocs ch h' l) l = l := by
  induction es generalizing l with
  | nil => rfl
  | cons e r ih =>
    have ⟨he, hop⟩ := hloc e (List.mem_cons_self ..)
    simp only [List.filterMap_cons]
    cases hc : specChange e with
    | none => exact ih (fun x hx => hloc x (List.mem_cons_of_mem _ hx)) l
    | some ch =>
      simp only [List.foldl_cons]
      rw [specChange_local e hop h' (he ▸ hne) ch hc]
      exact ih (fun x hx => hloc x (List.mem_cons_of_mem _ hx)) l

/-- a collection-level write on namespace `h`: the namespace is replaced by `coll` and the events `es`
    (all on `h`) are appended; faithful iff replaying `es` on the old documents of `h` gives `coll`'s. -/
theorem Faith.coll_op (cat : Catalog) (h : Handle) (coll : Coll) (nu : Nu) (es : List EvSpec) (hno : h ≠ oplogHandle)
    (hloc : ∀ e ∈ es, e.h = h ∧ (e.op == "dropDatabase") = false)
    (hdocs : coll.docs.map (·.doc) = (es.filterMap specChange).foldl (fun l ch => changeDocs ch h l) (docsOf cat h)) :
    Faith cat (appendEvs (cat.set h coll, nu) es).1 es := by
  intro h' hne
  rw [docsOf_appendEvs _ _ _ hne, docsOf_set]
  by_cases e : h' = h
  · subst e; simp only [↓reduceIte]; exact hdocs
  · simp only [e, ↓reduceIte]
    exact (fold_local es h h' e hloc _).symm

/-- documents of a namespace have pairwise distinct `_id` (structurally) -/
def KeysDistinct (c : Coll) : Prop := c.docs.Pairwise fun a b => keyOf a.doc ≠ keyOf b.doc

theorem docsOf_ensureNs (cat : Catalog) (h : Handle) : docsOf cat h = (ensureNs cat h).docs.map (·.doc) := by
  unfold docsOf ensureNs
  cases cat.get? h <;> simp [newColl]

theorem Coll.insert_docs {sch : SchemaEval} {c c' : Coll} {d : Doc} {nu nu' : Nu} {sd : SDoc}
    (h : c.insert sch d nu = .ok (c', sd, nu')) : c'.docs = c.docs ++ [sd] := by
  unfold Coll.insert at h
  split at h
  · cases h
  · simp only [Nu.fresh] at h
    split at h
    · cases h
    · simp only [Except.ok.injEq, Prod.mk.injEq] at h
      obtain ⟨rfl, rfl, _⟩ := h
      rfl

theorem Coll.upsert_docs {ac : ACtx} {c c' : Coll} {q : Doc} {repl u : Option Doc} {fs : List Doc} {nu nu' : Nu} {sd : SDoc}
    (h : c.upsert ac q repl u fs nu = .ok (c', sd, nu')) : c'.docs = c.docs ++ [sd] := by
  unfold Coll.upsert at h
  split at h
  · cases h
  · simp only at h
    split at h
    · cases h
    · split at h
      · cases h
      · exact Coll.insert_docs h

/-- appending a document whose key is new = replaying its insert event -/
theorem insert_event_docs (h : Handle) (old : List SDoc) (sd : SDoc)
    (hk : ∀ x ∈ old, keyOf x.doc ≠ keyOf sd.doc) :
    (old ++ [sd]).map (·.doc)
      = (([(⟨h, "insert", some sd.doc, none⟩ : EvSpec)]).filterMap specChange).foldl
          (fun l ch => changeDocs ch h l) (old.map (·.doc)) := by
  have hs : specChange ⟨h, "insert", some sd.doc, none⟩ = some (.insert h (Get sd.doc "_id") sd.doc) := by
    simp [specChange]
  simp only [List.filterMap_cons, hs, List.filterMap_nil, List.foldl_cons, List.foldl_nil, changeDocs, ↓reduceIte]
  have : (old.map (·.doc)).any (fun d => keyOf d == Get sd.doc "_id") = false := by
    rw [List.any_eq_false]
    intro d hd
    simp only [List.mem_map] at hd
    obtain ⟨x, hx, rfl⟩ := hd
    have := hk x hx
    rw [Bool.not_eq_true, V.beq_false_iff]
    exact this
  simp [this]

theorem keysDistinct_append {old : List SDoc} {sd : SDoc}
    (hk : (old ++ [sd]).Pairwise fun a b => keyOf a.doc ≠ keyOf b.doc) : ∀ x ∈ old, keyOf x.doc ≠ keyOf sd.doc := by
  rw [List.pairwise_append] at hk
  intro x hx
  exact hk.2.2 x hx sd (by simp)

theorem insertOne_faith {sch : SchemaEval} {cat cat' : Catalog} {h : Handle} {d d' : Doc} {nu nu' : Nu}
    (hno : h ≠ oplogHandle) (hr : insertOne sch cat h d nu = .ok (cat', d', nu'))
    (hk : ∀ c', cat'.get? h = some c' → KeysDistinct c') :
    Faith cat cat' [⟨h, "insert", some d', none⟩] ∧
    ∃ sd, d' = sd.doc ∧ ∃ c', cat'.get? h = some c' ∧ c'.docs = (ensureNs cat h).docs ++ [sd] := by
  unfold insertOne at hr
  split at hr
  · cases hr
  · rename_i coll sd nu1 hins
    simp only [Except.ok.injEq, Prod.mk.injEq] at hr
    obtain ⟨rfl, rfl, _⟩ := hr
    have hdocs := Coll.insert_docs hins
    have hget : (appendOplog (cat.set h coll) nu1 h "insert" (some sd.doc) none).1.get? h = some coll := by
      rw [appendOplog_get_other _ _ _ _ _ _ _ hno, Catalog.get?_set_self]
    refine ⟨?_, sd, rfl, coll, hget, hdocs⟩
    have hkd := hk coll hget
    unfold KeysDistinct at hkd
    rw [hdocs] at hkd
    have := Faith.coll_op cat h coll nu1 [⟨h, "insert", some sd.doc, none⟩] hno
      (by intro e he; simp only [List.mem_singleton] at he; subst he; exact ⟨rfl, by simp⟩)
      (by rw [hdocs, docsOf_ensureNs]; exact insert_event_docs h _ sd (keysDistinct_append hkd))
    exact this

/-- oplog extension and faithful replay with the same event list -/
structure Adv (cat cat' : Catalog) (es : List EvSpec) : Prop where
  ext : Ext cat cat' es
  faith : Faith cat cat' es

theorem Adv.refl (cat : Catalog) : Adv cat cat [] := ⟨Ext.refl cat, Faith.refl cat⟩

theorem Adv.trans {a b c : Catalog} {es fs : List EvSpec} (h1 : Adv a b es) (h2 : Adv b c fs) : Adv a c (es ++ fs) :=
  ⟨h1.ext.trans h2.ext, h1.faith.trans h2.faith⟩

theorem ensureNs_of_get {cat : Catalog} {h : Handle} {c : Coll} (hg : cat.get? h = some c) : ensureNs cat h = c := by
  simp [ensureNs, hg]

theorem insertOne_adv {sch : SchemaEval} {cat cat' : Catalog} {h : Handle} {d d' : Doc} {nu nu' : Nu}
    (hno : h ≠ oplogHandle) (hr : insertOne sch cat h d nu = .ok (cat', d', nu'))
    (hk : KeysDistinct (ensureNs cat' h)) :
    Adv cat cat' [⟨h, "insert", some d', none⟩] ∧ ∃ sd, (ensureNs cat' h).docs = (ensureNs cat h).docs ++ [sd] := by
  have hf := insertOne_faith hno hr (fun c' hg => ensureNs_of_get hg ▸ hk)
  obtain ⟨hfa, sd, _, c', hg, hd⟩ := hf
  exact ⟨⟨insertOne_ext hno hr, hfa⟩, sd, by rw [ensureNs_of_get hg]; exact hd⟩

theorem insert_go_docs (sch : SchemaEval) (h : Handle) (ordered : Bool) (hno : h ≠ oplogHandle) (list : List Doc) :
    ∀ (cat : Catalog) (nu : Nu) (acc : List Doc) (err : Option Err),
      ∃ added, (ensureNs (Txn.insert.go sch h ordered cat nu acc err list).1 h).docs = (ensureNs cat h).docs ++ added := by
  induction list with
  | nil => intro cat nu acc err; exact ⟨[], by simp [Txn.insert.go]⟩
  | cons d r ih =>
    intro cat nu acc err
    rw [Txn.insert.go]
    split
    · cases ordered
      · simp only [Bool.false_eq_true, ↓reduceIte]; exact ih ..
      · simp only [↓reduceIte]; exact ⟨[], by simp⟩
    · rename_i cat1 d1 nu1 hins
      obtain ⟨added, ha⟩ := ih cat1 nu1 (acc ++ [d1]) err
      have h1 : ∃ sd, (ensureNs cat1 h).docs = (ensureNs cat h).docs ++ [sd] := by
        unfold insertOne at hins
        split at hins
        · cases hins
        · rename_i coll sd nu2 hci
          simp only [Except.ok.injEq, Prod.mk.injEq] at hins
          obtain ⟨rfl, _, _⟩ := hins
          refine ⟨sd, ?_⟩
          have : (appendOplog (cat.set h coll) nu2 h "insert" (some sd.doc) none).1.get? h = some coll := by
            rw [appendOplog_get_other _ _ _ _ _ _ _ hno, Catalog.get?_set_self]
          rw [ensureNs_of_get this]
          exact Coll.insert_docs hci
      obtain ⟨sd, hsd⟩ := h1
      exact ⟨sd :: added, by rw [ha, hsd]; simp⟩

theorem insert_go_adv (sch : SchemaEval) (h : Handle) (ordered : Bool) (hno : h ≠ oplogHandle) (list : List Doc) :
    ∀ (cat : Catalog) (nu : Nu) (acc : List Doc) (err : Option Err),
      KeysDistinct (ensureNs (Txn.insert.go sch h ordered cat nu acc err list).1 h) →
      ∃ es, Adv cat (Txn.insert.go sch h ordered cat nu acc err list).1 es := by
  induction list with
  | nil => intro cat nu acc err _; exact ⟨[], by simpa [Txn.insert.go] using Adv.refl cat⟩
  | cons d r ih =>
    intro cat nu acc err
    rw [Txn.insert.go]
    split
    · cases ordered
      · simp only [Bool.false_eq_true, ↓reduceIte]; exact ih _ _ _ _
      · simp only [↓reduceIte]; intro _; exact ⟨[], Adv.refl cat⟩
    · rename_i cat1 d1 nu1 hins
      intro hk
      obtain ⟨es, he⟩ := ih cat1 nu1 (acc ++ [d1]) err hk
      obtain ⟨added, ha⟩ := insert_go_docs sch h ordered hno r cat1 nu1 (acc ++ [d1]) err
      have hk1 : KeysDistinct (ensureNs cat1 h) := by
        unfold KeysDistinct at hk ⊢
        rw [ha] at hk
        exact (List.pairwise_append.mp hk).1
      exact ⟨_, Adv.trans (insertOne_adv hno hins hk1).1 he⟩

theorem Adv.ensure_base (cat : Catalog) (h : Handle) (hno : h ≠ oplogHandle) :
    Adv cat (if (cat.get? h).isSome then cat else cat.set h (newColl true)) [] := by
  split
  · exact Adv.refl _
  · rename_i hn
    refine ⟨Ext.set _ _ _ hno, ?_⟩
    intro h' _
    rw [docsOf_set]
    by_cases e : h' = h
    · subst e
      have : cat.get? h' = none := by
        cases hg : cat.get? h' with
        | none => rfl
        | some _ => simp [hg] at hn
      simp [docsOf, this, newColl]
    · simp [e]

theorem ensureNs_base (cat : Catalog) (h : Handle) :
    ensureNs (if (cat.get? h).isSome then cat else cat.set h (newColl true)) h = ensureNs cat h := by
  split
  · rfl
  · rename_i hn
    have : cat.get? h = none := by
      cases hg : cat.get? h with
      | none => rfl
      | some _ => simp [hg] at hn
    simp [ensureNs, Catalog.get?_set_self, this]

/-- a transaction method either returns the transaction itself or a dirty one that extends the log
    by events whose replay reproduces the new contents -/
def TAdv (t t' : Txn) : Prop := t' = t ∨ (t'.dirty = true ∧ ∃ es, Adv t.catalog t'.catalog es)

theorem Txn.insert_adv {sch : SchemaEval} {t t' : Txn} {h : Handle} {list : List Doc} {ordered : Bool}
    {nu nu' : Nu} {r : TResult} (hr : t.insert sch h list ordered nu = .ok (t', r, nu'))
    (hk : h ≠ oplogHandle → KeysDistinct (ensureNs t'.catalog h)) : TAdv t t' := by
  unfold Txn.insert at hr
  split at hr
  · cases hr
  · rename_i hw
    have hno := writable_not_oplog hw
    replace hk := hk hno
    simp only [Except.ok.injEq, Prod.mk.injEq] at hr
    obtain ⟨rfl, _, _⟩ := hr
    have hb := Adv.ensure_base t.catalog h hno
    have hgo := insert_go_adv sch h ordered hno list
      (if (t.catalog.get? h).isSome then t.catalog else t.catalog.set h (newColl true)) nu [] none
    generalize Txn.insert.go sch h ordered
      (if (t.catalog.get? h).isSome then t.catalog else t.catalog.set h (newColl true)) nu [] none list = g at hgo hk ⊢
    by_cases hm : g.2.2.1.isEmpty = true
    · simp only [hm, ↓reduceIte]; exact .inl rfl
    · simp only [hm, Bool.false_eq_true, ↓reduceIte] at hk ⊢
      obtain ⟨es, he⟩ := hgo hk
      exact .inr ⟨rfl, _, Adv.trans hb he⟩

/-! ### delete -/

theorem filterDocs_mem (sch : SchemaEval) (q : Doc) : ∀ (l0 : List SDoc) (lim : Nat) (l : List SDoc),
    filterDocs sch q lim l0 = .ok l → ∀ x ∈ l, x ∈ l0 := by
  intro l0
  induction l0 with
  | nil => intro lim l h x hx; simp only [filterDocs, Except.ok.injEq] at h; subst h; cases hx
  | cons sd r ih =>
    intro lim l h x hx
    rw [filterDocs] at h
    split at h
    · cases h
    · exact List.mem_cons_of_mem _ (ih _ _ h x hx)
    · split at h
      · simp only [Except.ok.injEq] at h; subst h
        simp only [List.mem_singleton] at hx; subst hx; exact List.mem_cons_self ..
      · split at h
        · cases h
        · rename_i rest hrest
          simp only [Except.ok.injEq] at h; subst h
          rcases List.mem_cons.mp hx with rfl | hx'
          · exact List.mem_cons_self ..
          · exact List.mem_cons_of_mem _ (ih _ _ hrest x hx')

theorem selectDocs_mem {sch : SchemaEval} {c : Coll} {q : Doc} {sort : Option Doc} {skip limit : Int} {l : List SDoc}
    (h : selectDocs sch c q sort skip limit = .ok l) : ∀ x ∈ l, x ∈ c.docs := by
  unfold selectDocs at h
  split at h
  · cases h
  · simp only at h
    split at h
    · cases h
    · rename_i sorted hsorted
      split at h
      · cases h
      · rename_i fl hfl
        simp only [Except.ok.injEq] at h
        subst h
        intro x hx
        have hx1 := filterDocs_mem sch q _ _ _ hfl x (List.mem_of_mem_drop hx)
        split at hsorted
        · split at hsorted
          · simp only [Except.ok.injEq] at hsorted; subst hsorted; exact hx1
          · split at hsorted
            · cases hsorted
            · simp only [Except.ok.injEq] at hsorted; subst hsorted
              exact (List.mergeSort_perm _ _).mem_iff.mp hx1
        · simp only [Except.ok.injEq] at hsorted; subst hsorted; exact hx1

theorem Coll.delete_shape {sch : SchemaEval} {c c' : Coll} {q : Doc} {sort : Option Doc} {skip limit : Int}
    {list : List SDoc} (h : c.delete sch q sort skip limit = .ok (c', list)) :
    (∀ x ∈ list, x ∈ c.docs) ∧ c'.docs = c.docs.filter (fun sd => !(list.any (·.id == sd.id))) := by
  unfold Coll.delete at h
  split at h
  · cases h
  · rename_i l hsel
    split at h
    · cases h
    · simp only [Except.ok.injEq, Prod.mk.injEq] at h
      obtain ⟨rfl, rfl⟩ := h
      exact ⟨selectDocs_mem hsel, rfl⟩

theorem fold_deletes (h : Handle) (list : List SDoc) (L : List Doc) :
    ((list.map fun sd => (⟨h, "delete", some sd.doc, none⟩ : EvSpec)).filterMap specChange).foldl
        (fun l ch => changeDocs ch h l) L
      = L.filter fun d => !(list.any fun x => keyOf d == keyOf x.doc) := by
  induction list generalizing L with
  | nil =>
    simp only [List.map_nil, List.filterMap_nil, List.foldl_nil, List.any_nil, Bool.not_false]
    exact (List.filter_eq_self.mpr (by simp)).symm
  | cons sd r ih =>
    have hs : specChange ⟨h, "delete", some sd.doc, none⟩ = some (.delete h (Get sd.doc "_id")) := by
      simp [specChange]
    have hc : changeDocs (.delete h (Get sd.doc "_id")) h L = L.filter fun d => !(keyOf d == Get sd.doc "_id") := by
      simp [changeDocs]
    simp only [List.map_cons, List.filterMap_cons, hs, List.foldl_cons]
    rw [ih, hc, List.filter_filter]
    apply List.filter_congr
    intro d _
    simp only [List.any_cons, keyOf, Bool.not_or, Bool.and_comm]

theorem key_eq_of_mem {c : Coll} (hk : KeysDistinct c) {x y : SDoc} (hx : x ∈ c.docs) (hy : y ∈ c.docs)
    (e : keyOf x.doc = keyOf y.doc) : x = y := by
  unfold KeysDistinct at hk
  generalize c.docs = l at *
  induction l with
  | nil => cases hx
  | cons a r ih =>
    rw [List.pairwise_cons] at hk
    rcases List.mem_cons.mp hx with rfl | hx' <;> rcases List.mem_cons.mp hy with rfl | hy'
    · rfl
    · exact absurd e (hk.1 y hy')
    · exact absurd e.symm (hk.1 x hx')
    · exact ih hk.2 hx' hy'

/-- removing by identity = removing by key, for a coherent collection -/
theorem delete_docs_by_key {c : Coll} (hid : DocIdsDistinct c) (hk : KeysDistinct c) (list : List SDoc)
    (hsub : ∀ x ∈ list, x ∈ c.docs) :
    (c.docs.filter fun sd => !(list.any (·.id == sd.id))).map (·.doc)
      = (c.docs.map (·.doc)).filter fun d => !(list.any fun x => keyOf d == keyOf x.doc) := by
  rw [List.filter_map]
  congr 1
  apply List.filter_congr
  intro sd hsd
  simp only [Function.comp]
  congr 1
  cases h1 : list.any (fun x => x.id == sd.id) with
  | true =>
    rw [List.any_eq_true] at h1
    obtain ⟨x, hx, hxid⟩ := h1
    have : x = sd := sdoc_eq_of_id hid (hsub x hx) hsd (by simpa using hxid)
    symm; rw [List.any_eq_true]
    exact ⟨x, hx, by rw [this]; exact (V.beq_iff _ _).mpr rfl⟩
  | false =>
    symm; rw [List.any_eq_false]
    intro x hx hkx
    have hke : keyOf sd.doc = keyOf x.doc := (V.beq_iff _ _).mp hkx
    have : sd = x := key_eq_of_mem hk hsd (hsub x hx) hke
    rw [List.any_eq_false] at h1
    exact h1 x hx (by simp [this])

theorem deleteOp_adv {sch : SchemaEval} {cat cat' : Catalog} {h : Handle} {q : Doc} {sort : Option Doc}
    {skip limit : Int} {nu nu' : Nu} {res : TResult}
    (hno : h ≠ oplogHandle) (hid : DocIdsDistinct (ensureNs cat h)) (hk : KeysDistinct (ensureNs cat h))
    (hr : deleteOp sch cat h q sort skip limit nu = .ok (cat', res, nu')) : ∃ es, Adv cat cat' es := by
  unfold deleteOp at hr
  simp only at hr
  split at hr
  · cases hr
  · rename_i coll list hdel
    simp only [Except.ok.injEq, Prod.mk.injEq] at hr
    obtain ⟨rfl, _, _⟩ := hr
    obtain ⟨hsub, hdocs⟩ := Coll.delete_shape hdel
    have hf := foldl_appendOplog list (fun sd => (⟨h, "delete", some sd.doc, none⟩ : EvSpec)) (cat.set h coll, nu)
    simp only at hf
    rw [hf]
    refine ⟨_, Ext.trans (Ext.set cat h coll hno) (Ext.appendEvs (cat.set h coll, nu) _), ?_⟩
    apply Faith.coll_op cat h coll nu _ hno
    · intro e he
      simp only [List.mem_map] at he
      obtain ⟨sd, _, rfl⟩ := he
      exact ⟨rfl, by simp⟩
    · rw [fold_deletes, docsOf_ensureNs, hdocs]
      exact delete_docs_by_key hid hk list hsub

theorem Txn.delete_adv {sch : SchemaEval} {t t' : Txn} {h : Handle} {q : Doc} {sort : Option Doc}
    {skip limit : Int} {nu nu' : Nu} {r : TResult}
    (hok : h ≠ oplogHandle → DocIdsDistinct (ensureNs t.catalog h) ∧ KeysDistinct (ensureNs t.catalog h))
    (hr : t.delete sch h q sort skip limit nu = .ok (t', r, nu')) : TAdv t t' := by
  unfold Txn.delete at hr
  split at hr
  · cases hr
  · rename_i hw
    have hno := writable_not_oplog hw
    obtain ⟨hid, hk⟩ := hok hno
    split at hr
    · simp only [Except.ok.injEq, Prod.mk.injEq] at hr; exact .inl hr.1.symm
    · split at hr
      · cases hr
      · rename_i cat res nu1 hop
        split at hr
        · simp only [Except.ok.injEq, Prod.mk.injEq] at hr
          obtain ⟨rfl, _, _⟩ := hr
          exact .inr ⟨rfl, deleteOp_adv hno hid hk hop⟩
        · simp only [Except.ok.injEq, Prod.mk.injEq] at hr; exact .inl hr.1.symm

/-! ### writes that leave the documents alone; drop; expire -/

/-- replacing a namespace by a collection with the same documents changes no contents -/
theorem Adv.same_docs (cat : Catalog) (h : Handle) (coll : Coll) (hno : h ≠ oplogHandle)
    (hd : coll.docs = (ensureNs cat h).docs) : Adv cat (cat.set h coll) [] := by
  refine ⟨Ext.set _ _ _ hno, ?_⟩
  intro h' _
  rw [docsOf_set]
  by_cases e : h' = h
  · subst e; simp [docsOf_ensureNs, hd]
  · simp [e]

theorem Txn.create_adv {t t' : Txn} {h : Handle} (hr : t.create h = .ok t') : TAdv t t' := by
  unfold Txn.create at hr
  split at hr
  · cases hr
  · rename_i hw
    split at hr
    · simp only [Except.ok.injEq] at hr; exact .inl hr.symm
    · rename_i hn
      simp only [Except.ok.injEq] at hr
      subst hr
      refine .inr ⟨rfl, _, Adv.same_docs _ _ _ (writable_not_oplog hw) ?_⟩
      have : t.catalog.get? h = none := by
        cases hg : t.catalog.get? h with
        | none => rfl
        | some _ => simp [hg] at hn
      simp [ensureNs, this]

theorem Coll.createIndex_docs {sch : SchemaEval} {c c' : Coll} {name name' : String} {cfg : IndexConfig}
    (h : c.createIndex sch name cfg = .ok (c', name')) : c'.docs = c.docs := by
  unfold Coll.createIndex at h
  simp only at h
  repeat' split at h
  all_goals first
    | (simp only [Except.ok.injEq, Prod.mk.injEq] at h; obtain ⟨rfl, _⟩ := h; rfl)
    | cases h

theorem Txn.createIndex_adv {sch : SchemaEval} {t t' : Txn} {h : Handle} {name name' : String} {cfg : IndexConfig}
    (hr : t.createIndex sch h name cfg = .ok (t', name')) : TAdv t t' := by
  unfold Txn.createIndex at hr
  split at hr
  · cases hr
  · rename_i hw
    split at hr
    · cases hr
    · rename_i coll nm hci
      simp only [Except.ok.injEq, Prod.mk.injEq] at hr
      obtain ⟨rfl, _⟩ := hr
      exact .inr ⟨rfl, _, Adv.same_docs _ _ _ (writable_not_oplog hw) (Coll.createIndex_docs hci)⟩

theorem Coll.dropIndex_docs {c c' : Coll} {name : String} {dropped : List String}
    (h : c.dropIndex name = .ok (c', dropped)) : c'.docs = c.docs := by
  unfold Coll.dropIndex at h
  split at h
  · split at h
    · cases h
    · split at h
      · cases h
      · simp only [Except.ok.injEq, Prod.mk.injEq] at h; rw [← h.1]
  · simp only [Except.ok.injEq, Prod.mk.injEq] at h; rw [← h.1]

theorem Txn.dropIndex_adv {t t' : Txn} {h : Handle} {name : String} (hr : t.dropIndex h name = .ok t') : TAdv t t' := by
  unfold Txn.dropIndex at hr
  split at hr
  · cases hr
  · rename_i hw
    split at hr
    · cases hr
    · rename_i c hc
      split at hr
      · cases hr
      · rename_i coll dropped hdi
        split at hr
        · simp only [Except.ok.injEq] at hr; exact .inl hr.symm
        · simp only [Except.ok.injEq] at hr
          subst hr
          refine .inr ⟨rfl, _, Adv.same_docs _ _ _ (writable_not_oplog hw) ?_⟩
          rw [Coll.dropIndex_docs hdi, ensureNs_of_get hc]

theorem Txn.dropIndexByKey_adv {t t' : Txn} {h : Handle} {key : Doc} (hr : t.dropIndexByKey h key = .ok t') : TAdv t t' := by
  unfold Txn.dropIndexByKey at hr
  split at hr
  · cases hr
  · split at hr
    · cases hr
    · split at hr
      · cases hr
      · exact Txn.dropIndex_adv hr

theorem find?_filter_key {β} (l : List (Handle × β)) (p : Handle → Bool) (h' : Handle) :
    (l.filter fun a => p a.1).find? (fun a => a.1 == h') = if p h' then l.find? (fun a => a.1 == h') else none := by
  induction l with
  | nil => simp
  | cons a r ih =>
    by_cases ha : (a.1 == h') = true
    · have e : a.1 = h' := by simpa using ha
      by_cases hp : p a.1 = true
      · simp only [List.filter_cons, hp, ↓reduceIte, List.find?_cons, ha]
        simp [← e, hp]
      · simp only [List.filter_cons, hp, Bool.false_eq_true, ↓reduceIte, List.find?_cons, ha]
        rw [ih]
        rw [e] at hp
        simp [hp]
    · by_cases hp : p a.1 = true
      · simp only [List.filter_cons, hp, ↓reduceIte, List.find?_cons, ha]
        exact ih
      · simp only [List.filter_cons, hp, Bool.false_eq_true, ↓reduceIte, List.find?_cons, ha]
        exact ih

theorem docsOf_filter (cat : Catalog) (p : Handle → Bool) (h' : Handle) :
    docsOf { cat with namespaces := cat.namespaces.filter fun a => p a.1 } h' = if p h' then docsOf cat h' else [] := by
  unfold docsOf Catalog.get?
  simp only
  rw [find?_filter_key]
  split <;> simp

theorem fold_drops (dropped : List Handle) (h' : Handle) (L : List Doc) :
    ((dropped.map fun ns => (⟨ns, "drop", none, none⟩ : EvSpec)).filterMap specChange).foldl
        (fun l ch => changeDocs ch h' l) L
      = if dropped.any (· == h') then [] else L := by
  induction dropped generalizing L with
  | nil => simp
  | cons ns r ih =>
    have hs : specChange ⟨ns, "drop", none, none⟩ = some (.drop ns) := by simp [specChange]
    have hc : changeDocs (.drop ns) h' L = if h' = ns then [] else L := by simp [changeDocs]
    simp only [List.map_cons, List.filterMap_cons, hs, List.foldl_cons]
    rw [ih, hc]
    by_cases e : h' = ns
    · subst e; simp
    · have : (ns == h') = false := by simpa using Ne.symm e
      simp [e, this]

theorem get?_none_of_not_mem (cat : Catalog) (h' : Handle) (hn : ∀ a ∈ cat.namespaces, a.1 ≠ h') : cat.get? h' = none := by
  unfold Catalog.get?
  rw [List.find?_eq_none.mpr]
  · rfl
  · intro a ha; simpa using hn a ha

theorem Txn.drop_adv {t t' : Txn} {h : Handle} {nu nu' : Nu} (hr : t.drop h nu = .ok (t', nu')) : TAdv t t' := by
  unfold Txn.drop at hr
  split at hr
  · cases hr
  · rename_i hw
    have hno := writable_not_oplog hw
    have hdb := writable_db hw
    simp only at hr
    split at hr
    · simp only [Except.ok.injEq, Prod.mk.injEq] at hr; exact .inl hr.1.symm
    · simp only [Except.ok.injEq, Prod.mk.injEq] at hr
      obtain ⟨rfl, _⟩ := hr
      refine .inr ⟨rfl, ?_⟩
      have hkeep : ∀ a : Handle × Coll, a.1 = oplogHandle →
          (!(a.1 == h || (h.coll == "" && a.1.db == h.db))) = true := by
        rintro ⟨ns, c⟩ hns
        simp only at hns
        subst hns
        have e1 : (oplogHandle == h) = false := by simpa using Ne.symm hno
        have e2 : (oplogHandle.db == h.db) = false := by
          have : oplogHandle.db = "local" := rfl
          rw [this]; simpa using Ne.symm hdb
        simp [e1, e2]
      -- the catalog without the dropped namespaces, and the dropped handles
      have hcat0 : ∀ h', docsOf { t.catalog with namespaces := (t.catalog.namespaces.filter
            fun x => match x with | (ns, _) => !(ns == h || (h.coll == "" && ns.db == h.db))) } h'
          = if (!(h' == h || (h.coll == "" && h'.db == h.db))) then docsOf t.catalog h' else [] :=
        fun h' => docsOf_filter t.catalog (fun ns => !(ns == h || (h.coll == "" && ns.db == h.db))) h'
      have hf := foldl_appendOplog ((t.catalog.namespaces.filter
          fun x => match x with | (ns, _) => (ns == h || (h.coll == "" && ns.db == h.db))).map (·.1))
        (fun ns => (⟨ns, "drop", none, none⟩ : EvSpec))
        ({ t.catalog with namespaces := (t.catalog.namespaces.filter
          fun x => match x with | (ns, _) => !(ns == h || (h.coll == "" && ns.db == h.db))) }, nu)
      simp only at hf
      rw [hf]
      have hmem : ∀ h', (((t.catalog.namespaces.filter
          fun x => (x.1 == h || (h.coll == "" && x.1.db == h.db))).map (·.1)).any (· == h')) = false →
          (h' == h || (h.coll == "" && h'.db == h.db)) = true → docsOf t.catalog h' = [] := by
        intro h' hnot hhit
        unfold docsOf
        rw [get?_none_of_not_mem]
        · rfl
        · intro a ha e
          rw [List.any_eq_false] at hnot
          apply hnot a.1
          · simp only [List.mem_map, List.mem_filter]
            exact ⟨a, ⟨ha, by rw [e]; exact hhit⟩, rfl⟩
          · simp [e]
      split
      · rename_i hcoll
        refine ⟨_, Ext.trans (Ext.trans (Ext.filter t.catalog _ ?_) (Ext.appendEvs (_, nu) _)) (Ext.append ..), ?_⟩
        · exact hkeep
        · intro h' hne
          rw [docsOf_appendOplog _ _ _ _ _ _ _ hne, docsOf_appendEvs _ _ _ hne, hcat0, List.filterMap_append,
            List.foldl_append, List.nil_append, fold_drops]
          have hs : specChange ⟨h, "dropDatabase", none, none⟩ = some (.dropDatabase h.db) := by simp [specChange]
          simp only [List.filterMap_cons, hs, List.filterMap_nil, List.foldl_cons, List.foldl_nil, changeDocs]
          by_cases hhit : (h' == h || (h.coll == "" && h'.db == h.db)) = true
          · have hdb' : h'.db = h.db := by
              simp only [Bool.or_eq_true, beq_iff_eq, Bool.and_eq_true] at hhit
              rcases hhit with e | ⟨_, e⟩
              · rw [e]
              · exact e
            rw [if_neg (by simp [hhit]), if_pos hdb']
          · have hdb' : h'.db ≠ h.db := by
              intro e
              apply hhit
              simp [hcoll, e] at *
            have hnd : (((t.catalog.namespaces.filter
                fun x => (x.1 == h || (h.coll == "" && x.1.db == h.db))).map (·.1)).any (· == h')) = false := by
              rw [List.any_eq_false]
              intro x hx hxe
              simp only [List.mem_map, List.mem_filter] at hx
              obtain ⟨a, ⟨_, hah⟩, rfl⟩ := hx
              have : a.1 = h' := by simpa using hxe
              rw [this] at hah
              exact hhit hah
            simp [hhit, hdb', hnd]
      · rename_i hcoll
        refine ⟨_, Ext.trans (Ext.filter t.catalog _ ?_) (Ext.appendEvs (_, nu) _), ?_⟩
        · exact hkeep
        · intro h' hne
          rw [docsOf_appendEvs _ _ _ hne, hcat0, List.nil_append, fold_drops]
          by_cases hhit : (h' == h || (h.coll == "" && h'.db == h.db)) = true
          · simp only [hhit, Bool.not_true, Bool.false_eq_true, ↓reduceIte]
            split
            · rfl
            · rename_i hnd
              exact (hmem h' (by simpa only [Bool.not_eq_true] using hnd) hhit).symm
          · have hnd : (((t.catalog.namespaces.filter
                fun x => (x.1 == h || (h.coll == "" && x.1.db == h.db))).map (·.1)).any (· == h')) = false := by
              rw [List.any_eq_false]
              intro x hx hxe
              simp only [List.mem_map, List.mem_filter] at hx
              obtain ⟨a, ⟨_, hah⟩, rfl⟩ := hx
              have : a.1 = h' := by simpa using hxe
              rw [this] at hah
              exact hhit hah
            simp [hhit, hnd]

/-- the coherence facts used: in every namespace but the oplog, document identities are pairwise
    distinct and `_id`s are pairwise (structurally) distinct -/
def CatOK (cat : Catalog) : Prop :=
  ∀ h, h ≠ oplogHandle → DocIdsDistinct (ensureNs cat h) ∧ KeysDistinct (ensureNs cat h)

theorem ensureNs_appendEvs (cn : Catalog × Nu) (es : List EvSpec) (h' : Handle) (hne : h' ≠ oplogHandle) :
    ensureNs (appendEvs cn es).1 h' = ensureNs cn.1 h' := by
  unfold ensureNs
  rw [appendEvs_get_other _ _ _ hne]

theorem deleteOp_catOK {sch : SchemaEval} {cat cat' : Catalog} {h : Handle} {q : Doc} {sort : Option Doc}
    {skip limit : Int} {nu nu' : Nu} {res : TResult} (hok : CatOK cat)
    (hr : deleteOp sch cat h q sort skip limit nu = .ok (cat', res, nu')) : CatOK cat' := by
  unfold deleteOp at hr
  simp only at hr
  split at hr
  · cases hr
  · rename_i coll list hdel
    simp only [Except.ok.injEq, Prod.mk.injEq] at hr
    obtain ⟨rfl, _, _⟩ := hr
    obtain ⟨_, hdocs⟩ := Coll.delete_shape hdel
    have hf := foldl_appendOplog list (fun sd => (⟨h, "delete", some sd.doc, none⟩ : EvSpec)) (cat.set h coll, nu)
    simp only at hf
    rw [hf]
    intro h' hne
    rw [ensureNs_appendEvs _ _ _ hne]
    by_cases e : h' = h
    · subst e
      have : ensureNs (cat.set h' coll) h' = coll := by simp [ensureNs, Catalog.get?_set_self]
      rw [this]
      obtain ⟨h1, h2⟩ := hok h' hne
      unfold DocIdsDistinct KeysDistinct at *
      rw [hdocs]
      exact ⟨h1.sublist List.filter_sublist, h2.sublist List.filter_sublist⟩
    · have : ensureNs (cat.set h coll) h' = ensureNs cat h' := by
        simp [ensureNs, Catalog.get?_set_other _ _ _ _ e]
      rw [this]
      exact hok h' hne

theorem expire_go_adv (sch : SchemaEval) (nowMs : Int) (l : List (Handle × Coll))
    (hl : ∀ hc ∈ l, hc.1 = oplogHandle → hc.2.indexes.filter (fun (_, i) => i.config.expiry > 0) = []) :
    ∀ (cat : Catalog) (nu : Nu) (deleted : Nat) (cat' : Catalog) (nu' : Nu) (deleted' : Nat), CatOK cat →
      Txn.expire.go sch nowMs cat nu deleted l = .ok (cat', nu', deleted') → ∃ es, Adv cat cat' es := by
  induction l with
  | nil =>
    intro cat nu deleted cat' nu' deleted' _ hr
    simp only [Txn.expire.go, Except.ok.injEq, Prod.mk.injEq] at hr
    exact ⟨[], hr.1 ▸ Adv.refl cat⟩
  | cons hc r ih =>
    intro cat nu deleted cat' nu' deleted' hok hr
    obtain ⟨h, c⟩ := hc
    rw [Txn.expire.go] at hr
    simp only at hr
    have ih' := ih (fun x hx => hl x (List.mem_cons_of_mem _ hx))
    by_cases hempty : (c.indexes.filter fun (_, i) => i.config.expiry > 0) = []
    · simp only [hempty, List.isEmpty_nil, ↓reduceIte] at hr
      exact ih' _ _ _ _ _ _ hok hr
    · have hne : (c.indexes.filter fun (_, i) => i.config.expiry > 0).isEmpty = false := by
        cases hq : (c.indexes.filter fun (_, i) => i.config.expiry > 0) with
        | nil => exact absurd hq hempty
        | cons _ _ => rfl
      have hno : h ≠ oplogHandle := fun e => hempty (hl (h, c) (List.mem_cons_self ..) e)
      simp only [hne, Bool.false_eq_true, ↓reduceIte] at hr
      split at hr
      · cases hr
      · rename_i cat1 res nu1 hdel
        obtain ⟨es1, he1⟩ := deleteOp_adv hno (hok h hno).1 (hok h hno).2 hdel
        obtain ⟨es, he⟩ := ih' _ _ _ _ _ _ (deleteOp_catOK hok hdel) hr
        exact ⟨_, Adv.trans he1 he⟩

theorem Txn.expire_adv {sch : SchemaEval} {t t' : Txn} {nowMs : Int} {nu nu' : Nu} {n : Nat}
    (hp : OplogPlain t.catalog) (hok : CatOK t.catalog) (hr : t.expire sch nowMs nu = .ok (t', n, nu')) : TAdv t t' := by
  unfold Txn.expire at hr
  split at hr
  · cases hr
  · rename_i cat nu1 deleted hgo
    split at hr
    · simp only [Except.ok.injEq, Prod.mk.injEq] at hr
      obtain ⟨rfl, _, _⟩ := hr
      exact .inr ⟨rfl, expire_go_adv sch nowMs _ hp _ _ _ _ _ _ hok hgo⟩
    · simp only [Except.ok.injEq, Prod.mk.injEq] at hr
      exact .inl hr.1.symm

/-! ### the driver calls -/

/-- the calls for which `oplog_faithful` is proved (all reads, inserts, deletes, drops, index and
    collection management, expiry); NOT covered: update*, replaceOne, findOneAndReplace/Update, bulkWrite -/
def Call.covered : Call → Bool
  | .updateOne .. | .updateMany .. | .replaceOne .. | .findOneAndReplace .. | .findOneAndUpdate .. | .bulkWrite .. => false
  | _ => true

theorem Sys.commit_adv (s : Sys) (t : Txn) (nu : Nu) (h : TAdv { catalog := s.catalog } t) :
    ∃ es, Adv s.catalog (s.commit t nu).catalog es := by
  unfold Sys.commit
  rcases h with rfl | ⟨hd, es, he⟩
  · exact ⟨[], Adv.refl _⟩
  · simp only [hd, ↓reduceIte]
    exact ⟨es, he⟩

/-- a covered call, run on any transaction over a coherent catalog and ending in a coherent one,
    returns the transaction itself or a dirty one whose new events replay faithfully -/
theorem runCall_adv (sch : SchemaEval) (t0 t : Txn) (nu nu' : Nu) (c : Call) (r : Reply)
    (hcov : c.covered = true) (hp : OplogPlain t0.catalog) (hok : CatOK t0.catalog) (hok' : CatOK t.catalog)
    (hr : runCall sch t0 nu c = .ok (t, nu', r)) : TAdv t0 t := by
  cases c with
  | insertOne h doc =>
    simp only [runCall] at hr
    split at hr
    · cases hr
    · rename_i t res nu1 hm
      split at hr
      · cases hr
      · split at hr
        · simp only [Except.ok.injEq, Prod.mk.injEq] at hr
          obtain ⟨rfl, _⟩ := hr
          exact Txn.insert_adv hm (fun hno => (hok' h hno).2)
        · cases hr
  | insertMany h docs ordered =>
    simp only [runCall] at hr
    split at hr
    · cases hr
    · rename_i t res nu1 hm
      simp only [Except.ok.injEq, Prod.mk.injEq] at hr
      obtain ⟨rfl, _⟩ := hr
      exact Txn.insert_adv hm (fun hno => (hok' h hno).2)
  | find h q o =>
    simp only [runCall] at hr
    split at hr
    · cases hr
    · split at hr
      · cases hr
      · simp only [Except.ok.injEq, Prod.mk.injEq] at hr
        exact hr.1 ▸ .inl rfl
  | findOne h q o =>
    simp only [runCall] at hr
    split at hr
    · cases hr
    · simp only [Except.ok.injEq, Prod.mk.injEq] at hr
      exact hr.1 ▸ .inl rfl
    · split at hr
      · cases hr
      · simp only [Except.ok.injEq, Prod.mk.injEq] at hr
        exact hr.1 ▸ .inl rfl
  | count h q skip limit =>
    simp only [runCall] at hr
    split at hr
    · cases hr
    · simp only [Except.ok.injEq, Prod.mk.injEq] at hr
      exact hr.1 ▸ .inl rfl
  | estCount h =>
    simp only [runCall] at hr
    split at hr
    · cases hr
    · simp only [Except.ok.injEq, Prod.mk.injEq] at hr
      exact hr.1 ▸ .inl rfl
  | distinct h field q =>
    simp only [runCall] at hr
    split at hr
    · cases hr
    · simp only [Except.ok.injEq, Prod.mk.injEq] at hr
      exact hr.1 ▸ .inl rfl
  | updateOne h q u upsert fs => simp [Call.covered] at hcov
  | updateMany h q u upsert fs => simp [Call.covered] at hcov
  | replaceOne h q repl upsert => simp [Call.covered] at hcov
  | deleteOne h q =>
    simp only [runCall] at hr
    split at hr
    · cases hr
    · rename_i t res nu1 hm
      simp only [Except.ok.injEq, Prod.mk.injEq] at hr
      exact hr.1 ▸ Txn.delete_adv (hok h) hm
  | deleteMany h q =>
    simp only [runCall] at hr
    split at hr
    · cases hr
    · rename_i t res nu1 hm
      simp only [Except.ok.injEq, Prod.mk.injEq] at hr
      exact hr.1 ▸ Txn.delete_adv (hok h) hm
  | findOneAndDelete h q sort proj =>
    simp only [runCall] at hr
    split at hr
    · cases hr
    · rename_i t res nu1 hm
      split at hr
      · cases hr
      · simp only [Except.ok.injEq, Prod.mk.injEq] at hr
        exact hr.1 ▸ Txn.delete_adv (hok h) hm
  | findOneAndReplace h q repl sort proj upsert after => simp [Call.covered] at hcov
  | findOneAndUpdate h q u sort proj upsert after fs => simp [Call.covered] at hcov
  | bulkWrite h models ordered => simp [Call.covered] at hcov
  | createIndex h name config =>
    simp only [runCall] at hr
    split at hr
    · cases hr
    · rename_i t name' hm
      simp only [Except.ok.injEq, Prod.mk.injEq] at hr
      exact hr.1 ▸ Txn.createIndex_adv hm
  | dropIndex h name =>
    simp only [runCall] at hr
    split at hr
    · cases hr
    · rename_i t hm
      simp only [Except.ok.injEq, Prod.mk.injEq] at hr
      exact hr.1 ▸ Txn.dropIndex_adv hm
  | dropAllIndexes h =>
    simp only [runCall] at hr
    split at hr
    · cases hr
    · rename_i t hm
      simp only [Except.ok.injEq, Prod.mk.injEq] at hr
      exact hr.1 ▸ Txn.dropIndex_adv hm
  | dropIndexByKey h key =>
    simp only [runCall] at hr
    split at hr
    · cases hr
    · rename_i t hm
      simp only [Except.ok.injEq, Prod.mk.injEq] at hr
      exact hr.1 ▸ Txn.dropIndexByKey_adv hm
  | listIndexes h =>
    simp only [runCall] at hr
    split at hr
    · cases hr
    · simp only [Except.ok.injEq, Prod.mk.injEq] at hr
      exact hr.1 ▸ .inl rfl
  | createCollection h =>
    simp only [runCall] at hr
    split at hr
    · cases hr
    · rename_i t hm
      simp only [Except.ok.injEq, Prod.mk.injEq] at hr
      exact hr.1 ▸ Txn.create_adv hm
  | dropCollection h =>
    simp only [runCall] at hr
    split at hr
    · cases hr
    · split at hr
      · cases hr
      · rename_i t nu1 hm
        simp only [Except.ok.injEq, Prod.mk.injEq] at hr
        exact hr.1 ▸ Txn.drop_adv hm
  | dropDatabase db =>
    simp only [runCall] at hr
    split at hr
    · cases hr
    · rename_i t nu1 hm
      simp only [Except.ok.injEq, Prod.mk.injEq] at hr
      exact hr.1 ▸ Txn.drop_adv hm
  | listCollections db q =>
    simp only [runCall] at hr
    split at hr
    · cases hr
    · split at hr
      · cases hr
      · simp only [Except.ok.injEq, Prod.mk.injEq] at hr
        exact hr.1 ▸ .inl rfl
  | listDatabases q =>
    simp only [runCall] at hr
    split at hr
    · cases hr
    · simp only [Except.ok.injEq, Prod.mk.injEq] at hr
      exact hr.1 ▸ .inl rfl
  | expire nowMs =>
    simp only [runCall] at hr
    split at hr
    · cases hr
    · rename_i t n nu1 hm
      simp only [Except.ok.injEq, Prod.mk.injEq] at hr
      exact hr.1 ▸ Txn.expire_adv hp hok hm


theorem TAdv.step {t t' : Txn} (h : TAdv t t') : TStep t t' := by
  rcases h with rfl | ⟨hd, es, he⟩
  · exact .inl rfl
  · exact .inr ⟨hd, es, he.ext⟩

theorem Sys.step_adv (sch : SchemaEval) (s s' : Sys) (c : Call) (oids : List V) (r : Reply)
    (hcov : c.covered = true) (hp : OplogPlain s.catalog) (hok : CatOK s.catalog) (hok' : CatOK s'.catalog)
    (hr : Sys.step sch s c oids = .ok (s', r)) : ∃ es, Adv s.catalog s'.catalog es := by
  unfold Sys.step at hr
  split at hr
  · cases hr
  · rename_i t nu1 r1 hrun
    simp only [Except.ok.injEq, Prod.mk.injEq] at hr
    obtain ⟨rfl, _⟩ := hr
    have hokt : CatOK t.catalog := by
      rcases runCall_step sch _ t _ nu1 c r1 hp hrun with rfl | ⟨hd, _⟩
      · exact hok
      · have : (s.commit t nu1).catalog = t.catalog := by simp [Sys.commit, hd]
        rw [this] at hok'
        exact hok'
    exact Sys.commit_adv s t nu1 (runCall_adv sch _ t _ nu1 c r1 hcov hp hok hokt hrun)

end Lungo
