/-
  Lungo.Proofs.CompareLaws — the comparators of Lungo.Model.Compare are lawful.

  Part 1: leaf comparators (natCmp, intCmp, ratCmp, XR.cmp, cmpBytes, cmpStr, cmpBool, cmpBin,
          cmpTs, cmpRegex).
  Part 2: numbers — `compareNumbers` is exact (`= XR.cmp` of the mathematical values), for
          int64 payloads in the int64 range.
  Part 3: the structural (mutual) induction over `V` / `List (String × V)` / `List V`.
-/
import Lungo.Model.Compare
import Lungo.Spec.I64Ok
import Lungo.Proofs.Order
namespace Lungo
open Lungo.Ord

/-! ## Part 1: leaf comparators -/

theorem natCmp_lawful : Lawful natCmp := by
  constructor <;> intros <;> simp only [natCmp] at * <;> (repeat' split at *) <;> first | rfl | omega | contradiction

theorem intCmp_lawful : Lawful intCmp := by
  constructor <;> intros <;> simp only [intCmp] at * <;> (repeat' split at *) <;> first | rfl | omega | contradiction

theorem ratCmp_lawful : Lawful ratCmp := by
  constructor <;> intros <;> simp only [ratCmp] at * <;> (repeat' split at *) <;> first | rfl | contradiction | grind

theorem XR.cmp_lawful : Lawful XR.cmp := by
  constructor
  · intro a; cases a <;> first | exact ratCmp_lawful.refl _ | exact natCmp_lawful.refl _
  · intro a b; cases a <;> cases b <;> first | exact ratCmp_lawful.swap _ _ | exact natCmp_lawful.swap _ _
  · intro a b d; cases a <;> cases b <;> cases d <;>
      first | exact ratCmp_lawful.lt_trans _ _ _ | exact natCmp_lawful.lt_trans _ _ _ | (simp [XR.cmp, XR.rank, natCmp])
  · intro a b d; cases a <;> cases b <;> cases d <;>
      first | exact ratCmp_lawful.eq_congr _ _ _ | exact natCmp_lawful.eq_congr _ _ _ | (simp [XR.cmp, XR.rank, natCmp])

theorem cmpBytes_cons (a b : UInt8) (as bs : List UInt8) :
    cmpBytes (a :: as) (b :: bs) = (natCmp a.toNat b.toNat).then (cmpBytes as bs) := by
  simp only [cmpBytes, natCmp, UInt8.lt_iff_toNat_lt, beq_iff_eq, ← UInt8.toNat_inj]
  repeat' split
  all_goals first | rfl | omega

theorem cmpBytes_refl : ∀ as : List UInt8, cmpBytes as as = .eq
  | [] => rfl
  | a :: as => by simp [cmpBytes, cmpBytes_refl as]

theorem cmpBytes_swap : ∀ as bs : List UInt8, cmpBytes bs as = (cmpBytes as bs).swap
  | [], [] => rfl
  | [], _ :: _ => rfl
  | _ :: _, [] => rfl
  | a :: as, b :: bs => by
      rw [cmpBytes_cons, cmpBytes_cons, Ordering.swap_then, ← cmpBytes_swap as bs,
        ← natCmp_lawful.swap]

theorem cmpBytes_at : ∀ as bs ds : List UInt8, LawsAt cmpBytes as bs ds
  | a :: as, b :: bs, d :: ds => by
      simp only [LawsAt, cmpBytes_cons]
      exact (natCmp_lawful.at _ _ _).then (cmpBytes_at as bs ds)
  | [], [], [] | [], [], _ :: _ | [], _ :: _, [] | [], _ :: _, _ :: _
  | _ :: _, [], [] | _ :: _, [], _ :: _ | _ :: _, _ :: _, [] => by
      refine ⟨cmpBytes_refl _, cmpBytes_swap _ _, ?_, ?_, ?_⟩ <;> simp [cmpBytes]

theorem cmpBytes_lawful : Lawful cmpBytes := Lawful.of_at cmpBytes_at

theorem cmpStr_lawful : Lawful cmpStr :=
  cmpBytes_lawful.compareOn (fun s : String => s.toUTF8.toList)

theorem cmpBool_lawful : Lawful cmpBool := by
  constructor <;> decide

/-- `cmpBin` as a lexicographic comparison: length, subtype, bytes. -/
theorem cmpBin_eq (ls : UInt8) (ld : List UInt8) (rs : UInt8) (rd : List UInt8) :
    cmpBin ls ld rs rd =
      (natCmp ld.length rd.length).then ((natCmp ls.toNat rs.toNat).then (cmpBytes ld rd)) := by
  simp only [cmpBin, natCmp, GT.gt, UInt8.lt_iff_toNat_lt]
  repeat' split
  all_goals first | rfl | omega

/-- `cmpBin` on (subtype, data) pairs. -/
def binCmp (p q : UInt8 × List UInt8) : Ordering := cmpBin p.1 p.2 q.1 q.2

theorem binCmp_lawful : Lawful binCmp := by
  have h : binCmp = lex (compareOn (fun p => p.2.length) natCmp)
      (lex (compareOn (fun p => p.1.toNat) natCmp) (compareOn (fun p => p.2) cmpBytes)) := by
    funext p q; exact cmpBin_eq _ _ _ _
  rw [h]
  exact (natCmp_lawful.compareOn _).lex ((natCmp_lawful.compareOn _).lex (cmpBytes_lawful.compareOn _))

theorem cmpTs_eq (lt li rt ri : Nat) :
    cmpTs lt li rt ri = (natCmp lt rt).then (natCmp li ri) := by
  simp only [cmpTs, natCmp, GT.gt]
  repeat' split
  all_goals first | rfl | omega

def tsCmp (p q : Nat × Nat) : Ordering := cmpTs p.1 p.2 q.1 q.2

theorem tsCmp_lawful : Lawful tsCmp := by
  have h : tsCmp = lex (compareOn (fun p => p.1) natCmp) (compareOn (fun p => p.2) natCmp) := by
    funext p q; exact cmpTs_eq _ _ _ _
  rw [h]
  exact (natCmp_lawful.compareOn _).lex (natCmp_lawful.compareOn _)

theorem cmpRegex_eq (lp lo rp ro : String) :
    cmpRegex lp lo rp ro = (cmpStr lp rp).then (cmpStr lo ro) := by
  simp only [cmpRegex]
  cases cmpStr lp rp <;> rfl

def regexCmp (p q : String × String) : Ordering := cmpRegex p.1 p.2 q.1 q.2

theorem regexCmp_lawful : Lawful regexCmp := by
  have h : regexCmp = lex (compareOn (fun p => p.1) cmpStr) (compareOn (fun p => p.2) cmpStr) := by
    funext p q; exact cmpRegex_eq _ _ _ _
  rw [h]
  exact (cmpStr_lawful.compareOn _).lex (cmpStr_lawful.compareOn _)

/-! ## Part 2: numbers -/

theorem f64Man_lt (b : UInt64) : f64Man b < 2 ^ 52 := by
  simp only [f64Man, UInt64.toNat_and]
  exact Nat.lt_of_le_of_lt Nat.and_le_right (by decide)

/-- A nonnegative dyadic with a 53-bit mantissa is an integer or lies below 2^52. -/
theorem dyadic_shape (m : Nat) (e : Int) (hm : m < 2 ^ 53) :
    (∃ n : Int, (m : Rat) * pow2 e = (n : Rat)) ∨
      (0 ≤ (m : Rat) * pow2 e ∧ (m : Rat) * pow2 e < 4503599627370496) := by
  unfold pow2
  split
  · left
    exact ⟨((m * 2 ^ e.toNat : Nat) : Int), by rw [Rat.intCast_natCast, Rat.natCast_mul]⟩
  · right
    rename_i he
    have hk : 1 ≤ (-e).toNat := by omega
    generalize (-e).toNat = k at hk
    have hd : 0 < 2 ^ k := Nat.two_pow_pos k
    have hd' : (0 : Rat) < ((2 ^ k : Nat) : Rat) := Rat.natCast_pos.mpr hd
    have hx : mkRat 1 (2 ^ k) * ((2 ^ k : Nat) : Rat) = 1 := by
      rw [Rat.mkRat_eq_div]
      exact Rat.div_mul_cancel (by grind)
    have hxpos : 0 < mkRat 1 (2 ^ k) := by
      have : 0 < mkRat 1 (2 ^ k) * ((2 ^ k : Nat) : Rat) := by rw [hx]; decide
      exact (Rat.mul_pos_iff_of_pos_right hd').mp this
    constructor
    · exact Rat.mul_nonneg Rat.natCast_nonneg (Rat.le_of_lt hxpos)
    · apply Rat.lt_of_mul_lt_mul_right (c := ((2 ^ k : Nat) : Rat)) _ (Rat.le_of_lt hd')
      rw [Rat.mul_assoc, hx, Rat.mul_one]
      have h2 : 2 ≤ 2 ^ k := by
        calc 2 = 2 ^ 1 := rfl
          _ ≤ 2 ^ k := Nat.pow_le_pow_right (by decide) hk
      have : m < 4503599627370496 * 2 ^ k := by omega
      have := Rat.natCast_lt_natCast.mpr this
      rw [Rat.natCast_mul] at this
      exact this

/-- What the proof needs to know about a double: finite values are integers or small. -/
def XR.F64Like (r : XR) : Prop :=
  ∀ q, r = .fin q → (∃ n : Int, q = (n : Rat)) ∨ ((-4503599627370496 : Rat) < q ∧ q < 4503599627370496)

theorem f64Val_like (b : UInt64) : (f64Val b).F64Like := by
  intro q h
  have hm := f64Man_lt b
  unfold f64Val at h
  simp only at h
  split at h
  · split at h <;> (try split at h) <;> cases h
  · injection h with h
    have hmant : (if (f64Exp b == 0) = true then f64Man b else f64Man b + 2 ^ 52) < 2 ^ 53 := by
      split <;> omega
    rcases dyadic_shape _ ((if (f64Exp b == 0) = true then (1 : Int) else (f64Exp b : Int)) - 1075) hmant with ⟨n, hn⟩ | ⟨h0, h1⟩
    · left
      rw [hn] at h
      split at h
      · exact ⟨-n, by rw [← h, Rat.intCast_neg]⟩
      · exact ⟨n, h.symm⟩
    · right
      split at h <;> subst h <;> constructor <;> grind

theorem ratTrunc_intCast (n : Int) : ratTrunc (n : Rat) = n := by
  simp [ratTrunc, Rat.num_intCast, Rat.den_intCast]

theorem ratTrunc_eq (q : Rat) : ratTrunc q = if 0 ≤ q then q.floor else -((-q).floor) := by
  simp only [ratTrunc, Rat.floor_def, Rat.neg_num, Rat.neg_den, ge_iff_le, Rat.num_nonneg]

theorem ratTrunc_lt {q : Rat} {m : Int} (hm : 0 < m) (h : q < (m : Rat)) : ratTrunc q < m := by
  rw [ratTrunc_eq]
  split
  · exact Rat.floor_lt_iff.mpr h
  · have : (0:Int) ≤ (-q).floor := Rat.le_floor_iff.mpr (by simp only [Rat.intCast_zero]; grind)
    omega

theorem lt_ratTrunc {q : Rat} {m : Int} (hm : 0 < m) (h : ((-m : Int) : Rat) < q) : -m < ratTrunc q := by
  rw [ratTrunc_eq]
  split
  · have : (0:Int) ≤ q.floor := Rat.le_floor_iff.mpr (by simp only [Rat.intCast_zero]; grind)
    omega
  · have : (-q).floor < m := Rat.floor_lt_iff.mpr (by simp only [Rat.intCast_neg] at h; grind)
    omega

theorem compareFloat64s_eq (l r : XR) : compareFloat64s l r = XR.cmp l r := by
  cases l <;> cases r <;> simp [compareFloat64s, XR.isNaN, XR.cmp, XR.rank, natCmp]

theorem intCmp_eq_ratCmp (l r : Int) : intCmp l r = ratCmp (l : Rat) (r : Rat) := by
  simp only [intCmp, ratCmp, Rat.intCast_lt_intCast, Rat.intCast_inj]

theorem ratCmp_lt_iff {a b : Rat} : ratCmp a b = .lt ↔ a < b := by
  simp only [ratCmp]; repeat' split
  all_goals simp [*]

theorem ratCmp_of_lt {a b : Rat} (h : a < b) : ratCmp a b = .lt := ratCmp_lt_iff.mpr h

theorem ratCmp_of_gt {a b : Rat} (h : b < a) : ratCmp a b = .gt := by
  rw [ratCmp_lawful.swap b a, ratCmp_of_lt h]; rfl

theorem inI64_bounds {l : Int} (hl : inI64 l = true) :
    -9223372036854775808 ≤ l ∧ l ≤ 9223372036854775807 := by
  rw [inI64, Bool.and_eq_true] at hl
  exact ⟨of_decide_eq_true hl.1, of_decide_eq_true hl.2⟩

/-- The int64-vs-double algorithm is exact for int64-range `l` and double-like `r`. -/
theorem compareInt64ToFloat64_exact (l : Int) (hl : inI64 l = true) (r : XR) (hr : r.F64Like) :
    compareInt64ToFloat64 l r = XR.cmp (.fin (l : Rat)) r := by
  have ⟨hl1, hl2⟩ := inI64_bounds hl
  have hl1' : ((-9223372036854775808 : Int) : Rat) ≤ (l : Rat) := Rat.intCast_le_intCast.mpr hl1
  have hl2' : (l : Rat) ≤ ((9223372036854775807 : Int) : Rat) := Rat.intCast_le_intCast.mpr hl2
  unfold compareInt64ToFloat64
  cases r with
  | nan => simp [XR.isNaN, XR.cmp, XR.rank, natCmp]
  | ninf => simp [XR.isNaN, compareFloat64s_eq, XR.cmp, XR.rank, natCmp]
  | pinf => simp [XR.isNaN, compareFloat64s_eq, XR.cmp, XR.rank, natCmp]
  | fin q =>
    simp only [XR.isNaN, compareFloat64s_eq, Bool.false_eq_true, if_false, xrTrunc]
    split
    · rfl
    · rename_i hbig
      show _ = ratCmp (l : Rat) q
      by_cases h1 : q < ((two63 : Int) : Rat)
      · have e1 : XR.cmp (.fin q) (.fin ((two63 : Int) : Rat)) = .lt := ratCmp_of_lt h1
        rw [e1, if_neg (by decide)]
        by_cases h2 : q < ((-two63 : Int) : Rat)
        · have e2 : XR.cmp (.fin q) (.fin ((-two63 : Int) : Rat)) = .lt := ratCmp_of_lt h2
          rw [e2, if_pos (by decide)]
          refine (ratCmp_of_gt ?_).symm
          simp only [two63] at h2; grind
        · have e2 : (XR.cmp (.fin q) (.fin ((-two63 : Int) : Rat)) == .lt) = false := by
            have : XR.cmp (.fin q) (.fin ((-two63 : Int) : Rat)) ≠ .lt := fun h => h2 (ratCmp_lt_iff.mp h)
            simpa using this
          rw [e2, if_neg (by decide)]
          rcases hr q rfl with ⟨n, hn⟩ | ⟨hq1, hq2⟩
          · rw [hn, ratTrunc_intCast, intCmp_eq_ratCmp]
          · simp only [two53] at hbig
            by_cases hpos : 9007199254740992 < l
            · have hl' : ((9007199254740992 : Int) : Rat) < (l : Rat) := Rat.intCast_lt_intCast.mpr hpos
              have ht : ratTrunc q < 4503599627370496 := ratTrunc_lt (by decide) (by grind)
              rw [ratCmp_of_gt (by grind)]
              simp only [intCmp]
              rw [if_neg (by omega), if_neg (by omega)]
            · have hneg : l < -9007199254740992 := by omega
              have hl' : (l : Rat) < ((-9007199254740992 : Int) : Rat) := Rat.intCast_lt_intCast.mpr hneg
              have ht : -4503599627370496 < ratTrunc q := lt_ratTrunc (by decide) (by grind)
              rw [ratCmp_of_lt (by grind)]
              simp only [intCmp]
              rw [if_pos (by omega)]
      · have e1 : (XR.cmp (.fin q) (.fin ((two63 : Int) : Rat)) != .lt) = true := by
          have : XR.cmp (.fin q) (.fin ((two63 : Int) : Rat)) ≠ .lt := fun h => h1 (ratCmp_lt_iff.mp h)
          simpa using this
        rw [if_pos e1]
        refine (ratCmp_of_lt ?_).symm
        simp only [two63] at h1; grind

/-- The int64 payload (if any) of a *top-level* number is in the int64 range. -/
def V.i64Top : V → Bool
  | .i64 n => inI64 n
  | _ => true

theorem XR.cmp_fin_fin (a b : Rat) : XR.cmp (.fin a) (.fin b) = ratCmp a b := rfl

theorem compareNumbers_exact (a b : V) (ha : a.cls = .number) (hb : b.cls = .number)
    (oa : a.i64Top = true) (ob : b.i64Top = true) :
    compareNumbers a b = XR.cmp a.numVal b.numVal := by
  cases a <;> simp [V.cls] at ha <;> cases b <;> simp [V.cls] at hb <;>
    simp only [compareNumbers, V.numVal, compareFloat64s_eq, compareExact, compareFloat64ToInt64,
      intCmp_eq_ratCmp, XR.cmp_fin_fin, V.i64Top] at *
  · exact compareInt64ToFloat64_exact _ oa _ (f64Val_like _)
  · rw [compareInt64ToFloat64_exact _ ob _ (f64Val_like _)]
    exact (XR.cmp_lawful.swap _ _).symm


/-! ## Part 3: `V.cmp` -/

theorem V.cmp_of_rank_lt {a b : V} (h : a.cls.rank < b.cls.rank) : V.cmp a b = .lt := by
  rw [V.cmp.eq_def]
  simp only [gt_iff_lt]
  rw [if_neg (by omega), if_pos h]

theorem V.cmp_of_rank_gt {a b : V} (h : b.cls.rank < a.cls.rank) : V.cmp a b = .gt := by
  rw [V.cmp.eq_def]
  simp only [gt_iff_lt]
  rw [if_pos h]

theorem Class.rank_inj {c d : Class} (h : c.rank = d.rank) : c = d := by
  cases c <;> cases d <;> first | rfl | (simp [Class.rank] at h)

theorem V.cmp_str (a b : String) : V.cmp (.str a) (.str b) = cmpStr a b := by
  simp [V.cmp, V.cls]
theorem V.cmp_doc (a b : List (String × V)) : V.cmp (.doc a) (.doc b) = cmpFields a b := by
  simp [V.cmp, V.cls]
theorem V.cmp_arr (a b : List V) : V.cmp (.arr a) (.arr b) = cmpList a b := by
  simp [V.cmp, V.cls]
theorem V.cmp_bin (s : UInt8) (a : List UInt8) (t : UInt8) (b : List UInt8) :
    V.cmp (.bin s a) (.bin t b) = binCmp (s, a) (t, b) := by
  simp [V.cmp, V.cls, binCmp]
theorem V.cmp_oid (a b : List UInt8) : V.cmp (.oid a) (.oid b) = cmpBytes a b := by
  simp [V.cmp, V.cls]
theorem V.cmp_bool (a b : Bool) : V.cmp (.bool a) (.bool b) = cmpBool a b := by
  simp [V.cmp, V.cls]
theorem V.cmp_date (a b : Int) : V.cmp (.date a) (.date b) = intCmp a b := by
  simp [V.cmp, V.cls]
theorem V.cmp_ts (a b c d : Nat) : V.cmp (.ts a b) (.ts c d) = tsCmp (a, b) (c, d) := by
  simp [V.cmp, V.cls, tsCmp]
theorem V.cmp_regex (a b c d : String) :
    V.cmp (.regex a b) (.regex c d) = regexCmp (a, b) (c, d) := by
  simp [V.cmp, V.cls, regexCmp]
theorem V.cmp_number {a b : V} (ha : a.cls = .number) (hb : b.cls = .number) :
    V.cmp a b = compareNumbers a b := by
  cases a <;> simp [V.cls] at ha <;> cases b <;> simp [V.cls] at hb <;> simp [V.cmp, V.cls]
theorem V.cmp_null {a b : V} (ha : a.cls = .null) (hb : b.cls = .null) : V.cmp a b = .eq := by
  cases a <;> simp [V.cls] at ha <;> cases b <;> simp [V.cls] at hb <;> simp [V.cmp, V.cls]

theorem cmpList_cons (v : V) (r : List V) (v' : V) (r' : List V) :
    cmpList (v :: r) (v' :: r') = (V.cmp v v').then (cmpList r r') := by
  rw [cmpList]; cases V.cmp v v' <;> rfl

theorem cmpFields_cons (k : String) (v : V) (r : List (String × V)) (k' : String) (v' : V)
    (r' : List (String × V)) :
    cmpFields ((k, v) :: r) ((k', v') :: r') =
      (cmpStr k k').then ((V.cmp v v').then (cmpFields r r')) := by
  rw [cmpFields]; cases cmpStr k k' <;> cases V.cmp v v' <;> rfl

/-! ### Reflexivity and swap (no hypotheses) -/

theorem compareNumbers_refl (a : V) : compareNumbers a a = .eq := by
  cases a <;> simp [compareNumbers, compareFloat64s_eq, compareExact, XR.cmp_lawful.refl,
    intCmp_lawful.refl]

theorem compareNumbers_swap (a b : V) : compareNumbers b a = (compareNumbers a b).swap := by
  cases a <;> cases b <;>
    simp only [compareNumbers, compareFloat64s_eq, compareExact, compareFloat64ToInt64,
      Ordering.swap_swap, Ordering.swap_eq] <;>
    first | exact XR.cmp_lawful.swap _ _ | exact intCmp_lawful.swap _ _ | rfl

mutual
theorem V.cmp_refl : ∀ a : V, V.cmp a a = .eq
  | .doc fs => by rw [V.cmp_doc]; exact cmpFields_refl fs
  | .arr xs => by rw [V.cmp_arr]; exact cmpList_refl xs
  | .null | .missing => V.cmp_null rfl rfl
  | .i32 _ | .i64 _ | .f64 _ | .dec _ _ => by
      rw [V.cmp_number rfl rfl]; exact compareNumbers_refl _
  | .str _ => by rw [V.cmp_str]; exact cmpStr_lawful.refl _
  | .bin _ _ => by rw [V.cmp_bin]; exact binCmp_lawful.refl _
  | .oid _ => by rw [V.cmp_oid]; exact cmpBytes_lawful.refl _
  | .bool _ => by rw [V.cmp_bool]; exact cmpBool_lawful.refl _
  | .date _ => by rw [V.cmp_date]; exact intCmp_lawful.refl _
  | .ts _ _ => by rw [V.cmp_ts]; exact tsCmp_lawful.refl _
  | .regex _ _ => by rw [V.cmp_regex]; exact regexCmp_lawful.refl _
theorem cmpFields_refl : ∀ fs : List (String × V), cmpFields fs fs = .eq
  | [] => by rw [cmpFields]
  | (k, v) :: r => by
      rw [cmpFields_cons, cmpStr_lawful.refl, V.cmp_refl v, cmpFields_refl r]; rfl
theorem cmpList_refl : ∀ xs : List V, cmpList xs xs = .eq
  | [] => by rw [cmpList]
  | v :: r => by rw [cmpList_cons, V.cmp_refl v, cmpList_refl r]; rfl
end

theorem V.eq_doc_of_rank {fs : List (String × V)} {b : V}
    (h : (V.doc fs).cls.rank = b.cls.rank) : ∃ gs, b = .doc gs := by
  cases b <;> simp [V.cls, Class.rank] at h; exact ⟨_, rfl⟩

theorem V.eq_arr_of_rank {xs : List V} {b : V}
    (h : (V.arr xs).cls.rank = b.cls.rank) : ∃ ys, b = .arr ys := by
  cases b <;> simp [V.cls, Class.rank] at h; exact ⟨_, rfl⟩

/-- Swap holds as soon as it holds for arguments of equal rank. -/
theorem V.cmp_swap_of (a b : V)
    (h : a.cls.rank = b.cls.rank → V.cmp b a = (V.cmp a b).swap) :
    V.cmp b a = (V.cmp a b).swap := by
  rcases Nat.lt_trichotomy a.cls.rank b.cls.rank with h' | h' | h'
  · rw [V.cmp_of_rank_lt h', V.cmp_of_rank_gt h']; rfl
  · exact h h'
  · rw [V.cmp_of_rank_gt h', V.cmp_of_rank_lt h']; rfl

/-- Swap for values that are neither documents nor arrays. -/
theorem V.cmp_swap_flat (a b : V) (hd : a.isDoc = false) (ha : a.isArr = false) :
    V.cmp b a = (V.cmp a b).swap := by
  apply V.cmp_swap_of
  intro h
  by_cases hn : a.cls = .number
  · have hb : b.cls = .number := Class.rank_inj (by rw [← h, hn])
    rw [V.cmp_number hn hb, V.cmp_number hb hn]; exact compareNumbers_swap a b
  by_cases h0 : a.cls = .null
  · have hb : b.cls = .null := Class.rank_inj (by rw [← h, h0])
    rw [V.cmp_null h0 hb, V.cmp_null hb h0]; rfl
  cases a <;> simp [V.cls, V.isDoc, V.isArr] at hn h0 hd ha <;>
    cases b <;> simp [V.cls, Class.rank] at h
  · rw [V.cmp_str, V.cmp_str]; exact cmpStr_lawful.swap _ _
  · rw [V.cmp_bin, V.cmp_bin]; exact binCmp_lawful.swap _ _
  · rw [V.cmp_oid, V.cmp_oid]; exact cmpBytes_lawful.swap _ _
  · rw [V.cmp_bool, V.cmp_bool]; exact cmpBool_lawful.swap _ _
  · rw [V.cmp_date, V.cmp_date]; exact intCmp_lawful.swap _ _
  · rw [V.cmp_ts, V.cmp_ts]; exact tsCmp_lawful.swap _ _
  · rw [V.cmp_regex, V.cmp_regex]; exact regexCmp_lawful.swap _ _

mutual
theorem V.cmp_swap : ∀ a b : V, V.cmp b a = (V.cmp a b).swap
  | .doc fs, b => V.cmp_swap_of _ _ fun h => by
      obtain ⟨gs, rfl⟩ := V.eq_doc_of_rank h
      rw [V.cmp_doc, V.cmp_doc]; exact cmpFields_swap fs gs
  | .arr xs, b => V.cmp_swap_of _ _ fun h => by
      obtain ⟨ys, rfl⟩ := V.eq_arr_of_rank h
      rw [V.cmp_arr, V.cmp_arr]; exact cmpList_swap xs ys
  | .null, b | .missing, b | .i32 _, b | .i64 _, b | .f64 _, b | .dec _ _, b | .str _, b
  | .bin _ _, b | .oid _, b | .bool _, b | .date _, b | .ts _ _, b | .regex _ _, b =>
      V.cmp_swap_flat _ b rfl rfl
theorem cmpFields_swap : ∀ fs gs : List (String × V), cmpFields gs fs = (cmpFields fs gs).swap
  | [], [] => by rw [cmpFields]; rfl
  | [], _ :: _ => by rw [cmpFields, cmpFields]; rfl
  | _ :: _, [] => by rw [cmpFields, cmpFields]; rfl
  | (k, v) :: r, (k', v') :: r' => by
      rw [cmpFields_cons, cmpFields_cons, Ordering.swap_then, Ordering.swap_then,
        ← cmpStr_lawful.swap, ← V.cmp_swap v v', ← cmpFields_swap r r']
theorem cmpList_swap : ∀ xs ys : List V, cmpList ys xs = (cmpList xs ys).swap
  | [], [] => by rw [cmpList]; rfl
  | [], _ :: _ => by rw [cmpList, cmpList]; rfl
  | _ :: _, [] => by rw [cmpList, cmpList]; rfl
  | v :: r, v' :: r' => by
      rw [cmpList_cons, cmpList_cons, Ordering.swap_then, ← V.cmp_swap v v', ← cmpList_swap r r']
end

theorem V.cmp_rank (a b : V) (h : a.cls.rank < b.cls.rank) : V.cmp a b = .lt := V.cmp_of_rank_lt h


/-! ### Transitivity and congruence (int64 payloads in range) -/

theorem V.i64Top_of_i64Ok {a : V} (h : a.i64Ok = true) : a.i64Top = true := by
  cases a <;> first | rfl | (simpa [V.i64Ok, V.i64Top] using h)

mutual
theorem V.i64Ok_of_wf : ∀ a : V, a.wf = true → a.i64Ok = true
  | .doc fs, h => by rw [V.wf] at h; rw [V.i64Ok]; exact i64OkFields_of_wf fs h
  | .arr xs, h => by rw [V.wf] at h; rw [V.i64Ok]; exact i64OkList_of_wf xs h
  | .i64 n, h => by rw [V.wf] at h; rw [V.i64Ok]; exact h
  | .null, _ | .missing, _ | .i32 _, _ | .f64 _, _ | .dec _ _, _ | .str _, _
  | .bin _ _, _ | .oid _, _ | .bool _, _ | .date _, _ | .ts _ _, _ | .regex _ _, _ => by
      simp [V.i64Ok]
theorem i64OkFields_of_wf : ∀ fs : List (String × V), wfFields fs = true → i64OkFields fs = true
  | [], _ => by rw [i64OkFields]
  | (_, v) :: r, h => by
      rw [wfFields, Bool.and_eq_true] at h
      rw [i64OkFields, Bool.and_eq_true]
      exact ⟨V.i64Ok_of_wf v h.1, i64OkFields_of_wf r h.2⟩
theorem i64OkList_of_wf : ∀ xs : List V, wfList xs = true → i64OkList xs = true
  | [], _ => by rw [i64OkList]
  | v :: r, h => by
      rw [wfList, Bool.and_eq_true] at h
      rw [i64OkList, Bool.and_eq_true]
      exact ⟨V.i64Ok_of_wf v h.1, i64OkList_of_wf r h.2⟩
end

/-- On numbers with in-range int64 payloads `V.cmp` is the exact order of the values. -/
theorem V.cmp_num_exact' {a b : V} (ha : a.cls = .number) (hb : b.cls = .number)
    (oa : a.i64Ok = true) (ob : b.i64Ok = true) :
    V.cmp a b = XR.cmp a.numVal b.numVal := by
  rw [V.cmp_number ha hb,
    compareNumbers_exact a b ha hb (V.i64Top_of_i64Ok oa) (V.i64Top_of_i64Ok ob)]

theorem V.cmp_at_flat (a b d : V) (hdoc : a.isDoc = false) (harr : a.isArr = false)
    (oa : a.i64Ok = true) (ob : b.i64Ok = true) (od : d.i64Ok = true) : LawsAt V.cmp a b d := by
  apply LawsAt.of_rank (fun v => v.cls.rank) V.cmp (fun _ _ => V.cmp_of_rank_lt)
    (fun _ _ => V.cmp_of_rank_gt) a b d (V.cmp_refl a) (fun _ => V.cmp_swap a b)
  intro h1 h2
  by_cases hn : a.cls = .number
  · have hb : b.cls = .number := Class.rank_inj (by rw [← h1, hn])
    have hd : d.cls = .number := Class.rank_inj (by rw [← h2, hb])
    show Laws _ _ _ _ _
    rw [V.cmp_num_exact' hn hn oa oa, V.cmp_num_exact' hn hb oa ob, V.cmp_num_exact' hb hn ob oa,
      V.cmp_num_exact' hb hd ob od, V.cmp_num_exact' hn hd oa od]
    exact (XR.cmp_lawful.compareOn V.numVal).at a b d
  by_cases h0 : a.cls = .null
  · have hb : b.cls = .null := Class.rank_inj (by rw [← h1, h0])
    have hd : d.cls = .null := Class.rank_inj (by rw [← h2, hb])
    show Laws _ _ _ _ _
    rw [V.cmp_null h0 h0, V.cmp_null h0 hb, V.cmp_null hb h0, V.cmp_null hb hd, V.cmp_null h0 hd]
    constructor <;> intros <;> first | rfl | contradiction
  cases a <;> simp [V.cls, V.isDoc, V.isArr] at hn h0 hdoc harr <;>
    cases b <;> simp [V.cls, Class.rank] at h1 <;>
    cases d <;> simp [V.cls, Class.rank] at h2 <;>
    show Laws _ _ _ _ _
  · simp only [V.cmp_str]; exact cmpStr_lawful.at _ _ _
  · simp only [V.cmp_bin]; exact binCmp_lawful.at _ _ _
  · simp only [V.cmp_oid]; exact cmpBytes_lawful.at _ _ _
  · simp only [V.cmp_bool]; exact cmpBool_lawful.at _ _ _
  · simp only [V.cmp_date]; exact intCmp_lawful.at _ _ _
  · simp only [V.cmp_ts]; exact tsCmp_lawful.at _ _ _
  · simp only [V.cmp_regex]; exact regexCmp_lawful.at _ _ _

mutual
/-- The comparator laws of `V.cmp` at every triple of values with in-range int64 payloads. -/
theorem V.cmp_at : ∀ a b d : V, a.i64Ok = true → b.i64Ok = true → d.i64Ok = true →
    LawsAt V.cmp a b d
  | .doc fs, b, d, oa, ob, od =>
      LawsAt.of_rank (fun v => v.cls.rank) V.cmp (fun _ _ => V.cmp_of_rank_lt)
        (fun _ _ => V.cmp_of_rank_gt) _ b d (V.cmp_refl _) (fun _ => V.cmp_swap _ b)
        fun h1 h2 => by
          obtain ⟨gs, rfl⟩ := V.eq_doc_of_rank h1
          obtain ⟨hs, rfl⟩ := V.eq_doc_of_rank h2
          rw [V.i64Ok] at oa ob od
          show Laws _ _ _ _ _
          simp only [V.cmp_doc]
          exact cmpFields_at fs gs hs oa ob od
  | .arr xs, b, d, oa, ob, od =>
      LawsAt.of_rank (fun v => v.cls.rank) V.cmp (fun _ _ => V.cmp_of_rank_lt)
        (fun _ _ => V.cmp_of_rank_gt) _ b d (V.cmp_refl _) (fun _ => V.cmp_swap _ b)
        fun h1 h2 => by
          obtain ⟨ys, rfl⟩ := V.eq_arr_of_rank h1
          obtain ⟨zs, rfl⟩ := V.eq_arr_of_rank h2
          rw [V.i64Ok] at oa ob od
          show Laws _ _ _ _ _
          simp only [V.cmp_arr]
          exact cmpList_at xs ys zs oa ob od
  | .null, b, d, oa, ob, od | .missing, b, d, oa, ob, od | .i32 _, b, d, oa, ob, od
  | .i64 _, b, d, oa, ob, od | .f64 _, b, d, oa, ob, od | .dec _ _, b, d, oa, ob, od
  | .str _, b, d, oa, ob, od | .bin _ _, b, d, oa, ob, od | .oid _, b, d, oa, ob, od
  | .bool _, b, d, oa, ob, od | .date _, b, d, oa, ob, od | .ts _ _, b, d, oa, ob, od
  | .regex _ _, b, d, oa, ob, od => V.cmp_at_flat _ b d rfl rfl oa ob od
theorem cmpFields_at : ∀ fs gs hs : List (String × V), i64OkFields fs = true →
    i64OkFields gs = true → i64OkFields hs = true → LawsAt cmpFields fs gs hs
  | (k, v) :: r, (k', v') :: r', (k'', v'') :: r'', o1, o2, o3 => by
      rw [i64OkFields, Bool.and_eq_true] at o1 o2 o3
      show Laws _ _ _ _ _
      simp only [cmpFields_cons]
      exact (cmpStr_lawful.at k k' k'').then
        ((V.cmp_at v v' v'' o1.1 o2.1 o3.1).then (cmpFields_at r r' r'' o1.2 o2.2 o3.2))
  | [], [], [], _, _, _ | [], [], _ :: _, _, _, _ | [], _ :: _, [], _, _, _
  | [], _ :: _, _ :: _, _, _, _ | _ :: _, [], [], _, _, _ | _ :: _, [], _ :: _, _, _, _
  | _ :: _, _ :: _, [], _, _, _ => by
      refine ⟨cmpFields_refl _, cmpFields_swap _ _, ?_, ?_, ?_⟩ <;> simp [cmpFields]
theorem cmpList_at : ∀ xs ys zs : List V, i64OkList xs = true →
    i64OkList ys = true → i64OkList zs = true → LawsAt cmpList xs ys zs
  | v :: r, v' :: r', v'' :: r'', o1, o2, o3 => by
      rw [i64OkList, Bool.and_eq_true] at o1 o2 o3
      show Laws _ _ _ _ _
      simp only [cmpList_cons]
      exact (V.cmp_at v v' v'' o1.1 o2.1 o3.1).then (cmpList_at r r' r'' o1.2 o2.2 o3.2)
  | [], [], [], _, _, _ | [], [], _ :: _, _, _, _ | [], _ :: _, [], _, _, _
  | [], _ :: _, _ :: _, _, _, _ | _ :: _, [], [], _, _, _ | _ :: _, [], _ :: _, _, _, _
  | _ :: _, _ :: _, [], _, _, _ => by
      refine ⟨cmpList_refl _, cmpList_swap _ _, ?_, ?_, ?_⟩ <;> simp [cmpList]
end


end Lungo
