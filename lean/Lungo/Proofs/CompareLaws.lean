/-
  Lungo.Proofs.CompareLaws — the comparators of Lungo.Model.Compare are lawful.

  Part 1: leaf comparators (natCmp, intCmp, ratCmp, XR.cmp, cmpBytes, cmpStr, cmpBool, cmpBin,
          cmpTs, cmpRegex).
  Part 2: numbers — `compareNumbers` is exact (`= XR.cmp` of the mathematical values), for
          int64 payloads in the int64 range.
  Part 3: the structural (mutual) induction over `V` / `List (String × V)` / `List V`.
-/
import Lungo.Model.Compare
import Lungo.Proofs.Order
namespace Lungo
open Lungo.Ord

/-! ## Part 1: leaf comparators -/

theorem natCmp_lawful : Lawful natCmp := by
  constructor <;> intros <;> simp only [natCmp] at * <;> (repeat' split at *) <;> first | rfl | omega | contradiction

theorem intCmp_lawful : Lawful intCmp := by
  constructor <;> intros <;> simp only [intCmp] at * <;> (repeat' split at *) <;> first | rfl | omega | contradiction

theorem ratCmp_lawful : Lawful ratCmp := by
  constructor <;> intros <;> simp only [ratCmp] at * <;> (repeat' split at *) <;> first | rfl | contradiction | grind

theorem XR.cmp_lawful : Lawful XR.cmp := by
  constructor
  · intro a; cases a <;> first | exact ratCmp_lawful.refl _ | exact natCmp_lawful.refl _
  · intro a b; cases a <;> cases b <;> first | exact ratCmp_lawful.swap _ _ | exact natCmp_lawful.swap _ _
  · intro a b d; cases a <;> cases b <;> cases d <;>
      first | exact ratCmp_lawful.lt_trans _ _ _ | exact natCmp_lawful.lt_trans _ _ _ | (simp [XR.cmp, XR.rank, natCmp])
  · intro a b d; cases a <;> cases b <;> cases d <;>
      first | exact ratCmp_lawful.eq_congr _ _ _ | exact natCmp_lawful.eq_congr _ _ _ | (simp [XR.cmp, XR.rank, natCmp])

theorem cmpBytes_cons (a b : UInt8) (as bs : List UInt8) :
    cmpBytes (a :: as) (b :: bs) = (natCmp a.toNat b.toNat).then (cmpBytes as bs) := by
  simp only [cmpBytes, natCmp, UInt8.lt_iff_toNat_lt, beq_iff_eq, ← UInt8.toNat_inj]
  repeat' split
  all_goals first | rfl | omega

theorem cmpBytes_refl : ∀ as : List UInt8, cmpBytes as as = .eq
  | [] => rfl
  | a :: as => by simp [cmpBytes, cmpBytes_refl as]

theorem cmpBytes_swap : ∀ as bs : List UInt8, cmpBytes bs as = (cmpBytes as bs).swap
  | [], [] => rfl
  | [], _ :: _ => rfl
  | _ :: _, [] => rfl
  | a :: as, b :: bs => by
      rw [cmpBytes_cons, cmpBytes_cons, Ordering.swap_then, ← cmpBytes_swap as bs,
        ← natCmp_lawful.swap]

theorem cmpBytes_at : ∀ as bs ds : List UInt8, LawsAt cmpBytes as bs ds
  | a :: as, b :: bs, d :: ds => by
      simp only [LawsAt, cmpBytes_cons]
      exact (natCmp_lawful.at _ _ _).then (cmpBytes_at as bs ds)
  | [], [], [] | [], [], _ :: _ | [], _ :: _, [] | [], _ :: _, _ :: _
  | _ :: _, [], [] | _ :: _, [], _ :: _ | _ :: _, _ :: _, [] => by
      refine ⟨cmpBytes_refl _, cmpBytes_swap _ _, ?_, ?_, ?_⟩ <;> simp [cmpBytes]

theorem cmpBytes_lawful : Lawful cmpBytes := Lawful.of_at cmpBytes_at

theorem cmpStr_lawful : Lawful cmpStr :=
  cmpBytes_lawful.compareOn (fun s : String => s.toUTF8.toList)

theorem cmpBool_lawful : Lawful cmpBool := by
  constructor <;> decide

/-- `cmpBin` as a lexicographic comparison: length, subtype, bytes. -/
theorem cmpBin_eq (ls : UInt8) (ld : List UInt8) (rs : UInt8) (rd : List UInt8) :
    cmpBin ls ld rs rd =
      (natCmp ld.length rd.length).then ((natCmp ls.toNat rs.toNat).then (cmpBytes ld rd)) := by
  simp only [cmpBin, natCmp, GT.gt, UInt8.lt_iff_toNat_lt]
  repeat' split
  all_goals first | rfl | omega

/-- `cmpBin` on (subtype, data) pairs. -/
def binCmp (p q : UInt8 × List UInt8) : Ordering := cmpBin p.1 p.2 q.1 q.2

theorem binCmp_lawful : Lawful binCmp := by
  have h : binCmp = lex (compareOn (fun p => p.2.length) natCmp)
      (lex (compareOn (fun p => p.1.toNat) natCmp) (compareOn (fun p => p.2) cmpBytes)) := by
    funext p q; exact cmpBin_eq _ _ _ _
  rw [h]
  exact (natCmp_lawful.compareOn _).lex ((natCmp_lawful.compareOn _).lex (cmpBytes_lawful.compareOn _))

theorem cmpTs_eq (lt li rt ri : Nat) :
    cmpTs lt li rt ri = (natCmp lt rt).then (natCmp li ri) := by
  simp only [cmpTs, natCmp, GT.gt]
  repeat' split
  all_goals first | rfl | omega

def tsCmp (p q : Nat × Nat) : Ordering := cmpTs p.1 p.2 q.1 q.2

theorem tsCmp_lawful : Lawful tsCmp := by
  have h : tsCmp = lex (compareOn (fun p => p.1) natCmp) (compareOn (fun p => p.2) natCmp) := by
    funext p q; exact cmpTs_eq _ _ _ _
  rw [h]
  exact (natCmp_lawful.compareOn _).lex (natCmp_lawful.compareOn _)

theorem cmpRegex_eq (lp lo rp ro : String) :
    cmpRegex lp lo rp ro = (cmpStr lp rp).then (cmpStr lo ro) := by
  simp only [cmpRegex]
  cases cmpStr lp rp <;> rfl

def regexCmp (p q : String × String) : Ordering := cmpRegex p.1 p.2 q.1 q.2

theorem regexCmp_lawful : Lawful regexCmp := by
  have h : regexCmp = lex (compareOn (fun p => p.1) cmpStr) (compareOn (fun p => p.2) cmpStr) := by
    funext p q; exact cmpRegex_eq _ _ _ _
  rw [h]
  exact (cmpStr_lawful.compareOn _).lex (cmpStr_lawful.compareOn _)

end Lungo
