/-
  Lungo.Proofs.AtomicSearch — soundness of the counterexample search `AtomicSearch.search`:
  what it returns is a reachable post-crash state of the interpreter on the GIVEN step list that
  violates the stated clause.
-/
import Lungo.Model.AtomicSearch
namespace Lungo.AtomicSearch
open Lungo.FS Lungo.AtomicWrite

/-- `imgDescs` describes exactly the enumeration `crashImages` -/
theorem images_eq (m : M) : (imgDescs m).map (imageOf m) = crashImages m := by
  unfold imgDescs crashImages
  cases h : m.tmpH with
  | none =>
    simp only [List.map_flatMap, List.map_cons, List.map_nil]
    congr 1
    funext mk
    simp only [imageOf, garbage, h]
  | some i =>
    simp only [List.map_flatMap, List.map_cons, List.map_nil]
    congr 1
    funext mk
    congr 1
    funext a
    simp only [imageOf, garbage, h, if_true, Bool.false_eq_true, if_false]

theorem imageOf_mem (m : M) (d : ImgDesc) (h : d ∈ imgDescs m) : imageOf m d ∈ crashImages m := by
  rw [← images_eq]
  exact List.mem_map_of_mem h

/-- the run a counterexample refers to -/
def CE.run (P : Params) (ce : CE) : M × Bool :=
  interpUpTo P.steps P.path P.tmp P.chunks (faultsOf ce.fault) ce.k P.s0

/-- the post-crash state of a counterexample is reachable: the process-kill image, or a member of `crashImages`
    (the one described by `ce.img`) of the machine after the first `ce.k` calls under the fault plan `ce.fault` -/
def CE.Reachable (P : Params) (ce : CE) : Prop :=
  match ce.img with
  | none => ce.st = kill (ce.run P).1.fs
  | some d => ce.st = crashImage (ce.run P).1.fs d.mask (garbage (ce.run P).1 d) ∧ ce.st ∈ crashImages (ce.run P).1

/-- what a counterexample of each kind claims about its post-crash state -/
def CE.Violates (P : Params) (ce : CE) : Prop :=
  match ce.kind with
  | .notOldOrNew => load ce.st P.path ≠ P.old ∧ load ce.st P.path ≠ some P.new
  | .ackedLost => (ce.run P).2 = true ∧ (ce.run P).1.err = false ∧ load ce.st P.path ≠ some P.new
  | .failedChanged =>
      (ce.run P).2 = true ∧ (ce.run P).1.err = true ∧ ce.img = none ∧ load ce.st P.path ≠ P.old ∧
      ¬ (renamed (traceUpTo P.steps P.path P.tmp P.chunks (faultsOf ce.fault) ce.k P.s0) = true ∧
         load ce.st P.path = some P.new)
  | .rerunFails =>
      (interp P.steps P.path P.tmp P.chunks noFaults ce.st).err = true ∨
      load (interp P.steps P.path P.tmp P.chunks noFaults ce.st).fs P.path ≠ some P.new

theorem checkImage_sound (P : Params) (rerun acked : Bool) (x : State) (kd : Kind)
    (h : checkImage P rerun acked x = some kd) :
    (kd = .notOldOrNew ∧ load x P.path ≠ P.old ∧ load x P.path ≠ some P.new) ∨
    (kd = .ackedLost ∧ acked = true ∧ load x P.path ≠ some P.new) ∨
    (kd = .rerunFails ∧ ((interp P.steps P.path P.tmp P.chunks noFaults x).err = true ∨
      load (interp P.steps P.path P.tmp P.chunks noFaults x).fs P.path ≠ some P.new)) := by
  unfold checkImage at h
  split at h
  · split at h
    · rename_i h1; cases h; exact Or.inl ⟨rfl, h1⟩
    · split at h
      · rename_i h2; cases h; exact Or.inr (Or.inl ⟨rfl, h2⟩)
      · cases h
  · simp only at h
    split at h
    · rename_i h3; cases h; exact Or.inr (Or.inr ⟨rfl, h3⟩)
    · cases h

theorem checkFailed_sound (P : Params) (r : M × Bool) (ren : Bool) (kd : Kind) (h : checkFailed P r ren = some kd) :
    kd = .failedChanged ∧ r.2 = true ∧ r.1.err = true ∧ load r.1.fs P.path ≠ P.old ∧
      ¬ (ren = true ∧ load r.1.fs P.path = some P.new) := by
  unfold checkFailed at h
  split at h
  · rename_i h1; cases h; exact ⟨rfl, h1⟩
  · cases h

theorem acked_iff (r : M × Bool) : (r.2 && !r.1.err) = true ↔ r.2 = true ∧ r.1.err = false := by
  cases r.2 <;> cases r.1.err <;> simp

theorem checkState_sound (P : Params) (rerun : Bool) (ft : FaultAt) (k : Nat) (ce : CE)
    (h : checkState P rerun ft k = some ce) : ce.fault = ft ∧ ce.k = k ∧ ce.Reachable P ∧ ce.Violates P := by
  unfold checkState at h
  extract_lets r acked at h
  split at h
  · -- the kill image
    rename_i kd hk
    cases h
    refine ⟨rfl, rfl, rfl, ?_⟩
    rcases checkImage_sound P rerun acked _ kd hk with ⟨rfl, h1⟩ | ⟨rfl, h1, h2⟩ | ⟨rfl, h1⟩
    · exact h1
    · exact ⟨((acked_iff r).1 h1).1, ((acked_iff r).1 h1).2, h2⟩
    · exact h1
  · split at h
    · -- the failed run
      rename_i kd hk
      cases h
      refine ⟨rfl, rfl, rfl, ?_⟩
      split at hk
      · obtain ⟨rfl, h1, h2, h3, h4⟩ := checkFailed_sound P r _ kd hk
        exact ⟨h1, h2, rfl, h3, h4⟩
      · cases hk
    · -- a power-loss image
      obtain ⟨d, hd, hm⟩ := List.exists_of_findSome?_eq_some h
      cases hc : checkImage P rerun acked (imageOf r.1 d) with
      | none => rw [hc] at hm; cases hm
      | some kd =>
        rw [hc] at hm
        cases hm
        refine ⟨rfl, rfl, ⟨rfl, imageOf_mem r.1 d hd⟩, ?_⟩
        rcases checkImage_sound P rerun acked _ kd hc with ⟨rfl, h1⟩ | ⟨rfl, h1, h2⟩ | ⟨rfl, h1⟩
        · exact h1
        · exact ⟨((acked_iff r).1 h1).1, ((acked_iff r).1 h1).2, h2⟩
        · exact h1

theorem searchPass_sound (P : Params) (rerun : Bool) (ce : CE) (h : searchPass P rerun = some ce) :
    ce.Reachable P ∧ ce.Violates P := by
  unfold searchPass at h
  obtain ⟨ft, _, h⟩ := List.exists_of_findSome?_eq_some h
  obtain ⟨k, _, h⟩ := List.exists_of_findSome?_eq_some h
  exact (checkState_sound P rerun ft k ce h).2.2

theorem search_sound (P : Params) (ce : CE) (h : search P = some ce) : ce.Reachable P ∧ ce.Violates P := by
  unfold search at h
  split at h
  · rename_i ce' h1; cases h; exact searchPass_sound P false _ h1
  · exact searchPass_sound P true ce h

/-- a reachable power-loss image is a `Crash` outcome -/
theorem CE.Reachable.crash {P : Params} {ce : CE} (h : ce.Reachable P) :
    ce.st = kill (ce.run P).1.fs ∨ Crash (ce.run P).1.fs ce.st := by
  unfold CE.Reachable at h
  split at h
  · exact Or.inl h
  · exact Or.inr (crashImages_sound _ _ h.2)

end Lungo.AtomicSearch
