/-
  Lungo.Proofs.ConcUnshared — the configuration "no session is used by two actors" (actor `a`
  only ever names session `a`): invariant and consequences for lock ordering.
-/
import Lungo.Proofs.ConcAll
namespace Lungo.Conc

def Uinv (s : State) : Prop :=
  ∀ a, (∀ sid, (s.loc a).ctxSess = some sid → sid = a) ∧ (s.loc a).sid = a

theorem uinv_init (n : Nat) : Uinv (init n) := by
  intro b
  simp only [init]
  by_cases hb : b = 0 <;> simp [hb]

macro "uinv_tac" h:ident fn:ident : tactic => `(tactic| (
  unfold $fn at $h:ident
  conc_split $h
  all_goals (
    simp only [State.put, State.putS, State.finish, State.write, upd_apply, Local.back, Local.invoke,
      if_true, ite_true]
    grind)))

set_option maxHeartbeats 1000000 in
theorem uinv_step {s s' : State} {a : ActorId} {c : Choice} (g : Uinv s) (hu : c.unshared a)
    (hs : step s a c = some s') : Uinv s' := by
  intro b
  by_cases hb : b = a
  · subst hb
    have gb := g b
    clear g
    rcases step_cases hs with ⟨hp, h'⟩ | h' | h' | h' | ⟨hp, h'⟩ | h' | h' | h' | h'
    · unfold stepIdle at h'
      conc_split h'
      all_goals (
        simp only [Choice.unshared, Call.sessions, List.mem_singleton, forall_eq] at hu
        simp only [State.put, State.putS, State.finish, State.write, upd_apply, Local.back, Local.invoke,
          if_true, ite_true]
        grind)
    · uinv_tac h' stepBegin
    · uinv_tac h' stepCommit
    · uinv_tac h' stepAbort
    · uinv_tac h' stepAfter
    · uinv_tac h' stepUse
    · uinv_tac h' stepSess
    · uinv_tac h' stepClose
    · uinv_tac h' stepExp
  · rw [step_loc_other hs hb]; exact g b

theorem uinv_reachable {n : Nat} {s : State} (h : ReachableU n s) : Uinv s := by
  induction h with
  | init => exact uinv_init n
  | step _ hu hs ih => exact uinv_step ih hu hs

end Lungo.Conc

namespace Lungo.Conc

/-- with unshared sessions, a session mutex can only be held by the session's own actor -/
theorem smutex_owner {n : Nat} {s : State} (h : ReachableU n s) {sid : SessId} {b : ActorId}
    (hm : (s.sess sid).mutex = some b) : b = sid := by
  have i := (inv_reachable h.reachable).1
  have u := uinv_reachable h b
  have := (i.smutex_iff b sid).1 hm
  simp only [SHold] at this
  grind

/-- `mutex_holder_enabled` (unshared sessions): the holder of `e.mutex` always has an enabled step -/
theorem holder_progress {n : Nat} {s : State} {a : ActorId} (h : ReachableU n s)
    (hm : s.eng.mutex = some a) : ∃ c, (c = .go ∨ c = .storeOk) ∧ (step s a c).isSome = true := by
  obtain ⟨i, j⟩ := inv_reachable h.reachable
  have he := (i.mutex_iff a).1 hm
  have hle : ¬ a > s.n := by
    intro hgt
    have := j.rng a hgt
    simp [EHold, this] at he
  have lw := j.lwf a
  simp only [LWf] at lw
  have u := uinv_reachable h a
  have key : ∀ c, (c = .go ∨ c = .storeOk) → (step s a c).isSome = true →
      ∃ c, (c = .go ∨ c = .storeOk) ∧ (step s a c).isSome = true := by
    intro c hc hs
    exact ⟨c, hc, hs⟩
  simp only [EHold] at he
  rcases he with hp | hp | hp | hp | hp | hp | hp | hp | hp
  · apply key .go (Or.inl rfl)
    simp only [step, hle, if_false, hp, stepBegin]
    split <;> (try split) <;> (try split) <;> simp
  · -- bSessLock: wants s.mutex of ctxSess = own session, which nobody else can hold
    apply key .go (Or.inl rfl)
    have hc := lw.2.1 (Or.inl hp)
    obtain ⟨sid, hsid⟩ := Option.isSome_iff_exists.mp hc
    have hsa : sid = a := u.1 sid hsid
    have hfree : (s.sess sid).mutex = none := by
      cases hmx : (s.sess sid).mutex with
      | none => rfl
      | some b =>
        have hb : b = sid := smutex_owner h hmx
        have := (i.smutex_iff b sid).1 hmx
        simp only [SHold] at this
        subst hb; subst hsa
        simp [hp] at this
    simp [step, hle, hp, stepBegin, hsid, hfree]
  · apply key .go (Or.inl rfl)
    have hc := lw.2.1 (Or.inr (Or.inl hp))
    obtain ⟨sid, hsid⟩ := Option.isSome_iff_exists.mp hc
    simp only [step, hle, if_false, hp, stepBegin, hsid]
    split <;> simp
  · apply key .go (Or.inl rfl)
    simp only [step, hle, if_false, hp, stepBegin]
    split <;> (try split) <;> (try split) <;> simp
  · apply key .go (Or.inl rfl)
    simp only [step, hle, if_false, hp, stepCommit]
    split <;> (try split) <;> (try split) <;> (try split) <;> simp
  · apply key .storeOk (Or.inr rfl)
    have hc := lw.2.2.1 (Or.inl hp)
    obtain ⟨t, ht⟩ := Option.isSome_iff_exists.mp hc
    simp [step, hle, hp, stepCommit, ht]
  · apply key .go (Or.inl rfl)
    simp only [step, hle, if_false, hp, stepAbort]
    split <;> (try split) <;> simp
  · apply key .go (Or.inl rfl)
    simp only [step, hle, if_false, hp, stepClose]
    split <;> simp
  · apply key .go (Or.inl rfl)
    simp only [step, hle, if_false, hp, stepClose]
    split <;> (try split) <;> simp

theorem mutex_holder_enabled_aux {n : Nat} {s : State} {a : ActorId} (h : ReachableU n s)
    (hm : s.eng.mutex = some a) : ∃ c s', step s a c = some s' := by
  obtain ⟨c, _, hc⟩ := holder_progress h hm
  exact ⟨c, Option.isSome_iff_exists.mp hc⟩

/-- with unshared sessions, an actor's own session mutex is free unless it holds it itself -/
theorem own_smutex_free {n : Nat} {s : State} {a : ActorId} (h : ReachableU n s)
    (hn : ¬ SHold (s.loc a) a) : (s.sess a).mutex = none := by
  cases hmx : (s.sess a).mutex with
  | none => rfl
  | some b =>
    have hb : b = a := smutex_owner h hmx
    subst hb
    exact absurd (((inv_reachable h.reachable).1.smutex_iff b b).1 hmx) hn

end Lungo.Conc
