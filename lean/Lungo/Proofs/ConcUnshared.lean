/-
  Lungo.Proofs.ConcUnshared — the configuration "no session is used by two actors" (actor `a`
  only ever names session `a`): invariant and consequences for lock ordering.
-/
import Lungo.Proofs.ConcAll
namespace Lungo.Conc

def Uinv (s : State) : Prop :=
  ∀ a, (∀ sid, (s.loc a).ctxSess = some sid → sid = a) ∧ (s.loc a).sid = a

theorem uinv_init (n : Nat) : Uinv (init n) := by
  intro b
  simp only [init]
  by_cases hb : b = 0 <;> simp [hb]

macro "uinv_tac" h:ident fn:ident : tactic => `(tactic| (
  unfold $fn at $h:ident
  conc_split $h
  all_goals (
    simp only [State.put, State.putS, State.finish, State.write, upd_apply, Local.back, Local.invoke,
      if_true, ite_true]
    grind)))

set_option maxHeartbeats 1000000 in
theorem uinv_step {s s' : State} {a : ActorId} {c : Choice} (g : Uinv s) (hu : c.unshared a)
    (hs : step s a c = some s') : Uinv s' := by
  intro b
  by_cases hb : b = a
  · subst hb
    have gb := g b
    clear g
    rcases step_cases hs with ⟨hp, h'⟩ | h' | h' | h' | ⟨hp, h'⟩ | h' | h' | h' | h'
    · unfold stepIdle at h'
      conc_split h'
      all_goals (
        simp only [Choice.unshared, Call.sessions, List.mem_singleton, forall_eq] at hu
        simp only [State.put, State.putS, State.finish, State.write, upd_apply, Local.back, Local.invoke,
          if_true, ite_true]
        grind)
    · uinv_tac h' stepBegin
    · uinv_tac h' stepCommit
    · uinv_tac h' stepAbort
    · uinv_tac h' stepAfter
    · uinv_tac h' stepUse
    · uinv_tac h' stepSess
    · uinv_tac h' stepClose
    · uinv_tac h' stepExp
  · rw [step_loc_other hs hb]; exact g b

theorem uinv_reachable {n : Nat} {s : State} (h : ReachableU n s) : Uinv s := by
  induction h with
  | init => exact uinv_init n
  | step _ hu hs ih => exact uinv_step ih hu hs

end Lungo.Conc

namespace Lungo.Conc

/-- with unshared sessions, a session mutex can only be held by the session's own actor -/
theorem smutex_owner {n : Nat} {s : State} (h : ReachableU n s) {sid : SessId} {b : ActorId}
    (hm : (s.sess sid).mutex = some b) : b = sid := by
  have i := (inv_reachable h.reachable).1
  have u := uinv_reachable h b
  have := (i.smutex_iff b sid).1 hm
  simp only [SHold] at this
  grind

/-- with unshared sessions, an actor's own session mutex is free unless it holds it itself -/
theorem own_smutex_free {n : Nat} {s : State} {a : ActorId} (h : ReachableU n s)
    (hn : ¬ SHold (s.loc a) a) : (s.sess a).mutex = none := by
  cases hmx : (s.sess a).mutex with
  | none => rfl
  | some b =>
    have hb : b = a := smutex_owner h hmx
    subst hb
    exact absurd (((inv_reachable h.reachable).1.smutex_iff b b).1 hmx) hn

end Lungo.Conc
