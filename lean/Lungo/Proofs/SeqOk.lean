/-
  Lungo.Proofs.SeqOk — C01: the Spec keeps "every stored document is a Go value" (`OkDB`) under
  well-formed calls, so a history needs `OkDB` only for its first state (which is empty). The
  well-formedness predicate `WF` of a call with respect to the Spec's state lives here.
-/
import Lungo.Proofs.SeqExpire
namespace Lungo.SeqRef
open Lungo Lungo.Spec

variable {sch : SchemaEval}

/-- well-formedness of a call with respect to the Spec's state `db` -/
def WF (sch : SchemaEval) (db : SeqDB) (oids : List V) : Call → Prop
  | .insertOne _ doc => InsertOk [doc] oids
  | .insertMany _ docs _ => InsertOk docs oids
  | .find h q _ => h ≠ oplogHandle ∧ QueryOk sch db h q
  | .findOne h q _ => h ≠ oplogHandle ∧ QueryOk sch db h q
  | .count h q _ _ => h ≠ oplogHandle ∧ QueryOk sch db h q
  | .distinct h _ q => h ≠ oplogHandle ∧ QueryOk sch db h q
  | .estCount h => h ≠ oplogHandle
  | .listIndexes h => h ≠ oplogHandle
  | .deleteOne h q => QueryOk sch db h q
  | .deleteMany h q => QueryOk sch db h q
  | .findOneAndDelete h q _ _ => QueryOk sch db h q
  | .updateOne h q u upsert fs => UpdateOk (acOf sch) db h q u upsert fs oids
  | .updateMany h q u upsert fs => UpdateOk (acOf sch) db h q u upsert fs oids
  | .findOneAndUpdate h q u _ _ upsert _ fs => UpdateOk (acOf sch) db h q u upsert fs oids
  | .replaceOne h q repl upsert => ReplaceOk (acOf sch) db h q repl upsert oids
  | .findOneAndReplace h q repl _ _ upsert _ => ReplaceOk (acOf sch) db h q repl upsert oids
  | .bulkWrite h models ordered => BulkCallOk (acOf sch) db h ordered oids models
  | .expire nowMs => TtlOk sch nowMs db.colls
  | _ => True

/-! ### selection returns stored documents -/

theorem filterPlain_mem {q : Doc} : ∀ {l r : List Doc}, filterPlain sch q l = .ok r → ∀ d ∈ r, d ∈ l
  | [], r, h, d, hd => by
    simp only [filterPlain, Except.ok.injEq] at h
    subst h; cases hd
  | x :: l, r, h, d, hd => by
    rw [filterPlain] at h
    split at h
    · cases h
    · split at h
      · cases h
      · rename_i b _ rest hr
        simp only [Except.ok.injEq] at h
        subst h
        split at hd
        · rcases List.mem_cons.mp hd with rfl | hd
          · simp
          · exact List.mem_cons_of_mem _ (filterPlain_mem hr d hd)
        · exact List.mem_cons_of_mem _ (filterPlain_mem hr d hd)

theorem window_mem {α} (skip limit : Int) (l : List α) : ∀ x ∈ window skip limit l, x ∈ l := by
  intro x hx
  unfold window at hx
  split at hx
  · exact List.mem_of_mem_drop (List.mem_of_mem_take hx)
  · exact List.mem_of_mem_drop hx

theorem select_mem {docs r : List Doc} {q : Doc} {sort : Option Doc} {skip limit : Int}
    (h : select sch docs q sort skip limit = .ok r) : ∀ d ∈ r, d ∈ docs := by
  unfold select at h
  split at h
  · cases h
  · split at h
    · cases h
    · rename_i cols _
      split at h
      · cases h
      · rename_i ms hms
        simp only [Except.ok.injEq] at h
        subst h
        intro d hd
        have h1 := window_mem _ _ _ d hd
        have h2 : d ∈ ms := by
          cases cols with
          | none => exact h1
          | some cs => exact (sortDocs_perm ms cs).mem_iff.mp h1
        exact filterPlain_mem hms d h2

/-! ### collection-level writes keep Go values -/

abbrev DocsOkS (docs : List Doc) : Prop := ∀ d ∈ docs, DocOk d

theorem SColl.insert_ok {c c' : SColl} {d d' : Doc} {oids r : List V} (hc : DocsOkS c.docs) (hd : DocOk d)
    (ho : ∀ o ∈ oids, o.i64Ok = true) (e : c.insert sch d oids = .ok (c', d', r)) :
    DocsOkS c'.docs ∧ ∀ o ∈ r, o.i64Ok = true := by
  unfold SColl.insert at e
  cases hg : genId d oids with
  | error e' => simp [hg] at e
  | ok p =>
    obtain ⟨x, r'⟩ := p
    obtain ⟨hx, hr⟩ := genId_ok hd ho hg
    simp only [hg] at e
    split at e
    · cases e
    · simp only [Except.ok.injEq, Prod.mk.injEq] at e
      obtain ⟨rfl, rfl, rfl⟩ := e
      refine ⟨?_, hr⟩
      intro y hy
      simp only [List.mem_append, List.mem_singleton] at hy
      rcases hy with hy | rfl
      · exact hc y hy
      · exact hx

theorem SColl.upsert_ok {ac : ACtx} {c c' : SColl} {q : Doc} {repl update : Option Doc} {fs : List Doc}
    {d' : Doc} {oids r : List V} (hc : DocsOkS c.docs) (hu : UpsertOk ac q repl update fs)
    (ho : ∀ o ∈ oids, o.i64Ok = true) (e : c.upsert ac q repl update fs oids = .ok (c', d', r)) :
    DocsOkS c'.docs := by
  unfold SColl.upsert at e
  cases hd : upsertDoc ac q repl update fs with
  | error e' => simp [hd] at e
  | ok doc =>
    simp only [hd] at e
    exact (SColl.insert_ok hc (hu doc hd) ho e).1

theorem applyEach_facts {ac : ACtx} {u : Doc} {fs : List Doc} : ∀ {targets : List Doc} {pairs : List (Doc × Doc)},
    applyEach ac u fs targets = .ok pairs →
    ∀ p ∈ pairs, p.1 ∈ targets ∧ ∃ ch, Apply { ac with upsert := false } p.1 u fs = .ok (p.2, ch)
  | [], pairs, h, p, hp => by
    simp only [applyEach, Except.ok.injEq] at h
    subst h; cases hp
  | d :: r, pairs, h, p, hp => by
    rw [applyEach] at h
    split at h
    · cases h
    · rename_i d' ch hap
      split at h
      · cases h
      · rename_i rest hr
        simp only [Except.ok.injEq] at h
        subst h
        rcases List.mem_cons.mp hp with rfl | hp
        · exact ⟨by simp, ch, hap⟩
        · obtain ⟨h1, h2⟩ := applyEach_facts hr p hp
          exact ⟨List.mem_cons_of_mem _ h1, h2⟩

theorem swapAll_mem {docs : List Doc} {pairs : List (Doc × Doc)} :
    ∀ d ∈ swapAll docs pairs, d ∈ docs ∨ ∃ p ∈ pairs, d = p.2 := by
  intro d hd
  unfold swapAll at hd
  obtain ⟨x, hx, rfl⟩ := List.mem_map.mp hd
  cases hf : pairs.find? (fun p => sameDoc x p.1) with
  | none => simp only [hf]; exact .inl hx
  | some p => simp only [hf]; exact .inr ⟨p, List.mem_of_find?_eq_some hf, rfl⟩

theorem SColl.update_ok {ac : ACtx} {c c' : SColl} {q u : Doc} {sort : Option Doc} {skip limit : Int}
    {fs : List Doc} {m md : List Doc} (hc : DocsOkS c.docs) (hap : ApplyOkOn ac c.docs u fs)
    (e : c.update ac q u sort skip limit fs = .ok (c', m, md)) : DocsOkS c'.docs := by
  unfold SColl.update at e
  split at e
  · cases e
  · rename_i targets hsel
    split at e
    · cases e
    · rename_i pairs hpairs
      split at e
      · cases e
      · split at e
        · cases e
        · simp only [Except.ok.injEq, Prod.mk.injEq] at e
          obtain ⟨rfl, _, _⟩ := e
          intro d hd
          rcases swapAll_mem d hd with h1 | ⟨p, hp, rfl⟩
          · exact hc d h1
          · obtain ⟨h1, ch, h2⟩ := applyEach_facts hpairs p hp
            exact hap p.1 (select_mem hsel p.1 h1) p.2 ch h2

theorem SColl.replace_ok {c c' : SColl} {q repl : Doc} {sort : Option Doc} {m md : List Doc}
    (hc : DocsOkS c.docs) (hr : DocOk repl) (e : c.replace sch q repl sort = .ok (c', m, md)) :
    DocsOkS c'.docs := by
  unfold SColl.replace at e
  split at e
  · cases e
  · simp only [Except.ok.injEq, Prod.mk.injEq] at e
    obtain ⟨rfl, _, _⟩ := e
    exact hc
  · rename_i old rest hsel
    split at e
    · cases e
    · rename_i nw hnw
      split at e
      · cases e
      · simp only [Except.ok.injEq, Prod.mk.injEq] at e
        obtain ⟨rfl, _, _⟩ := e
        have hold : old ∈ c.docs := select_mem hsel old (by simp)
        intro d hd
        unfold swapDoc at hd
        obtain ⟨x, hx, rfl⟩ := List.mem_map.mp hd
        split
        · exact replacementFor_ok (hc old hold) hr hnw
        · exact hc x hx

/-! ### database-level writes -/

theorem okDB_keepIf {db db' : SeqDB} (b : Bool) (h1 : OkDB db') (h2 : OkDB db) : OkDB (keepIf b db' db) := by
  unfold keepIf; split <;> assumption

theorem opUpdate_ok {ac : ACtx} {db db' : SeqDB} {h : Handle} {q u : Doc} {sort : Option Doc} {upsert : Bool}
    {skip limit : Int} {fs : List Doc} {oids oids' : List V} {r : TResult} (ok : OkDB db)
    (hw : UpdateOk ac db h q u upsert fs oids)
    (e : opUpdate ac db h q u sort upsert skip limit fs oids = .ok (db', r, oids')) : OkDB db' := by
  unfold opUpdate at e
  simp only at e
  split at e
  · cases e
  · rename_i c' matched modified hupd
    have hc' := SColl.update_ok (okDB_coll ok h) hw.apply hupd
    split at e
    · rename_i hcond
      have hup : upsert = true := by
        cases upsert with
        | true => rfl
        | false => simp at hcond
      split at e
      · cases e
      · rename_i c2 d o2 hu
        simp only [Except.ok.injEq, Prod.mk.injEq] at e
        obtain ⟨rfl, _, _⟩ := e
        exact okDB_log (okDB_put ok (SColl.upsert_ok (okDB_coll ok h) (hw.ups hup) hw.oids hu))
    · simp only [Except.ok.injEq, Prod.mk.injEq] at e
      obtain ⟨rfl, _, _⟩ := e
      split
      · exact okDB_put ok hc'
      · exact okDB_log (okDB_put ok hc')

theorem opReplace_ok {ac : ACtx} {db db' : SeqDB} {h : Handle} {q repl : Doc} {sort : Option Doc} {upsert : Bool}
    {oids oids' : List V} {r : TResult} (ok : OkDB db) (hw : ReplaceOk ac db h q repl upsert oids)
    (e : opReplace ac db h q repl sort upsert oids = .ok (db', r, oids')) : OkDB db' := by
  unfold opReplace at e
  simp only at e
  split at e
  · cases e
  · rename_i c' matched modified hrep
    have hc' := SColl.replace_ok (okDB_coll ok h) hw.replOk hrep
    split at e
    · rename_i hcond
      have hup : upsert = true := by
        cases upsert with
        | true => rfl
        | false => simp at hcond
      split at e
      · cases e
      · rename_i c2 d o2 hu
        simp only [Except.ok.injEq, Prod.mk.injEq] at e
        obtain ⟨rfl, _, _⟩ := e
        exact okDB_log (okDB_put ok (SColl.upsert_ok (okDB_coll ok h) (hw.ups hup) hw.oids hu))
    · simp only [Except.ok.injEq, Prod.mk.injEq] at e
      obtain ⟨rfl, _, _⟩ := e
      split
      · exact okDB_put ok hc'
      · exact okDB_log (okDB_put ok hc')

theorem insertAll_ok {h : Handle} {ordered : Bool} : ∀ (docs : List Doc) (db : SeqDB) (oids : List V)
    (acc : List Doc) (err : Option Err), OkDB db → (∀ d ∈ docs, DocOk d) → (∀ o ∈ oids, o.i64Ok = true) →
    OkDB (insertAll sch h ordered db oids acc err docs).1
  | [], db, oids, acc, err, ok, _, _ => by simpa [insertAll] using ok
  | d :: r, db, oids, acc, err, ok, hd, ho => by
    rw [insertAll]
    split
    · dsimp only
      split
      · exact ok
      · exact insertAll_ok r db oids acc _ ok (fun x hx => hd x (List.mem_cons_of_mem _ hx)) ho
    · rename_i db1 d1 o1 hi
      obtain ⟨ok1, _, ho1⟩ := opInsert_ok ok (hd d (by simp)) ho hi
      exact insertAll_ok r db1 o1 _ err ok1 (fun x hx => hd x (List.mem_cons_of_mem _ hx)) ho1

theorem bulkOne_ok {ac : ACtx} {db db' : SeqDB} {h : Handle} {oids oids' : List V} {m : BulkModel} {r : TResult}
    (ok : OkDB db) (hw : BulkOneOk ac db h oids m) (e : bulkOne ac db h oids m = .ok (db', r, oids')) :
    OkDB db' := by
  cases m with
  | insertOne d =>
    simp only [bulkOne] at e
    split at e
    · cases e
    · rename_i db1 d1 o1 hi
      simp only [Except.ok.injEq, Prod.mk.injEq] at e
      obtain ⟨rfl, _, _⟩ := e
      exact (opInsert_ok ok hw.1 hw.2 hi).1
  | replaceOne q r up => exact opReplace_ok ok hw e
  | updateOne q u up fs => exact opUpdate_ok ok hw e
  | updateMany q u up fs => exact opUpdate_ok ok hw e
  | deleteOne q =>
    simp only [bulkOne] at e
    split at e
    · cases e
    · rename_i db1 r1 hd
      simp only [Except.ok.injEq, Prod.mk.injEq] at e
      obtain ⟨rfl, _, _⟩ := e
      exact okDB_opDelete ok hd
  | deleteMany q =>
    simp only [bulkOne] at e
    split at e
    · cases e
    · rename_i db1 r1 hd
      simp only [Except.ok.injEq, Prod.mk.injEq] at e
      obtain ⟨rfl, _, _⟩ := e
      exact okDB_opDelete ok hd

theorem bulkAll_ok {ac : ACtx} {h : Handle} {ordered : Bool} : ∀ (ms : List BulkModel) (db : SeqDB) (oids : List V)
    (acc : List TResult) (ch : Nat), OkDB db → BulkOk ac h ordered db oids ms →
    OkDB (bulkAll ac h ordered db oids acc ch ms).1
  | [], db, oids, acc, ch, ok, _ => by simpa [bulkAll] using ok
  | m :: r, db, oids, acc, ch, ok, hb => by
    obtain ⟨_, hw, hrest⟩ := hb
    rw [bulkAll]
    cases hone : bulkOne ac db h oids m with
    | error e =>
      rw [hone] at hrest
      simp only at hrest ⊢
      cases ordered with
      | true => simpa using ok
      | false =>
        simp only [Bool.false_eq_true, ↓reduceIte]
        exact bulkAll_ok r db oids _ ch ok (hrest rfl)
    | ok res =>
      obtain ⟨db1, tr, o1⟩ := res
      rw [hone] at hrest
      simp only at hrest ⊢
      exact bulkAll_ok r db1 o1 _ _ (bulkOne_ok ok hw hone) hrest

theorem expireAll_ok {nowMs : Int} : ∀ (l l' : List (Handle × SColl)) (n : Nat),
    (∀ h c, (h, c) ∈ l → DocsOkS c.docs) → expireAll sch nowMs l = .ok (l', n) →
    ∀ h c, (h, c) ∈ l' → DocsOkS c.docs
  | [], l', n, _, e => by
    simp only [expireAll, Except.ok.injEq, Prod.mk.injEq] at e
    obtain ⟨rfl, _⟩ := e
    intro h c hm; cases hm
  | (h0, c0) :: r, l', n, hl, e => by
    have hl' : ∀ h c, (h, c) ∈ r → DocsOkS c.docs := fun h c hm => hl h c (List.mem_cons_of_mem _ hm)
    rw [expireAll_cons] at e
    split at e
    · split at e
      · cases e
      · rename_i r' n' hr
        simp only [Except.ok.injEq, Prod.mk.injEq] at e
        obtain ⟨rfl, _⟩ := e
        intro h c hm
        rcases List.mem_cons.mp hm with e1 | hm
        · simp only [Prod.mk.injEq] at e1
          obtain ⟨rfl, rfl⟩ := e1
          exact hl h c (by simp)
        · exact expireAll_ok r r' n' hl' hr h c hm
    · split at e
      · cases e
      · rename_i c' gone hdel
        split at e
        · cases e
        · rename_i r' n' hr
          simp only [Except.ok.injEq, Prod.mk.injEq] at e
          obtain ⟨rfl, _⟩ := e
          intro h c hm
          rcases List.mem_cons.mp hm with e1 | hm
          · simp only [Prod.mk.injEq] at e1
            obtain ⟨rfl, rfl⟩ := e1
            unfold SColl.delete at hdel
            split at hdel
            · cases hdel
            · simp only [Except.ok.injEq, Prod.mk.injEq] at hdel
              obtain ⟨rfl, _⟩ := hdel
              intro d hd
              exact hl h c0 (by simp) d (List.mem_filter.mp hd).1
          · exact expireAll_ok r r' n' hl' hr h c hm

/-! ### one call -/

theorem okDB_filter {db : SeqDB} (ok : OkDB db) (p : Handle × SColl → Bool) (lg : Bool) :
    OkDB { colls := db.colls.filter p, logged := lg } :=
  fun h c hm => ok h c (List.mem_filter.mp hm).1

theorem okDB_get? {db : SeqDB} (ok : OkDB db) {h : Handle} {c : SColl} (hg : db.get? h = some c) :
    DocsOkS c.docs := by
  have := okDB_coll ok h
  unfold SeqDB.coll at this
  rw [hg] at this
  exact this

theorem updateCall_ok {ac : ACtx} {db db' : SeqDB} {h : Handle} {q u : Doc} {sort : Option Doc} {upsert : Bool}
    {limit : Int} {fs : List Doc} {oids : List V} {r : TResult} (ok : OkDB db)
    (hw : UpdateOk ac db h q u upsert fs oids)
    (e : updateCall ac db h q u sort upsert limit fs oids = .ok (db', r)) : OkDB db' := by
  unfold updateCall at e
  split at e
  · cases e
  · split at e
    · simp only [Except.ok.injEq, Prod.mk.injEq] at e
      obtain ⟨rfl, _⟩ := e
      exact ok
    · split at e
      · cases e
      · rename_i db1 r1 o1 hop
        simp only [Except.ok.injEq, Prod.mk.injEq] at e
        obtain ⟨rfl, _⟩ := e
        exact okDB_keepIf _ (opUpdate_ok ok hw hop) ok

theorem replaceCall_ok {ac : ACtx} {db db' : SeqDB} {h : Handle} {q repl : Doc} {sort : Option Doc} {upsert : Bool}
    {oids : List V} {r : TResult} (ok : OkDB db) (hw : ReplaceOk ac db h q repl upsert oids)
    (e : replaceCall ac db h q repl sort upsert oids = .ok (db', r)) : OkDB db' := by
  unfold replaceCall at e
  split at e
  · cases e
  · split at e
    · cases e
    · split at e
      · simp only [Except.ok.injEq, Prod.mk.injEq] at e
        obtain ⟨rfl, _⟩ := e
        exact ok
      · split at e
        · cases e
        · rename_i db1 r1 o1 hop
          simp only [Except.ok.injEq, Prod.mk.injEq] at e
          obtain ⟨rfl, _⟩ := e
          exact okDB_keepIf _ (opReplace_ok ok hw hop) ok

theorem deleteCall_ok {db db' : SeqDB} {h : Handle} {q : Doc} {sort : Option Doc} {limit : Int} {r : TResult}
    (ok : OkDB db) (e : deleteCall sch db h q sort limit = .ok (db', r)) : OkDB db' := by
  unfold deleteCall at e
  split at e
  · cases e
  · split at e
    · simp only [Except.ok.injEq, Prod.mk.injEq] at e
      obtain ⟨rfl, _⟩ := e
      exact ok
    · split at e
      · cases e
      · rename_i db1 r1 hop
        simp only [Except.ok.injEq, Prod.mk.injEq] at e
        obtain ⟨rfl, _⟩ := e
        exact okDB_keepIf _ (okDB_opDelete ok hop) ok

theorem insertCall_ok {db db' : SeqDB} {h : Handle} {docs : List Doc} {ordered : Bool} {oids : List V}
    {ins : List Doc} {err : Option Err} (ok : OkDB db) (hw : InsertOk docs oids)
    (e : insertCall sch db h docs ordered oids = .ok (db', ins, err)) : OkDB db' := by
  unfold insertCall at e
  split at e
  · cases e
  · simp only [Except.ok.injEq, Prod.mk.injEq] at e
    obtain ⟨rfl, _, _⟩ := e
    exact okDB_keepIf _ (insertAll_ok docs _ oids [] none (okDB_base ok h) hw.1 hw.2) ok

theorem SColl.dropIndex_docs {c c' : SColl} {name : String} (e : c.dropIndex name = .ok c') :
    c'.docs = c.docs := by
  unfold SColl.dropIndex at e
  repeat' split at e
  all_goals first
    | (simp only [Except.ok.injEq] at e; subst e; rfl)
    | cases e

theorem dropIn_ok {db db' : SeqDB} {h : Handle} {c : SColl} {name : String} (ok : OkDB db)
    (hg : db.get? h = some c) (e : dropIn db h c name = .ok db') : OkDB db' := by
  have hc := okDB_get? ok hg
  unfold dropIn at e
  split at e
  · simp only [Except.ok.injEq] at e
    subst e
    unfold dropAllIn
    split
    · exact ok
    · exact okDB_put ok hc
  · split at e
    · cases e
    · rename_i c' hd
      simp only [Except.ok.injEq] at e
      subst e
      exact okDB_put ok (by rw [SColl.dropIndex_docs hd]; exact hc)

theorem dropIndexCall_ok {db db' : SeqDB} {h : Handle} {name : String} (ok : OkDB db)
    (e : dropIndexCall db h name = .ok db') : OkDB db' := by
  unfold dropIndexCall at e
  split at e
  · cases e
  · split at e
    · cases e
    · rename_i c hg
      exact dropIn_ok ok hg e

theorem createIndex_docs {c c' : SColl} {name nm : String} {cfg : IndexConfig}
    (e : c.createIndex sch name cfg = .ok (c', nm)) : c'.docs = c.docs := by
  unfold SColl.createIndex at e
  repeat' split at e
  all_goals first
    | (simp only [Except.ok.injEq, Prod.mk.injEq] at e; obtain ⟨rfl, _⟩ := e; rfl)
    | cases e

/-- **the Spec keeps Go values**: a well-formed call on a database of Go values leaves one -/
theorem okDB_step {db db' : SeqDB} {c : Call} {oids : List V} {r : Reply} (ok : OkDB db)
    (hw : WF sch db oids c) (e : Spec.step sch db c oids = .ok (db', r)) : OkDB db' := by
  unfold Spec.step at e
  cases c with
  | insertOne h doc =>
    simp only at e
    split at e
    · cases e
    · rename_i db1 ins err hi
      have := insertCall_ok ok hw hi
      split at e
      · cases e
      · simp only [Except.ok.injEq, Prod.mk.injEq] at e; rw [← e.1]; exact this
      · cases e
  | insertMany h docs ordered =>
    simp only at e
    split at e
    · cases e
    · rename_i db1 ins err hi
      simp only [Except.ok.injEq, Prod.mk.injEq] at e; rw [← e.1]; exact insertCall_ok ok hw hi
  | find h q o =>
    simp only at e
    split at e
    · cases e
    · split at e
      · cases e
      · simp only [Except.ok.injEq, Prod.mk.injEq] at e; rw [← e.1]; exact ok
  | findOne h q o =>
    simp only at e
    split at e
    · cases e
    · simp only [Except.ok.injEq, Prod.mk.injEq] at e; rw [← e.1]; exact ok
    · split at e
      · cases e
      · simp only [Except.ok.injEq, Prod.mk.injEq] at e; rw [← e.1]; exact ok
  | count h q skip limit =>
    simp only at e
    split at e
    · cases e
    · simp only [Except.ok.injEq, Prod.mk.injEq] at e; rw [← e.1]; exact ok
  | estCount h =>
    simp only at e
    split at e
    · cases e
    · simp only [Except.ok.injEq, Prod.mk.injEq] at e; rw [← e.1]; exact ok
  | distinct h field q =>
    simp only at e
    split at e
    · cases e
    · simp only [Except.ok.injEq, Prod.mk.injEq] at e; rw [← e.1]; exact ok
  | updateOne h q u upsert fs =>
    simp only at e
    split at e
    · cases e
    · rename_i db1 r1 hc
      simp only [Except.ok.injEq, Prod.mk.injEq] at e; rw [← e.1]; exact updateCall_ok ok hw hc
  | updateMany h q u upsert fs =>
    simp only at e
    split at e
    · cases e
    · rename_i db1 r1 hc
      simp only [Except.ok.injEq, Prod.mk.injEq] at e; rw [← e.1]; exact updateCall_ok ok hw hc
  | replaceOne h q repl upsert =>
    simp only at e
    split at e
    · cases e
    · rename_i db1 r1 hc
      simp only [Except.ok.injEq, Prod.mk.injEq] at e; rw [← e.1]; exact replaceCall_ok ok hw hc
  | deleteOne h q =>
    simp only at e
    split at e
    · cases e
    · rename_i db1 r1 hc
      simp only [Except.ok.injEq, Prod.mk.injEq] at e; rw [← e.1]; exact deleteCall_ok ok hc
  | deleteMany h q =>
    simp only at e
    split at e
    · cases e
    · rename_i db1 r1 hc
      simp only [Except.ok.injEq, Prod.mk.injEq] at e; rw [← e.1]; exact deleteCall_ok ok hc
  | findOneAndDelete h q sort proj =>
    simp only at e
    split at e
    · cases e
    · rename_i db1 r1 hc
      split at e
      · cases e
      · simp only [Except.ok.injEq, Prod.mk.injEq] at e; rw [← e.1]; exact deleteCall_ok ok hc
  | findOneAndReplace h q repl sort proj upsert after =>
    simp only at e
    split at e
    · cases e
    · rename_i db1 r1 hc
      split at e
      · cases e
      · simp only [Except.ok.injEq, Prod.mk.injEq] at e; rw [← e.1]; exact replaceCall_ok ok hw hc
  | findOneAndUpdate h q u sort proj upsert after fs =>
    simp only at e
    split at e
    · cases e
    · rename_i db1 r1 hc
      split at e
      · cases e
      · simp only [Except.ok.injEq, Prod.mk.injEq] at e; rw [← e.1]; exact updateCall_ok ok hw hc
  | bulkWrite h models ordered =>
    simp only at e
    split at e
    · cases e
    · split at e
      · cases e
      · simp only [Except.ok.injEq, Prod.mk.injEq] at e
        rw [← e.1]
        exact okDB_keepIf _ (bulkAll_ok models _ oids [] 0 (okDB_base ok h) hw) ok
  | createIndex h name config =>
    simp only at e
    split at e
    · cases e
    · split at e
      · cases e
      · rename_i c' nm hci
        simp only [Except.ok.injEq, Prod.mk.injEq] at e
        rw [← e.1]
        exact okDB_put ok (by rw [createIndex_docs hci]; exact okDB_coll ok h)
  | dropIndex h name =>
    simp only at e
    split at e
    · cases e
    · rename_i db1 hd
      simp only [Except.ok.injEq, Prod.mk.injEq] at e; rw [← e.1]; exact dropIndexCall_ok ok hd
  | dropAllIndexes h =>
    simp only at e
    split at e
    · cases e
    · rename_i db1 hd
      simp only [Except.ok.injEq, Prod.mk.injEq] at e; rw [← e.1]; exact dropIndexCall_ok ok hd
  | dropIndexByKey h key =>
    simp only at e
    split at e
    · cases e
    · split at e
      · cases e
      · split at e
        · cases e
        · split at e
          · cases e
          · rename_i db1 hd
            simp only [Except.ok.injEq, Prod.mk.injEq] at e; rw [← e.1]; exact dropIndexCall_ok ok hd
  | listIndexes h =>
    simp only at e
    split at e
    · cases e
    · split at e
      · simp only [Except.ok.injEq, Prod.mk.injEq] at e; rw [← e.1]; exact ok
      · simp only [Except.ok.injEq, Prod.mk.injEq] at e; rw [← e.1]; exact ok
  | createCollection h =>
    simp only at e
    split at e
    · cases e
    · simp only [Except.ok.injEq, Prod.mk.injEq] at e
      rw [← e.1]
      exact okDB_base ok h
  | dropCollection h =>
    simp only at e
    split at e
    · cases e
    · split at e
      · simp only [Except.ok.injEq, Prod.mk.injEq] at e; rw [← e.1]; exact ok
      · simp only [Except.ok.injEq, Prod.mk.injEq] at e; rw [← e.1]; exact okDB_filter ok _ _
  | dropDatabase name =>
    simp only at e
    split at e
    · cases e
    · split at e
      · simp only [Except.ok.injEq, Prod.mk.injEq] at e; rw [← e.1]; exact ok
      · simp only [Except.ok.injEq, Prod.mk.injEq] at e; rw [← e.1]; exact okDB_filter ok _ _
  | listCollections name q =>
    simp only at e
    split at e
    · cases e
    · split at e
      · cases e
      · simp only [Except.ok.injEq, Prod.mk.injEq] at e; rw [← e.1]; exact ok
  | listDatabases q =>
    simp only at e
    split at e
    · cases e
    · simp only [Except.ok.injEq, Prod.mk.injEq] at e; rw [← e.1]; exact ok
  | expire nowMs =>
    simp only at e
    split at e
    · cases e
    · rename_i colls' n hex
      simp only [Except.ok.injEq, Prod.mk.injEq] at e
      rw [← e.1]
      split
      · exact fun h c hm => expireAll_ok db.colls colls' n ok hex h c hm
      · exact ok

end Lungo.SeqRef
